import PrimitivModel.Lemmas.GraphTangentOps
import PrimitivModel.Props.C01.Chain
/-!
C01, T5 continued: operator semantics `OpSem (Vec ℝ)` that satisfy the two per-operator hypotheses of
`backward_is_gradient` (Props/C01/Chain.lean), the curve law `CurveLawAt` and the adjoint law
`AdjointLawAt`.

* `unary_laws`: every scalar pair with `IsBackwardOf` (Props/C01/Arith.lean) gives an elementwise
  unary operator with both laws; one instance per generated kernel pair, Naive and Eigen:
  `sigmoid_laws`, `softplus_laws`, `exp_laws`, `log_laws`, `sqrt_laws`, `sin_laws`, `cos_laws`,
  `tan_laws`, `abs_laws`, `add_const_laws`, `subtract_const_r_laws`, `subtract_const_l_laws`,
  `multiply_const_laws`, `divide_const_r_laws`, `divide_const_l_laws`, `pow_const_r_laws`,
  `pow_const_l_laws`, `prelu_laws`, `elu_laws`, `pown_laws` (`tanh_laws` is in Chain.lean), each on
  the smooth domain of its function;
* `binary_curveLaw`, `binary_adjointLaw`: elementwise binary operators on operands of the same
  size; instances `add_laws`, `subtract_laws`, `multiply_laws`, `divide_laws` (b ≠ 0), `pow_laws`
  (a > 0) for the generated forward formulas and the backward formulas of the kernels
  (Model/KernelsArith.lean `addBw` … `powBw`, at equal strides);
* `lin_curveLaw`, `lin_adjointLaw`: every linear operator given by a finite matrix, with any number
  of arguments and return values (copy, reshape, flatten, negate, slice, split, concat, pick with
  fixed ids, broadcast, sum, mean, flip, permute_dims, transpose, batch::sum, batch::concat …: each
  is `linOp ns ms A` for a 0/1 (or scaled) matrix `A`; examples `sumMat`, `sliceMat`, `bcastMat`);
* `bilin_curveLaw`, `bilin_adjointLaw`: every bilinear operator (matmul `matmulCoef`, conv2d,
  products with broadcasting);
* `const_laws`: operators without arguments that return fixed values (Input, Constant, zeros, ones);
* a composite `example`: `backward_is_gradient_of_forward` on `tanh((x₀ + x₁) · (x₀ + x₁))`.
-/
namespace Primitiv.Graph
open Finset Primitiv.Gen.Elementwise Primitiv.Analysis

/-! ### elementwise unary operators -/

/-- both laws of the elementwise unary operator of the scalar pair `fw`, `bw` on `n` elements at `x0` -/
def UnaryLaws (fw : ℝ → ℝ) (bw : ℝ → ℝ → ℝ → ℝ) (n : Nat) (x0 : Vec ℝ) : Prop :=
  CurveLawAt (elemUnary fw bw) [n] [n] (elemUnaryJvp fw) [x0] ∧
  AdjointLawAt (elemUnary fw bw) [n] [n] (elemUnaryJvp fw) [x0] [fun i => fw (x0 i)]

/-- **Every scalar pair with `IsBackwardOf` gives an operator with both laws**: if at each of the `n`
argument entries `bw` is a backward formula of `fw` (`fw` differentiable there and
`bw x (fw x) gy = gy · fw′(x)`), then `elemUnary fw bw` obeys the curve law and the adjoint law there. -/
theorem unary_laws (fw : ℝ → ℝ) (bw : ℝ → ℝ → ℝ → ℝ) (n : Nat) (x0 : Vec ℝ)
    (h : ∀ i, i < n → C01.Arith.IsBackwardOf fw bw (x0 i)) : UnaryLaws fw bw n x0 := by
  refine ⟨unary_curveLaw fw bw n x0 fun i hi => ?_, unary_adjointLaw fw bw n x0 h⟩
  obtain ⟨d, hd, _⟩ := h i hi
  exact hd.differentiableAt

open C01.Arith C01.Arith.Elementwise in
/-- sigmoid kernels (Naive and Eigen), everywhere -/
theorem sigmoid_laws (n : Nat) (x0 : Vec ℝ) :
    UnaryLaws (naive_sigmoid_fw realFns) (naive_sigmoid_bw realFns) n x0 ∧
    UnaryLaws (eigen_sigmoid_fw realFns) (eigen_sigmoid_bw realFns) n x0 :=
  ⟨unary_laws _ _ n x0 fun i _ => (sigmoid_bw_is_derivative (x0 i)).1,
   unary_laws _ _ n x0 fun i _ => (sigmoid_bw_is_derivative (x0 i)).2⟩

open C01.Arith C01.Arith.Elementwise in
/-- softplus kernels, everywhere -/
theorem softplus_laws (n : Nat) (x0 : Vec ℝ) :
    UnaryLaws (naive_softplus_fw realFns) (naive_softplus_bw realFns) n x0 ∧
    UnaryLaws (eigen_softplus_fw realFns) (eigen_softplus_bw realFns) n x0 :=
  ⟨unary_laws _ _ n x0 fun i _ => (softplus_bw_is_derivative (x0 i)).1,
   unary_laws _ _ n x0 fun i _ => (softplus_bw_is_derivative (x0 i)).2⟩

open C01.Arith C01.Arith.Elementwise in
/-- exp kernels, everywhere -/
theorem exp_laws (n : Nat) (x0 : Vec ℝ) :
    UnaryLaws (naive_exp_fw realFns) (naive_exp_bw realFns) n x0 ∧
    UnaryLaws (eigen_exp_fw realFns) (eigen_exp_bw realFns) n x0 :=
  ⟨unary_laws _ _ n x0 fun i _ => (exp_bw_is_derivative (x0 i)).1,
   unary_laws _ _ n x0 fun i _ => (exp_bw_is_derivative (x0 i)).2⟩

open C01.Arith C01.Arith.Elementwise in
/-- log kernels, where every entry is non-zero -/
theorem log_laws (n : Nat) (x0 : Vec ℝ) (hx : ∀ i, i < n → x0 i ≠ 0) :
    UnaryLaws (naive_log_fw realFns) (naive_log_bw realFns) n x0 ∧
    UnaryLaws (eigen_log_fw realFns) (eigen_log_bw realFns) n x0 :=
  ⟨unary_laws _ _ n x0 fun i hi => (log_bw_is_derivative (hx i hi)).1,
   unary_laws _ _ n x0 fun i hi => (log_bw_is_derivative (hx i hi)).2⟩

open C01.Arith C01.Arith.Elementwise in
/-- sqrt kernels, where every entry is positive -/
theorem sqrt_laws (n : Nat) (x0 : Vec ℝ) (hx : ∀ i, i < n → 0 < x0 i) :
    UnaryLaws (naive_sqrt_fw realFns) (naive_sqrt_bw realFns) n x0 ∧
    UnaryLaws (eigen_sqrt_fw realFns) (eigen_sqrt_bw realFns) n x0 :=
  ⟨unary_laws _ _ n x0 fun i hi => (sqrt_bw_is_derivative (hx i hi)).1,
   unary_laws _ _ n x0 fun i hi => (sqrt_bw_is_derivative (hx i hi)).2⟩

open C01.Arith C01.Arith.Elementwise in
/-- sin kernels, everywhere -/
theorem sin_laws (n : Nat) (x0 : Vec ℝ) :
    UnaryLaws (naive_sin_fw realFns) (naive_sin_bw realFns) n x0 ∧
    UnaryLaws (eigen_sin_fw realFns) (eigen_sin_bw realFns) n x0 :=
  ⟨unary_laws _ _ n x0 fun i _ => (sin_bw_is_derivative (x0 i)).1,
   unary_laws _ _ n x0 fun i _ => (sin_bw_is_derivative (x0 i)).2⟩

open C01.Arith C01.Arith.Elementwise in
/-- cos kernels, everywhere -/
theorem cos_laws (n : Nat) (x0 : Vec ℝ) :
    UnaryLaws (naive_cos_fw realFns) (naive_cos_bw realFns) n x0 ∧
    UnaryLaws (eigen_cos_fw realFns) (eigen_cos_bw realFns) n x0 :=
  ⟨unary_laws _ _ n x0 fun i _ => (cos_bw_is_derivative (x0 i)).1,
   unary_laws _ _ n x0 fun i _ => (cos_bw_is_derivative (x0 i)).2⟩

open C01.Arith C01.Arith.Elementwise in
/-- tan kernels, where `cos` does not vanish -/
theorem tan_laws (n : Nat) (x0 : Vec ℝ) (hx : ∀ i, i < n → Real.cos (x0 i) ≠ 0) :
    UnaryLaws (naive_tan_fw realFns) (naive_tan_bw realFns) n x0 ∧
    UnaryLaws (eigen_tan_fw realFns) (eigen_tan_bw realFns) n x0 :=
  ⟨unary_laws _ _ n x0 fun i hi => (tan_bw_is_derivative (hx i hi)).1,
   unary_laws _ _ n x0 fun i hi => (tan_bw_is_derivative (hx i hi)).2⟩

open C01.Arith C01.Arith.Elementwise in
/-- abs kernels, where every entry is non-zero -/
theorem abs_laws (n : Nat) (x0 : Vec ℝ) (hx : ∀ i, i < n → x0 i ≠ 0) :
    UnaryLaws (naive_abs_fw realFns) (naive_abs_bw realFns) n x0 ∧
    UnaryLaws (eigen_abs_fw realFns) (eigen_abs_bw realFns) n x0 :=
  ⟨unary_laws _ _ n x0 fun i hi => (abs_bw_is_derivative (hx i hi)).1,
   unary_laws _ _ n x0 fun i hi => (abs_bw_is_derivative (hx i hi)).2⟩

/-! #### operators with a constant `k` (`x + k`, `x − k`, `k − x`, `x · k`, `x / k`, `k / x`, `x ^ k`, `k ^ x`, prelu, elu) -/

open C01.Arith C01.Arith.Elementwise in
theorem add_const_laws (k : ℝ) (n : Nat) (x0 : Vec ℝ) :
    UnaryLaws (cf (naive_add_const_fw realFns) k) (cb (naive_add_const_bw realFns) k) n x0 ∧
    UnaryLaws (cf (eigen_add_const_fw realFns) k) (cb (eigen_add_const_bw realFns) k) n x0 :=
  ⟨unary_laws _ _ n x0 fun i _ => (add_const_bw_is_derivative k (x0 i)).1,
   unary_laws _ _ n x0 fun i _ => (add_const_bw_is_derivative k (x0 i)).2⟩

open C01.Arith C01.Arith.Elementwise in
theorem subtract_const_r_laws (k : ℝ) (n : Nat) (x0 : Vec ℝ) :
    UnaryLaws (cf (naive_subtract_const_r_fw realFns) k) (cb (naive_subtract_const_r_bw realFns) k) n x0 ∧
    UnaryLaws (cf (eigen_subtract_const_r_fw realFns) k) (cb (eigen_subtract_const_r_bw realFns) k) n x0 :=
  ⟨unary_laws _ _ n x0 fun i _ => (subtract_const_r_bw_is_derivative k (x0 i)).1,
   unary_laws _ _ n x0 fun i _ => (subtract_const_r_bw_is_derivative k (x0 i)).2⟩

open C01.Arith C01.Arith.Elementwise in
theorem subtract_const_l_laws (k : ℝ) (n : Nat) (x0 : Vec ℝ) :
    UnaryLaws (cf (naive_subtract_const_l_fw realFns) k) (cb (naive_subtract_const_l_bw realFns) k) n x0 ∧
    UnaryLaws (cf (eigen_subtract_const_l_fw realFns) k) (cb (eigen_subtract_const_l_bw realFns) k) n x0 :=
  ⟨unary_laws _ _ n x0 fun i _ => (subtract_const_l_bw_is_derivative k (x0 i)).1,
   unary_laws _ _ n x0 fun i _ => (subtract_const_l_bw_is_derivative k (x0 i)).2⟩

open C01.Arith C01.Arith.Elementwise in
theorem multiply_const_laws (k : ℝ) (n : Nat) (x0 : Vec ℝ) :
    UnaryLaws (cf (naive_multiply_const_fw realFns) k) (cb (naive_multiply_const_bw realFns) k) n x0 ∧
    UnaryLaws (cf (eigen_multiply_const_fw realFns) k) (cb (eigen_multiply_const_bw realFns) k) n x0 :=
  ⟨unary_laws _ _ n x0 fun i _ => (multiply_const_bw_is_derivative k (x0 i)).1,
   unary_laws _ _ n x0 fun i _ => (multiply_const_bw_is_derivative k (x0 i)).2⟩

open C01.Arith C01.Arith.Elementwise in
theorem divide_const_r_laws (k : ℝ) (n : Nat) (x0 : Vec ℝ) :
    UnaryLaws (cf (naive_divide_const_r_fw realFns) k) (cb (naive_divide_const_r_bw realFns) k) n x0 ∧
    UnaryLaws (cf (eigen_divide_const_r_fw realFns) k) (cb (eigen_divide_const_r_bw realFns) k) n x0 :=
  ⟨unary_laws _ _ n x0 fun i _ => (divide_const_r_bw_is_derivative k (x0 i)).1,
   unary_laws _ _ n x0 fun i _ => (divide_const_r_bw_is_derivative k (x0 i)).2⟩

open C01.Arith C01.Arith.Elementwise in
/-- `k / x`, where every entry is non-zero -/
theorem divide_const_l_laws (k : ℝ) (n : Nat) (x0 : Vec ℝ) (hx : ∀ i, i < n → x0 i ≠ 0) :
    UnaryLaws (cf (naive_divide_const_l_fw realFns) k) (cb (naive_divide_const_l_bw realFns) k) n x0 ∧
    UnaryLaws (cf (eigen_divide_const_l_fw realFns) k) (cb (eigen_divide_const_l_bw realFns) k) n x0 :=
  ⟨unary_laws _ _ n x0 fun i hi => (divide_const_l_bw_is_derivative k (hx i hi)).1,
   unary_laws _ _ n x0 fun i hi => (divide_const_l_bw_is_derivative k (hx i hi)).2⟩

open C01.Arith C01.Arith.Elementwise in
/-- `x ^ k` (real exponent), where every entry is positive -/
theorem pow_const_r_laws (k : ℝ) (n : Nat) (x0 : Vec ℝ) (hx : ∀ i, i < n → 0 < x0 i) :
    UnaryLaws (cf (naive_pow_const_r_fw realFns) k) (cb (naive_pow_const_r_bw realFns) k) n x0 ∧
    UnaryLaws (cf (eigen_pow_const_r_fw realFns) k) (cb (eigen_pow_const_r_bw realFns) k) n x0 :=
  ⟨unary_laws _ _ n x0 fun i hi => (pow_const_r_bw_is_derivative k (hx i hi)).1,
   unary_laws _ _ n x0 fun i hi => (pow_const_r_bw_is_derivative k (hx i hi)).2⟩

open C01.Arith C01.Arith.Elementwise in
/-- `k ^ x`, positive base `k` -/
theorem pow_const_l_laws {k : ℝ} (hk : 0 < k) (n : Nat) (x0 : Vec ℝ) :
    UnaryLaws (cf (naive_pow_const_l_fw realFns) k) (cb (naive_pow_const_l_bw realFns) k) n x0 ∧
    UnaryLaws (cf (eigen_pow_const_l_fw realFns) k) (cb (eigen_pow_const_l_bw realFns) k) n x0 :=
  ⟨unary_laws _ _ n x0 fun i _ => (pow_const_l_bw_is_derivative hk (x0 i)).1,
   unary_laws _ _ n x0 fun i _ => (pow_const_l_bw_is_derivative hk (x0 i)).2⟩

open C01.Arith C01.Arith.Elementwise in
/-- prelu, where every entry is non-zero -/
theorem prelu_laws (k : ℝ) (n : Nat) (x0 : Vec ℝ) (hx : ∀ i, i < n → x0 i ≠ 0) :
    UnaryLaws (cf (naive_prelu_fw realFns) k) (cb (naive_prelu_bw realFns) k) n x0 ∧
    UnaryLaws (cf (eigen_prelu_fw realFns) k) (cb (eigen_prelu_bw realFns) k) n x0 :=
  ⟨unary_laws _ _ n x0 fun i hi => (prelu_bw_is_derivative k (hx i hi)).1,
   unary_laws _ _ n x0 fun i hi => (prelu_bw_is_derivative k (hx i hi)).2⟩

open C01.Arith C01.Arith.Elementwise in
/-- elu, where every entry is non-zero -/
theorem elu_laws (k : ℝ) (n : Nat) (x0 : Vec ℝ) (hx : ∀ i, i < n → x0 i ≠ 0) :
    UnaryLaws (cf (naive_elu_fw realFns) k) (cb (naive_elu_bw realFns) k) n x0 ∧
    UnaryLaws (cf (eigen_elu_fw realFns) k) (cb (eigen_elu_bw realFns) k) n x0 :=
  ⟨unary_laws _ _ n x0 fun i hi => (elu_bw_is_derivative k (hx i hi)).1,
   unary_laws _ _ n x0 fun i hi => (elu_bw_is_derivative k (hx i hi)).2⟩

/-- pown (integer power by the square-and-multiply loop of the kernel, rule `k·gy·y/x`), where every
entry is non-zero (at `x = 0` the rule is not the derivative: known finding `pown-bw-zero`) -/
theorem pown_laws (k : Int) (n : Nat) (x0 : Vec ℝ) (hx : ∀ i, i < n → x0 i ≠ 0) :
    UnaryLaws (fun x => Arith.pownElem (1 : ℝ) k x)
      (fun x y gy => Arith.pownBwElem (fun n : Int => (n : ℝ)) k x y gy) n x0 :=
  unary_laws _ _ n x0 fun i hi => C01.Arith.pown_bw_is_derivative k (hx i hi)

/-! ### elementwise binary operators, operands of the same size -/

/-- **Curve law of an elementwise binary operator.** -/
theorem binary_curveLaw (f : ℝ → ℝ → ℝ) (bwa bwb : ℝ → ℝ → ℝ → ℝ → ℝ) (da db : ℝ → ℝ → ℝ) (n : Nat)
    (a0 b0 : Vec ℝ) (h : ∀ i, i < n → IsBackwardOf2 f bwa bwb da db (a0 i) (b0 i)) :
    CurveLawAt (elemBinary f bwa bwb) [n, n] [n] (elemBinaryJvp da db) [a0, b0] := by
  intro X T Y hX0 hlen hTlen hder hY j hj i hi
  have hj0 : j = 0 := by simpa using hj
  subst hj0
  obtain ⟨tx, ty, rfl⟩ := list_len2 (by simpa using hTlen)
  have hx : ∀ ε, X ε = [(X ε).getD 0 fun _ => 0, (X ε).getD 1 fun _ => 0] := by
    intro ε
    obtain ⟨x, y, hx⟩ := list_len2 (show (X ε).length = 2 by simpa using hlen ε)
    rw [hx]; rfl
  have hy : ∀ ε, Y ε = [fun i => f ((X ε).getD 0 (fun _ => 0) i) ((X ε).getD 1 (fun _ => 0) i)] := by
    intro ε
    have h' := hY ε
    rw [hx ε] at h'
    exact (Option.some.inj h').symm
  have hi' : i < n := by simpa using hi
  have h1 := hder 0 (by simp) i (by simpa using hi)
  have h2 := hder 1 (by simp) i (by simpa using hi)
  have h3 := (h i hi').1 _ _ _ _ (by simp [hX0]) (by simp [hX0]) h1 h2
  have hfun : (fun ε => (Y ε).getD 0 (fun _ => 0) i)
      = fun ε => f ((X ε).getD 0 (fun _ => 0) i) ((X ε).getD 1 (fun _ => 0) i) := by
    funext ε; rw [hy ε]; rfl
  rw [hfun]
  exact h3

/-- **Adjoint law of an elementwise binary operator**, at the return value `f ∘ (a0, b0)`. -/
theorem binary_adjointLaw (f : ℝ → ℝ → ℝ) (bwa bwb : ℝ → ℝ → ℝ → ℝ → ℝ) (da db : ℝ → ℝ → ℝ) (n : Nat)
    (a0 b0 : Vec ℝ) (h : ∀ i, i < n → IsBackwardOf2 f bwa bwb da db (a0 i) (b0 i)) :
    AdjointLawAt (elemBinary f bwa bwb) [n, n] [n] (elemBinaryJvp da db) [a0, b0]
      [fun i => f (a0 i) (b0 i)] := by
  intro gys ts hg ht
  obtain ⟨g, rfl⟩ := list_len1 (by simpa using hg)
  obtain ⟨tx, ty, rfl⟩ := list_len2 (by simpa using ht)
  simp only [elemBinary, elemBinaryJvp, listContrib, List.length_cons, List.length_nil, Nat.zero_add,
    sum_range_one, List.getD_cons_zero, add_zero]
  unfold dot
  rw [← sum_add_distrib]
  refine sum_congr rfl fun i hi => ?_
  obtain ⟨h1, h2⟩ := (h i (mem_range.mp hi)).2 (g i)
  show bwa (a0 i) (b0 i) (f (a0 i) (b0 i)) (g i) * tx i + bwb (a0 i) (b0 i) (f (a0 i) (b0 i)) (g i) * ty i
    = g i * (da (a0 i) (b0 i) * tx i + db (a0 i) (b0 i) * ty i)
  rw [h1, h2]
  ring

/-- both laws of an elementwise binary operator on two operands of `n` elements -/
def BinaryLaws (f : ℝ → ℝ → ℝ) (bwa bwb : ℝ → ℝ → ℝ → ℝ → ℝ) (da db : ℝ → ℝ → ℝ) (n : Nat) (a0 b0 : Vec ℝ) : Prop :=
  CurveLawAt (elemBinary f bwa bwb) [n, n] [n] (elemBinaryJvp da db) [a0, b0] ∧
  AdjointLawAt (elemBinary f bwa bwb) [n, n] [n] (elemBinaryJvp da db) [a0, b0] [fun i => f (a0 i) (b0 i)]

/-- add: generated forward formula `a + b`; kernel rule `ga += gy`, `gb += gy` -/
theorem add_laws (n : Nat) (a0 b0 : Vec ℝ) :
    BinaryLaws (naive_add_fw realFns) (fun _ _ _ g => g) (fun _ _ _ g => g) (fun _ _ => 1) (fun _ _ => 1) n a0 b0 := by
  have h : ∀ i, i < n → IsBackwardOf2 (naive_add_fw realFns) (fun _ _ _ g => g) (fun _ _ _ g => g)
      (fun _ _ => 1) (fun _ _ => 1) (a0 i) (b0 i) := by
    intro i _
    refine ⟨fun x y x' y' _ _ hx hy => ?_, fun g => by simp⟩
    have := hx.fun_add hy
    simp only [naive_add_fw]
    refine this.congr_deriv ?_
    ring
  exact ⟨binary_curveLaw _ _ _ _ _ n a0 b0 h, binary_adjointLaw _ _ _ _ _ n a0 b0 h⟩

/-- subtract: `a − b`; kernel rule `ga += gy`, `gb −= gy` -/
theorem subtract_laws (n : Nat) (a0 b0 : Vec ℝ) :
    BinaryLaws (naive_subtract_fw realFns) (fun _ _ _ g => g) (fun _ _ _ g => -g) (fun _ _ => 1) (fun _ _ => -1)
      n a0 b0 := by
  have h : ∀ i, i < n → IsBackwardOf2 (naive_subtract_fw realFns) (fun _ _ _ g => g) (fun _ _ _ g => -g)
      (fun _ _ => 1) (fun _ _ => -1) (a0 i) (b0 i) := by
    intro i _
    refine ⟨fun x y x' y' _ _ hx hy => ?_, fun g => by simp⟩
    have := hx.sub hy
    simp only [naive_subtract_fw]
    refine this.congr_deriv ?_
    ring
  exact ⟨binary_curveLaw _ _ _ _ _ n a0 b0 h, binary_adjointLaw _ _ _ _ _ n a0 b0 h⟩

/-- multiply: `a · b`; kernel rule `ga += gy · b`, `gb += gy · a` -/
theorem multiply_laws (n : Nat) (a0 b0 : Vec ℝ) :
    BinaryLaws (naive_multiply_fw realFns) (fun _ b _ g => g * b) (fun a _ _ g => g * a)
      (fun _ b => b) (fun a _ => a) n a0 b0 := by
  have h : ∀ i, i < n → IsBackwardOf2 (naive_multiply_fw realFns) (fun _ b _ g => g * b) (fun a _ _ g => g * a)
      (fun _ b => b) (fun a _ => a) (a0 i) (b0 i) := by
    intro i _
    refine ⟨fun x y x' y' hx0 hy0 hx hy => ?_, fun g => ⟨rfl, rfl⟩⟩
    have := hx.fun_mul hy
    simp only [naive_multiply_fw]
    refine this.congr_deriv ?_
    rw [hx0, hy0]
    ring
  exact ⟨binary_curveLaw _ _ _ _ _ n a0 b0 h, binary_adjointLaw _ _ _ _ _ n a0 b0 h⟩

/-- divide: `a / b` where every divisor entry is non-zero; kernel rule `k = gy / b`, `ga += k`,
`gb −= k · y` -/
theorem divide_laws (n : Nat) (a0 b0 : Vec ℝ) (hb : ∀ i, i < n → b0 i ≠ 0) :
    BinaryLaws (naive_divide_fw realFns) (fun _ b _ g => g / b) (fun _ b y g => -(g / b * y))
      (fun _ b => 1 / b) (fun a b => -(a / b) / b) n a0 b0 := by
  have h : ∀ i, i < n → IsBackwardOf2 (naive_divide_fw realFns) (fun _ b _ g => g / b) (fun _ b y g => -(g / b * y))
      (fun _ b => 1 / b) (fun a b => -(a / b) / b) (a0 i) (b0 i) := by
    intro i hi
    have hbi := hb i hi
    refine ⟨fun x y x' y' hx0 hy0 hx hy => ?_, fun g => ⟨?_, ?_⟩⟩
    · have := hx.fun_div hy (by rw [hy0]; exact hbi)
      simp only [naive_divide_fw]
      refine this.congr_deriv ?_
      rw [hx0, hy0]
      field_simp
      ring
    · ring
    · simp only [naive_divide_fw]; ring
  exact ⟨binary_curveLaw _ _ _ _ _ n a0 b0 h, binary_adjointLaw _ _ _ _ _ n a0 b0 h⟩

/-- pow: `a ^ b` (real power) where every base entry is positive; kernel rule `a' = gy · y`,
`ga += a' · b / a`, `gb += a' · log a` -/
theorem pow_laws (n : Nat) (a0 b0 : Vec ℝ) (ha : ∀ i, i < n → 0 < a0 i) :
    BinaryLaws (naive_pow_fw realFns) (fun a b y g => g * y * b / a) (fun a _ y g => g * y * Real.log a)
      (fun a b => b * a ^ b / a) (fun a b => Real.log a * a ^ b) n a0 b0 := by
  have h : ∀ i, i < n → IsBackwardOf2 (naive_pow_fw realFns) (fun a b y g => g * y * b / a)
      (fun a _ y g => g * y * Real.log a) (fun a b => b * a ^ b / a) (fun a b => Real.log a * a ^ b) (a0 i) (b0 i) := by
    intro i hi
    have hai := ha i hi
    refine ⟨fun x y x' y' hx0 hy0 hx hy => ?_, fun g => ⟨?_, ?_⟩⟩
    · have := hx.rpow hy (by rw [hx0]; exact hai)
      simp only [naive_pow_fw, fns_pow]
      refine this.congr_deriv ?_
      rw [hx0, hy0, Real.rpow_sub_one hai.ne']
      ring
    · simp only [naive_pow_fw, fns_pow]; ring
    · simp only [naive_pow_fw, fns_pow]; ring
  exact ⟨binary_curveLaw _ _ _ _ _ n a0 b0 h, binary_adjointLaw _ _ _ _ _ n a0 b0 h⟩

/-! ### linear operators -/

/-- **Curve law of every linear operator** `linOp ns ms A` (argument sizes `ns`, return sizes `ms`,
matrix `A`), at every point: the derivative of `A · X(ε)` is `A · T`. -/
theorem lin_curveLaw (ns ms : List Nat) (A : Nat → Nat → Nat → Nat → ℝ) (x0 : List (Vec ℝ)) :
    CurveLawAt (linOp ns ms A) ns ms (linJvp ns ms A) x0 := by
  intro X T Y _ hlen _ hder hY j hj i _
  have hy : ∀ ε, Y ε = (List.range ms.length).map (linApply ns A (X ε)) := by
    intro ε
    have h := hY ε
    unfold linOp at h
    simp only [hlen ε, if_true] at h
    exact (Option.some.inj h).symm
  have hfun : (fun ε => (Y ε).getD j (fun _ => 0) i)
      = fun ε => sum2 ns fun k i' => A j i k i' * (X ε).getD k (fun _ => 0) i' := by
    funext ε; rw [hy ε, getD_map_range _ _ _ hj]; rfl
  have hT : (linJvp ns ms A x0 T).getD j (fun _ => 0) i
      = sum2 ns fun k i' => A j i k i' * T.getD k (fun _ => 0) i' := by
    unfold linJvp; rw [getD_map_range _ _ _ hj]; rfl
  rw [hfun, hT]
  unfold sum2
  refine HasDerivAt.fun_sum fun k hk => HasDerivAt.fun_sum fun i' hi' => ?_
  exact (hder k (mem_range.mp hk) i' (mem_range.mp hi')).const_mul (A j i k i')

/-- **Adjoint law of every linear operator**: the backward rule `Aᵀ · gys` is the transpose of `A`,
at all argument and return values. -/
theorem lin_adjointLaw (ns ms : List Nat) (A : Nat → Nat → Nat → Nat → ℝ) (xs ys : List (Vec ℝ)) :
    AdjointLawAt (linOp ns ms A) ns ms (linJvp ns ms A) xs ys := by
  intro gys ts _ ht
  show listContrib ns ts ((List.range ns.length).map fun k =>
      some fun i' => sum2 ms fun j i => A j i k i' * gys.getD j (fun _ => 0) i) = _
  rw [listContrib_range ns ts _ ht]
  have hR : ∑ j ∈ range ms.length, dot (ms.getD j 0) (gys.getD j fun _ => 0)
        ((linJvp ns ms A xs ts).getD j fun _ => 0)
      = sum2 ms fun j i => gys.getD j (fun _ => 0) i * sum2 ns fun k i' => A j i k i' * ts.getD k (fun _ => 0) i' := by
    show _ = ∑ j ∈ range ms.length, ∑ i ∈ range (ms.getD j 0), _
    refine sum_congr rfl fun j hj => ?_
    unfold linJvp
    rw [getD_map_range _ _ _ (mem_range.mp hj)]
    rfl
  have hL : ∑ k ∈ range ns.length, dot (ns.getD k 0)
        (fun i' => sum2 ms fun j i => A j i k i' * gys.getD j (fun _ => 0) i) (ts.getD k fun _ => 0)
      = sum2 ns fun k i' => (sum2 ms fun j i => A j i k i' * gys.getD j (fun _ => 0) i) * ts.getD k (fun _ => 0) i' :=
    rfl
  rw [hL, hR]
  simp only [sum2_mul_right, sum2_mul_left]
  rw [sum2_comm]
  refine sum2_congr _ _ _ fun j _ i _ => sum2_congr _ _ _ fun k _ i' _ => ?_
  ring

/-- the matrix of `sum` of all elements of one argument (one return value of size 1) -/
def sumMat : Nat → Nat → Nat → Nat → ℝ := fun _ _ _ _ => 1
/-- the matrix of a slice of `m` elements starting at `off` -/
def sliceMat (off : Nat) : Nat → Nat → Nat → Nat → ℝ := fun _ i _ i' => if i' = i + off then 1 else 0
/-- the matrix of a broadcast of `n` elements (element `i` of the result is element `i % n`) -/
def bcastMat (n : Nat) : Nat → Nat → Nat → Nat → ℝ := fun _ i _ i' => if i' = i % n then 1 else 0

example (n : Nat) (x : Vec ℝ) : (linOp [n] [1] sumMat).fwd [x] = some [fun _ => ∑ i ∈ range n, x i] := by
  simp only [linOp, List.length_cons, List.length_nil, if_true, List.range_succ, List.range_zero, List.map_cons,
    List.map_nil, List.nil_append, Nat.zero_add]
  congr 2
  funext i
  simp [linApply, sum2, sumMat]
example (x : Vec ℝ) : (linOp [5] [2] (sliceMat 3)).fwd [x]
    = some [fun i => if i + 3 < 5 then x (i + 3) else 0] := by
  have h : ∀ j, linApply [5] (sliceMat 3) [x] j = fun i => if i + 3 < 5 then x (i + 3) else 0 := by
    intro j
    funext i
    simp only [linApply, sum2, sliceMat, List.length_cons, List.length_nil, Nat.zero_add, sum_range_one,
      List.getD_cons_zero, ite_mul, one_mul, zero_mul]
    rw [sum_ite_eq' (range 5) (i + 3)]
    simp [mem_range]
  simp only [linOp, List.length_cons, List.length_nil, if_true, List.range_succ, List.range_zero, List.map_cons,
    List.map_nil, List.nil_append, Nat.zero_add, h]

/-! ### constant operators -/

/-- **Both laws of a constant operator** (Input, Constant, zeros, ones, identity): tangent 0, no
contribution. -/
theorem const_laws (vals : List (Vec ℝ)) (ms : List Nat) (ys : List (Vec ℝ)) :
    CurveLawAt (constOp vals) [] ms (fun _ _ => []) [] ∧
    AdjointLawAt (constOp vals) [] ms (fun _ _ => []) [] ys := by
  constructor
  · intro X T Y _ hlen _ _ hY j _ i _
    have hy : ∀ ε, Y ε = vals := by
      intro ε
      have h := hY ε
      have hx : X ε = [] := List.eq_nil_of_length_eq_zero (by simpa using hlen ε)
      rw [hx] at h
      exact (Option.some.inj h).symm
    have hfun : (fun ε => (Y ε).getD j (fun _ => 0) i) = fun _ => vals.getD j (fun _ => 0) i := by
      funext ε; rw [hy ε]
    rw [hfun]
    simpa using hasDerivAt_const (0 : ℝ) (vals.getD j (fun _ => 0) i)
  · intro gys ts _ _
    simp [listContrib, dot]

/-! ### bilinear operators -/

/-- **Curve law of every bilinear operator** `bilinOp na nb m B` (Leibniz rule), at every point. -/
theorem bilin_curveLaw (na nb m : Nat) (B : Nat → Nat → Nat → ℝ) (a0 b0 : Vec ℝ) :
    CurveLawAt (bilinOp na nb m B) [na, nb] [m] (bilinJvp na nb B) [a0, b0] := by
  intro X T Y hX0 hlen hTlen hder hY j hj i _
  have hj0 : j = 0 := by simpa using hj
  subst hj0
  obtain ⟨ta, tb, rfl⟩ := list_len2 (by simpa using hTlen)
  have hx : ∀ ε, X ε = [(X ε).getD 0 fun _ => 0, (X ε).getD 1 fun _ => 0] := by
    intro ε
    obtain ⟨x, y, hx⟩ := list_len2 (show (X ε).length = 2 by simpa using hlen ε)
    rw [hx]; rfl
  have hy : ∀ ε, Y ε = [fun j => ∑ i ∈ range na, ∑ i' ∈ range nb,
      B j i i' * (X ε).getD 0 (fun _ => 0) i * (X ε).getD 1 (fun _ => 0) i'] := by
    intro ε
    have h := hY ε
    rw [hx ε] at h
    exact (Option.some.inj h).symm
  have hfun : (fun ε => (Y ε).getD 0 (fun _ => 0) i) = fun ε => ∑ i₁ ∈ range na, ∑ i' ∈ range nb,
      B i i₁ i' * (X ε).getD 0 (fun _ => 0) i₁ * (X ε).getD 1 (fun _ => 0) i' := by
    funext ε; rw [hy ε]; rfl
  rw [hfun]
  show HasDerivAt _ (∑ i₁ ∈ range na, ∑ i' ∈ range nb, B i i₁ i' * (ta i₁ * b0 i' + a0 i₁ * tb i')) 0
  refine HasDerivAt.fun_sum fun i₁ h1 => HasDerivAt.fun_sum fun i' h2 => ?_
  have d1 := hder 0 (by simp) i₁ (by simpa using mem_range.mp h1)
  have d2 := hder 1 (by simp) i' (by simpa using mem_range.mp h2)
  have d3 := (d1.const_mul (B i i₁ i')).fun_mul d2
  simp only [hX0, List.getD_cons_zero, List.getD_cons_succ] at d3
  refine d3.congr_deriv ?_
  ring

/-- **Adjoint law of every bilinear operator**: the two backward contributions are the transposes of
the two partial Jacobians. -/
theorem bilin_adjointLaw (na nb m : Nat) (B : Nat → Nat → Nat → ℝ) (a0 b0 : Vec ℝ) (ys : List (Vec ℝ)) :
    AdjointLawAt (bilinOp na nb m B) [na, nb] [m] (bilinJvp na nb B) [a0, b0] ys := by
  intro gys ts hg ht
  obtain ⟨g, rfl⟩ := list_len1 (by simpa using hg)
  obtain ⟨ta, tb, rfl⟩ := list_len2 (by simpa using ht)
  simp only [bilinOp, bilinJvp, listContrib, List.length_cons, List.length_nil, Nat.zero_add,
    sum_range_one, List.getD_cons_zero, add_zero]
  unfold dot
  have e1 : ∑ i ∈ range na, (∑ j ∈ range m, ∑ i' ∈ range nb, B j i i' * g j * b0 i') * ta i
      = ∑ j ∈ range m, ∑ i ∈ range na, ∑ i' ∈ range nb, B j i i' * g j * (ta i * b0 i') :=
    calc _ = ∑ i ∈ range na, ∑ j ∈ range m, ∑ i' ∈ range nb, B j i i' * g j * (ta i * b0 i') :=
          sum_congr rfl fun i _ => by
            rw [sum_mul]
            refine sum_congr rfl fun j _ => ?_
            rw [sum_mul]
            exact sum_congr rfl fun i' _ => by ring
      _ = _ := sum_comm
  have e2 : ∑ i' ∈ range nb, (∑ j ∈ range m, ∑ i ∈ range na, B j i i' * g j * a0 i) * tb i'
      = ∑ j ∈ range m, ∑ i ∈ range na, ∑ i' ∈ range nb, B j i i' * g j * (a0 i * tb i') :=
    calc _ = ∑ i' ∈ range nb, ∑ j ∈ range m, ∑ i ∈ range na, B j i i' * g j * (a0 i * tb i') :=
          sum_congr rfl fun i' _ => by
            rw [sum_mul]
            refine sum_congr rfl fun j _ => ?_
            rw [sum_mul]
            exact sum_congr rfl fun i _ => by ring
      _ = ∑ j ∈ range m, ∑ i' ∈ range nb, ∑ i ∈ range na, B j i i' * g j * (a0 i * tb i') := sum_comm
      _ = _ := sum_congr rfl fun j _ => sum_comm
  rw [e1, e2, ← sum_add_distrib]
  refine sum_congr rfl fun j _ => ?_
  rw [mul_sum, ← sum_add_distrib]
  refine sum_congr rfl fun i _ => ?_
  rw [mul_sum, ← sum_add_distrib]
  exact sum_congr rfl fun i' _ => by ring

/-- the coefficients of matmul for column-major `a : di × dj`, `b : dj × dk`, `y : di × dk`:
`y[r + di·c] = Σ_t a[r + di·t] · b[t + dj·c]` -/
def matmulCoef (di dj : Nat) : Nat → Nat → Nat → ℝ := fun j i i' =>
  if i % di = j % di ∧ i / di = i' % dj ∧ i' / dj = j / di then 1 else 0

/-- 2 × 2 matrices: entry (1, 0) of the product is `a₁₀·b₀₀ + a₁₁·b₁₀` -/
example (a b : Vec ℝ) : ((bilinOp 4 4 4 (matmulCoef 2 2)).fwd [a, b]).map (fun l => l.getD 0 (fun _ => 0) 1)
    = some (a 1 * b 0 + a 3 * b 1) := by
  simp [bilinOp, matmulCoef, sum_range_succ]

/-! ### a composite graph: `tanh((x₀ + x₁) · (x₀ + x₁))`, parameter `x` of size 2 -/

/-- operator 0: Parameter 0 (size 2); 1: sum of its elements (`linOp` with `sumMat`); 2: `n1 · n1`
(`elemBinary` multiply); 3: `tanh n2` (the generated tanh kernels); nothing evaluated -/
noncomputable def exComp : State (Vec ℝ) where
  ops := [ { kind := .param 0, args := [], rets := [{ size := 2 }] },
           { kind := .op (linOp [2] [1] sumMat), args := [⟨0, 0⟩], rets := [{ size := 1 }] },
           { kind := .op (elemBinary (naive_multiply_fw realFns) (fun _ b _ g => g * b) (fun a _ _ g => g * a)),
             args := [⟨1, 0⟩, ⟨1, 0⟩], rets := [{ size := 1 }] },
           { kind := .op (elemUnary (naive_tanh_fw realFns) (naive_tanh_bw realFns)), args := [⟨2, 0⟩],
             rets := [{ size := 1 }] } ]
  params := { value := fun _ _ => 0, grad := fun _ _ => 10 }
  sample := fun _ _ _ => 0

/-- the Jacobian-vector products of its operators -/
noncomputable def exCompJ : Nat → Jvp
  | 1 => linJvp [2] [1] sumMat
  | 2 => elemBinaryJvp (fun _ b => b) (fun a _ => a)
  | _ => elemUnaryJvp (naive_tanh_fw realFns)

/-- all hypotheses of `backward_is_gradient_of_forward` hold for `exComp`, for every base point `θ`
and every direction `δ` of the parameter: `backward` on the un-evaluated graph succeeds and the
increments of the parameter gradient are the directional derivative of the forward value -/
example (θ δ : Vec ℝ) : ∃ s', backward (TVec ℝ) (exComp.withPValue fun _ i => θ i + 0 * δ i) ⟨3, 0⟩ = (s', .ok ()) ∧
    HasDerivAt (fun ε : ℝ => Real.tanh ((θ 0 + ε * δ 0 + (θ 1 + ε * δ 1)) * (θ 0 + ε * δ 0 + (θ 1 + ε * δ 1))))
      ((s'.params.grad 0 0 - 10) * δ 0 + (s'.params.grad 0 1 - 10) * δ 1) 0 := by
  have exComp_wf : WF exComp := by
    have h : exComp = run (TVec ℝ) (State.empty ⟨fun _ _ => 0, fun _ _ => 10⟩ fun _ _ _ => 0)
        [.addOperator (.param 0) [] [2], .addOperator (.op (linOp [2] [1] sumMat)) [⟨0, 0⟩] [1],
         .addOperator (.op (elemBinary (naive_multiply_fw realFns) (fun _ b _ g => g * b) (fun a _ _ g => g * a)))
           [⟨1, 0⟩, ⟨1, 0⟩] [1],
         .addOperator (.op (elemUnary (naive_tanh_fw realFns) (naive_tanh_bw realFns))) [⟨2, 0⟩] [1]] := rfl
    rw [h]
    refine run_wf _ (WF.empty _ _) _ ?_
    intro op hop
    simp only [List.mem_cons, List.not_mem_nil, or_false] at hop
    rcases hop with rfl | rfl | rfl | rfl
    · exact ⟨rfl, rfl⟩
    · intro xs ys h
      simp only [linOp] at h
      split at h
      · cases h; simp
      · cases h
    · intro xs ys h
      match xs, h with
      | [x, y], h => simp [elemBinary] at h; subst h; simp
    · intro xs ys h
      match xs, h with
      | [x], h => simp [elemUnary] at h; subst h; simp
  obtain ⟨s', hb, _, _, _, hd⟩ := backward_is_gradient_of_forward exComp ⟨3, 0⟩ (fun ε _ i => θ i + ε * δ i)
    (fun ε => (forward (TVec ℝ) (exComp.withPValue fun _ i => θ i + ε * δ i) ⟨3, 0⟩).1)
    1 (fun _ => 2) (fun _ => δ) exCompJ exComp_wf
    (by
      rintro k ⟨o, ho, n, hn, hv⟩
      match k, ho with
      | 0, ho => simp [exComp] at ho; subst ho; simp at hn; subst hn; simp at hv
      | 1, ho => simp [exComp] at ho; subst ho; simp at hn; subst hn; simp at hv
      | 2, ho => simp [exComp] at ho; subst ho; simp at hn; subst hn; simp at hv
      | 3, ho => simp [exComp] at ho; subst ho; simp at hn; subst hn; simp at hv
      | k + 4, ho => simp [exComp] at ho)
    (allGradsInvalid_of_B rfl) rfl
    (fun ε => ⟨_, rfl⟩)
    (by
      intro i o p _ ho hk
      match i, ho with
      | 0, ho =>
        simp [exComp] at ho; subst ho
        simp at hk; subst hk
        exact ⟨by decide, rfl⟩
      | 1, ho => simp [exComp] at ho; subst ho; simp at hk
      | 2, ho => simp [exComp] at ho; subst ho; simp at hk
      | 3, ho => simp [exComp] at ho; subst ho; simp at hk
      | i + 4, ho => simp [exComp] at ho)
    (by
      intro p _ i _
      have h := ((hasDerivAt_id' (0 : ℝ)).mul_const (δ i)).const_add (θ i)
      simpa using h)
    (by
      intro k o sem _ ho hk
      match k, ho with
      | 0, ho => simp [exComp] at ho; subst ho; simp at hk
      | 1, ho =>
        simp [exComp] at ho; subst ho
        simp only [Kind.op.injEq] at hk; subst hk
        exact lin_curveLaw [2] [1] sumMat _
      | 2, ho =>
        simp [exComp] at ho; subst ho
        simp only [Kind.op.injEq] at hk; subst hk
        exact (multiply_laws 1 _ _).1
      | 3, ho =>
        simp [exComp] at ho; subst ho
        simp only [Kind.op.injEq] at hk; subst hk
        exact (tanh_laws 1 _).1
      | k + 4, ho => simp [exComp] at ho)
    (by
      intro k o sem _ ho hk ys hys
      match k, ho with
      | 0, ho => simp [exComp] at ho; subst ho; simp at hk
      | 1, ho =>
        simp [exComp] at ho; subst ho
        simp only [Kind.op.injEq] at hk; subst hk
        exact lin_adjointLaw [2] [1] sumMat _ _
      | 2, ho =>
        simp [exComp] at ho; subst ho
        simp only [Kind.op.injEq] at hk; subst hk
        have hy := (Option.some.inj hys).symm
        subst hy
        exact (multiply_laws 1 _ _).2
      | 3, ho =>
        simp [exComp] at ho; subst ho
        simp only [Kind.op.injEq] at hk; subst hk
        have hy := (Option.some.inj hys).symm
        subst hy
        exact (tanh_laws 1 _).2
      | k + 4, ho => simp [exComp] at ho)
  refine ⟨s', hb, ?_⟩
  have hsz : exComp.sizeAt ⟨3, 0⟩ = 1 := rfl
  have hfun : (fun ε : ℝ => ∑ i ∈ range (exComp.sizeAt ⟨3, 0⟩),
        ((forward (TVec ℝ) (exComp.withPValue fun _ i => θ i + ε * δ i) ⟨3, 0⟩).1).valAt ⟨3, 0⟩ i)
      = fun ε : ℝ => Real.tanh ((θ 0 + ε * δ 0 + (θ 1 + ε * δ 1)) * (θ 0 + ε * δ 0 + (θ 1 + ε * δ 1))) := by
    funext ε
    rw [hsz, sum_range_one]
    show naive_tanh_fw realFns (naive_multiply_fw realFns
        (linApply [2] sumMat [fun i => θ i + ε * δ i] 0 0) (linApply [2] sumMat [fun i => θ i + ε * δ i] 0 0)) = _
    simp [naive_tanh_fw, naive_multiply_fw, linApply, sum2, sumMat, sum_range_succ]
  have hval : (∑ p ∈ range 1, dot 2 (fun i => s'.params.grad p i - exComp.params.grad p i) δ)
      = (s'.params.grad 0 0 - 10) * δ 0 + (s'.params.grad 0 1 - 10) * δ 1 := by
    simp [dot, exComp, sum_range_succ]
  rw [hfun, hval] at hd
  exact hd

end Primitiv.Graph
