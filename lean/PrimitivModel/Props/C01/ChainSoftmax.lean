import PrimitivModel.Lemmas.GraphTangentSoftmax
import PrimitivModel.Props.C01.ChainOps
/-!
C01, T5 continued: the curve law `CurveLawAt` and the adjoint law `AdjointLawAt` (the per-operator
hypotheses of `backward_is_gradient`, Props/C01/Chain.lean) for the softmax family and max / min, as
operators on a whole vector of `n` real entries (semantics in Lemmas/GraphTangentSoftmax.lean):

* `lse_laws`: logsumexp `y = log Σ_i exp x_i`, Jacobian-vector product `Σ_i softmax_i · t_i`,
  backward `gx_i += gy · exp (x_i − y)`;
* `softmax_laws`: `y_i = exp (x_i − lse x)`, backward `gx_i += y_i · (gy_i − Σ_k gy_k y_k)`;
* `logSoftmax_laws`: `y_i = x_i − lse x`, backward `gx_i += gy_i − exp(y_i) · Σ_k gy_k`;
* `sce_laws`: dense softmax cross entropy with a constant target `tgt`,
  `y = −Σ_i tgt_i · log_softmax(x)_i`, backward `gx_i += gy · (softmax(x)_i · Σ tgt − tgt_i)`;
* `max_laws`, `min_laws`: maximum / minimum of the entries at a point where it is attained exactly
  once (at index `k`): derivative `t_k`, backward routes `gy` to the entries equal to the extremum.
All for `0 < n`, at every argument value (max / min: at every value without a tie), with the return
value that `forward` stores.  A composite `example` runs `backward_is_gradient_of_forward` on
Parameter → `linOp` → logsumexp.
-/
namespace Primitiv.Graph
open Finset

/-- **logsumexp**: both laws at every `x0` (`n > 0`). -/
theorem lse_laws (n : Nat) (hn : 0 < n) (x0 : Vec ℝ) :
    CurveLawAt (lseOp n) [n] [1] (vecJvp (lseD n)) [x0] ∧
    AdjointLawAt (lseOp n) [n] [1] (vecJvp (lseD n)) [x0] [fun _ => lse n x0] := by
  constructor
  · refine vec_curveLaw _ _ _ n 1 x0 fun x t hx0 h i _ => ?_
    have := lse_hasDerivAt hn x t h
    rw [hx0] at this
    exact this
  · refine vec_adjointLaw _ _ _ n 1 x0 _ fun g t => ?_
    rw [dot_one]
    unfold dot lseD smax
    rw [mul_sum]
    exact sum_congr rfl fun i _ => by ring

/-- **softmax**: both laws at every `x0` (`n > 0`). -/
theorem softmax_laws (n : Nat) (hn : 0 < n) (x0 : Vec ℝ) :
    CurveLawAt (softmaxOp n) [n] [n] (vecJvp (softmaxD n)) [x0] ∧
    AdjointLawAt (softmaxOp n) [n] [n] (vecJvp (softmaxD n)) [x0] [fun i => smax n x0 i] := by
  constructor
  · refine vec_curveLaw _ _ _ n n x0 fun x t hx0 h i hi => ?_
    have := smax_hasDerivAt hn x t h i hi
    rw [hx0] at this
    exact this
  · refine vec_adjointLaw _ _ _ n n x0 _ fun g t => ?_
    exact softmax_adj_aux n (fun i => smax n x0 i) g t

/-- **log_softmax**: both laws at every `x0` (`n > 0`). -/
theorem logSoftmax_laws (n : Nat) (hn : 0 < n) (x0 : Vec ℝ) :
    CurveLawAt (logSoftmaxOp n) [n] [n] (vecJvp (logSoftmaxD n)) [x0] ∧
    AdjointLawAt (logSoftmaxOp n) [n] [n] (vecJvp (logSoftmaxD n)) [x0] [fun i => x0 i - lse n x0] := by
  constructor
  · refine vec_curveLaw _ _ _ n n x0 fun x t hx0 h i hi => ?_
    have := (h i hi).fun_sub (lse_hasDerivAt hn x t h)
    rw [hx0] at this
    exact this
  · refine vec_adjointLaw _ _ _ n n x0 _ fun g t => ?_
    exact logSoftmax_adj_aux n (fun i => smax n x0 i) g t

/-- **dense softmax cross entropy** with a constant target: both laws at every `x0` (`n > 0`). -/
theorem sce_laws (n : Nat) (hn : 0 < n) (tgt x0 : Vec ℝ) :
    CurveLawAt (sceOp n tgt) [n] [1] (vecJvp (sceD n tgt)) [x0] ∧
    AdjointLawAt (sceOp n tgt) [n] [1] (vecJvp (sceD n tgt)) [x0]
      [fun _ => -∑ i ∈ range n, tgt i * (x0 i - lse n x0)] := by
  constructor
  · refine vec_curveLaw _ _ _ n 1 x0 fun x t hx0 h i _ => ?_
    have hl := lse_hasDerivAt hn x t h
    have := (HasDerivAt.fun_sum fun i hi =>
      (((h i (mem_range.1 hi)).fun_sub hl).const_mul (tgt i))).fun_neg
    rw [hx0] at this
    exact this
  · refine vec_adjointLaw _ _ _ n 1 x0 _ fun g t => ?_
    rw [dot_one]
    exact sce_adj_aux n (fun i => smax n x0 i) tgt t (g 0)

/-- **max over the vector**, at a point where the maximum is attained only at index `k`: the
derivative along a curve is that of entry `k`; the backward rule adds `gy` at entry `k` only. -/
theorem max_laws (n k : Nat) (hk : k < n) (x0 : Vec ℝ) (huniq : ∀ i, i < n → i ≠ k → x0 i < x0 k) :
    CurveLawAt (maxOp n) [n] [1] (vecJvp (pickD k)) [x0] ∧
    AdjointLawAt (maxOp n) [n] [1] (vecJvp (pickD k)) [x0] [fun _ => vmax n x0] := by
  constructor
  · refine vec_curveLaw _ _ _ n 1 x0 fun x t hx0 h i _ => ?_
    exact vmax_hasDerivAt hk x t h (by rw [hx0]; exact huniq)
  · refine vec_adjointLaw _ _ _ n 1 x0 _ fun g t => ?_
    have hm : vmax n x0 = x0 k := vmax_eq hk x0 fun i hi => by
      by_cases hik : i = k
      · rw [hik]
      · exact (huniq i hi hik).le
    rw [dot_one]
    unfold dot pickD
    rw [sum_eq_single k]
    · simp [hm]
    · intro i hi hik
      have : x0 i ≠ vmax n x0 := by rw [hm]; exact (huniq i (mem_range.1 hi) hik).ne
      simp [this]
    · intro h; exact absurd (mem_range.2 hk) h

/-- **min over the vector**, at a point where the minimum is attained only at index `k`. -/
theorem min_laws (n k : Nat) (hk : k < n) (x0 : Vec ℝ) (huniq : ∀ i, i < n → i ≠ k → x0 k < x0 i) :
    CurveLawAt (minOp n) [n] [1] (vecJvp (pickD k)) [x0] ∧
    AdjointLawAt (minOp n) [n] [1] (vecJvp (pickD k)) [x0] [fun _ => vmin n x0] := by
  constructor
  · refine vec_curveLaw _ _ _ n 1 x0 fun x t hx0 h i _ => ?_
    exact vmin_hasDerivAt hk x t h (by rw [hx0]; exact huniq)
  · refine vec_adjointLaw _ _ _ n 1 x0 _ fun g t => ?_
    have hm : vmin n x0 = x0 k := vmin_eq hk x0 fun i hi => by
      by_cases hik : i = k
      · rw [hik]
      · exact (huniq i hi hik).le
    rw [dot_one]
    unfold dot pickD
    rw [sum_eq_single k]
    · simp [hm]
    · intro i hi hik
      have : x0 i ≠ vmin n x0 := by rw [hm]; exact (huniq i (mem_range.1 hi) hik).ne'
      simp [this]
    · intro h; exact absurd (mem_range.2 hk) h

/-! ### a composite graph: Parameter (size 2) → linear map `A` → softmax cross entropy with target `tgt` -/

/-- operator 0: Parameter 0 (size 2); 1: `z = A · x` (`linOp`, 2 → 2); 2: `sce(z, tgt)`; nothing evaluated -/
noncomputable def exSce (A : Nat → Nat → Nat → Nat → ℝ) (tgt : Vec ℝ) : State (Vec ℝ) where
  ops := [ { kind := .param 0, args := [], rets := [{ size := 2 }] },
           { kind := .op (linOp [2] [2] A), args := [⟨0, 0⟩], rets := [{ size := 2 }] },
           { kind := .op (sceOp 2 tgt), args := [⟨1, 0⟩], rets := [{ size := 1 }] } ]
  params := { value := fun _ _ => 0, grad := fun _ _ => 10 }
  sample := fun _ _ _ => 0

/-- the Jacobian-vector products of its operators -/
noncomputable def exSceJ (A : Nat → Nat → Nat → Nat → ℝ) (tgt : Vec ℝ) : Nat → Jvp
  | 1 => linJvp [2] [2] A
  | _ => vecJvp (sceD 2 tgt)

/-- all hypotheses of `backward_is_gradient_of_forward` hold for `exSce`, for every matrix `A`, target
`tgt`, base point `θ` and direction `δ`: `backward` on the un-evaluated graph succeeds and the
increments of the parameter gradient are the directional derivative of the loss `forward` computes -/
example (A : Nat → Nat → Nat → Nat → ℝ) (tgt θ δ : Vec ℝ) :
    ∃ s', backward (TVec ℝ) ((exSce A tgt).withPValue fun _ i => θ i + 0 * δ i) ⟨2, 0⟩ = (s', .ok ()) ∧
    HasDerivAt (fun ε : ℝ => -∑ i ∈ range 2, tgt i *
        (linApply [2] A [fun i => θ i + ε * δ i] 0 i - lse 2 (linApply [2] A [fun i => θ i + ε * δ i] 0)))
      ((s'.params.grad 0 0 - 10) * δ 0 + (s'.params.grad 0 1 - 10) * δ 1) 0 := by
  have hwf : WF (exSce A tgt) := by
    have h : exSce A tgt = run (TVec ℝ) (State.empty ⟨fun _ _ => 0, fun _ _ => 10⟩ fun _ _ _ => 0)
        [.addOperator (.param 0) [] [2], .addOperator (.op (linOp [2] [2] A)) [⟨0, 0⟩] [2],
         .addOperator (.op (sceOp 2 tgt)) [⟨1, 0⟩] [1]] := rfl
    rw [h]
    refine run_wf _ (WF.empty _ _) _ ?_
    intro op hop
    simp only [List.mem_cons, List.not_mem_nil, or_false] at hop
    rcases hop with rfl | rfl | rfl
    · exact ⟨rfl, rfl⟩
    · intro xs ys h
      simp only [linOp] at h
      split at h
      · cases h; simp
      · cases h
    · intro xs ys h
      match xs, h with
      | [x], h => simp [sceOp, vecOp] at h; subst h; simp
  obtain ⟨s', hb, _, _, _, hd⟩ := backward_is_gradient_of_forward (exSce A tgt) ⟨2, 0⟩ (fun ε _ i => θ i + ε * δ i)
    (fun ε => (forward (TVec ℝ) ((exSce A tgt).withPValue fun _ i => θ i + ε * δ i) ⟨2, 0⟩).1)
    1 (fun _ => 2) (fun _ => δ) (exSceJ A tgt) hwf
    (by
      rintro k ⟨o, ho, n, hn, hv⟩
      match k, ho with
      | 0, ho => simp [exSce] at ho; subst ho; simp at hn; subst hn; simp at hv
      | 1, ho => simp [exSce] at ho; subst ho; simp at hn; subst hn; simp at hv
      | 2, ho => simp [exSce] at ho; subst ho; simp at hn; subst hn; simp at hv
      | k + 3, ho => simp [exSce] at ho)
    (allGradsInvalid_of_B rfl) rfl
    (fun ε => ⟨_, rfl⟩)
    (by
      intro i o p _ ho hk
      match i, ho with
      | 0, ho =>
        simp [exSce] at ho; subst ho
        simp at hk; subst hk
        exact ⟨by decide, rfl⟩
      | 1, ho => simp [exSce] at ho; subst ho; simp at hk
      | 2, ho => simp [exSce] at ho; subst ho; simp at hk
      | i + 3, ho => simp [exSce] at ho)
    (by
      intro p _ i _
      have h := ((hasDerivAt_id' (0 : ℝ)).mul_const (δ i)).const_add (θ i)
      simpa using h)
    (by
      intro k o sem _ ho hk
      match k, ho with
      | 0, ho => simp [exSce] at ho; subst ho; simp at hk
      | 1, ho =>
        simp [exSce] at ho; subst ho
        simp only [Kind.op.injEq] at hk; subst hk
        exact lin_curveLaw [2] [2] A _
      | 2, ho =>
        simp [exSce] at ho; subst ho
        simp only [Kind.op.injEq] at hk; subst hk
        exact (sce_laws 2 (by decide) tgt _).1
      | k + 3, ho => simp [exSce] at ho)
    (by
      intro k o sem _ ho hk ys hys
      match k, ho with
      | 0, ho => simp [exSce] at ho; subst ho; simp at hk
      | 1, ho =>
        simp [exSce] at ho; subst ho
        simp only [Kind.op.injEq] at hk; subst hk
        exact lin_adjointLaw [2] [2] A _ _
      | 2, ho =>
        simp [exSce] at ho; subst ho
        simp only [Kind.op.injEq] at hk; subst hk
        have hy := (Option.some.inj hys).symm
        subst hy
        exact (sce_laws 2 (by decide) tgt _).2
      | k + 3, ho => simp [exSce] at ho)
  refine ⟨s', hb, ?_⟩
  have hsz : (exSce A tgt).sizeAt ⟨2, 0⟩ = 1 := rfl
  have hfun : (fun ε : ℝ => ∑ i ∈ range ((exSce A tgt).sizeAt ⟨2, 0⟩),
        ((forward (TVec ℝ) ((exSce A tgt).withPValue fun _ i => θ i + ε * δ i) ⟨2, 0⟩).1).valAt ⟨2, 0⟩ i)
      = fun ε : ℝ => -∑ i ∈ range 2, tgt i *
        (linApply [2] A [fun i => θ i + ε * δ i] 0 i - lse 2 (linApply [2] A [fun i => θ i + ε * δ i] 0)) := by
    funext ε
    rw [hsz, sum_range_one]
    rfl
  have hval : (∑ p ∈ range 1, dot 2 (fun i => s'.params.grad p i - (exSce A tgt).params.grad p i) δ)
      = (s'.params.grad 0 0 - 10) * δ 0 + (s'.params.grad 0 1 - 10) * δ 1 := by
    simp [dot, exSce, sum_range_succ]
  rw [hfun, hval] at hd
  exact hd

end Primitiv.Graph
