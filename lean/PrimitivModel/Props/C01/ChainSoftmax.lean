import PrimitivModel.Lemmas.GraphTangentSoftmax
import PrimitivModel.Props.C01.ChainOps
/-!
C01, T5 continued: the curve law `CurveLawAt` and the adjoint law `AdjointLawAt` (the per-operator
hypotheses of `backward_is_gradient`, Props/C01/Chain.lean) for the softmax family and max / min, as
operators on a whole vector of `n` real entries (semantics in Lemmas/GraphTangentSoftmax.lean):

* `lse_laws`: logsumexp `y = log Σ_i exp x_i`, Jacobian-vector product `Σ_i softmax_i · t_i`,
  backward `gx_i += gy · exp (x_i − y)`;
* `softmax_laws`: `y_i = exp (x_i − lse x)`, backward `gx_i += y_i · (gy_i − Σ_k gy_k y_k)`;
* `logSoftmax_laws`: `y_i = x_i − lse x`, backward `gx_i += gy_i − exp(y_i) · Σ_k gy_k`;
* `sce_laws`: dense softmax cross entropy with a constant target `tgt`,
  `y = −Σ_i tgt_i · log_softmax(x)_i`, backward `gx_i += gy · (softmax(x)_i · Σ tgt − tgt_i)`;
* `max_laws`, `min_laws`: maximum / minimum of the entries at a point where it is attained exactly
  once (at index `k`): derivative `t_k`, backward routes `gy` to the entries equal to the extremum.
All for `0 < n`, at every argument value (max / min: at every value without a tie), with the return
value that `forward` stores.  A composite `example` runs `backward_is_gradient_of_forward` on
Parameter → `linOp` → logsumexp.
-/
namespace Primitiv.Graph
open Finset

/-- **logsumexp**: both laws at every `x0` (`n > 0`). -/
theorem lse_laws (n : Nat) (hn : 0 < n) (x0 : Vec ℝ) :
    CurveLawAt (lseOp n) [n] [1] (vecJvp (lseD n)) [x0] ∧
    AdjointLawAt (lseOp n) [n] [1] (vecJvp (lseD n)) [x0] [fun _ => lse n x0] := by
  constructor
  · refine vec_curveLaw _ _ _ n 1 x0 fun x t hx0 h i _ => ?_
    have := lse_hasDerivAt hn x t h
    rw [hx0] at this
    exact this
  · refine vec_adjointLaw _ _ _ n 1 x0 _ fun g t => ?_
    rw [dot_one]
    unfold dot lseD smax
    rw [mul_sum]
    exact sum_congr rfl fun i _ => by ring

/-- **softmax**: both laws at every `x0` (`n > 0`). -/
theorem softmax_laws (n : Nat) (hn : 0 < n) (x0 : Vec ℝ) :
    CurveLawAt (softmaxOp n) [n] [n] (vecJvp (softmaxD n)) [x0] ∧
    AdjointLawAt (softmaxOp n) [n] [n] (vecJvp (softmaxD n)) [x0] [fun i => smax n x0 i] := by
  constructor
  · refine vec_curveLaw _ _ _ n n x0 fun x t hx0 h i hi => ?_
    have := smax_hasDerivAt hn x t h i hi
    rw [hx0] at this
    exact this
  · refine vec_adjointLaw _ _ _ n n x0 _ fun g t => ?_
    exact softmax_adj_aux n (fun i => smax n x0 i) g t

/-- **log_softmax**: both laws at every `x0` (`n > 0`). -/
theorem logSoftmax_laws (n : Nat) (hn : 0 < n) (x0 : Vec ℝ) :
    CurveLawAt (logSoftmaxOp n) [n] [n] (vecJvp (logSoftmaxD n)) [x0] ∧
    AdjointLawAt (logSoftmaxOp n) [n] [n] (vecJvp (logSoftmaxD n)) [x0] [fun i => x0 i - lse n x0] := by
  constructor
  · refine vec_curveLaw _ _ _ n n x0 fun x t hx0 h i hi => ?_
    have := (h i hi).fun_sub (lse_hasDerivAt hn x t h)
    rw [hx0] at this
    exact this
  · refine vec_adjointLaw _ _ _ n n x0 _ fun g t => ?_
    exact logSoftmax_adj_aux n (fun i => smax n x0 i) g t

/-- **dense softmax cross entropy** with a constant target: both laws at every `x0` (`n > 0`). -/
theorem sce_laws (n : Nat) (hn : 0 < n) (tgt x0 : Vec ℝ) :
    CurveLawAt (sceOp n tgt) [n] [1] (vecJvp (sceD n tgt)) [x0] ∧
    AdjointLawAt (sceOp n tgt) [n] [1] (vecJvp (sceD n tgt)) [x0]
      [fun _ => -∑ i ∈ range n, tgt i * (x0 i - lse n x0)] := by
  constructor
  · refine vec_curveLaw _ _ _ n 1 x0 fun x t hx0 h i _ => ?_
    have hl := lse_hasDerivAt hn x t h
    have := (HasDerivAt.fun_sum fun i hi =>
      (((h i (mem_range.1 hi)).fun_sub hl).const_mul (tgt i))).fun_neg
    rw [hx0] at this
    exact this
  · refine vec_adjointLaw _ _ _ n 1 x0 _ fun g t => ?_
    rw [dot_one]
    exact sce_adj_aux n (fun i => smax n x0 i) tgt t (g 0)

/-- **max over the vector**, at a point where the maximum is attained only at index `k`: the
derivative along a curve is that of entry `k`; the backward rule adds `gy` at entry `k` only. -/
theorem max_laws (n k : Nat) (hk : k < n) (x0 : Vec ℝ) (huniq : ∀ i, i < n → i ≠ k → x0 i < x0 k) :
    CurveLawAt (maxOp n) [n] [1] (vecJvp (pickD k)) [x0] ∧
    AdjointLawAt (maxOp n) [n] [1] (vecJvp (pickD k)) [x0] [fun _ => vmax n x0] := by
  constructor
  · refine vec_curveLaw _ _ _ n 1 x0 fun x t hx0 h i _ => ?_
    exact vmax_hasDerivAt hk x t h (by rw [hx0]; exact huniq)
  · refine vec_adjointLaw _ _ _ n 1 x0 _ fun g t => ?_
    have hm : vmax n x0 = x0 k := vmax_eq hk x0 fun i hi => by
      by_cases hik : i = k
      · rw [hik]
      · exact (huniq i hi hik).le
    rw [dot_one]
    unfold dot pickD
    rw [sum_eq_single k]
    · simp [hm]
    · intro i hi hik
      have : x0 i ≠ vmax n x0 := by rw [hm]; exact (huniq i (mem_range.1 hi) hik).ne
      simp [this]
    · intro h; exact absurd (mem_range.2 hk) h

/-- **min over the vector**, at a point where the minimum is attained only at index `k`. -/
theorem min_laws (n k : Nat) (hk : k < n) (x0 : Vec ℝ) (huniq : ∀ i, i < n → i ≠ k → x0 k < x0 i) :
    CurveLawAt (minOp n) [n] [1] (vecJvp (pickD k)) [x0] ∧
    AdjointLawAt (minOp n) [n] [1] (vecJvp (pickD k)) [x0] [fun _ => vmin n x0] := by
  constructor
  · refine vec_curveLaw _ _ _ n 1 x0 fun x t hx0 h i _ => ?_
    exact vmin_hasDerivAt hk x t h (by rw [hx0]; exact huniq)
  · refine vec_adjointLaw _ _ _ n 1 x0 _ fun g t => ?_
    have hm : vmin n x0 = x0 k := vmin_eq hk x0 fun i hi => by
      by_cases hik : i = k
      · rw [hik]
      · exact (huniq i hi hik).le
    rw [dot_one]
    unfold dot pickD
    rw [sum_eq_single k]
    · simp [hm]
    · intro i hi hik
      have : x0 i ≠ vmin n x0 := by rw [hm]; exact (huniq i (mem_range.1 hi) hik).ne'
      simp [this]
    · intro h; exact absurd (mem_range.2 hk) h

end Primitiv.Graph
