import PrimitivModel.Lemmas.MoveSpec
import PrimitivModel.Lemmas.Adjoint
import PrimitivModel.Props.C11.Move
/-
C01 (kernel level) — each backward kernel of the family is the transpose of its
forward kernel: for every upstream gradient `gy`, every `x` and a zero initial
`gx`,   Σ_j (bw gy 0)_j * x_j  =  Σ_i gy_i * (fw x)_i   over any commutative
semiring (so over ℝ), for all well-formed shapes, axis arguments and ids the
front-ends accept.  Together with "bw ADDs into gx" (`scatterAdd_apply`: the
result is `gx + bw gy 0`) this is the chain rule for a linear map.
Proof pattern: the generic lemma `adjoint_of_same_idx` + "fw and bw visit the
same (output, input) index pairs" per kernel.
-/
namespace Primitiv.C01.Move
open Primitiv Primitiv.Move Primitiv.MoveShape Primitiv.View3 Finset

variable {R : Type} [CommSemiring R]

def zeroT (s : Shape) : Tensor R := ⟨s, fun _ => 0, .here⟩

/-- pick_bw is the transpose of pick_fw -/
theorem Adjoint.pick {x y gy g : Tensor R} {ids : List Nat} {dim : Nat} {raw : Nat → R} (hx : WF x.shape)
    (hlen : ids.length < W) (hf : pickFw x ids dim raw = .ok y)
    (hb : pickBw gy ids dim (zeroT x.shape) = .ok g) (hgy : gy.shape = y.shape) :
    ∑ j ∈ range x.shape.size, g.data j * x.data j = ∑ i ∈ range y.shape.size, gy.data i * y.data i := by
  obtain ⟨_, ys, m, hF, hfb, hall, rfl⟩ := pickFw_inv hf
  obtain ⟨_, _, mb, hB, _, rfl⟩ := pickBw_inv hb
  obtain ⟨_, _, _, _, hys, _, _, hm, _, hysz⟩ := Front.pickFw_plan hx hlen hF
  have hgyw : WF gy.shape := by rw [hgy]; exact hys
  obtain ⟨_, _, _, _, _, _, hmb, _, _⟩ := Front.pickBw_plan hgyw hx hlen hB
  have hsw : mb = m.swap := by rw [hmb, hm]
  subst hsw
  have hon : m.WritesOnce := by
    rw [hm]; exact (writesAll_of_id (size := ys.size) (fun _ => rfl) (by rw [pick_count, hysz])).2
  exact adjoint_of_same_idx m m.swap gy.data x.data raw x.shape.size ys.size rfl (fun _ _ => rfl) (fun _ _ => rfl) hfb hall hon

-- an instance of the hypotheses: x = [[1,4,7],[2,5,8],[3,6,9]], ids = [1, 2] along axis 1, gy = ((1,2,3),(4,5,6))
example : (match pickBw (α := Int) ⟨⟨[3], 2, 3⟩, fun i => i + 1, .here⟩ [1, 2] 1 ⟨⟨[3, 3], 1, 9⟩, fun _ => 0, .here⟩ with
    | .ok g => (List.range 9).map g.data | .error _ => []) = [0, 0, 0, 1, 2, 3, 4, 5, 6] := by decide

/-- batch_pick_bw is the transpose of batch_pick_fw -/
theorem Adjoint.batch_pick {x y gy g : Tensor R} {ids : List Nat} {raw : Nat → R} (hx : WF x.shape)
    (hlen : ids.length < W) (hf : batchPickFw x ids raw = .ok y)
    (hb : batchPickBw gy ids (zeroT x.shape) = .ok g) (hgy : gy.shape = y.shape) :
    ∑ j ∈ range x.shape.size, g.data j * x.data j = ∑ i ∈ range y.shape.size, gy.data i * y.data i := by
  obtain ⟨_, ys, m, hF, hfb, hall, rfl⟩ := batchPickFw_inv hf
  obtain ⟨_, _, mb, hB, _, rfl⟩ := batchPickBw_inv hb
  obtain ⟨_, _, hys, _, _, hm, _, hysz⟩ := Front.batchPickFw_plan hx hlen hF
  have hgyw : WF gy.shape := by rw [hgy]; exact hys
  obtain ⟨_, _, _, _, hmb, _, _⟩ := Front.batchPickBw_plan hgyw hx hlen hB
  have hsw : mb = m.swap := by rw [hmb, hm]
  subst hsw
  have hon : m.WritesOnce := by
    rw [hm]; exact (writesAll_of_id (size := ys.size) (fun _ => rfl) (by rw [hysz]; simp [batchPickMoves, Nat.mul_comm])).2
  exact adjoint_of_same_idx m m.swap gy.data x.data raw x.shape.size ys.size rfl (fun _ _ => rfl) (fun _ _ => rfl) hfb hall hon

/-- batch_slice_bw is the transpose of batch_slice_fw -/
theorem Adjoint.batch_slice {x y gy g : Tensor R} {lower upper : Nat} {raw : Nat → R} (hx : WF x.shape)
    (hf : batchSliceFw x lower upper raw = .ok y)
    (hb : batchSliceBw gy lower (zeroT x.shape) = .ok g) (hgy : gy.shape = y.shape) :
    ∑ j ∈ range x.shape.size, g.data j * x.data j = ∑ i ∈ range y.shape.size, gy.data i * y.data i := by
  unfold batchSliceFw at hf
  obtain ⟨_, ys, m, hF, hfb, hall, rfl⟩ := fw_inv hf
  unfold batchSliceBw batchSliceBwWith at hb
  obtain ⟨_, _, mb, hB, _, rfl⟩ := bw_inv hb
  obtain ⟨hl, hu, hys, hyb, _, hm, _, hysz⟩ := Front.batchSliceFw_plan hx hF
  have hgyw : WF gy.shape := by rw [hgy]; exact hys
  have hlow : lower < W := by have := Front.batch_lt hx; omega
  obtain ⟨_, _, _, hmb, _, _⟩ := Front.batchSliceBw_plan hgyw hx hlow hB
  have hgb : gy.shape.batch = upper - lower := by rw [hgy]; exact hyb
  have hmul : mul32 x.shape.volume lower = x.shape.volume * lower := by
    apply Nat.mod_eq_of_lt
    calc x.shape.volume * lower ≤ x.shape.volume * x.shape.batch := Nat.mul_le_mul_left _ (by omega)
      _ < W := hx.fits
  have hon : m.WritesOnce := by
    rw [hm]; exact (writesAll_of_id (size := ys.size) (fun _ => rfl) (by rw [hysz]; rfl)).2
  refine adjoint_of_same_idx m mb gy.data x.data raw x.shape.size ys.size ?_ ?_ ?_ hfb hall hon
  · rw [hmb, hm, hgb]; rfl
  · intro t _; rw [hmb, hm]; rfl
  · intro t _; rw [hmb, hm]; simp only [batchSliceBwMoves, batchSliceFwMoves, hmul]

/-- slice_bw is the transpose of slice_fw (operands with the same minibatch
size; the folding into a batch-1 `gx` is C03) -/
theorem Adjoint.slice {x y gy g : Tensor R} {dim lower upper : Nat} {raw : Nat → R} (hx : WF x.shape)
    (hf : sliceFw x dim lower upper raw = .ok y)
    (hb : sliceBw gy dim lower (zeroT x.shape) = .ok g) (hgy : gy.shape = y.shape) :
    ∑ j ∈ range x.shape.size, g.data j * x.data j = ∑ i ∈ range y.shape.size, gy.data i * y.data i := by
  unfold sliceFw at hf
  obtain ⟨_, ys, m, hF, hfb, hall, rfl⟩ := fw_inv hf
  unfold sliceBw sliceBwWith at hb
  cases hc : checkDevice gy with
  | error e => simp [hc, bind, Except.bind] at hb
  | ok u =>
  cases hc2 : checkDevice (zeroT (R := R) x.shape) with
  | error e => simp [hc, hc2, bind, Except.bind] at hb
  | ok u2 =>
  cases hB : Front.sliceBw gy.shape (zeroT (R := R) x.shape).shape dim lower with
  | error e => simp [hc, hc2, hB, bind, Except.bind] at hb
  | ok p =>
  simp only [hc, hc2, hB, bind, Except.bind] at hb
  obtain ⟨_, rfl⟩ := runAdd_inv hb
  obtain ⟨hl, hu, hys, hyb, hyg, hm, _, hysz⟩ := Front.sliceFw_plan hx hF
  have hgyw : WF gy.shape := by rw [hgy]; exact hys
  have hlow : lower < W := by have := hx.get_lt dim; omega
  have hgb : gy.shape.batch = x.shape.batch := by rw [hgy]; exact hyb
  have hgd : gy.shape.get dim = upper - lower := by rw [hgy, hyg dim, if_pos rfl]
  obtain ⟨_, _, _, _, _, hp⟩ := Front.sliceBw_plan hgyw hx hlow hB
  have hon : m.WritesOnce := by
    rw [hm]; exact (writesAll_of_id (size := ys.size) (fun _ => rfl) (by rw [hysz, sliceFw_count])).2
  have hL := lo_pos hx dim
  have hoffW : lo x.shape dim * lower < W := by
    have h1 : lo x.shape dim * lower ≤ lo x.shape dim * x.shape.get dim * up x.shape dim :=
      calc lo x.shape dim * lower ≤ lo x.shape dim * x.shape.get dim := Nat.mul_le_mul_left _ (by omega)
        _ = lo x.shape dim * x.shape.get dim * 1 := by ring
        _ ≤ lo x.shape dim * x.shape.get dim * up x.shape dim := Nat.mul_le_mul_left _ (up_pos hx dim)
    rw [← (hx.toView dim).volume] at h1
    have := hx.vol_lt; omega
  subst hm
  rcases hp with ⟨_, hy1, hx1, h0, rfl⟩ | ⟨_, rfl⟩
  · -- the axis is at or beyond the depth: inplace_add
    have hny : upper - lower = 1 := by omega
    have ⟨c, hidx⟩ := inplaceAdd_same_idx (V := lo x.shape dim * up x.shape dim) (B := x.shape.batch)
    have hcnt : (sliceFwMoves (lo x.shape dim) (lo x.shape dim * (upper - lower)) (lo x.shape dim * x.shape.get dim)
        (up x.shape dim * x.shape.batch) lower).count = lo x.shape dim * up x.shape dim * x.shape.batch := by
      simp only [sliceFwMoves, hny]; ring
    refine adjoint_of_same_idx _ _ gy.data x.data raw x.shape.size ys.size ?_ ?_ ?_ hfb hall hon
    · simp only [Front.SliceBwPlan.moves, hgb, zeroT]; rw [c, hcnt]
    · intro t ht
      rw [hcnt] at ht
      simp only [Front.SliceBwPlan.moves, hgb, zeroT]
      rw [(hidx t ht).1]; rfl
    · intro t ht
      rw [hcnt] at ht
      simp only [Front.SliceBwPlan.moves, hgb, zeroT]
      rw [(hidx t ht).2, hny, hx1, h0]
      exact sliceFw_trivial.symm
  · have ⟨c, hidx⟩ := sliceBw_same_idx (L := lo x.shape dim) (ny := upper - lower) (nx := x.shape.get dim)
      (U := up x.shape dim) (B := x.shape.batch) (off := lower) hoffW
    refine adjoint_of_same_idx _ _ gy.data x.data raw x.shape.size ys.size ?_ ?_ ?_ hfb hall hon
    · simp only [Front.SliceBwPlan.moves, hgb, hgd, zeroT]; exact c
    · intro t ht
      simp only [Front.SliceBwPlan.moves, hgb, hgd, zeroT]
      rw [(hidx t ht).1]; rfl
    · intro t ht
      simp only [Front.SliceBwPlan.moves, hgb, hgd, zeroT]
      exact (hidx t ht).2

/-- flip_bw is the transpose of flip_fw (flip is its own transpose) -/
theorem Adjoint.flip {x y gy g : Tensor R} {dim : Nat} {raw : Nat → R} (hx : WF x.shape)
    (hf : flipFw x dim raw = .ok y) (hb : flipBw gy dim (zeroT x.shape) = .ok g) (hgy : gy.shape = x.shape) :
    ∑ j ∈ range x.shape.size, g.data j * x.data j = ∑ i ∈ range y.shape.size, gy.data i * y.data i := by
  unfold flipFw at hf
  obtain ⟨_, ys, m, hF, _, _, rfl⟩ := fw_inv hf
  unfold flipBw at hb
  obtain ⟨_, _, mb, hB, _, rfl⟩ := bw_inv hb
  obtain ⟨rfl, rfl, hxs⟩ := Front.flipFw_plan hx hF
  obtain ⟨_, rfl, _⟩ := Front.flipBw_plan (by rw [hgy]; exact hx) hx hB
  have hL := lo_pos hx dim
  have hn := hx.pos dim
  have hw := flip_writes (R := up x.shape dim * x.shape.batch) hn hL
  simp only [zeroT]
  rw [hxs]
  -- both kernels move the element at `flipMap i` to `i`
  have hfw : ∀ i, i < lo x.shape dim * x.shape.get dim * (up x.shape dim * x.shape.batch) →
      scatterSet (flipMoves (x.shape.get dim) (lo x.shape dim) (lo x.shape dim * (up x.shape dim * x.shape.batch))).didx
        (flipMoves (x.shape.get dim) (lo x.shape dim) (lo x.shape dim * (up x.shape dim * x.shape.batch))).sidx x.data
        (flipMoves (x.shape.get dim) (lo x.shape dim) (lo x.shape dim * (up x.shape dim * x.shape.batch))).count raw i
        = x.data (flipMap (lo x.shape dim) (x.shape.get dim) i) := by
    intro i hi
    obtain ⟨t, ht, e1, e2⟩ := flip_step_of hL hn hi
    have := scatterSet_of_once hw.2 x.data raw ht
    rw [e1, e2] at this; exact this
  have hbw : ∀ i, i < lo x.shape dim * x.shape.get dim * (up x.shape dim * x.shape.batch) →
      scatterAdd (flipMoves (x.shape.get dim) (lo x.shape dim) (lo x.shape dim * (up x.shape dim * x.shape.batch))).didx
        (flipMoves (x.shape.get dim) (lo x.shape dim) (lo x.shape dim * (up x.shape dim * x.shape.batch))).sidx gy.data
        (flipMoves (x.shape.get dim) (lo x.shape dim) (lo x.shape dim * (up x.shape dim * x.shape.batch))).count (fun _ => 0) i
        = gy.data (flipMap (lo x.shape dim) (x.shape.get dim) i) := by
    intro i hi
    obtain ⟨t, ht, e1, e2⟩ := flip_step_of hL hn hi
    have := scatterAdd_of_once hw.2 gy.data ht
    rw [e1, e2] at this; exact this
  apply sum_reindex _ (flipMap (lo x.shape dim) (x.shape.get dim)) (flipMap (lo x.shape dim) (x.shape.get dim))
  · intro i hi; exact flipMap_lt hL hn hi
  · intro i hi; exact flipMap_lt hL hn hi
  · intro i _; exact flipMap_invol hL hn
  · intro i _; exact flipMap_invol hL hn
  · intro i hi
    rw [hbw i hi, hfw _ (flipMap_lt hL hn hi), flipMap_invol hL hn]

/-- transpose_bw (Naive: `inplace_add(transpose_fw(gy), gx)`) is the transpose of transpose_fw -/
theorem Adjoint.transpose {x y gy g : Tensor R} {raw raw' : Nat → R} (hx : WF x.shape) (hgyw : WF gy.shape)
    (hf : transposeFw x raw = .ok y) (hb : transposeBw x y gy (zeroT x.shape) raw' = .ok g) :
    ∑ j ∈ range x.shape.size, g.data j * x.data j = ∑ i ∈ range y.shape.size, gy.data i * y.data i := by
  unfold transposeBw at hb
  cases hc1 : checkDevice x with
  | error e => simp [hc1, bind, Except.bind] at hb
  | ok u1 =>
  cases hc2 : checkDevice y with
  | error e => simp [hc1, hc2, bind, Except.bind] at hb
  | ok u2 =>
  cases hc3 : checkDevice gy with
  | error e => simp [hc1, hc2, hc3, bind, Except.bind] at hb
  | ok u3 =>
  cases hc4 : checkDevice (zeroT (R := R) x.shape) with
  | error e => simp [hc1, hc2, hc3, hc4, bind, Except.bind] at hb
  | ok u4 =>
  cases hG : Front.transposeBwGuard x.shape y.shape gy.shape (zeroT (R := R) x.shape).shape with
  | error e => simp [hc1, hc2, hc3, hc4, hG, bind, Except.bind] at hb
  | ok u5 =>
  cases hT : transposeFw gy raw' with
  | error e => simp [hc1, hc2, hc3, hc4, hG, hT, bind, Except.bind] at hb
  | ok tg =>
  simp only [hc1, hc2, hc3, hc4, hG, hT, bind, Except.bind] at hb
  obtain ⟨_, rfl⟩ := runAdd_inv hb
  -- the guard: gy has the shape of y
  have hyg : y.shape.eq gy.shape = true := by
    unfold Front.transposeBwGuard at hG
    split at hG
    · cases hG
    · rename_i hc; simp only [Bool.or_eq_true, not_or] at hc
      exact Front.not_not_eq hc.2
  unfold transposeFw at hf hT
  obtain ⟨_, ys, m, hF, _, _, rfl⟩ := fw_inv hf
  obtain ⟨_, ts, mt, hFt, _, _, rfl⟩ := fw_inv hT
  obtain ⟨hmx, hys, hyb, g0, g1, g2, rfl, hxs, hysz⟩ := Front.transposeFw_plan hx hF
  have ⟨hge, hbe⟩ := eq_get hyg
  simp only at hge hbe
  obtain ⟨_, hts, htb, _, _, _, rfl, _, _⟩ := Front.transposeFw_plan hgyw hFt
  have e0 : gy.shape.get 0 = x.shape.get 1 := by rw [← hge, g0]
  have e1 : gy.shape.get 1 = x.shape.get 0 := by rw [← hge, g1]
  have eb : gy.shape.batch = x.shape.batch := by rw [← hbe, hyb]
  have h1 := hx.pos 0
  have h2 := hx.pos 1
  simp only [zeroT, Front.b2n_hasBatch x.shape hx, Front.b2n_hasBatch ts hts, htb, eb, e0, e1,
    Front.matrix_volume hx hmx] at *
  have ⟨cI, hI⟩ := inplaceAdd_same_idx (V := x.shape.get 0 * x.shape.get 1) (B := x.shape.batch)
  rw [hxs, hysz]
  have hwT := (transpose_writes (bs := x.shape.batch) h2 h1).2
  have hwF := (transpose_writes (bs := x.shape.batch) h1 h2).2
  have hN : x.shape.get 1 * x.shape.get 0 * x.shape.batch = x.shape.get 0 * x.shape.get 1 * x.shape.batch := by ring
  apply sum_reindex _ (transposeMoves (x.shape.get 0) (x.shape.get 1) x.shape.batch).didx
    (transposeMoves (x.shape.get 1) (x.shape.get 0) x.shape.batch).didx
  · intro i hi; exact transpose_didx_lt hi
  · intro i hi; rw [← hN] at hi ⊢; exact transpose_didx_lt hi
  · intro i _; exact transpose_didx_invol h1 h2
  · intro i _; exact transpose_didx_invol h2 h1
  · intro j hj
    -- the backward side at j
    have hon : (inplaceAddMoves (x.shape.get 0 * x.shape.get 1) (max x.shape.batch x.shape.batch)
        ((if x.shape.batch = 1 then 0 else 1) * (x.shape.get 0 * x.shape.get 1))
        ((if x.shape.batch = 1 then 0 else 1) * (x.shape.get 0 * x.shape.get 1))).WritesOnce := by
      intro t t' ht ht' e
      rw [cI] at ht ht'
      rwa [(hI t ht).2, (hI t' ht').2] at e
    have hb1 := scatterAdd_of_once hon (scatterSet (transposeMoves (x.shape.get 1) (x.shape.get 0) x.shape.batch).didx
      (transposeMoves (x.shape.get 1) (x.shape.get 0) x.shape.batch).sidx gy.data
      (transposeMoves (x.shape.get 1) (x.shape.get 0) x.shape.batch).count raw') (t := j) (by rw [cI]; exact hj)
    rw [(hI j hj).1, (hI j hj).2] at hb1
    rw [hb1]
    -- T(gy) at j = gy at τ j
    have hcT : (transposeMoves (x.shape.get 0) (x.shape.get 1) x.shape.batch).didx j <
        (transposeMoves (x.shape.get 1) (x.shape.get 0) x.shape.batch).count := by
      have := transpose_didx_lt hj
      simp only [transposeMoves] at this ⊢
      calc _ < x.shape.get 0 * x.shape.get 1 * x.shape.batch := this
        _ = _ := by ring
    have hT := scatterSet_of_once hwT gy.data raw' hcT
    rw [transpose_didx_invol h1 h2] at hT
    rw [hT]
    have hcF : j < (transposeMoves (x.shape.get 0) (x.shape.get 1) x.shape.batch).count := by
      simp only [transposeMoves]; calc j < _ := hj
                                    _ = _ := by ring
    have hFw := scatterSet_of_once hwF x.data raw hcF
    rw [hFw]
    rfl

/-- max_bw (and min_bw, which is the same code): with `am i` the first position
along the axis where `x` equals `y[i]` — the position of the extremum when
`y = max_fw x`, and the only one under the hypothesis that the extremum is
attained once — the backward kernel is the transpose of the selection
`dx ↦ (i ↦ dx[off i (am i)])`, which is the derivative of `max` along the axis at
such an `x`. -/
theorem Adjoint.max [DecidableEq R] {x y gy g : Tensor R} {dim : Nat} (hx : WF x.shape) (hy : WF y.shape)
    (hgyw : WF gy.shape) (hb : maxBw x y gy dim (zeroT x.shape) = .ok g) (am : Nat → Nat)
    (ham : ∀ i, i < y.shape.size → am i < x.shape.get dim ∧
      x.data (axisOff (lo x.shape dim) (lo x.shape dim * x.shape.get dim) i (am i)) = y.data i ∧
      ∀ j, j < am i → x.data (axisOff (lo x.shape dim) (lo x.shape dim * x.shape.get dim) i j) ≠ y.data i)
    (dx : Nat → R) :
    ∑ o ∈ range x.shape.size, g.data o * dx o =
      ∑ i ∈ range y.shape.size, gy.data i * dx (axisOff (lo x.shape dim) (lo x.shape dim * x.shape.get dim) i (am i)) := by
  unfold maxBw at hb
  cases hc1 : checkDevice x with
  | error e => simp [hc1, bind, Except.bind] at hb
  | ok u1 =>
  cases hc2 : checkDevice y with
  | error e => simp [hc1, hc2, bind, Except.bind] at hb
  | ok u2 =>
  cases hc3 : checkDevice gy with
  | error e => simp [hc1, hc2, hc3, bind, Except.bind] at hb
  | ok u3 =>
  cases hc4 : checkDevice (zeroT (R := R) x.shape) with
  | error e => simp [hc1, hc2, hc3, hc4, bind, Except.bind] at hb
  | ok u4 =>
  cases hF : Front.maxBw x.shape y.shape gy.shape (zeroT (R := R) x.shape).shape dim with
  | error e => simp [hc1, hc2, hc3, hc4, hF, bind, Except.bind] at hb
  | ok r =>
  simp only [hc1, hc2, hc3, hc4, hF, bind, Except.bind] at hb
  split at hb
  · cases hb
  simp only [pure, Except.pure, Except.ok.injEq] at hb
  subst hb
  obtain ⟨_, _, rfl, hxs, _, hys, _⟩ := Front.maxBw_plan hx hy hgyw hx hF
  simp only [zeroT]
  have hbnd := axisReduce_bounds (L := lo x.shape dim) (n := x.shape.get dim) (R := up x.shape dim * x.shape.batch) (lo_pos hx dim)
  rw [hxs, select_adjoint _ _ _ _ _ _ hbnd, hys]
  apply sum_congr rfl
  intro i hi
  have hi' : i < y.shape.size := by rw [hys]; exact mem_range.mp hi
  obtain ⟨h1, h2, h3⟩ := ham i hi'
  simp only [axisReduce]
  rw [firstEq_eq_some _ _ _ _ _ h1 h2 h3]

theorem Adjoint.min [DecidableEq R] {x y gy g : Tensor R} {dim : Nat} (hx : WF x.shape) (hy : WF y.shape)
    (hgyw : WF gy.shape) (hb : minBw x y gy dim (zeroT x.shape) = .ok g) (am : Nat → Nat)
    (ham : ∀ i, i < y.shape.size → am i < x.shape.get dim ∧
      x.data (axisOff (lo x.shape dim) (lo x.shape dim * x.shape.get dim) i (am i)) = y.data i ∧
      ∀ j, j < am i → x.data (axisOff (lo x.shape dim) (lo x.shape dim * x.shape.get dim) i j) ≠ y.data i)
    (dx : Nat → R) :
    ∑ o ∈ range x.shape.size, g.data o * dx o =
      ∑ i ∈ range y.shape.size, gy.data i * dx (axisOff (lo x.shape dim) (lo x.shape dim * x.shape.get dim) i (am i)) :=
  Adjoint.max hx hy hgyw hb am ham dx

/-- permute_dims_bw is the transpose of permute_dims_fw -/
theorem Adjoint.permute_dims {x y gy g : Tensor R} {perm : List Nat} {raw : Nat → R} (hx : WF x.shape)
    (hgyw : WF gy.shape) (hf : permuteFw x perm raw = .ok y)
    (hb : permuteBw x y gy perm (zeroT x.shape) = .ok g) :
    ∑ j ∈ range x.shape.size, g.data j * x.data j = ∑ i ∈ range y.shape.size, gy.data i * y.data i := by
  unfold permuteFw at hf
  obtain ⟨_, ys, m, hF, _, _, rfl⟩ := fw_inv hf
  unfold permuteBw at hb
  cases hc1 : checkDevice x with
  | error e => simp [hc1, bind, Except.bind] at hb
  | ok u1 =>
  cases hc2 : checkDevice (⟨ys, scatterSet m.didx m.sidx x.data m.count raw, .here⟩ : Tensor R) with
  | error e => simp [hc1, hc2, bind, Except.bind] at hb
  | ok u2 =>
  cases hc3 : checkDevice gy with
  | error e => simp [hc1, hc2, hc3, bind, Except.bind] at hb
  | ok u3 =>
  cases hc4 : checkDevice (zeroT (R := R) x.shape) with
  | error e => simp [hc1, hc2, hc3, hc4, bind, Except.bind] at hb
  | ok u4 =>
  cases hB : Front.permuteBw x.shape ys gy.shape (zeroT (R := R) x.shape).shape perm with
  | error e => simp [hc1, hc2, hc3, hc4, hB, bind, Except.bind] at hb
  | ok mb =>
  simp only [hc1, hc2, hc3, hc4, hB, bind, Except.bind] at hb
  obtain ⟨_, rfl⟩ := runAdd_inv hb
  have hys : WF ys := (permuteFw_plan hx hF).2.2.1
  obtain ⟨m', hF', rfl, _, _⟩ := permuteBw_plan hx hys hgyw hx hB
  have : m' = m := by
    have := hF.symm.trans hF'
    simp only [Except.ok.injEq, Prod.mk.injEq, true_and] at this
    exact this.symm
  subst this
  obtain ⟨hb1, hw, ho⟩ := C11.Move.Kernel.permute_dims_fw_in_bounds hx hF
  exact adjoint_of_same_idx m' m'.swap gy.data x.data raw x.shape.size ys.size rfl (fun _ _ => rfl) (fun _ _ => rfl) hb1 hw ho

end Primitiv.C01.Move
