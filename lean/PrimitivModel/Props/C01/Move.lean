import PrimitivModel.Model.KernelsMove
namespace Primitiv.C01.Move
end Primitiv.C01.Move
