import PrimitivModel.Lemmas.MoveSpec
import PrimitivModel.Lemmas.Adjoint
/-
C01 (kernel level) — each backward kernel of the family is the transpose of its
forward kernel: for every upstream gradient `gy`, every `x` and a zero initial
`gx`,   Σ_j (bw gy 0)_j * x_j  =  Σ_i gy_i * (fw x)_i   over any commutative
semiring (so over ℝ), for all well-formed shapes, axis arguments and ids the
front-ends accept.  Together with "bw ADDs into gx" (`scatterAdd_apply`: the
result is `gx + bw gy 0`) this is the chain rule for a linear map.
Proof pattern: the generic lemma `adjoint_of_same_idx` + "fw and bw visit the
same (output, input) index pairs" per kernel.
-/
namespace Primitiv.C01.Move
open Primitiv Primitiv.Move Primitiv.MoveShape Primitiv.View3 Finset

variable {R : Type} [CommSemiring R]

def zeroT (s : Shape) : Tensor R := ⟨s, fun _ => 0, .here⟩

/-- pick_bw is the transpose of pick_fw -/
theorem Adjoint.pick {x y gy g : Tensor R} {ids : List Nat} {dim : Nat} {raw : Nat → R} (hx : WF x.shape)
    (hlen : ids.length < W) (hf : pickFw x ids dim raw = .ok y)
    (hb : pickBw gy ids dim (zeroT x.shape) = .ok g) (hgy : gy.shape = y.shape) :
    ∑ j ∈ range x.shape.size, g.data j * x.data j = ∑ i ∈ range y.shape.size, gy.data i * y.data i := by
  unfold pickFw at hf
  unfold pickBw at hb
  cases hc : checkDevice x with
  | error e => simp [hc, bind, Except.bind] at hf
  | ok u =>
  cases hF : Front.pickFw x.shape ids dim with
  | error e => simp [hc, hF, bind, Except.bind] at hf
  | ok p =>
  obtain ⟨ys, m⟩ := p
  simp only [hc, hF, bind, Except.bind] at hf
  split at hf
  · cases hf
  obtain ⟨hfb, hall, rfl⟩ := runSet_inv hf
  cases hc1 : checkDevice gy with
  | error e => simp [hc1, bind, Except.bind] at hb
  | ok u1 =>
  cases hc2 : checkDevice (zeroT (R := R) x.shape) with
  | error e => simp [hc1, hc2, bind, Except.bind] at hb
  | ok u2 =>
  cases hB : Front.pickBw gy.shape (zeroT (R := R) x.shape).shape ids dim with
  | error e => simp [hc1, hc2, hB, bind, Except.bind] at hb
  | ok mb =>
  simp only [hc1, hc2, hB, bind, Except.bind] at hb
  split at hb
  · cases hb
  obtain ⟨_, rfl⟩ := runAdd_inv hb
  obtain ⟨_, _, _, _, hys, _, _, hm, _, hysz⟩ := Front.pickFw_plan hx hlen hF
  have hgyw : WF gy.shape := by rw [hgy]; exact hys
  obtain ⟨_, _, _, _, _, _, hmb, _, _⟩ := Front.pickBw_plan hgyw hx hlen hB
  have hsw : mb = m.swap := by rw [hmb, hm]
  subst hsw
  have hon : m.WritesOnce := by
    rw [hm]; exact (writesAll_of_id (size := ys.size) (fun _ => rfl) (by rw [pick_count, hysz])).2
  exact adjoint_of_same_idx m m.swap gy.data x.data raw x.shape.size ys.size rfl (fun _ _ => rfl) (fun _ _ => rfl) hfb hall hon

end Primitiv.C01.Move
