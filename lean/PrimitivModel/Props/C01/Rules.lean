import PrimitivModel.Model.OpRules
import PrimitivModel.Gen.OpTable
/-
C01 — every operator's BACKWARD rule is the one that belongs to its FORWARD rule.

Statements over the WHOLE generated operator table (`Gen/OpTable.lean`,
rewritten from the working tree on every run), both settings of
PRIMITIV_USE_CACHE, decided by kernel evaluation of the checking functions of
`Model/OpRules.lean`.  That a backward kernel `k_bw` computes the derivative of
`k_fw` is the subject of Props/C01/{Move,Arith}.lean; here: the operator calls
the right one, with the right operands in the right order, and accumulates.
-/
namespace Primitiv.C01.Rules
open Primitiv.OpTable Primitiv.Gen.OpTable

set_option maxRecDepth 100000

/-- For every operator whose FORWARD is a single device kernel `k_fw` (directly or through
`functions::k<Tensor>` / the operator templates), BACKWARD is exactly
`gy[0]->device().k_bw(x…, y, gy, attributes as FORWARD passed them, gx…)` — `k_bw(gy, attributes, gx)`
for the data movement kernels — with `k_bw` the backward kernel paired with `k_fw`. -/
theorem backward_matches_forward : table.backwardMatchesForward = true := by decide +kernel

theorem backward_matches_forward_cache : tableCache.backwardMatchesForward = true := by decide +kernel

/-- The operators whose BACKWARD is written with functions have the expected form
(Sum ↦ broadcast, Broadcast ↦ sum, Reshape / Flatten ↦ reshape to the argument's shape,
Concat / BatchConcat ↦ slices at a running offset, Split / BatchSplit ↦ slice_bw at `i * span`,
LogSumExp ↦ exp(x − y)·gy, the two cross entropies, the scalar operators, Copy, Positive,
Negative, BatchSum), modulo the names of locals. -/
theorem composite_backward_forms :
    table.compositeBackwardForms false = true ∧ tableCache.compositeBackwardForms true = true := by decide +kernel

/-- Exactly Input, Constant, Identity, the four random sources and StopGradient have an empty
BACKWARD; Parameter's is `param_.gradient() += *gy[0]`. -/
theorem nop_backward_exact : table.nopBackwardExact = true ∧ tableCache.nopBackwardExact = true := by decide +kernel

/-- No BACKWARD body assigns a gradient: every write to `gx` accumulates. -/
theorem gradients_accumulate : table.gradientsAccumulate = true ∧ tableCache.gradientsAccumulate = true := by decide +kernel

/-- the three classes cover the table: 72 operators = 8 sources + Parameter + 23 composite + 40 kernel -/
example : table.kernelBackwardOps.length = 40 ∧ compositeBackwardOps.length = 23 ∧ table.ops.length = 72 := by decide +kernel

end Primitiv.C01.Rules
