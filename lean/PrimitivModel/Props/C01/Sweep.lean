import PrimitivModel.Model.Graph
import PrimitivModel.Lemmas.SweepAdjoint
/-!
C01, theorem T1: the reverse sweep of `Graph::backward` is the transpose of forward mode.

The statement is about the executable model `Model/Graph.lean` (the one the driver `drv_graph` runs
against the real `primitiv::Graph`), instantiated at tensors `Vec R = Nat → R` over an arbitrary
commutative ring `R` with the pointwise operations `TVec R`
(`zeros _ = 0`, `ones _ = 1`, `add = +`); `dot n a b = Σ_{i<n} a i * b i`.

Every topology is an instance: fan-out, the same node several times among the arguments of one
operator (sequential accumulation), multi-output operators of which only some outputs are used
(zero-fill of the other outputs' gradients), operators created after the target, operators that are
not ancestors of the target (skipped by the `enabled` test — their contribution is `⟪0, tangent⟫`,
no appeal to `bwd 0 = 0` is made), Parameter operators of the same parameter occurring several
times, random sources (tangent 0 by their law).

Proof (Lemmas/SweepAdjoint.lean): the potential
`Φ_k = Σ_{nodes n of operators < k} ⟪grad n or 0, t n⟫ + Σ_p ⟪pgrad p, δ p⟫`
is preserved by every iteration `backwardStep · k` (`adjoint_step`): zero-filling adds `⟪0, ·⟫`, the
rule's contributions add exactly what invalidating the operator's own gradients removes (local
law), a Parameter operator moves `⟪gy, δ p⟫` from the first sum to the second.
-/
namespace Primitiv.Graph
open Finset

variable {R : Type} [CommRing R]

/-- **Reverse sweep = transpose of forward mode.**
For every state `s` of a graph and its parameters (any parameter gradients `g0 = s.params.grad`),
every target `a`, every family of parameter directions `δ` and every assignment of tangents `t`
to the nodes: if
* the graph is well-formed: arguments refer to smaller operator ids and to existing nodes, the target
  exists, every ancestor of the target is evaluated (argument values available; return values
  memoised unless it is a Parameter operator), all node gradients are invalid;
* (i) an ancestor that is a Parameter operator of `p` has one return value, of size `psize p`,
  with tangent `δ p` (and `p < P`);
* (ii) every other ancestor satisfies the local adjoint law at its stored argument and return
  values: for all return gradients `gys`,
  `Σ_i ⟪contribution_i, t arg_i⟫ = Σ_k ⟪gys_k, t ret_k⟫` where the contributions are
  `sem.bwd xs ys gys` (a `none` contribution counts as 0; a random source contributes nothing);
then `backward` succeeds, leaves values and all other parts of the state unchanged
(`SameFrame`), leaves all node gradients invalid, and
`Σ_{p<P} ⟪grad' p − g0 p, δ p⟫ = Σ_{i<size a} t a i` —
the directional derivative of the sum of all elements of the target. -/
theorem backward_adjoint (s : State (Vec R)) (a : Addr) (P : Nat) (psize : Nat → Nat)
    (δ : Nat → Vec R) (t : Addr → Vec R)
    (hargsBelow : ArgsBelow s)
    (hargsValid : ∀ (i : Nat) (o : OpInfo (Vec R)), s.ops[i]? = some o → ∀ b ∈ o.args, s.validAddr b = true)
    (hgradsInvalid : AllGradsInvalid s)
    (htarget : s.validAddr a = true)
    (hevaluated : ∀ (i : Nat) (o : OpInfo (Vec R)), Anc s.argsOf i a.oid → s.ops[i]? = some o →
      (∀ b ∈ o.args, (s.valueOf? b).isSome = true) ∧
      ((∀ p, o.kind ≠ .param p) → ∀ n ∈ o.rets, n.value.isSome = true))
    (hparam : ∀ (i : Nat) (o : OpInfo (Vec R)) (p : Nat), Anc s.argsOf i a.oid → s.ops[i]? = some o →
      o.kind = .param p → p < P ∧ o.rets.map (·.size) = [psize p] ∧ t ⟨i, 0⟩ = δ p)
    (hlaw : ∀ (i : Nat) (o : OpInfo (Vec R)), Anc s.argsOf i a.oid → s.ops[i]? = some o →
      (∀ p, o.kind ≠ .param p) → (∀ n ∈ o.rets, n.value.isSome = true) →
      ∀ xs, o.args.mapM s.valueOf? = some xs → ∀ gys : List (Vec R), gys.length = o.rets.length →
        contribSum s.sizeAt t (o.args.zip (kindContribs o.kind xs o.ys gys))
          = retSum t i (o.rets.map (·.size)) gys) :
    ∃ s', backward (TVec R) s a = (s', .ok ()) ∧ SameFrame s s' ∧ AllGradsInvalid s' ∧
      ∑ p ∈ range P, dot (psize p) (fun i => s'.params.grad p i - s.params.grad p i) (δ p)
        = ∑ i ∈ range (s.sizeAt a), t a i :=
  backward_adjoint_of_hyps s a P psize δ t
    ⟨hargsBelow, hargsValid, hgradsInvalid, htarget, hevaluated, hparam, hlaw⟩

/-! ### the hypotheses are satisfiable: `y = x * x`, one parameter `x = 3`, `R = ℤ` -/

/-- elementwise product with its backward rule `gx += gy * y`, `gy' += gy * x` -/
def mulVec : OpSem (Vec Int) where
  nret := 1
  fwd := fun xs => match xs with | [x, y] => some [fun i => x i * y i] | _ => none
  bwd := fun xs _ gys => match xs, gys with
    | [x, y], [g] => [some fun i => g i * y i, some fun i => g i * x i]
    | _, _ => []

/-- operator 0: Parameter 0 (value 3, prior gradient 10); operator 1: `n0 * n0`, evaluated (9) -/
def exSquareVec : State (Vec Int) where
  ops := [ { kind := .param 0, args := [], rets := [{ size := 1 }] },
           { kind := .op mulVec, args := [⟨0, 0⟩, ⟨0, 0⟩], rets := [{ size := 1, value := some fun _ => 9 }] } ]
  params := { value := fun _ _ => 3, grad := fun _ _ => 10 }
  sample := fun _ _ _ => 0

/-- direction `δ x = 1`, tangents `t x = 1`, `t y = 2·3·1 = 6` -/
def exTangent : Addr → Vec Int := fun b => if b.oid = 0 then fun _ => 1 else fun _ => 6

example : AdjointHyps exSquareVec ⟨1, 0⟩ 1 (fun _ => 1) (fun _ _ => 1) exTangent where
  argsBelow := argsBelow_of_B (by decide)
  argsValid := by
    intro i o ho b hb
    match i, ho with
    | 0, ho => simp [exSquareVec] at ho; subst ho; simp at hb
    | 1, ho =>
      simp [exSquareVec] at ho; subst ho
      simp at hb; subst hb; rfl
    | i + 2, ho => simp [exSquareVec] at ho
  gradsInvalid := allGradsInvalid_of_B (by decide)
  target := by rfl
  evaluated := by
    intro i o _ ho
    match i, ho with
    | 0, ho => simp [exSquareVec] at ho; subst ho; simp
    | 1, ho =>
      simp [exSquareVec] at ho; subst ho
      refine ⟨fun b hb => ?_, fun _ n hn => ?_⟩
      · simp at hb; subst hb; rfl
      · simp at hn; subst hn; rfl
    | i + 2, ho => simp [exSquareVec] at ho
  param := by
    intro i o p _ ho hk
    match i, ho with
    | 0, ho =>
      simp [exSquareVec] at ho; subst ho
      simp at hk; subst hk
      exact ⟨by decide, rfl, rfl⟩
    | 1, ho => simp [exSquareVec] at ho; subst ho; simp at hk
    | i + 2, ho => simp [exSquareVec] at ho
  law := by
    intro i o _ ho hnp _ xs hxs gys hlen
    match i, ho with
    | 0, ho => simp [exSquareVec] at ho; subst ho; exact absurd rfl (hnp 0)
    | 1, ho =>
      simp [exSquareVec] at ho; subst ho
      have hx : xs = [fun _ => 3, fun _ => 3] := by
        simp [List.mapM_cons, State.valueOf?, exSquareVec] at hxs
        exact hxs.symm
      subst hx
      match gys, hlen with
      | [g], _ =>
        simp [kindContribs, mulVec, contribSum, retSum, dot, exTangent, State.sizeAt, shapeSize,
          State.shape, exSquareVec]
        ring
    | i + 2, ho => simp [exSquareVec] at ho

/-- and the conclusion on this instance: the gradient grows by `dy/dx · δ = 6` -/
example : (backward (TVec Int) exSquareVec ⟨1, 0⟩).1.params.grad 0 0 - exSquareVec.params.grad 0 0 = 6 := by
  decide

end Primitiv.Graph
