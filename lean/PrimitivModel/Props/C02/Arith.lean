import PrimitivModel.Analysis.Scalar
import Mathlib.Algebra.Order.BigOperators.Group.List
import PrimitivModel.Lemmas.ArithIndex
import PrimitivModel.Props.C01.Arith
/-
C02 (forward values equal the documented function), arithmetic kernels.

* `matmul_spec`: the loop nest leaves `Σ_j a[i,j]·b[j,k]` in cell (i,k) of sample `bn`, for every batch
  pattern (a zero stride shares the operand between the samples).
* `conv2d_spec`: cell (bn, y_c, y_x, y_y) holds the sum over (x_c, w_x, w_y) of
  `xpad[y·stride − padding + w·dilation] · w[K−1−w]` — the kernel is read flipped (true convolution),
  positions outside x contribute nothing (zero padding), stride and dilation as documented.
* `max_pool2d_spec`: every cell holds the maximum of `lowest()` and of the window cells inside x
  (padding counts as −∞; a window entirely inside the padding yields `lowest()`).
* stability over ℝ: `softplus_branches`, `sigmoid_tanh_form`, `logsumexp_fold` — the stabilised forms equal
  the definitions and every `exp` argument is ≤ 0.
* `convPos32_wrap_witness`: the 32-bit window position of the tree pinned at the start is wrong for a
  padding close to 2^32 (patches/fix-conv-pool-window-wrap).
-/
namespace Primitiv.C02.Arith
open Primitiv Primitiv.Arith Primitiv.Gen.Elementwise Primitiv.Analysis Finset

/-! ### matmul -/
section matmul
variable {α : Type} [CommRing α]

theorem matmul_outer_nodup (D : MatDims) :
    ((range3 D.bs D.d3 D.d1).map fun s => s.1 * (D.d3 * D.d1) + (s.2.1 * D.d1 + s.2.2)).Nodup := by
  rw [range3_addr]; exact List.nodup_range

/-- cell (i, k) of sample `bn` of `matmul_fw(a, b)` is `Σ_j a[i,j]·b[j,k]` (column-major: `a[i + j·d1]`,
`b[j + k·d2]`), with `skipA, skipB ∈ {0, full}` selecting the batch pattern -/
theorem matmul_spec (D : MatDims) (a b : Buf α) (junk : α) {bn k i : Nat}
    (hbn : bn < D.bs) (hk : k < D.d3) (hi : i < D.d1) :
    matmulFw 0 D a b junk (bn * (D.d3 * D.d1) + (k * D.d1 + i))
      = ∑ j ∈ range D.d2, a (bn * D.skipA + (j * D.d1 + i)) * b (bn * D.skipB + (k * D.d2 + j)) := by
  have hlt : bn * (D.d3 * D.d1) + (k * D.d1 + i) < D.bs * (D.d3 * D.d1) := idx_lt hbn (idx_lt hk hi)
  unfold matmulFw
  rw [if_pos hlt, scatterAddAt_eq, zero_add]
  have hg := scatter_group_sum (α := α) (range3 D.bs D.d3 D.d1)
    (fun s => (List.range D.d2).map fun j => (⟨s.1, s.2.1, s.2.2, j⟩ : MatIt))
    (fun s => s.1 * (D.d3 * D.d1) + (s.2.1 * D.d1 + s.2.2)) D.ya (fun t => a (D.aa t) * b (D.ba t))
    (by
      intro s _ t ht
      obtain ⟨j, _, rfl⟩ := List.mem_map.mp ht
      rfl)
    (matmul_outer_nodup D) (s0 := (bn, k, i)) (mem_range3.mpr ⟨hbn, hk, hi⟩)
  have hits : D.its = (range3 D.bs D.d3 D.d1).flatMap
      fun s => (List.range D.d2).map fun j => (⟨s.1, s.2.1, s.2.2, j⟩ : MatIt) := rfl
  rw [hits]
  refine hg.trans ?_
  rw [List.map_map, ← list_sum_map_range]
  rfl
example : (0 : Nat) < 2 ∧ (1 : Nat) < 3 := by decide

end matmul

/-! ### conv2d -/
section conv2d
variable {α : Type} [CommRing α]

/-- the flat address of an output cell -/
def convCell (D : ConvDims) (s : Nat × Nat × Nat × Nat) : Nat :=
  s.1 * D.yShift + ((s.2.1 * D.yw + s.2.2.1) * D.yh + s.2.2.2)

theorem conv_outer_nodup (D : ConvDims) (hY : D.yShift = D.yc * (D.yw * D.yh)) :
    (D.outer.map (convCell D)).Nodup := by
  have h : D.outer.map (convCell D)
      = (range4 D.bs D.yc D.yw D.yh).map fun t =>
          t.1 * (D.yc * (D.yw * D.yh)) + (t.2.1 * (D.yw * D.yh) + (t.2.2.1 * D.yh + t.2.2.2)) := by
    apply List.map_congr_left
    intro s _
    simp only [convCell, hY]
    ring
  rw [h, range4_addr]
  exact List.nodup_range

/-- `conv2d_fw(x, w)`: cell (bn, y_c, y_x, y_y) is the sum over the window cells (x_c, w_x, w_y) whose position
`y·stride − padding + w·dilation` lies inside x of `x[pos] · w[W−1−w_x, H−1−w_y]`. -/
theorem conv2d_spec (D : ConvDims) (x w : Buf α) (junk : α) (hY : D.yShift = D.yc * (D.yw * D.yh))
    {s : Nat × Nat × Nat × Nat} (hs : s ∈ D.outer) :
    conv2dFw 0 D x w junk (convCell D s)
      = ((range3 D.xc D.ww D.wh).map fun r =>
          let t : ConvIt := ⟨s.1, s.2.1, s.2.2.1, s.2.2.2, r.1, r.2.1, r.2.2⟩
          if D.valid t then x (D.xa t) * w (D.wa t) else 0).sum := by
  have hs' := mem_range4.mp hs
  have hlt : convCell D s < D.bs * D.yShift := by
    unfold convCell
    rw [hY]
    exact idx_lt hs'.1 (by
      have := idx_lt (idx_lt hs'.2.1 hs'.2.2.1) hs'.2.2.2
      calc (s.2.1 * D.yw + s.2.2.1) * D.yh + s.2.2.2 < D.yc * D.yw * D.yh := this
        _ = D.yc * (D.yw * D.yh) := by ring)
  unfold conv2dFw
  rw [if_pos hlt, scatterAddAt_eq, zero_add]
  have hits : D.its = D.outer.flatMap fun s => (D.inner s).filter D.valid := by
    unfold ConvDims.its ConvDims.allIts
    rw [List.filter_flatMap]
  rw [hits]
  have hg := scatter_group_sum (α := α) D.outer (fun s => (D.inner s).filter D.valid) (convCell D) D.ya
    (fun t => x (D.xa t) * w (D.wa t))
    (by
      intro u _ t ht
      obtain ⟨r, _, rfl⟩ := List.mem_map.mp (List.mem_filter.mp ht).1
      rfl)
    (conv_outer_nodup D hY) hs
  refine hg.trans ?_
  rw [list_sum_filter_map_bool]
  unfold ConvDims.inner
  rw [List.map_map]
  rfl

end conv2d

/-- The window position as the tree pinned at the start computed it is wrong for a padding close to 2^32:
`-padding + 0·stride + 0·dilation` with padding = 2^32 − 1 is the in-range position 1, the true position is
−(2^32 − 1), deep inside the padding.  (Found by the boundary stream of the correspondence run.) -/
theorem convPos32_wrap_witness :
    convPos32 4294967295 0 4294967295 0 1 = 1 ∧ convPos 4294967295 0 4294967295 0 1 = -4294967295 := by
  decide

/-- where the two computations agree: every padding below 2^31 with positions below 2^31 -/
example : convPos32 2 3 2 1 1 = convPos 2 3 2 1 1 := by decide

section conv2d_textbook
variable {α : Type} [CommRing α]

/-- the iteration of output cell `s` at input channel `c` and window cell `(wx, wy)` -/
def convIt (s : Nat × Nat × Nat × Nat) (c wx wy : Nat) : ConvIt := ⟨s.1, s.2.1, s.2.2.1, s.2.2.2, c, wx, wy⟩

/-- `conv2d_spec` in the textbook form (the window loops reflected, `k = K−1−w`):
`y[i0,i1,o] = Σ_{c,k1,k0} xpad[i0·s0 + (K0−1−k0)·d0 − p0, i1·s1 + (K1−1−k1)·d1 − p1, c] · w[k0,k1,c,o]` —
the kernel element `w[k]` meets the input at the mirrored offset `K−1−k`: a true convolution, not a correlation.
(`D.valid` is "the position lies inside x", `D.xa` its column-major address.) -/
theorem conv2d_spec_textbook (D : ConvDims) (x w : Buf α) (junk : α) (hY : D.yShift = D.yc * (D.yw * D.yh))
    {s : Nat × Nat × Nat × Nat} (hs : s ∈ D.outer) :
    conv2dFw 0 D x w junk (convCell D s)
      = ∑ c ∈ range D.xc, ∑ k1 ∈ range D.ww, ∑ k0 ∈ range D.wh,
          if D.valid (convIt s c (D.ww - 1 - k1) (D.wh - 1 - k0)) then
            x (D.xa (convIt s c (D.ww - 1 - k1) (D.wh - 1 - k0)))
              * w (s.1 * D.wShift + (((s.2.1 * D.xc + c) * D.ww + k1) * D.wh + k0))
          else 0 := by
  rw [conv2d_spec D x w junk hY hs, sum_range3]
  apply Finset.sum_congr rfl
  intro c _
  refine (Finset.sum_range_reflect _ _).symm.trans ?_
  apply Finset.sum_congr rfl
  intro k1 hk1
  refine (Finset.sum_range_reflect _ _).symm.trans ?_
  apply Finset.sum_congr rfl
  intro k0 hk0
  have e1 : D.ww - 1 - (D.ww - 1 - k1) = k1 := by have := Finset.mem_range.mp hk1; omega
  have e0 : D.wh - 1 - (D.wh - 1 - k0) = k0 := by have := Finset.mem_range.mp hk0; omega
  simp only [convIt, ConvDims.wa, e1, e0]
  rfl
example : (⟨3, 3, 1, 2, 2, 2, 2, 1, 1, 0, 0, 4, 0, 0, 1, 1, 1, 1⟩ : ConvDims).outer.length = 4 := by decide

end conv2d_textbook

/-! ### max_pool2d -/
section pool
variable {α : Type} [LinearOrder α]

theorem pool_outer_nodup (D : PoolDims) : (D.outer.map D.ya).Nodup := by
  have h : D.outer.map D.ya
      = (range3 D.rep D.yw D.yh).map fun t => t.1 * (D.yw * D.yh) + (t.2.1 * D.yh + t.2.2) := by
    apply List.map_congr_left
    intro t _
    simp only [PoolDims.ya, Nat.mul_comm D.yh D.yw]
  rw [h, range3_addr]
  exact List.nodup_range

/-- every output cell holds the running maximum of its window -/
theorem max_pool2d_cell (lowest : α) (D : PoolDims) (x : Buf α) (junk : α) {t : Nat × Nat × Nat} (ht : t ∈ D.outer) :
    maxPoolFw lowest D x junk (D.ya t)
      = windowMax lowest ((D.window t.2.1 t.2.2).map fun a => x (D.xbase t + a)) := by
  unfold maxPoolFw
  exact writeAt_of_nodup D.outer D.ya _ junk (pool_outer_nodup D) ht

/-- `max_pool2d_fw`: the cell is ≥ `lowest()` and ≥ every window cell inside x, and it is one of them
(all-padding window ⇒ `lowest()`) -/
theorem max_pool2d_spec (lowest : α) (D : PoolDims) (x : Buf α) (junk : α) {t : Nat × Nat × Nat} (ht : t ∈ D.outer) :
    let y := maxPoolFw lowest D x junk (D.ya t)
    lowest ≤ y ∧ (∀ a ∈ D.window t.2.1 t.2.2, x (D.xbase t + a) ≤ y) ∧
      (y = lowest ∨ ∃ a ∈ D.window t.2.1 t.2.2, y = x (D.xbase t + a)) := by
  intro y
  have hy : y = windowMax lowest ((D.window t.2.1 t.2.2).map fun a => x (D.xbase t + a)) :=
    max_pool2d_cell lowest D x junk ht
  obtain ⟨h1, h2, h3⟩ := windowMax_spec lowest ((D.window t.2.1 t.2.2).map fun a => x (D.xbase t + a))
  rw [hy]
  refine ⟨h1, fun a ha => h2 _ (List.mem_map.mpr ⟨a, ha, rfl⟩), ?_⟩
  rcases h3 with h3 | h3
  · exact Or.inl h3
  · obtain ⟨a, ha, hv⟩ := List.mem_map.mp h3
    exact Or.inr ⟨a, ha, hv.symm⟩

/-- a window that lies entirely in the padding yields `lowest()` -/
theorem max_pool2d_all_padding (lowest : α) (D : PoolDims) (x : Buf α) (junk : α) {t : Nat × Nat × Nat}
    (ht : t ∈ D.outer) (hw : D.window t.2.1 t.2.2 = []) : maxPoolFw lowest D x junk (D.ya t) = lowest := by
  rw [max_pool2d_cell lowest D x junk ht, hw]
  rfl
example : (⟨1, 1, 4, 4, 1, 2, 2, 2, 2, 1, 1⟩ : PoolDims).window 0 0 = [] := by decide

end pool

/-! ### stability over ℝ -/

/-- softplus: both branches equal `log(1 + e^x)`, and the branch that is taken calls `exp` with an argument ≤ 0 -/
theorem softplus_branches (x : ℝ) :
    naive_softplus_fw realFns x = Real.log (1 + Real.exp x) ∧
    eigen_softplus_fw realFns x = Real.log (1 + Real.exp x) ∧
    (x > 0 → naive_softplus_fw realFns x = x + Real.log (1 + Real.exp (-x)) ∧ -x ≤ 0) ∧
    (¬ x > 0 → naive_softplus_fw realFns x = Real.log (1 + Real.exp x) ∧ x ≤ 0) := by
  have h1 : naive_softplus_fw realFns x = softplus x := congrFun C01.Arith.Elementwise.softplus_fw_eq x
  refine ⟨h1, ?_, ?_, ?_⟩
  · rw [← C08.Arith.Elementwise.naive_eq_eigen_softplus_fw]; exact h1
  · intro hx
    refine ⟨?_, by linarith⟩
    simp only [naive_softplus_fw, lit_zero, lit_one, fns_exp, fns_log, if_pos hx]
  · intro hx
    exact ⟨h1, not_lt.mp hx⟩

/-- sigmoid: the library's `.5 + .5·tanh(.5·x)` is the logistic function `1 / (1 + e^{−x})`; no `exp` is evaluated
and the value stays in (0, 1) -/
theorem sigmoid_tanh_form (x : ℝ) :
    naive_sigmoid_fw realFns x = 1 / (1 + Real.exp (-x)) ∧ eigen_sigmoid_fw realFns x = 1 / (1 + Real.exp (-x)) ∧
    0 < naive_sigmoid_fw realFns x ∧ naive_sigmoid_fw realFns x < 1 := by
  have h1 : naive_sigmoid_fw realFns x = sigmoidT x := congrFun C01.Arith.Elementwise.sigmoid_fw_eq x
  have h2 := sigmoidT_eq_inv x
  have he : 0 < Real.exp (-x) := Real.exp_pos _
  refine ⟨h1.trans h2, ?_, ?_, ?_⟩
  · rw [← C08.Arith.Elementwise.naive_eq_eigen_sigmoid_fw]; exact h1.trans h2
  · rw [h1, h2]; positivity
  · rw [h1, h2, div_lt_one (by positivity)]; linarith

/-- one step of the pairwise recurrence adds one term under the logarithm -/
theorem lseStep_eq {S : ℝ} (hS : 0 < S) (a : ℝ) :
    lseStep realFns (Real.log S) a = Real.log (S + Real.exp a) := by
  have ha : 0 < Real.exp a := Real.exp_pos a
  unfold lseStep
  simp only [lit_one, fns_exp, fns_log]
  split_ifs
  · rw [Real.exp_sub, Real.exp_log hS]
    have : (1 + Real.exp a / S) = (S + Real.exp a) / S := by field_simp
    rw [this, Real.log_div (by positivity) hS.ne']
    ring
  · rw [Real.exp_sub, Real.exp_log hS]
    have : (1 + S / Real.exp a) = (S + Real.exp a) / Real.exp a := by field_simp; ring
    rw [this, Real.log_div (by positivity) ha.ne', Real.log_exp]
    ring

/-- in either branch of a step the argument of `exp` is ≤ 0 -/
theorem lseStep_exp_arg_nonpos (tmp arg : ℝ) : (tmp > arg → arg - tmp ≤ 0) ∧ (¬ tmp > arg → tmp - arg ≤ 0) :=
  ⟨fun h => by linarith, fun h => by linarith [not_lt.mp h]⟩

/-- logsumexp: the pairwise recurrence over the values along the axis is `log Σ_i e^{x_i}` -/
theorem logsumexp_fold (first : ℝ) (rest : List ℝ) :
    lseFold realFns first rest = Real.log (Real.exp first + (rest.map Real.exp).sum) := by
  unfold lseFold
  have key : ∀ (l : List ℝ) (S : ℝ), 0 < S →
      l.foldl (lseStep realFns) (Real.log S) = Real.log (S + (l.map Real.exp).sum) := by
    intro l
    induction l with
    | nil => intro S _; simp
    | cons a tl ih =>
      intro S hS
      rw [List.foldl_cons, lseStep_eq hS, ih _ (by positivity), List.map_cons, List.sum_cons, add_assoc]
  have := key rest (Real.exp first) (Real.exp_pos _)
  rwa [Real.log_exp] at this

/-- the running value (and the result) of the recurrence lies between `max x_i` and `max x_i + log n`
(`n = rest.length + 1` values; `m` is their maximum): no overflow for finite inputs -/
theorem logsumexp_bounds (first : ℝ) (rest : List ℝ) (m : ℝ) (hle : first ≤ m ∧ ∀ v ∈ rest, v ≤ m)
    (hmax : first = m ∨ m ∈ rest) :
    m ≤ lseFold realFns first rest ∧ lseFold realFns first rest ≤ m + Real.log (rest.length + 1) := by
  rw [logsumexp_fold]
  have hnn : ∀ v ∈ rest.map Real.exp, 0 ≤ v := by
    intro v hv
    obtain ⟨u, _, rfl⟩ := List.mem_map.mp hv
    exact (Real.exp_pos u).le
  have hsum_nn : 0 ≤ (rest.map Real.exp).sum := List.sum_nonneg hnn
  have hS : 0 < Real.exp first + (rest.map Real.exp).sum := by
    have := Real.exp_pos first
    linarith
  constructor
  · -- e^m is one of the terms
    have hm : Real.exp m ≤ Real.exp first + (rest.map Real.exp).sum := by
      rcases hmax with h | h
      · rw [h]; linarith
      · have := List.single_le_sum hnn (Real.exp m) (List.mem_map.mpr ⟨m, h, rfl⟩)
        have := Real.exp_pos first
        linarith
    calc m = Real.log (Real.exp m) := (Real.log_exp m).symm
      _ ≤ _ := Real.log_le_log (Real.exp_pos m) hm
  · -- every term is at most e^m
    have hub : (rest.map Real.exp).sum ≤ rest.length * Real.exp m := by
      have h := List.sum_le_card_nsmul (rest.map Real.exp) (Real.exp m) (by
        intro v hv
        obtain ⟨u, hu, rfl⟩ := List.mem_map.mp hv
        exact Real.exp_le_exp.mpr (hle.2 u hu))
      simpa using h
    have h1 : Real.exp first ≤ Real.exp m := Real.exp_le_exp.mpr hle.1
    have hle' : Real.exp first + (rest.map Real.exp).sum ≤ ((rest.length : ℝ) + 1) * Real.exp m := by
      nlinarith [Real.exp_pos m]
    have hn : (0 : ℝ) < (rest.length : ℝ) + 1 := by positivity
    calc Real.log (Real.exp first + (rest.map Real.exp).sum)
        ≤ Real.log (((rest.length : ℝ) + 1) * Real.exp m) := Real.log_le_log hS hle'
      _ = m + Real.log ((rest.length : ℝ) + 1) := by
        rw [Real.log_mul hn.ne' (Real.exp_pos m).ne', Real.log_exp]; ring
example : ((1 : ℝ) ≤ 2 ∧ ∀ v ∈ [(2 : ℝ), 0], v ≤ 2) ∧ ((1 : ℝ) = 2 ∨ (2 : ℝ) ∈ [(2 : ℝ), 0]) := by
  refine ⟨⟨by norm_num, ?_⟩, Or.inr (by simp)⟩
  intro v hv
  simp at hv
  rcases hv with rfl | rfl <;> norm_num

end Primitiv.C02.Arith
