import PrimitivModel.Model.KernelsArith
namespace Primitiv.C02.Arith
theorem placeholder : True := trivial
end Primitiv.C02.Arith
