import PrimitivModel.Model.KernelsMove
namespace Primitiv.C02.Move
end Primitiv.C02.Move
