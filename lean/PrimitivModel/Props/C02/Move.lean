import PrimitivModel.Lemmas.MoveSpec
import PrimitivModel.Lemmas.MovePermute
/-
C02 — forward values equal the documented function, for the data-movement,
reduction and selection kernels: for every well-formed operand shape (depth
0..8, size-1 axes anywhere), every axis argument the entry point accepts (an
axis at or beyond the depth is an axis of size 1; where the code rejects an
axis ≥ 8 is part of each statement: `dim < 8` appears as a consequence of
acceptance exactly for pick, sum, max, min, broadcast, concat, and not for
slice, flip, argmax, argmin) and every minibatch combination, the result of the
model's entry point, read through the column-major/minibatch-last layout
(`Spec.Move.at4`), is the specification of Spec/KernelsMove.lean applied to
the operands read the same way.  `L = lo s dim`, `U = up s dim` are the numbers
of elements below and above the axis.
-/
namespace Primitiv.C02.Move
open Primitiv Primitiv.Move Primitiv.MoveShape Primitiv.Spec.Move Primitiv.View3

theorem cb_lt {U B c b : Nat} (hc : c < U) (hb : b < B) : c + U * b < U * B := lt_mul_of_lt hc hb

/-- `slice(x, dim, lower, upper)`, any `dim` (also ≥ 8: then `lower = 0`, `upper = 1`) -/
theorem Fwd.slice_spec {α} {x y : Tensor α} {dim lower upper : Nat} {raw : Nat → α} (hx : WF x.shape)
    (h : sliceFw x dim lower upper raw = .ok y) :
    lower < upper ∧ upper ≤ x.shape.get dim ∧ y.shape.batch = x.shape.batch ∧
    (∀ i, y.shape.get i = if i = dim then upper - lower else x.shape.get i) ∧
    ∀ a k c b, a < lo x.shape dim → k < upper - lower → c < up x.shape dim → b < x.shape.batch →
      at4 (lo x.shape dim) (upper - lower) (up x.shape dim) y.data a k c b =
        slice (at4 (lo x.shape dim) (x.shape.get dim) (up x.shape dim) x.data) lower a k c b := by
  unfold sliceFw at h
  obtain ⟨_, ys, m, hF, _, _, rfl⟩ := fw_inv h
  obtain ⟨hl, hu, _, hb, hg, rfl, _, _⟩ := Front.sliceFw_plan hx hF
  refine ⟨hl, hu, hb, hg, ?_⟩
  intro a k c b ha hk hc hb'
  simp only [at4_eq, slice]
  rw [seqWrite_apply (fun _ => rfl), sliceFw_idx _ ha hk]
  rw [sliceFw_count]
  exact comp3_lt ha hk (cb_lt hc hb')

/-- the outcome of an entry point as a list of values, for the examples -/
def values {α} (r : R (Tensor α)) : Option (List Nat × Nat × List α) :=
  match r with
  | .ok y => some (y.shape.dims, y.shape.batch, (List.range y.shape.size).map y.data)
  | .error _ => none

example : values (sliceFw (α := Int) ⟨⟨[3, 2], 2, 6⟩, fun i => i, .here⟩ 0 1 3 (fun _ => 0)) =
    some ([2, 2], 2, [1, 2, 4, 5, 7, 8, 10, 11]) := by decide

/-- `flip(x, dim)`, any `dim` -/
theorem Fwd.flip_spec {α} {x y : Tensor α} {dim : Nat} {raw : Nat → α} (hx : WF x.shape)
    (h : flipFw x dim raw = .ok y) :
    y.shape = x.shape ∧
    ∀ a k c b, a < lo x.shape dim → k < x.shape.get dim → c < up x.shape dim → b < x.shape.batch →
      at4 (lo x.shape dim) (x.shape.get dim) (up x.shape dim) y.data a k c b =
        Spec.Move.flip (at4 (lo x.shape dim) (x.shape.get dim) (up x.shape dim) x.data) (x.shape.get dim) a k c b := by
  unfold flipFw at h
  obtain ⟨_, ys, m, hF, _, _, rfl⟩ := fw_inv h
  obtain ⟨rfl, rfl, _⟩ := Front.flipFw_plan hx hF
  refine ⟨rfl, ?_⟩
  intro a k c b ha hk hc hb'
  simp only [at4_eq, Spec.Move.flip]
  have ⟨h1, h2, h3⟩ := flipStep_spec (L := lo x.shape dim) (n := x.shape.get dim) (R := up x.shape dim * x.shape.batch) ha hk (cb_lt hc hb')
  have hw := (flip_writes (R := up x.shape dim * x.shape.batch) (hx.pos dim) (lo_pos hx dim)).2
  rw [← h2, scatterSet_of_once hw _ _ h1, h3]
  congr 2; omega

/-- `broadcast(x, dim, size)`; `dim ≥ 8` is rejected -/
theorem Fwd.broadcast_spec {α} {x y : Tensor α} {dim size : Nat} {raw : Nat → α} (hx : WF x.shape)
    (h : broadcastFw x dim size raw = .ok y) :
    dim < 8 ∧ x.shape.get dim = 1 ∧ 0 < size ∧ y.shape.batch = x.shape.batch ∧
    (∀ i, y.shape.get i = if i = dim then size else x.shape.get i) ∧
    ∀ a k c b, a < lo x.shape dim → k < size → c < up x.shape dim → b < x.shape.batch →
      at4 (lo x.shape dim) size (up x.shape dim) y.data a k c b =
        broadcast (at4 (lo x.shape dim) 1 (up x.shape dim) x.data) a k c b := by
  unfold broadcastFw at h
  obtain ⟨_, ys, m, hF, _, _, rfl⟩ := fw_inv h
  obtain ⟨h8, h1, hs, _, hb, hg, rfl, _, _⟩ := Front.broadcastFw_plan hx hF
  refine ⟨h8, h1, hs, hb, hg, ?_⟩
  intro a k c b ha hk hc hb'
  simp only [at4_eq, broadcast]
  have ⟨s1, s2, s3⟩ := broadcast_step (L := lo x.shape dim) (size := size) (R := up x.shape dim * x.shape.batch) ha hk (cb_lt hc hb')
  have hw := (broadcast_writes (R := up x.shape dim * x.shape.batch) hs (lo_pos hx dim)).2
  rw [← s2, scatterSet_of_once hw _ _ s1, s3, comp3_one]

/-- the common part of sum / max / min: the output shape, and element `(a, 0, c, b)`
of the result is the loop over the elements `(a, k, c, b)`, `k < n` -/
theorem reduce_view {α} {x y : Tensor α} {dim : Nat} {f : (Nat → α) → (Nat → Nat) → Nat → α}
    (hx : WF x.shape)
    (h : (do checkDevice x; let (ys, r) ← Front.reduceFw x.shape dim; runReduce r x ys f) = .ok y) :
    dim < 8 ∧ y.shape.batch = x.shape.batch ∧ (∀ i, y.shape.get i = if i = dim then 1 else x.shape.get i) ∧
    ∀ a c b, a < lo x.shape dim → c < up x.shape dim → b < x.shape.batch →
      at4 (lo x.shape dim) 1 (up x.shape dim) y.data a 0 c b =
        f x.data (fun k => comp3 (lo x.shape dim) (x.shape.get dim) a k (c + up x.shape dim * b)) (x.shape.get dim) := by
  cases hc : checkDevice x with
  | error e => simp [hc, bind, Except.bind] at h
  | ok u =>
    cases hF : Front.reduceFw x.shape dim with
    | error e => simp [hc, hF, bind, Except.bind] at h
    | ok p =>
      obtain ⟨ys, r⟩ := p
      simp only [hc, hF, bind, Except.bind] at h
      obtain ⟨_, _, rfl⟩ := runReduce_inv h
      obtain ⟨h8, _, hb, hg, rfl, _, _⟩ := Front.reduceFw_plan hx hF
      refine ⟨h8, hb, hg, ?_⟩
      intro a c b ha hc' hb'
      simp only [at4_eq, comp3_one, axisReduce]
      congr 1
      funext k
      rw [axisOff_eq_comp3]
      have hL := lo_pos hx dim
      rw [Nat.add_mul_mod_self_left, Nat.mod_eq_of_lt ha, Nat.add_mul_div_left _ _ hL, Nat.div_eq_of_lt ha]
      simp

/-- `sum(x, dim)`; `dim ≥ 8` is rejected -/
theorem Fwd.sum_spec {α} [Add α] [Zero α] {x y : Tensor α} {dim : Nat} (hx : WF x.shape) (h : sumFw x dim = .ok y) :
    dim < 8 ∧ y.shape.batch = x.shape.batch ∧ (∀ i, y.shape.get i = if i = dim then 1 else x.shape.get i) ∧
    ∀ a c b, a < lo x.shape dim → c < up x.shape dim → b < x.shape.batch →
      at4 (lo x.shape dim) 1 (up x.shape dim) y.data a 0 c b =
        sum (at4 (lo x.shape dim) (x.shape.get dim) (up x.shape dim) x.data) (x.shape.get dim) a 0 c b := by
  unfold sumFw at h
  obtain ⟨h8, hb, hg, hv⟩ := reduce_view hx h
  refine ⟨h8, hb, hg, fun a c b ha hc hb' => ?_⟩
  rw [hv a c b ha hc hb', sumLoop_eq_sumN]; rfl

/-- `max(x, dim)`; `dim ≥ 8` is rejected -/
theorem Fwd.max_spec {α} [LinearOrder α] {x y : Tensor α} {dim : Nat} (hx : WF x.shape) (h : maxFw x dim = .ok y) :
    dim < 8 ∧ y.shape.batch = x.shape.batch ∧ (∀ i, y.shape.get i = if i = dim then 1 else x.shape.get i) ∧
    ∀ a c b, a < lo x.shape dim → c < up x.shape dim → b < x.shape.batch →
      IsMax (fun k => at4 (lo x.shape dim) (x.shape.get dim) (up x.shape dim) x.data a k c b) (x.shape.get dim)
        (at4 (lo x.shape dim) 1 (up x.shape dim) y.data a 0 c b) := by
  unfold maxFw at h
  obtain ⟨h8, hb, hg, hv⟩ := reduce_view hx h
  refine ⟨h8, hb, hg, fun a c b ha hc hb' => ?_⟩
  rw [hv a c b ha hc hb']
  exact maxLoop_isMax x.data _ (hx.pos dim)

/-- `min(x, dim)`; `dim ≥ 8` is rejected -/
theorem Fwd.min_spec {α} [LinearOrder α] {x y : Tensor α} {dim : Nat} (hx : WF x.shape) (h : minFw x dim = .ok y) :
    dim < 8 ∧ y.shape.batch = x.shape.batch ∧ (∀ i, y.shape.get i = if i = dim then 1 else x.shape.get i) ∧
    ∀ a c b, a < lo x.shape dim → c < up x.shape dim → b < x.shape.batch →
      IsMin (fun k => at4 (lo x.shape dim) (x.shape.get dim) (up x.shape dim) x.data a k c b) (x.shape.get dim)
        (at4 (lo x.shape dim) 1 (up x.shape dim) y.data a 0 c b) := by
  unfold minFw at h
  obtain ⟨h8, hb, hg, hv⟩ := reduce_view hx h
  refine ⟨h8, hb, hg, fun a c b ha hc hb' => ?_⟩
  rw [hv a c b ha hc hb']
  exact minLoop_isMin x.data _ (hx.pos dim)

/-- `pick(x, ids, dim)`; `dim ≥ 8` is rejected; minibatch broadcasting between `x` and `ids` -/
theorem Fwd.pick_spec {α} {x y : Tensor α} {ids : List Nat} {dim : Nat} {raw : Nat → α} (hx : WF x.shape)
    (hlen : ids.length < W) (h : pickFw x ids dim raw = .ok y) :
    dim < 8 ∧ 0 < ids.length ∧ (x.shape.batch = ids.length ∨ x.shape.batch = 1 ∨ ids.length = 1) ∧
    (∀ i ∈ ids, i < x.shape.get dim) ∧ y.shape.batch = max x.shape.batch ids.length ∧
    (∀ i, y.shape.get i = if i = dim then 1 else x.shape.get i) ∧
    ∀ a c b, a < lo x.shape dim → c < up x.shape dim → b < max x.shape.batch ids.length →
      at4 (lo x.shape dim) 1 (up x.shape dim) y.data a 0 c b =
        pick (at4 (lo x.shape dim) (x.shape.get dim) (up x.shape dim) x.data) x.shape.batch ids a 0 c b := by
  unfold pickFw at h
  cases hc : checkDevice x with
  | error e => simp [hc, bind, Except.bind] at h
  | ok u =>
    cases hF : Front.pickFw x.shape ids dim with
    | error e => simp [hc, hF, bind, Except.bind] at h
    | ok p =>
      obtain ⟨ys, m⟩ := p
      simp only [hc, hF, bind, Except.bind] at h
      split at h
      · cases h
      · obtain ⟨_, _, rfl⟩ := runSet_inv h
        obtain ⟨h8, hpos, hcomp, hids, _, hb, hg, rfl, _, _⟩ := Front.pickFw_plan hx hlen hF
        refine ⟨h8, hpos, hcomp, hids, hb, hg, ?_⟩
        intro a c b ha hc' hb'
        simp only [at4, pick, share]
        have e : a + lo x.shape dim * (0 + 1 * (c + up x.shape dim * b)) = a + lo x.shape dim * (c + up x.shape dim * b) := by ring
        rw [e, seqWrite_apply (fun _ => rfl), pick_idx ids ha hc']
        · have hi : b * b2n (ids.length > 1) = if ids.length = 1 then 0 else b := by
            unfold b2n
            by_cases h1 : ids.length = 1
            · simp [h1]
            · have : ids.length > 1 := by omega
              simp [h1, this]
          rw [hi]
          unfold comp3
          by_cases h1 : x.shape.batch = 1
          · simp only [h1, if_true]; congr 1; ring
          · simp only [h1, if_false]; congr 1; ring
        · rw [pick_count]
          have := comp3_lt (lo := lo x.shape dim) (n := 1) (hi := up x.shape dim * max x.shape.batch ids.length) (k := 0) ha (by omega) (cb_lt hc' hb')
          unfold comp3 at this
          calc a + lo x.shape dim * (c + up x.shape dim * b) = a + lo x.shape dim * (0 + 1 * (c + up x.shape dim * b)) := by ring
            _ < lo x.shape dim * 1 * (up x.shape dim * max x.shape.batch ids.length) := this
            _ = lo x.shape dim * up x.shape dim * max x.shape.batch ids.length := by ring

example : values (pickFw (α := Int) ⟨⟨[3, 3], 1, 9⟩, fun i => i + 1, .here⟩ [1, 2] 1 (fun _ => 0)) =
    some ([3], 2, [4, 5, 6, 7, 8, 9]) := by decide

/-- `Tensor::argmax(dim)` for any `dim` (no axis is rejected): one position per
`(a, c, b)`, in column-major order, the first one where the maximum is attained. -/
theorem Fwd.argmax_spec {α} [LinearOrder α] {x : Tensor α} {dim : Nat} {l : List Nat} (hx : WF x.shape)
    (h : argmax x dim = .ok l) :
    l.length = lo x.shape dim * (up x.shape dim * x.shape.batch) ∧
    ∀ a c b, a < lo x.shape dim → c < up x.shape dim → b < x.shape.batch →
      IsArgmax (fun k => at4 (lo x.shape dim) (x.shape.get dim) (up x.shape dim) x.data a k c b) (x.shape.get dim)
        (l.getD (a + lo x.shape dim * (c + up x.shape dim * b)) 0) := by
  unfold argmax at h
  cases hc : checkDevice x with
  | error e => simp [hc, bind, Except.bind] at h
  | ok u =>
    simp only [hc, bind, Except.bind] at h
    unfold argList at h
    split at h
    · cases h
    · simp only [pure, Except.pure, Except.ok.injEq] at h
      subst h
      have ⟨hr, _⟩ := Front.argReduce_plan hx dim
      rw [hr]
      simp only [axisReduce, List.length_map, List.length_range, true_and]
      intro a c b ha hc' hb'
      have hlt : a + lo x.shape dim * (c + up x.shape dim * b) < lo x.shape dim * (up x.shape dim * x.shape.batch) :=
        lt_mul_of_lt ha (cb_lt hc' hb')
      have hL := lo_pos hx dim
      have hn := hx.pos dim
      rw [List.getD_eq_getElem?_getD, List.getElem?_map, List.getElem?_range hlt]
      simp only [Option.map_some, Option.getD_some]
      have := (argmaxLoop_spec x.data
        (axisOff (lo x.shape dim) (lo x.shape dim * x.shape.get dim) (a + lo x.shape dim * (c + up x.shape dim * b)))
        (x.shape.get dim - 1)).2
      rw [show x.shape.get dim - 1 + 1 = x.shape.get dim by omega] at this
      convert this using 2
      rename_i k
      rw [axisOff_eq_comp3, Nat.add_mul_mod_self_left, Nat.mod_eq_of_lt ha, Nat.add_mul_div_left _ _ hL, Nat.div_eq_of_lt ha]
      simp [at4_eq]

theorem Fwd.argmin_spec {α} [LinearOrder α] {x : Tensor α} {dim : Nat} {l : List Nat} (hx : WF x.shape)
    (h : argmin x dim = .ok l) :
    l.length = lo x.shape dim * (up x.shape dim * x.shape.batch) ∧
    ∀ a c b, a < lo x.shape dim → c < up x.shape dim → b < x.shape.batch →
      IsArgmin (fun k => at4 (lo x.shape dim) (x.shape.get dim) (up x.shape dim) x.data a k c b) (x.shape.get dim)
        (l.getD (a + lo x.shape dim * (c + up x.shape dim * b)) 0) := by
  unfold argmin at h
  cases hc : checkDevice x with
  | error e => simp [hc, bind, Except.bind] at h
  | ok u =>
    simp only [hc, bind, Except.bind] at h
    unfold argList at h
    split at h
    · cases h
    · simp only [pure, Except.pure, Except.ok.injEq] at h
      subst h
      have ⟨hr, _⟩ := Front.argReduce_plan hx dim
      rw [hr]
      simp only [axisReduce, List.length_map, List.length_range, true_and]
      intro a c b ha hc' hb'
      have hlt : a + lo x.shape dim * (c + up x.shape dim * b) < lo x.shape dim * (up x.shape dim * x.shape.batch) :=
        lt_mul_of_lt ha (cb_lt hc' hb')
      have hL := lo_pos hx dim
      have hn := hx.pos dim
      rw [List.getD_eq_getElem?_getD, List.getElem?_map, List.getElem?_range hlt]
      simp only [Option.map_some, Option.getD_some]
      have := (argminLoop_spec x.data
        (axisOff (lo x.shape dim) (lo x.shape dim * x.shape.get dim) (a + lo x.shape dim * (c + up x.shape dim * b)))
        (x.shape.get dim - 1)).2
      rw [show x.shape.get dim - 1 + 1 = x.shape.get dim by omega] at this
      convert this using 2
      rename_i k
      rw [axisOff_eq_comp3, Nat.add_mul_mod_self_left, Nat.mod_eq_of_lt ha, Nat.add_mul_div_left _ _ hL, Nat.div_eq_of_lt ha]
      simp [at4_eq]

example : argmax (α := Int) ⟨⟨[3, 2], 1, 6⟩, fun i => [1, 7, 3, 5, 4, 5].getD i 0, .here⟩ 0 = .ok [1, 0] := by decide

/-- `transpose(x)`: matrices only -/
theorem Fwd.transpose_spec {α} {x y : Tensor α} {raw : Nat → α} (hx : WF x.shape) (h : transposeFw x raw = .ok y) :
    x.shape.isMatrix = true ∧ y.shape.batch = x.shape.batch ∧ y.shape.get 0 = x.shape.get 1 ∧
    y.shape.get 1 = x.shape.get 0 ∧ (∀ i, 2 ≤ i → y.shape.get i = 1) ∧
    ∀ i j b, i < x.shape.get 0 → j < x.shape.get 1 → b < x.shape.batch →
      atM (x.shape.get 1) (x.shape.get 0) y.data j i b = transpose (atM (x.shape.get 0) (x.shape.get 1) x.data) j i b := by
  unfold transposeFw at h
  obtain ⟨_, ys, m, hF, _, _, rfl⟩ := fw_inv h
  obtain ⟨hm, _, hb, g0, g1, g2, rfl, _, _⟩ := Front.transposeFw_plan hx hF
  refine ⟨hm, hb, g0, g1, g2, ?_⟩
  intro i j b hi hj hb'
  simp only [atM, transpose]
  have hw := (transpose_writes (bs := x.shape.batch) (hx.pos 0) (hx.pos 1)).2
  rw [← transpose_didx x.shape.batch hi hj, scatterSet_of_once hw]
  · rfl
  · simp only [transposeMoves]
    have := comp3_lt (lo := x.shape.get 0) (n := x.shape.get 1) (hi := x.shape.batch) hi hj hb'
    unfold comp3 at this
    calc _ < x.shape.get 0 * x.shape.get 1 * x.shape.batch := this
      _ = x.shape.batch * (x.shape.get 0 * x.shape.get 1) := by ring

/-- `batch::pick(x, ids)` -/
theorem Fwd.batch_pick_spec {α} {x y : Tensor α} {ids : List Nat} {raw : Nat → α} (hx : WF x.shape)
    (hlen : ids.length < W) (h : batchPickFw x ids raw = .ok y) :
    0 < ids.length ∧ (∀ i ∈ ids, i < x.shape.batch) ∧ y.shape.batch = ids.length ∧ y.shape.dims = x.shape.dims ∧
    ∀ v b, v < x.shape.volume → b < ids.length →
      at2 x.shape.volume y.data v b = batchPick (at2 x.shape.volume x.data) ids v b := by
  unfold batchPickFw at h
  cases hc : checkDevice x with
  | error e => simp [hc, bind, Except.bind] at h
  | ok u =>
    cases hF : Front.batchPickFw x.shape ids with
    | error e => simp [hc, hF, bind, Except.bind] at h
    | ok p =>
      obtain ⟨ys, m⟩ := p
      simp only [hc, hF, bind, Except.bind] at h
      split at h
      · cases h
      · obtain ⟨_, _, rfl⟩ := runSet_inv h
        obtain ⟨hpos, hids, _, hb, hd, rfl, _, _⟩ := Front.batchPickFw_plan hx hlen hF
        refine ⟨hpos, hids, hb, hd, ?_⟩
        intro v b hv hb'
        simp only [at2, batchPick]
        have hcnt : v + x.shape.volume * b < (batchPickMoves ids.length x.shape.volume ids).count := by
          simp only [batchPickMoves]
          have := lt_mul_of_lt hv hb'
          rw [Nat.mul_comm ids.length]; exact this
        rw [seqWrite_apply (m := batchPickMoves ids.length x.shape.volume ids) (fun _ => rfl) _ _ hcnt]
        simp only [batchPickMoves]
        have hV : 0 < x.shape.volume := by omega
        rw [Nat.add_mul_mod_self_left, Nat.mod_eq_of_lt hv, Nat.add_mul_div_left _ _ hV, Nat.div_eq_of_lt hv]
        congr 1
        rw [Nat.zero_add]; ring

/-- `batch::slice(x, lower, upper)` -/
theorem Fwd.batch_slice_spec {α} {x y : Tensor α} {lower upper : Nat} {raw : Nat → α} (hx : WF x.shape)
    (h : batchSliceFw x lower upper raw = .ok y) :
    lower < upper ∧ upper ≤ x.shape.batch ∧ y.shape.batch = upper - lower ∧ y.shape.dims = x.shape.dims ∧
    ∀ v b, v < x.shape.volume → b < upper - lower →
      at2 x.shape.volume y.data v b = batchSlice (at2 x.shape.volume x.data) lower v b := by
  unfold batchSliceFw at h
  obtain ⟨_, ys, m, hF, _, _, rfl⟩ := fw_inv h
  obtain ⟨hl, hu, _, hb, hd, rfl, _, _⟩ := Front.batchSliceFw_plan hx hF
  refine ⟨hl, hu, hb, hd, ?_⟩
  intro v b hv hb'
  simp only [at2, batchSlice]
  rw [seqWrite_apply (fun _ => rfl)]
  · simp only [batchSliceFwMoves]; congr 1; ring
  · simp only [batchSliceFwMoves]; exact lt_mul_of_lt hv hb'

/-- `batch::sum(x)` -/
theorem Fwd.batch_sum_spec {α} [Add α] [Zero α] {x y : Tensor α} (hx : WF x.shape) (h : batchSumFw x = .ok y) :
    y.shape.batch = 1 ∧ y.shape.dims = x.shape.dims ∧
    ∀ v, v < x.shape.volume →
      at2 x.shape.volume y.data v 0 = batchSum (at2 x.shape.volume x.data) x.shape.batch v 0 := by
  unfold batchSumFw at h
  cases hc : checkDevice x with
  | error e => simp [hc, bind, Except.bind] at h
  | ok u =>
    cases hF : Front.batchSumFw x.shape with
    | error e => simp [hc, hF, bind, Except.bind] at h
    | ok p =>
      obtain ⟨ys, r⟩ := p
      simp only [hc, hF, bind, Except.bind] at h
      obtain ⟨_, _, rfl⟩ := runReduce_inv h
      obtain ⟨_, hb, hd, rfl, _, _⟩ := Front.batchSumFw_plan hx hF
      refine ⟨hb, hd, ?_⟩
      intro v hv
      simp only [at2, batchSum, batchSumReduce, Nat.mul_zero, Nat.add_zero]
      rw [sumLoop_eq_sumN]
      congr 1; funext b; congr 1; ring

theorem checkAll_inv {α} {xs : List (Tensor α)} {u : Unit} (h : checkAll xs = .ok u) : ∀ x ∈ xs, x.loc = .here := by
  induction xs with
  | nil => intro x hx; cases hx
  | cons x rest ih =>
    simp only [checkAll] at h
    cases hc : checkDevice x with
    | error e => simp [hc, bind, Except.bind] at h
    | ok u' =>
      simp only [hc, bind, Except.bind] at h
      intro x' hx'
      rcases List.mem_cons.mp hx' with rfl | h'
      · exact checkDevice_inv hc
      · exact ih h x' h'

/-- `batch::concat(xs)` -/
theorem Fwd.batch_concat_spec {α} {xs : List (Tensor α)} {y : Tensor α} {raw : Nat → α}
    (hxs : ∀ x ∈ xs, WF x.shape) (h : batchConcatFw xs raw = .ok y) :
    ∃ x0 rest, xs = x0 :: rest ∧ y.shape.dims = x0.shape.dims ∧
      y.shape.batch = (xs.map (·.shape.batch)).sum ∧ (∀ x ∈ xs, x.shape.volume = x0.shape.volume) ∧
      IsBatchConcat x0.shape.volume (xs.map fun x => ⟨at2 x0.shape.volume x.data, x.shape.batch⟩)
        (at2 x0.shape.volume y.data) := by
  unfold batchConcatFw at h
  split at h
  · cases h
  cases hc : checkAll xs with
  | error e => simp [hc, bind, Except.bind] at h
  | ok u =>
  cases hF : Front.batchConcatFw (xs.map (·.shape)) with
  | error e => simp [hc, hF, bind, Except.bind] at h
  | ok p =>
  obtain ⟨ys, ms⟩ := p
  cases hR : runSetMany ys (ms.zip xs) raw with
  | error e => simp [hc, hF, hR, bind, Except.bind] at h
  | ok d =>
  simp only [hc, hF, hR, bind, Except.bind] at h
  split at h
  · cases h
  simp only [pure, Except.pure, Except.ok.injEq] at h
  subst h
  have hsh : ∀ s ∈ xs.map (·.shape), WF s := by
    intro s hs
    obtain ⟨x, hx, rfl⟩ := List.mem_map.mp hs
    exact hxs x hx
  obtain ⟨s0, srest, hcons, _, hd, _, hb, _, rfl, hall⟩ := Front.batchConcatFw_plan hsh hF
  cases xs with
  | nil => simp at hcons
  | cons x0 rest =>
  simp only [List.map_cons, List.cons.injEq] at hcons
  obtain ⟨rfl, rfl⟩ := hcons
  refine ⟨x0, rest, rfl, hd, by rw [hb]; simp [Function.comp_def], ?_, ?_⟩
  · intro x hx
    exact (hall x.shape (List.mem_map_of_mem hx)).1
  · intro m hm v b hv hb'
    simp only [List.length_map] at hm
    simp only [List.getElem_map, at2] at hb' ⊢
    set xs := x0 :: rest with hxsdef
    have hlen : (Front.batchConcatPlan (xs.map (·.shape)) 0).length = xs.length := by
      rw [Front.batchConcatPlan_length]; simp
    have hmz : m < ((Front.batchConcatPlan (xs.map (·.shape)) 0).zip xs).length := by
      simp only [List.length_zip, hlen]; omega
    -- sizes of the operands
    have hsz : ∀ q, (((xs.map (·.shape)).take q).map (·.size)).sum = ((xs.map (·.shape.size)).take q).sum := by
      intro q; simp [List.map_take, List.map_map, Function.comp_def]
    have hget : ∀ q (hq : q < xs.length) (hq' : q < ((Front.batchConcatPlan (xs.map (·.shape)) 0).zip xs).length),
        ((Front.batchConcatPlan (xs.map (·.shape)) 0).zip xs)[q] =
        (batchConcatMoves ((xs.map (·.shape.size)).take q).sum xs[q].shape.size, xs[q]) := by
      intro q hq hq'
      rw [List.getElem_zip, Front.batchConcatPlan_get _ _ _ (by simpa using hq), hsz]
      simp
    have hsize : ∀ x ∈ xs, x.shape.size = x0.shape.volume * x.shape.batch :=
      fun x hx => (hall x.shape (List.mem_map_of_mem hx)).2
    have hoff : ((xs.map (·.shape.size)).take m).sum = x0.shape.volume * ((xs.take m).map (·.shape.batch)).sum := by
      have := sizes_sum (xs := (xs.take m).map (·.shape)) (V := x0.shape.volume) (by
        intro s hs
        obtain ⟨x, hx, rfl⟩ := List.mem_map.mp hs
        exact hsize x (List.mem_of_mem_take hx))
      simpa [List.map_take, List.map_map, Function.comp_def] using this
    have ht : v + x0.shape.volume * b < xs[m].shape.size := by
      rw [hsize _ (List.getElem_mem hm)]; exact lt_mul_of_lt hv hb'
    have key := runSetMany_at _ hR m hmz (v + x0.shape.volume * b) (by rw [hget m hm]; exact ht)
      (by intro t' h1 h2 e; rw [hget m hm] at e; simp only [batchConcatMoves] at e; omega)
      (by
        intro p' hp' hlt t' ht' e
        have hp'' : p' < xs.length := by simp only [List.length_zip, hlen] at hp'; omega
        rw [hget m hm, hget p' hp''] at e
        simp only [batchConcatMoves] at e
        have := take_sum_mono (xs.map (·.shape.size)) hlt (by simpa using hm)
        simp only [List.getElem_map] at this
        omega)
    rw [hget m hm] at key
    simp only [batchConcatMoves] at key
    rw [← key, hoff]
    simp only [bstartOf, ← List.map_take, List.map_map, Function.comp_def]
    congr 1; ring

/-- `concat(xs, dim)`; `dim ≥ 8` is rejected; operands with minibatch size 1 are shared -/
theorem Fwd.concat_spec {α} {xs : List (Tensor α)} {y : Tensor α} {dim : Nat} {raw : Nat → α}
    (hxs : ∀ x ∈ xs, WF x.shape) (h : concatFw xs dim raw = .ok y) :
    ∃ x0 rest, xs = x0 :: rest ∧ dim < 8 ∧
      (∀ i, y.shape.get i = if i = dim then (xs.map (·.shape.get dim)).sum else x0.shape.get i) ∧
      (∀ x ∈ xs, (∀ i, i ≠ dim → x.shape.get i = x0.shape.get i) ∧ (x.shape.batch = 1 ∨ x.shape.batch = y.shape.batch)) ∧
      IsConcat (lo y.shape dim) (up y.shape dim) y.shape.batch
        (xs.map fun x => ⟨at4 (lo y.shape dim) (x.shape.get dim) (up y.shape dim) x.data, x.shape.get dim, x.shape.batch⟩)
        (at4 (lo y.shape dim) (y.shape.get dim) (up y.shape dim) y.data) := by
  unfold concatFw at h
  split at h
  · cases h
  cases hc : checkAll xs with
  | error e => simp [hc, bind, Except.bind] at h
  | ok u =>
  cases hF : Front.concatFw (xs.map (·.shape)) dim with
  | error e => simp [hc, hF, bind, Except.bind] at h
  | ok p =>
  obtain ⟨ys, ms⟩ := p
  cases hR : runSetMany ys (ms.zip xs) raw with
  | error e => simp [hc, hF, hR, bind, Except.bind] at h
  | ok d =>
  simp only [hc, hF, hR, bind, Except.bind] at h
  split at h
  · cases h
  simp only [pure, Except.pure, Except.ok.injEq] at h
  subst h
  have hsh : ∀ s ∈ xs.map (·.shape), WF s := by
    intro s hs
    obtain ⟨x, hx, rfl⟩ := List.mem_map.mp hs
    exact hxs x hx
  obtain ⟨s0, srest, hcons, h8, hy, hyg, hall, hms⟩ := Front.concatFw_plan hsh hF
  cases xs with
  | nil => simp at hcons
  | cons x0 rest =>
  simp only [List.map_cons, List.cons.injEq] at hcons
  obtain ⟨rfl, rfl⟩ := hcons
  set xs := x0 :: rest with hxsdef
  have hL := lo_pos hy dim
  refine ⟨x0, rest, rfl, h8, ?_, ?_, ?_⟩
  · intro i; rw [hyg i]; simp [List.map_map, Function.comp_def]
  · intro x hx; exact hall x.shape (List.mem_map_of_mem hx)
  · intro m hm a k c b ha hk hc' hb'
    simp only [List.length_map] at hm
    simp only [List.getElem_map] at hk ⊢
    have hlen : ms.length = xs.length := by rw [hms, Front.concatPlan_length]; simp
    have hmz : m < (ms.zip xs).length := by simp only [List.length_zip, hlen]; omega
    -- the entries of the plan, as numbers
    have hentry : ∀ q (hq : q < xs.length), ∃ hq' : q < (ms.zip xs).length,
        (ms.zip xs)[q] = (concatMoves ys.batch (lo ys dim) (lo ys dim * ys.get dim) (up ys dim)
          (lo ys dim * ((xs.take q).map (·.shape.get dim)).sum) (xs[q].shape.get dim)
          (if xs[q].shape.batch = 1 then 0 else 1), xs[q]) ∧
        ((xs.take q).map (·.shape.get dim)).sum + xs[q].shape.get dim ≤ ys.get dim ∧
        (xs[q].shape.batch = 1 ∨ xs[q].shape.batch = ys.batch) ∧ 0 < xs[q].shape.get dim := by
      intro q hq
      obtain ⟨hq', e, _, _, hN, hbq⟩ := Front.concatFw_entry hsh hF q (by simpa using hq)
      have hle := take_sum_succ_le ((xs.map (·.shape)).map (·.get dim)) q (by simpa using hq)
      simp only [List.getElem_map] at e hbq hle
      refine ⟨by simp only [List.length_zip, hlen]; omega, ?_, ?_, hbq, (hxs _ (List.getElem_mem hq)).pos dim⟩
      · rw [List.getElem_zip, e]
        simp [List.map_take, List.map_map, Function.comp_def]
      · rw [hN]
        simpa [List.map_take, List.map_map, Function.comp_def] using hle
    obtain ⟨_, em, hsm, hbm, hnm⟩ := hentry m hm
    have ⟨s1, s2, s3⟩ := concat_step (B := ys.batch) (L := lo ys dim) (N := ys.get dim) (U := up ys dim)
      (s := ((xs.take m).map (·.shape.get dim)).sum) (n := xs[m].shape.get dim) (Bp := xs[m].shape.batch)
      ha hk hc' hb' hbm
    have key := runSetMany_at _ hR m hmz ((b * up ys dim + c) * (lo ys dim * xs[m].shape.get dim) + (a + lo ys dim * k))
      (by rw [em]; exact s1)
      (by
        intro t' h1 h2 e
        rw [em] at e h2
        have := (concat_didx_eq hL hnm hnm hsm hsm h2 s1 e).2 rfl rfl
        omega)
      (by
        intro p' hp' hlt t' ht' e
        have hp'' : p' < xs.length := by simp only [List.length_zip, hlen] at hp'; omega
        obtain ⟨_, ep, hsp, _, hnp⟩ := hentry p' hp''
        rw [em, ep] at e
        rw [ep] at ht'
        have hkeq := (concat_didx_eq hL hnp hnm hsp hsm ht' s1 e).1
        have hmono := take_sum_mono (xs.map (·.shape.get dim)) hlt (by simpa using hm)
        simp only [List.getElem_map, ← List.map_take] at hmono
        have hk2 : ((b * up ys dim + c) * (lo ys dim * xs[m].shape.get dim) + (a + lo ys dim * k)) %
            (lo ys dim * xs[m].shape.get dim) / lo ys dim = k := by
          have hr : a + lo ys dim * k < lo ys dim * xs[m].shape.get dim := lt_mul_of_lt ha hk
          have ⟨i1, _, _⟩ := seq3_index (B := up ys dim) (C := lo ys dim * xs[m].shape.get dim) (b := b) hc' hr
          rw [i1, Nat.add_mul_div_left _ _ hL, Nat.div_eq_of_lt ha, Nat.zero_add]
        rw [hk2] at hkeq
        have h3 : ((xs.take p').map (·.shape.get dim)).sum ≤ ((xs.take m).map (·.shape.get dim)).sum + k := by
          rw [← hkeq]; exact Nat.le_add_right _ _
        exact absurd (Nat.lt_of_lt_of_le (Nat.add_lt_add_left hk _) hmono) (Nat.not_lt.mpr h3))
    rw [em] at key
    simp only at key
    rw [s2, s3] at key
    simp only [at4_eq, startOf, ← List.map_take, List.map_map, Function.comp_def, share]
    rw [← key]

/-- `permute_dims(x, perm)`: `perm` must be a permutation of `0 .. |perm|-1` with
`depth ≤ |perm| ≤ 8`; axis `k` of the result is axis `perm[k]` of `x`, and
`y[j] = x[i]` for multi-indices with `j = perm.map i`. -/
theorem Fwd.permute_dims_spec {α} {x y : Tensor α} {perm : List Nat} {raw : Nat → α} (hx : WF x.shape)
    (h : permuteFw x perm raw = .ok y) :
    perm.Nodup ∧ (∀ p ∈ perm, p < perm.length) ∧ x.shape.dims.length ≤ perm.length ∧ perm.length ≤ 8 ∧
    y.shape.batch = x.shape.batch ∧ (∀ k, k < perm.length → y.shape.get k = x.shape.get (perm.getD k 0)) ∧
    IsPermuted ((List.range perm.length).map x.shape.get) perm x.data y.data x.shape.volume x.shape.batch := by
  unfold permuteFw at h
  obtain ⟨_, ys, m, hF, _, _, rfl⟩ := fw_inv h
  obtain ⟨hp, h8, _, hb, _, hgk, hxv, st, rfl, hJ⟩ := permuteFw_plan hx hF
  have hdep : x.shape.dims.length ≤ perm.length := by
    unfold Front.permuteFw at hF
    cases hS : ShapeOps.permuteDims x.shape perm with
    | error e => simp [hS, bind, Except.bind] at hF
    | ok sy => exact (permuteDims_ok hx hS).2.1
  have ⟨_, _, _, _, hon⟩ := permuteFw_facts hx hF
  refine ⟨hp.nodup, hp.lt, hdep, h8, hb, hgk, ?_⟩
  intro idx b hv hb'
  set n := perm.length with hn
  set xdims := (List.range n).map x.shape.get with hxd
  have hxl : xdims.length = n := by simp [hxd]
  have hxg : ∀ k, k < n → xdims.getD k 1 = x.shape.get k := by
    intro k hk
    simp [hxd, List.getD, List.getElem?_map, List.getElem?_range hk]
  obtain ⟨hlen, hval⟩ := (valid_iff xdims idx).mp hv
  -- the flat index of `idx` in `x`
  have hfx : flat xdims idx = enc x.shape.get (fun k => idx.getD k 0) n := by
    rw [flat_eq_enc _ _ hlen, hxl]
    unfold enc
    apply Finset.sum_congr rfl
    intro k hk
    rw [pi_congr (fun j hj => hxg j (by have := Finset.mem_range.mp hk; omega))]
  have hidx : ∀ k, k < n → idx.getD k 0 < x.shape.get k := by
    intro k hk; have := hval k (by rw [hxl]; exact hk); rwa [hxg k hk] at this
  have hlt : flat xdims idx < x.shape.volume := by rw [hfx, hxv]; exact enc_lt hidx
  -- the flat index of `perm.map idx` in `y`
  have hfy : flat (perm.map fun p => xdims.getD p 1) (perm.map fun p => idx.getD p 0) =
      enc (fun k => x.shape.get (perm.getD k 0)) (fun k => idx.getD (perm.getD k 0) 0) n := by
    rw [flat_eq_enc _ _ (by simp)]
    simp only [List.length_map]
    unfold enc
    apply Finset.sum_congr rfl
    intro k hk
    have hk' := Finset.mem_range.mp hk
    have g1 : ∀ j, j < n → (perm.map fun p => xdims.getD p 1).getD j 1 = x.shape.get (perm.getD j 0) := by
      intro j hj
      rw [getD_eq_get perm hj]
      simp only [List.getD, List.getElem?_map, List.getElem?_eq_getElem hj, Option.map_some, Option.getD_some]
      exact hxg _ (hp.lt _ (List.getElem_mem hj))
    have g2 : (perm.map fun p => idx.getD p 0).getD k 0 = idx.getD (perm.getD k 0) 0 := by
      rw [getD_eq_get perm hk']
      simp [List.getD, List.getElem?_map, List.getElem?_eq_getElem hk']
    beta_reduce
    rw [g2, pi_congr (fun j hj => g1 j (by omega))]
  -- the step of the loop nest
  have hV := hx.vol_pos
  have ht : flat xdims idx + x.shape.volume * b < (permuteFwMoves x.shape.volume x.shape.batch st).count := by
    simp only [permuteFwMoves]
    have := View3.lt_mul_of_lt hlt hb'
    rw [Nat.mul_comm x.shape.batch]; exact this
  have key := scatterSet_of_once hon x.data raw ht
  simp only [permuteFwMoves] at key
  rw [Nat.add_mul_div_left _ _ hV, Nat.div_eq_of_lt hlt, Nat.add_mul_mod_self_left, Nat.mod_eq_of_lt hlt, hJ _ hlt] at key
  have e1 : enc (fun k => x.shape.get (perm.getD k 0)) (fun k => digit x.shape.get (flat xdims idx) (perm.getD k 0)) n
      = enc (fun k => x.shape.get (perm.getD k 0)) (fun k => idx.getD (perm.getD k 0) 0) n := by
    apply enc_congr
    intro k hk
    rw [hfx, digit_enc hidx (hp.get_lt hk)]
  rw [e1] at key
  have e2 : (0 + b) * x.shape.volume + enc (fun k => x.shape.get (perm.getD k 0)) (fun k => idx.getD (perm.getD k 0) 0) n
      = enc (fun k => x.shape.get (perm.getD k 0)) (fun k => idx.getD (perm.getD k 0) 0) n + x.shape.volume * b := by ring
  rw [e2] at key
  rw [hfy]
  exact key

/-- `copy(x)` / `Device::copy_tensor`, also for a tensor of another device -/
theorem Fwd.copy_spec {α} {x y : Tensor α} {raw : Nat → α} (h : copyTensor x raw = .ok y) :
    x.loc ≠ .invalid ∧ y.shape = x.shape ∧ ∀ i, i < x.shape.size → y.data i = x.data i := by
  unfold copyTensor at h
  split at h
  · cases h
  · rename_i hl
    obtain ⟨_, _, rfl⟩ := runSet_inv h
    exact ⟨hl, rfl, fun i hi => seqWrite_apply (m := copyMoves x.shape.size) (fun _ => rfl) _ _ hi⟩

/-- `identity(size)` -/
theorem Fwd.identity_spec {α} {zero one : α} {size : Nat} {y : Tensor α} (h : Move.identity zero one size = .ok y) :
    0 < size ∧ y.shape.batch = 1 ∧ y.shape.get 0 = size ∧ y.shape.get 1 = size ∧
    ∀ i j, i < size → j < size → y.data (i + size * j) = Spec.Move.identity zero one i j := by
  unfold Move.identity at h
  cases hF : Front.identity size with
  | error e => simp [hF, bind, Except.bind] at h
  | ok ys =>
    simp only [hF, bind, Except.bind] at h
    split at h
    · cases h
    · simp only [pure, Except.pure, Except.ok.injEq] at h
      subst h
      unfold Front.identity at hF
      split at hF
      · cases hF
      · rename_i h0
        have ⟨_, hb, hg, _, _⟩ := new_ok hF
        refine ⟨by omega, hb, by rw [hg]; rfl, by rw [hg]; rfl, ?_⟩
        intro i j hi hj
        simp only [Spec.Move.identity]
        by_cases e : i = j
        · subst e
          rw [if_pos rfl]
          have : i + size * i = (fun t => t * (size + 1)) i := by show _ = i * (size + 1); ring
          rw [this, scatterSet_at _ _ _ _ _ _ hi]
          intro t' h1 h2 e
          have : t' * (size + 1) = i * (size + 1) := e
          have := Nat.eq_of_mul_eq_mul_right (by omega : 0 < size + 1) this
          omega
        · rw [if_neg e, scatterSet_untouched]
          intro t ht e'
          have e1 : t * (size + 1) = comp3 size 1 t 0 t := by unfold comp3; ring
          have e2 : i + size * j = comp3 size 1 i 0 j := by unfold comp3; ring
          rw [e1, e2] at e'
          have ⟨a, _, c⟩ := comp3_inj ht (by omega) hi (by omega) e'
          omega

/-- creation and refill: `new_tensor_by_constant`, `reset_tensor`,
`new_tensor_by_array/vector`, `reset_tensor_by_array/vector`, `to_vector` -/
theorem Fwd.constant_spec {α} (s : Shape) (k : α) : ∃ y, newConstant s k = .ok y ∧ y.shape = s ∧ ∀ i, y.data i = k :=
  ⟨_, rfl, rfl, fun _ => rfl⟩

theorem Fwd.reset_by_vector_spec {α} {values : List α} {dflt : α} {x y : Tensor α} {raw : Nat → α}
    (h : resetByVector values dflt x raw = .ok y) :
    x.loc = .here ∧ values.length = x.shape.size ∧ y.shape = x.shape ∧
    ∀ i, i < x.shape.size → y.data i = values.getD i dflt := by
  unfold resetByVector at h
  cases hc : checkDevice x with
  | error e => simp [hc, bind, Except.bind] at h
  | ok u =>
    simp only [hc, bind, Except.bind] at h
    split at h
    · cases h
    · rename_i hl
      obtain ⟨_, _, rfl⟩ := runSet_inv h
      exact ⟨checkDevice_inv hc, by omega, rfl,
        fun i hi => seqWrite_apply (m := copyMoves x.shape.size) (fun _ => rfl) _ _ hi⟩

theorem Fwd.to_vector_spec {α} {x : Tensor α} {l : List α} (h : toVector x = .ok l) :
    x.loc = .here ∧ l.length = x.shape.size ∧ ∀ i, i < x.shape.size → l[i]? = some (x.data i) := by
  unfold toVector at h
  cases hc : checkDevice x with
  | error e => simp [hc, bind, Except.bind] at h
  | ok u =>
    simp only [hc, bind, Except.bind, pure, Except.pure, Except.ok.injEq] at h
    subst h
    exact ⟨checkDevice_inv hc, by simp, fun i hi => by simp [hi]⟩

/-! ### concrete instances of the hypotheses (the documented examples of basic_functions.h) -/

/-- the 3×3 matrix `1 4 7 / 2 5 8 / 3 6 9` of the documentation -/
def docX : Tensor Int := ⟨⟨[3, 3], 1, 9⟩, fun i => i + 1, .here⟩
def raw0 : Nat → Int := fun _ => 0

example : values (pickFw docX [0, 0, 1] 0 raw0) = some ([1, 3], 3, [1, 4, 7, 1, 4, 7, 2, 5, 8]) := by decide
example : values (sliceFw docX 1 1 3 raw0) = some ([3, 2], 1, [4, 5, 6, 7, 8, 9]) := by decide
example : values (flipFw docX 0 raw0) = some ([3, 3], 1, [3, 2, 1, 6, 5, 4, 9, 8, 7]) := by decide
example : values (flipFw docX 1 raw0) = some ([3, 3], 1, [7, 8, 9, 4, 5, 6, 1, 2, 3]) := by decide
example : values (sumFw docX 0) = some ([1, 3], 1, [6, 15, 24]) := by decide
example : values (maxFw docX 1) = some ([3], 1, [7, 8, 9]) := by decide
example : values (minFw docX 1) = some ([3], 1, [1, 2, 3]) := by decide
example : values (transposeFw docX raw0) = some ([3, 3], 1, [1, 4, 7, 2, 5, 8, 3, 6, 9]) := by decide
example : values (broadcastFw (α := Int) ⟨⟨[3], 1, 3⟩, fun i => i + 1, .here⟩ 1 2 raw0) = some ([3, 2], 1, [1, 2, 3, 1, 2, 3]) := by decide
example : values (concatFw [docX, ⟨⟨[3], 2, 3⟩, fun i => 10 * (i + 1), .here⟩] 1 raw0) =
    some ([3, 4], 2, [1, 2, 3, 4, 5, 6, 7, 8, 9, 10, 20, 30, 1, 2, 3, 4, 5, 6, 7, 8, 9, 40, 50, 60]) := by decide
example : values (permuteFw (α := Int) ⟨⟨[3, 2], 1, 6⟩, fun i => i + 1, .here⟩ [1, 0] raw0) = some ([2, 3], 1, [1, 4, 2, 5, 3, 6]) := by decide
example : values (batchPickFw (α := Int) ⟨⟨[2], 3, 2⟩, fun i => i + 1, .here⟩ [2, 0] raw0) = some ([2], 2, [5, 6, 1, 2]) := by decide
example : values (batchSumFw (α := Int) ⟨⟨[2], 3, 2⟩, fun i => i + 1, .here⟩) = some ([2], 1, [9, 12]) := by decide
example : values (Move.identity (0 : Int) 1 2) = some ([2, 2], 1, [1, 0, 0, 1]) := by decide
-- rejected calls: an axis ≥ 8 where the code rejects it, not where it does not
example : values (sumFw docX 8) = none := by decide
example : values (pickFw docX [0] 8 raw0) = none := by decide
example : values (flipFw docX 8 raw0) = some ([3, 3], 1, [1, 2, 3, 4, 5, 6, 7, 8, 9]) := by decide
example : values (sliceFw docX 4294967295 0 1 raw0) = some ([3, 3], 1, [1, 2, 3, 4, 5, 6, 7, 8, 9]) := by decide
example : argmax docX 9 = .ok [0, 0, 0, 0, 0, 0, 0, 0, 0] := by decide

end Primitiv.C02.Move
