import PrimitivModel.Model.KernelsArith
namespace Primitiv.C03.Arith
theorem placeholder : True := trivial
end Primitiv.C03.Arith
