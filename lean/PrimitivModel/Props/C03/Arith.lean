import PrimitivModel.Lemmas.ArithIndex
import PrimitivModel.Props.C02.Arith
import PrimitivModel.Props.C11.Arith
/-
C03 (minibatch law), arithmetic kernels.

`sample stride b x` is the b-th sample of a buffer addressed with batch stride `stride` (`stride = 0`: the
operand has batch 1 and is shared by all samples).

* forward: sample `b` of `kernel(batch)` is `kernel` run on the b-th samples alone
  (`binary_fwd_law`, `scalar_fwd_law`, `matmul_fwd_law`);
* backward: an accumulator with the full stride receives the per-sample gradient, an accumulator with stride 0
  (batch-1 operand) receives the SUM of the per-sample gradients (`add_bwd_law`, `multiply_bwd_law`,
  `inplace_add_law`);
* incompatible batch sizes are rejected by the front end (`incompatible_batch_rejected`).
The elementwise unary / const kernels are one flat loop over `size()`: they do not distinguish samples at all.
-/
namespace Primitiv.C03.Arith
open Primitiv Primitiv.Arith Finset

/-- the b-th sample of a batch-strided buffer -/
def sample {α : Type} (stride b : Nat) (x : Buf α) : Buf α := fun i => x (b * stride + i)

section fwd
variable {α : Type}

/-- closed form of the broadcasting forward loop -/
theorem binFw_apply (op : α → α → α) (size bs skipA skipB : Nat) (a b' : Buf α) (junk : α) {b i : Nat}
    (hb : b < bs) (hi : i < size) :
    binFw op size bs skipA skipB a b' junk (b * size + i) = op (a (b * skipA + i)) (b' (b * skipB + i)) := by
  unfold binFw
  exact writeAt_of_nodup (range2 bs size) (fun t => t.1 * size + t.2) _ junk (range2_addr_nodup bs size)
    (t := (b, i)) (mem_range2.mpr ⟨hb, hi⟩)

/-- Batch.fwd_law for add / subtract / multiply / divide / pow: for every assignment of batch sizes {1, B} to
the operands (strides 0 / size), sample b of the batched result is the kernel on the b-th samples. -/
theorem binary_fwd_law (op : α → α → α) (size bs skipA skipB : Nat) (a b' : Buf α) (junk : α) {b i : Nat}
    (hb : b < bs) (hi : i < size) :
    sample size b (binFw op size bs skipA skipB a b' junk) i
      = binFw op size 1 0 0 (sample skipA b a) (sample skipB b b') junk (0 * size + i) := by
  rw [binFw_apply op size 1 0 0 _ _ junk Nat.zero_lt_one hi]
  simp only [sample, Nat.zero_mul, Nat.zero_add]
  exact binFw_apply op size bs skipA skipB a b' junk hb hi

theorem scalarFw_apply (op : α → α → α) (size bs skipX skipK : Nat) (x k : Buf α) (junk : α) {b i : Nat}
    (hb : b < bs) (hi : i < size) :
    scalarFw op size bs skipX skipK x k junk (b * size + i) = op (x (b * skipX + i)) (k (b * skipK)) := by
  unfold scalarFw
  exact writeAt_of_nodup (range2 bs size) (fun t => t.1 * size + t.2) _ junk (range2_addr_nodup bs size)
    (t := (b, i)) (mem_range2.mpr ⟨hb, hi⟩)

/-- the eight `*_scalar_*` kernels -/
theorem scalar_fwd_law (op : α → α → α) (size bs skipX skipK : Nat) (x k : Buf α) (junk : α) {b i : Nat}
    (hb : b < bs) (hi : i < size) :
    sample size b (scalarFw op size bs skipX skipK x k junk) i
      = scalarFw op size 1 0 0 (sample skipX b x) (sample skipK b k) junk (0 * size + i) := by
  rw [scalarFw_apply op size 1 0 0 _ _ junk Nat.zero_lt_one hi]
  simp only [sample, Nat.zero_mul, Nat.zero_add, Nat.add_zero]
  exact scalarFw_apply op size bs skipX skipK x k junk hb hi

end fwd

section matmul
variable {α : Type} [CommRing α]

/-- matmul: sample `bn` of the batched product is the product of the samples (batch-1 operands shared) -/
theorem matmul_fwd_law (D : MatDims) (a b : Buf α) (junk : α) {bn k i : Nat}
    (hbn : bn < D.bs) (hk : k < D.d3) (hi : i < D.d1) :
    sample (D.d3 * D.d1) bn (matmulFw 0 D a b junk) (k * D.d1 + i)
      = matmulFw 0 { D with bs := 1, skipA := 0, skipB := 0 } (sample D.skipA bn a) (sample D.skipB bn b) junk
          (0 * (D.d3 * D.d1) + (k * D.d1 + i)) := by
  have h1 := C02.Arith.matmul_spec D a b junk hbn hk hi
  have h2 := C02.Arith.matmul_spec { D with bs := 1, skipA := 0, skipB := 0 } (sample D.skipA bn a)
    (sample D.skipB bn b) junk (bn := 0) (k := k) (i := i) Nat.zero_lt_one hk hi
  simp only [sample] at h2 ⊢
  rw [h1, h2]
  simp
example : (0 : Nat) < 1 := Nat.zero_lt_one

end matmul

section bwd
variable {α : Type} [CommRing α]

/-- Batch.bwd_law, add: a batch-1 operand (stride 0) receives `Σ_b gy[b,i]`, a batched one `gy[b,i]` -/
theorem add_bwd_law (size bs : Nat) (gy ga gb : Buf α) {b i : Nat} (hb : b < bs) (hi : i < size) :
    (addBw size bs 0 size gy ga gb).ga i = ga i + ∑ c ∈ range bs, gy (c * size + i) ∧
    (addBw size bs 0 size gy ga gb).gb (b * size + i) = gb (b * size + i) + gy (b * size + i) := by
  unfold addBw
  exact ⟨scatter_shared_sum bs size (fun t => gy (t.1 * size + t.2)) (ga i) hi,
    scatter_batched bs size (fun t => gy (t.1 * size + t.2)) (gb (b * size + i)) hb hi⟩

/-- multiply with a shared `a` (e.g. a Parameter) and a batched `b`: `ga[i] += Σ_c gy[c,i]·b[c,i]`,
`gb[b,i] += gy[b,i]·a[i]` — the gradient of the shared operand is the sum of the per-sample gradients -/
theorem multiply_bwd_law (size bs : Nat) (a b' gy ga gb : Buf α) {b i : Nat} (hb : b < bs) (hi : i < size) :
    (multiplyBw size bs 0 size a b' gy ga gb).ga i = ga i + ∑ c ∈ range bs, gy (c * size + i) * b' (c * size + i) ∧
    (multiplyBw size bs 0 size a b' gy ga gb).gb (b * size + i)
      = gb (b * size + i) + gy (b * size + i) * a (b * 0 + i) := by
  unfold multiplyBw
  exact ⟨scatter_shared_sum bs size (fun t => gy (t.1 * size + t.2) * b' (t.1 * size + t.2)) (ga i) hi,
    scatter_batched bs size (fun t => gy (t.1 * size + t.2) * a (t.1 * 0 + t.2)) (gb (b * size + i)) hb hi⟩

/-- `inplace_add(x, y)` with a batch-1 destination and a batched source (the folding the backward kernels and
`Parameter::gradient() +=` rely on): `y[i] += Σ_b x[b,i]`; batched destination, shared source: `y[b,i] += x[i]` -/
theorem inplace_add_law (size bs : Nat) (x y : Buf α) {b i : Nat} (hb : b < bs) (hi : i < size) :
    inplaceAdd size bs 0 size x y i = y i + ∑ c ∈ range bs, x (c * size + i) ∧
    inplaceAdd size bs size 0 x y (b * size + i) = y (b * size + i) + x (b * 0 + i) := by
  unfold inplaceAdd
  exact ⟨scatter_shared_sum bs size (fun t => x (t.1 * size + t.2)) (y i) hi,
    scatter_batched bs size (fun t => x (t.1 * 0 + t.2)) (y (b * size + i)) hb hi⟩
example : (1 : Nat) < 2 ∧ (0 : Nat) < 3 := by decide

end bwd

/-- batch sizes other than equal-or-1 are rejected by every broadcasting entry point (shape_ops::elementwise) -/
theorem incompatible_batch_rejected {α : Type} (op : α → α → α) (a b : Tensor α) (junk : α)
    (h : a.shape.batch ≠ b.shape.batch ∧ a.shape.batch ≠ 1 ∧ b.shape.batch ≠ 1) :
    (devBinFw op a b junk).toOption = none := by
  have hc : a.shape.hasCompatibleBatch b.shape = false := by
    simp [Shape.hasCompatibleBatch, h.1, h.2.1, h.2.2]
  simp only [devBinFw, ShapeOps.elementwise, hc, Bool.not_false, Bool.or_true, if_true]
  rfl
example : (2 : Nat) ≠ 3 ∧ (2 : Nat) ≠ 1 ∧ (3 : Nat) ≠ 1 := by decide

section conv2d
variable {α : Type} [CommRing α]

/-- conv2d: sample `bn` of the batched result is conv2d of the bn-th samples of the operands, for both operands
and both patterns each (`xShift`, `wShift` ∈ {0, volume}: a batch-1 `x` or `w` is shared by all samples). -/
theorem conv2d_batch_law (D : ConvDims) (x w : Buf α) (junk : α) (hY : D.yShift = D.yc * (D.yw * D.yh))
    {s : Nat × Nat × Nat × Nat} (hs : s ∈ D.outer) :
    sample D.yShift s.1 (conv2dFw 0 D x w junk) ((s.2.1 * D.yw + s.2.2.1) * D.yh + s.2.2.2)
      = conv2dFw 0 { D with bs := 1, xShift := 0, wShift := 0 } (sample D.xShift s.1 x) (sample D.wShift s.1 w) junk
          (C02.Arith.convCell { D with bs := 1, xShift := 0, wShift := 0 } (0, s.2)) := by
  have hs4 := mem_range4.mp hs
  have hs' : ((0, s.2) : Nat × Nat × Nat × Nat) ∈ ({ D with bs := 1, xShift := 0, wShift := 0 } : ConvDims).outer :=
    mem_range4.mpr ⟨Nat.zero_lt_one, hs4.2.1, hs4.2.2.1, hs4.2.2.2⟩
  have h1 := C02.Arith.conv2d_spec D x w junk hY hs
  have h2 := C02.Arith.conv2d_spec { D with bs := 1, xShift := 0, wShift := 0 } (sample D.xShift s.1 x)
    (sample D.wShift s.1 w) junk hY hs'
  show conv2dFw 0 D x w junk (C02.Arith.convCell D s) = _
  rw [h1, h2]
  apply congrArg List.sum
  apply List.map_congr_left
  intro r _
  simp [ConvDims.valid, ConvDims.posY, ConvDims.posX, ConvDims.xa, ConvDims.wa, sample]
  rfl
example : ((1, 0, 1, 1) : Nat × Nat × Nat × Nat) ∈
    (⟨3, 3, 1, 2, 2, 2, 2, 1, 2, 9, 0, 4, 0, 0, 1, 1, 1, 1⟩ : ConvDims).outer := by decide

end conv2d

section pool
variable {α : Type} [LinearOrder α]

/-- max_pool2d treats the `channels × batch` planes independently: plane `r` of the result is max_pool2d of
plane `r` of x (in particular sample b of the batched result is the kernel on sample b). -/
theorem max_pool2d_batch_law (lowest : α) (D : PoolDims) (x : Buf α) (junk : α) {t : Nat × Nat × Nat}
    (ht : t ∈ D.outer) :
    sample (D.yh * D.yw) t.1 (maxPoolFw lowest D x junk) (t.2.1 * D.yh + t.2.2)
      = maxPoolFw lowest { D with rep := 1 } (sample (D.xh * D.xw) t.1 x) junk
          (({ D with rep := 1 } : PoolDims).ya (0, t.2)) := by
  have ht3 := mem_range3.mp ht
  have ht' : ((0, t.2) : Nat × Nat × Nat) ∈ ({ D with rep := 1 } : PoolDims).outer :=
    mem_range3.mpr ⟨Nat.zero_lt_one, ht3.2.1, ht3.2.2⟩
  show maxPoolFw lowest D x junk (D.ya t) = _
  rw [C02.Arith.max_pool2d_cell lowest D x junk ht,
    C02.Arith.max_pool2d_cell lowest { D with rep := 1 } (sample (D.xh * D.xw) t.1 x) junk ht']
  congr 1
  apply List.map_congr_left
  intro a _
  simp [sample, PoolDims.xbase]

/-- …and depends on that plane only -/
theorem max_pool2d_plane_local (lowest : α) (D : PoolDims) (x x' : Buf α) (junk : α) {t : Nat × Nat × Nat}
    (ht : t ∈ D.outer) (h : ∀ a < D.xh * D.xw, x (D.xbase t + a) = x' (D.xbase t + a)) :
    maxPoolFw lowest D x junk (D.ya t) = maxPoolFw lowest D x' junk (D.ya t) := by
  rw [C02.Arith.max_pool2d_cell lowest D x junk ht, C02.Arith.max_pool2d_cell lowest D x' junk ht]
  congr 1
  apply List.map_congr_left
  intro a ha
  exact h a (by rw [Nat.mul_comm]; exact C11.Arith.MaxPool.window_in_bounds D _ _ a ha)
example : ((1, 0, 0) : Nat × Nat × Nat) ∈ (⟨2, 2, 1, 1, 2, 2, 2, 0, 0, 1, 1⟩ : PoolDims).outer := by decide

end pool

end Primitiv.C03.Arith
