import PrimitivModel.Model.KernelsMove
namespace Primitiv.C03.Move
end Primitiv.C03.Move
