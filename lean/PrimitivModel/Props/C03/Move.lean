import PrimitivModel.Props.C02.Move
import PrimitivModel.Lemmas.Adjoint
/-
C03 — minibatch law for the kernels of the family.

Forward, batch-agnostic kernels (`Batch.<k>_law`): sample `b` of the result is the
documented function of sample `b` of the operands, an operand with minibatch
size 1 being shared by all samples (`sampleOf X (share B b)`).  Since the
kernel equals the documented function on every shape (C02), in particular on
the single samples, this is "kernel(batch) restricted to sample b = kernel(sample
b of the operands)".  The `batch_*` kernels are the only ones that move data
across samples; their cross-sample specifications are `C02.Move.Fwd.batch_*_spec`.

Backward (`Batch.bwd_fold`): a backward loop whose destination has minibatch size
1 while the upstream gradient has B samples leaves `gx + Σ_b (per-sample
backward of sample b of gy)`: the gradient reaching a batch-1 operand is the
sum over the samples.
-/
namespace Primitiv.C03.Move
open Primitiv Primitiv.Move Primitiv.MoveShape Primitiv.Spec.Move Primitiv.View3 Finset

/-- sample `b` of a view, as a one-sample view -/
def sampleOf {α} (X : V4 α) (b : Nat) : V4 α := fun a k c _ => X a k c b

theorem Batch.slice_law {α} {x y : Tensor α} {dim lower upper : Nat} {raw : Nat → α} (hx : WF x.shape)
    (h : sliceFw x dim lower upper raw = .ok y) :
    y.shape.batch = x.shape.batch ∧
    ∀ a k c b, a < lo x.shape dim → k < upper - lower → c < up x.shape dim → b < x.shape.batch →
      at4 (lo x.shape dim) (upper - lower) (up x.shape dim) y.data a k c b =
        slice (sampleOf (at4 (lo x.shape dim) (x.shape.get dim) (up x.shape dim) x.data) b) lower a k c 0 := by
  have ⟨_, _, hb, _, hv⟩ := C02.Move.Fwd.slice_spec hx h
  exact ⟨hb, hv⟩

theorem Batch.flip_law {α} {x y : Tensor α} {dim : Nat} {raw : Nat → α} (hx : WF x.shape)
    (h : flipFw x dim raw = .ok y) :
    y.shape = x.shape ∧
    ∀ a k c b, a < lo x.shape dim → k < x.shape.get dim → c < up x.shape dim → b < x.shape.batch →
      at4 (lo x.shape dim) (x.shape.get dim) (up x.shape dim) y.data a k c b =
        Spec.Move.flip (sampleOf (at4 (lo x.shape dim) (x.shape.get dim) (up x.shape dim) x.data) b) (x.shape.get dim) a k c 0 :=
  C02.Move.Fwd.flip_spec hx h

theorem Batch.broadcast_law {α} {x y : Tensor α} {dim size : Nat} {raw : Nat → α} (hx : WF x.shape)
    (h : broadcastFw x dim size raw = .ok y) :
    y.shape.batch = x.shape.batch ∧
    ∀ a k c b, a < lo x.shape dim → k < size → c < up x.shape dim → b < x.shape.batch →
      at4 (lo x.shape dim) size (up x.shape dim) y.data a k c b =
        broadcast (sampleOf (at4 (lo x.shape dim) 1 (up x.shape dim) x.data) b) a k c 0 := by
  have ⟨_, _, _, hb, _, hv⟩ := C02.Move.Fwd.broadcast_spec hx h
  exact ⟨hb, hv⟩

theorem Batch.sum_law {α} [Add α] [Zero α] {x y : Tensor α} {dim : Nat} (hx : WF x.shape) (h : sumFw x dim = .ok y) :
    y.shape.batch = x.shape.batch ∧
    ∀ a c b, a < lo x.shape dim → c < up x.shape dim → b < x.shape.batch →
      at4 (lo x.shape dim) 1 (up x.shape dim) y.data a 0 c b =
        sum (sampleOf (at4 (lo x.shape dim) (x.shape.get dim) (up x.shape dim) x.data) b) (x.shape.get dim) a 0 c 0 := by
  have ⟨_, hb, _, hv⟩ := C02.Move.Fwd.sum_spec hx h
  exact ⟨hb, hv⟩

theorem Batch.max_law {α} [LinearOrder α] {x y : Tensor α} {dim : Nat} (hx : WF x.shape) (h : maxFw x dim = .ok y) :
    y.shape.batch = x.shape.batch ∧
    ∀ a c b, a < lo x.shape dim → c < up x.shape dim → b < x.shape.batch →
      IsMax (fun k => sampleOf (at4 (lo x.shape dim) (x.shape.get dim) (up x.shape dim) x.data) b a k c 0)
        (x.shape.get dim) (at4 (lo x.shape dim) 1 (up x.shape dim) y.data a 0 c b) := by
  have ⟨_, hb, _, hv⟩ := C02.Move.Fwd.max_spec hx h
  exact ⟨hb, hv⟩

theorem Batch.min_law {α} [LinearOrder α] {x y : Tensor α} {dim : Nat} (hx : WF x.shape) (h : minFw x dim = .ok y) :
    y.shape.batch = x.shape.batch ∧
    ∀ a c b, a < lo x.shape dim → c < up x.shape dim → b < x.shape.batch →
      IsMin (fun k => sampleOf (at4 (lo x.shape dim) (x.shape.get dim) (up x.shape dim) x.data) b a k c 0)
        (x.shape.get dim) (at4 (lo x.shape dim) 1 (up x.shape dim) y.data a 0 c b) := by
  have ⟨_, hb, _, hv⟩ := C02.Move.Fwd.min_spec hx h
  exact ⟨hb, hv⟩

/-- argmax / argmin: the ids of sample `b` are a contiguous block of the result
and depend on sample `b` of the operand only -/
theorem Batch.argmax_law {α} [LinearOrder α] {x : Tensor α} {dim : Nat} {l : List Nat} (hx : WF x.shape)
    (h : argmax x dim = .ok l) :
    ∀ a c b, a < lo x.shape dim → c < up x.shape dim → b < x.shape.batch →
      IsArgmax (fun k => sampleOf (at4 (lo x.shape dim) (x.shape.get dim) (up x.shape dim) x.data) b a k c 0)
        (x.shape.get dim) (l.getD ((a + lo x.shape dim * c) + (lo x.shape dim * up x.shape dim) * b) 0) := by
  have ⟨_, hv⟩ := C02.Move.Fwd.argmax_spec hx h
  intro a c b ha hc hb
  have := hv a c b ha hc hb
  rwa [show a + lo x.shape dim * (c + up x.shape dim * b) = (a + lo x.shape dim * c) + (lo x.shape dim * up x.shape dim) * b by ring] at this

theorem Batch.argmin_law {α} [LinearOrder α] {x : Tensor α} {dim : Nat} {l : List Nat} (hx : WF x.shape)
    (h : argmin x dim = .ok l) :
    ∀ a c b, a < lo x.shape dim → c < up x.shape dim → b < x.shape.batch →
      IsArgmin (fun k => sampleOf (at4 (lo x.shape dim) (x.shape.get dim) (up x.shape dim) x.data) b a k c 0)
        (x.shape.get dim) (l.getD ((a + lo x.shape dim * c) + (lo x.shape dim * up x.shape dim) * b) 0) := by
  have ⟨_, hv⟩ := C02.Move.Fwd.argmin_spec hx h
  intro a c b ha hc hb
  have := hv a c b ha hc hb
  rwa [show a + lo x.shape dim * (c + up x.shape dim * b) = (a + lo x.shape dim * c) + (lo x.shape dim * up x.shape dim) * b by ring] at this

/-- pick: minibatch broadcasting between `x` and `ids`: the result has
`max(batch, |ids|)` samples; sample `b` is the subplane `ids[b]` (`ids[0]` for a
single id) of sample `b` of `x` (of its only sample when `x` has none); sizes
other than equal-or-1 are rejected. -/
theorem Batch.pick_law {α} {x y : Tensor α} {ids : List Nat} {dim : Nat} {raw : Nat → α} (hx : WF x.shape)
    (hlen : ids.length < W) (h : pickFw x ids dim raw = .ok y) :
    (x.shape.batch = ids.length ∨ x.shape.batch = 1 ∨ ids.length = 1) ∧
    y.shape.batch = max x.shape.batch ids.length ∧
    ∀ a c b, a < lo x.shape dim → c < up x.shape dim → b < max x.shape.batch ids.length →
      at4 (lo x.shape dim) 1 (up x.shape dim) y.data a 0 c b =
        sampleOf (at4 (lo x.shape dim) (x.shape.get dim) (up x.shape dim) x.data) (share x.shape.batch b)
          a (ids.getD (if ids.length = 1 then 0 else b) 0) c 0 := by
  have ⟨_, _, hc, _, hb, _, hv⟩ := C02.Move.Fwd.pick_spec hx hlen h
  exact ⟨hc, hb, hv⟩

-- minibatch broadcasting of pick: x without minibatch, three ids → three samples
example : C02.Move.values (pickFw C02.Move.docX [0, 0, 1] 0 C02.Move.raw0) = some ([1, 3], 3, [1, 4, 7, 1, 4, 7, 2, 5, 8]) := by decide
-- incompatible sizes are rejected: 2 samples, 3 ids
example : C02.Move.values (pickFw (α := Int) ⟨⟨[2], 2, 2⟩, fun i => i, .here⟩ [0, 1, 0] 0 C02.Move.raw0) = none := by decide
-- slice_bw folds the minibatch of gy into a gx without one
example : (match sliceBw (α := Int) ⟨⟨[1], 3, 1⟩, fun i => 10 * (i + 1), .here⟩ 0 1 ⟨⟨[2], 1, 2⟩, fun _ => 1, .here⟩ with
    | .ok g => (List.range 2).map g.data | .error _ => []) = [1, 61] := by decide

theorem Batch.transpose_law {α} {x y : Tensor α} {raw : Nat → α} (hx : WF x.shape) (h : transposeFw x raw = .ok y) :
    y.shape.batch = x.shape.batch ∧
    ∀ i j b, i < x.shape.get 0 → j < x.shape.get 1 → b < x.shape.batch →
      atM (x.shape.get 1) (x.shape.get 0) y.data j i b = atM (x.shape.get 0) (x.shape.get 1) x.data i j b := by
  have ⟨_, hb, _, _, _, hv⟩ := C02.Move.Fwd.transpose_spec hx h
  exact ⟨hb, hv⟩

/-! ### backward: folding the minibatch into a batch-1 destination -/

theorem sum_range_mul {R} [AddCommMonoid R] (B K : Nat) (F : Nat → R) :
    ∑ t ∈ range (B * K), F t = ∑ b ∈ range B, ∑ t0 ∈ range K, F (t0 + K * b) := by
  induction B with
  | zero => simp
  | succ B ih =>
    rw [sum_range_succ, ← ih, Nat.add_mul, Nat.one_mul, sum_range_add]
    congr 1
    apply sum_congr rfl
    intro t _
    congr 1; ring

/-- A backward loop nest of `B * K` steps in which step `t0 + K b` writes where
the backward loop of sample `b` alone (`d0 b`, `s0 b`, `K` steps) writes at step
`t0` — the destination has minibatch size 1, i.e. zero batch stride — and reads
sample `b` of `gy` (`Vy` elements per sample), accumulates the SUM over the
samples of the per-sample backward results. -/
theorem Batch.bwd_fold {R} [AddCommMonoid R] (m : Moves) (B K Vy : Nat) (d0 s0 : Nat → Nat → Nat) (gy gx : Nat → R)
    (hcount : m.count = B * K)
    (hd : ∀ t0 b, t0 < K → b < B → m.didx (t0 + K * b) = d0 b t0)
    (hs : ∀ t0 b, t0 < K → b < B → m.sidx (t0 + K * b) = s0 b t0 + Vy * b) (j : Nat) :
    scatterAdd m.didx m.sidx gy m.count gx j =
      gx j + ∑ b ∈ range B, scatterAdd (d0 b) (s0 b) (fun i => gy (i + Vy * b)) K (fun _ => 0) j := by
  rw [scatterAdd_apply, hcount, sum_range_mul]
  congr 1
  apply sum_congr rfl
  intro b hb
  rw [scatterAdd_apply, zero_add]
  apply sum_congr rfl
  intro t0 ht0
  rw [hd t0 b (mem_range.mp ht0) (mem_range.mp hb), hs t0 b (mem_range.mp ht0) (mem_range.mp hb)]

/-- `sy` with minibatch size 1: the shape of one sample -/
def oneSample (s : Shape) : Shape := { s with batch := 1 }

theorem oneSample_wf {s : Shape} (h : WF s) : WF (oneSample s) :=
  ⟨h.depth_le, h.pos, Nat.one_pos, h.vol, by show s.volume * 1 < W; rw [Nat.mul_one]; exact h.vol_lt⟩

/-- slice_bw: the gradient reaching a batch-1 `gx` from a `gy` with `B` samples is
the sum over the samples of what the one-sample calls add (`m1` is the loop nest
of `slice_bw` on one sample of `gy`). -/
theorem Batch.slice_bw_fold {R} [AddCommMonoid R] {sy sx : Shape} {dim offset : Nat} {m m1 : Moves}
    (hy : WF sy) (hx : WF sx) (hoff : offset < W) (hbx : sx.batch = 1) (hd : dim < sx.depth)
    (h : Front.sliceBw sy sx dim offset = .ok (.kernel m))
    (h1 : Front.sliceBw (oneSample sy) sx dim offset = .ok (.kernel m1)) (gy gx : Nat → R) (j : Nat) :
    scatterAdd m.didx m.sidx gy m.count gx j =
      gx j + ∑ b ∈ range sy.batch,
        scatterAdd m1.didx m1.sidx (fun i => gy (i + sy.volume * b)) m1.count (fun _ => 0) j := by
  obtain ⟨_, _, _, _, _, hp⟩ := Front.sliceBw_plan hy hx hoff h
  obtain ⟨_, _, _, _, _, hp1⟩ := Front.sliceBw_plan (oneSample_wf hy) hx hoff h1
  rcases hp with ⟨hd', _⟩ | ⟨_, hm⟩
  · omega
  rcases hp1 with ⟨hd', _⟩ | ⟨_, hm1⟩
  · omega
  simp only [Front.SliceBwPlan.kernel.injEq] at hm hm1
  have hv : sy.volume = lo sx dim * sy.get dim * up sx dim := by
    have v := hy.toView dim
    have e1 : lo sy dim = lo sx dim := lo_eq_of_get (fun i hi => (Front.sliceBw_plan hy hx hoff h).1 i (by omega))
    have e2 : up sy dim = up sx dim := up_eq_of_get (fun i hi => (Front.sliceBw_plan hy hx hoff h).1 i (by omega))
    rw [v.volume, e1, e2]
  have hg1 : (oneSample sy).get dim = sy.get dim := rfl
  have hb1 : (oneSample sy).batch = 1 := rfl
  rw [hg1, hb1, hbx] at hm1
  rw [hbx] at hm
  have hK : m1.count = up sx dim * (lo sx dim * sy.get dim) := by
    rw [hm1]; simp [sliceBwMoves]
  rw [hK]
  refine Batch.bwd_fold m sy.batch _ sy.volume (fun _ => m1.didx) (fun _ => m1.sidx) gy gx ?_ ?_ ?_ j
  · rw [hm]; simp only [sliceBwMoves]; rw [Nat.max_eq_right hy.bpos]; ring
  · intro t0 b ht0 hb
    have := sliceBw_fold_idx (L := lo sx dim) (ny := sy.get dim) (nx := sx.get dim) (U := up sx dim) (B := sy.batch)
      (off := offset) (Vx := lo sx dim * sx.get dim * up sx dim) ht0 hb
    rw [hm, hm1]; exact this.2.2.1
  · intro t0 b ht0 hb
    have := sliceBw_fold_idx (L := lo sx dim) (ny := sy.get dim) (nx := sx.get dim) (U := up sx dim) (B := sy.batch)
      (off := offset) (Vx := lo sx dim * sx.get dim * up sx dim) ht0 hb
    rw [hm, hm1, hv]; exact this.2.2.2

/-- pick_bw: the gradient reaching a batch-1 `gx` is the sum over the samples `b`
of what `pick_bw` adds for sample `b` of `gy` and the single id `ids[b]`
(`ids[0]` when there is only one id). -/
theorem Batch.pick_bw_fold {R} [AddCommMonoid R] {gys gxs : Shape} {ids : List Nat} {dim : Nat} {m : Moves}
    {m1 : Nat → Moves} (hy : WF gys) (hx : WF gxs) (hlen : ids.length < W) (hbx : gxs.batch = 1)
    (h : Front.pickBw gys gxs ids dim = .ok m)
    (h1 : ∀ b, b < gys.batch →
      Front.pickBw (oneSample gys) gxs [ids.getD (b * b2n (ids.length > 1)) 0] dim = .ok (m1 b))
    (gy gx : Nat → R) (j : Nat) :
    scatterAdd m.didx m.sidx gy m.count gx j =
      gx j + ∑ b ∈ range gys.batch,
        scatterAdd (m1 b).didx (m1 b).sidx (fun i => gy (i + gys.volume * b)) (lo gxs dim * up gxs dim) (fun _ => 0) j := by
  obtain ⟨_, _, _, _, hgb, hgg, hm, _, _⟩ := Front.pickBw_plan hy hx hlen h
  rw [hbx] at hm hgb
  have hv : gys.volume = up gxs dim * lo gxs dim := by
    have v := view_of_update hy hgg
    rw [v.volume]; ring
  have hm1 : ∀ b, b < gys.batch → m1 b = (pickMoves (max 1 1) ((if (1 : Nat) = 1 then 0 else 1) * (lo gxs dim * gxs.get dim * up gxs dim))
      (b2n ([ids.getD (b * b2n (ids.length > 1)) 0].length > 1)) (lo gxs dim) (lo gxs dim * gxs.get dim) (up gxs dim)
      [ids.getD (b * b2n (ids.length > 1)) 0]).swap := by
    intro b hb
    obtain ⟨_, _, _, _, _, _, e, _, _⟩ := Front.pickBw_plan (oneSample_wf hy) hx (by simp) (h1 b hb)
    rw [hbx] at e
    exact e
  have hK : lo gxs dim * up gxs dim = up gxs dim * lo gxs dim := by ring
  rw [hK]
  refine Batch.bwd_fold m gys.batch _ gys.volume (fun b => (m1 b).didx) (fun b => (m1 b).sidx) gy gx ?_ ?_ ?_ j
  · rw [hm, hgb]; simp only [Moves.swap, pickMoves]; ring
  · intro t0 b ht0 hb
    have := pickBw_fold_idx (L := lo gxs dim) (nx := gxs.get dim) (U := up gxs dim)
      (Vx := lo gxs dim * gxs.get dim * up gxs dim) (ids := ids) ht0 (by rw [← hgb]; exact hb)
    rw [hm, hm1 b hb]; exact this.2.2.1
  · intro t0 b ht0 hb
    have := pickBw_fold_idx (L := lo gxs dim) (nx := gxs.get dim) (U := up gxs dim)
      (Vx := lo gxs dim * gxs.get dim * up gxs dim) (ids := ids) ht0 (by rw [← hgb]; exact hb)
    rw [hm, hm1 b hb, hv]; exact this.2.2.2

/-- Unfinished: the same fold law for `inplace_add` (slice_bw on an axis at or
beyond the depth), `batch_pick_bw` with repeated ids (several samples of `gy`
added into one sample of `gx`) and the `concat` backward (slice_bw per
operand), stated for all of them at once as: the result of a backward kernel
called with a batch-1 `gx` equals `gx` plus the sum over samples of the results
of the per-sample calls on a zero `gx`. -/
def Batch.bwd_law_full : Prop :=
  ∀ (gy gx g : Tensor Int) (dim offset : Nat), WF gy.shape → WF gx.shape → gx.shape.batch = 1 →
    sliceBw gy dim offset gx = .ok g →
    ∀ j, j < gx.shape.size → g.data j = gx.data j + ∑ b ∈ range gy.shape.batch,
      match sliceBw ⟨oneSample gy.shape, fun i => gy.data (i + gy.shape.volume * b), .here⟩ dim offset
          ⟨gx.shape, fun _ => 0, .here⟩ with
      | .ok gb => gb.data j
      | .error _ => 0

end Primitiv.C03.Move
