import PrimitivModel.Props.C02.Move
import PrimitivModel.Lemmas.Adjoint
import PrimitivModel.Lemmas.MoveAccept
import PrimitivModel.Props.C11.Move
/-
C03 — minibatch law for the kernels of the family.

Forward, batch-agnostic kernels (`Batch.<k>_law`): sample `b` of the result is the
documented function of sample `b` of the operands, an operand with minibatch
size 1 being shared by all samples (`sampleOf X (share B b)`).  Since the
kernel equals the documented function on every shape (C02), in particular on
the single samples, this is "kernel(batch) restricted to sample b = kernel(sample
b of the operands)".  The `batch_*` kernels are the only ones that move data
across samples; their cross-sample specifications are `C02.Move.Fwd.batch_*_spec`.

Backward: the gradient reaching an accumulator is `gx` plus the SUM over the
samples of `gy` of what the entry point, called on that sample alone with a zero
accumulator, produces — `Batch.<k>_bw_law` at the level of the entry points
(pick_bw and slice_bw into a batch-1 `gx`; batch_pick_bw and batch_slice_bw, whose
accumulator keeps its minibatch; each per-sample call is shown to be accepted),
from the generic `Batch.bwd_fold` and the index identities of each loop nest.
flip_bw, transpose_bw, permute_dims_bw, max_bw, min_bw require equal minibatch
sizes (`gy.batch = gx.batch`, so a batch-1 accumulator receives one sample) and
add to `gx` what they produce on a zero accumulator.
-/
namespace Primitiv.C03.Move
open Primitiv Primitiv.Move Primitiv.MoveShape Primitiv.Spec.Move Primitiv.View3 Finset

/-- sample `b` of a view, as a one-sample view -/
def sampleOf {α} (X : V4 α) (b : Nat) : V4 α := fun a k c _ => X a k c b

theorem Batch.slice_law {α} {x y : Tensor α} {dim lower upper : Nat} {raw : Nat → α} (hx : WF x.shape)
    (h : sliceFw x dim lower upper raw = .ok y) :
    y.shape.batch = x.shape.batch ∧
    ∀ a k c b, a < lo x.shape dim → k < upper - lower → c < up x.shape dim → b < x.shape.batch →
      at4 (lo x.shape dim) (upper - lower) (up x.shape dim) y.data a k c b =
        slice (sampleOf (at4 (lo x.shape dim) (x.shape.get dim) (up x.shape dim) x.data) b) lower a k c 0 := by
  have ⟨_, _, hb, _, hv⟩ := C02.Move.Fwd.slice_spec hx h
  exact ⟨hb, hv⟩

theorem Batch.flip_law {α} {x y : Tensor α} {dim : Nat} {raw : Nat → α} (hx : WF x.shape)
    (h : flipFw x dim raw = .ok y) :
    y.shape = x.shape ∧
    ∀ a k c b, a < lo x.shape dim → k < x.shape.get dim → c < up x.shape dim → b < x.shape.batch →
      at4 (lo x.shape dim) (x.shape.get dim) (up x.shape dim) y.data a k c b =
        Spec.Move.flip (sampleOf (at4 (lo x.shape dim) (x.shape.get dim) (up x.shape dim) x.data) b) (x.shape.get dim) a k c 0 :=
  C02.Move.Fwd.flip_spec hx h

theorem Batch.broadcast_law {α} {x y : Tensor α} {dim size : Nat} {raw : Nat → α} (hx : WF x.shape)
    (h : broadcastFw x dim size raw = .ok y) :
    y.shape.batch = x.shape.batch ∧
    ∀ a k c b, a < lo x.shape dim → k < size → c < up x.shape dim → b < x.shape.batch →
      at4 (lo x.shape dim) size (up x.shape dim) y.data a k c b =
        broadcast (sampleOf (at4 (lo x.shape dim) 1 (up x.shape dim) x.data) b) a k c 0 := by
  have ⟨_, _, _, hb, _, hv⟩ := C02.Move.Fwd.broadcast_spec hx h
  exact ⟨hb, hv⟩

theorem Batch.sum_law {α} [Add α] [Zero α] {x y : Tensor α} {dim : Nat} (hx : WF x.shape) (h : sumFw x dim = .ok y) :
    y.shape.batch = x.shape.batch ∧
    ∀ a c b, a < lo x.shape dim → c < up x.shape dim → b < x.shape.batch →
      at4 (lo x.shape dim) 1 (up x.shape dim) y.data a 0 c b =
        sum (sampleOf (at4 (lo x.shape dim) (x.shape.get dim) (up x.shape dim) x.data) b) (x.shape.get dim) a 0 c 0 := by
  have ⟨_, hb, _, hv⟩ := C02.Move.Fwd.sum_spec hx h
  exact ⟨hb, hv⟩

theorem Batch.max_law {α} [LinearOrder α] {x y : Tensor α} {dim : Nat} (hx : WF x.shape) (h : maxFw x dim = .ok y) :
    y.shape.batch = x.shape.batch ∧
    ∀ a c b, a < lo x.shape dim → c < up x.shape dim → b < x.shape.batch →
      IsMax (fun k => sampleOf (at4 (lo x.shape dim) (x.shape.get dim) (up x.shape dim) x.data) b a k c 0)
        (x.shape.get dim) (at4 (lo x.shape dim) 1 (up x.shape dim) y.data a 0 c b) := by
  have ⟨_, hb, _, hv⟩ := C02.Move.Fwd.max_spec hx h
  exact ⟨hb, hv⟩

theorem Batch.min_law {α} [LinearOrder α] {x y : Tensor α} {dim : Nat} (hx : WF x.shape) (h : minFw x dim = .ok y) :
    y.shape.batch = x.shape.batch ∧
    ∀ a c b, a < lo x.shape dim → c < up x.shape dim → b < x.shape.batch →
      IsMin (fun k => sampleOf (at4 (lo x.shape dim) (x.shape.get dim) (up x.shape dim) x.data) b a k c 0)
        (x.shape.get dim) (at4 (lo x.shape dim) 1 (up x.shape dim) y.data a 0 c b) := by
  have ⟨_, hb, _, hv⟩ := C02.Move.Fwd.min_spec hx h
  exact ⟨hb, hv⟩

/-- argmax / argmin: the ids of sample `b` are a contiguous block of the result
and depend on sample `b` of the operand only -/
theorem Batch.argmax_law {α} [LinearOrder α] {x : Tensor α} {dim : Nat} {l : List Nat} (hx : WF x.shape)
    (h : argmax x dim = .ok l) :
    ∀ a c b, a < lo x.shape dim → c < up x.shape dim → b < x.shape.batch →
      IsArgmax (fun k => sampleOf (at4 (lo x.shape dim) (x.shape.get dim) (up x.shape dim) x.data) b a k c 0)
        (x.shape.get dim) (l.getD ((a + lo x.shape dim * c) + (lo x.shape dim * up x.shape dim) * b) 0) := by
  have ⟨_, hv⟩ := C02.Move.Fwd.argmax_spec hx h
  intro a c b ha hc hb
  have := hv a c b ha hc hb
  rwa [show a + lo x.shape dim * (c + up x.shape dim * b) = (a + lo x.shape dim * c) + (lo x.shape dim * up x.shape dim) * b by ring] at this

theorem Batch.argmin_law {α} [LinearOrder α] {x : Tensor α} {dim : Nat} {l : List Nat} (hx : WF x.shape)
    (h : argmin x dim = .ok l) :
    ∀ a c b, a < lo x.shape dim → c < up x.shape dim → b < x.shape.batch →
      IsArgmin (fun k => sampleOf (at4 (lo x.shape dim) (x.shape.get dim) (up x.shape dim) x.data) b a k c 0)
        (x.shape.get dim) (l.getD ((a + lo x.shape dim * c) + (lo x.shape dim * up x.shape dim) * b) 0) := by
  have ⟨_, hv⟩ := C02.Move.Fwd.argmin_spec hx h
  intro a c b ha hc hb
  have := hv a c b ha hc hb
  rwa [show a + lo x.shape dim * (c + up x.shape dim * b) = (a + lo x.shape dim * c) + (lo x.shape dim * up x.shape dim) * b by ring] at this

/-- pick: minibatch broadcasting between `x` and `ids`: the result has
`max(batch, |ids|)` samples; sample `b` is the subplane `ids[b]` (`ids[0]` for a
single id) of sample `b` of `x` (of its only sample when `x` has none); sizes
other than equal-or-1 are rejected. -/
theorem Batch.pick_law {α} {x y : Tensor α} {ids : List Nat} {dim : Nat} {raw : Nat → α} (hx : WF x.shape)
    (hlen : ids.length < W) (h : pickFw x ids dim raw = .ok y) :
    (x.shape.batch = ids.length ∨ x.shape.batch = 1 ∨ ids.length = 1) ∧
    y.shape.batch = max x.shape.batch ids.length ∧
    ∀ a c b, a < lo x.shape dim → c < up x.shape dim → b < max x.shape.batch ids.length →
      at4 (lo x.shape dim) 1 (up x.shape dim) y.data a 0 c b =
        sampleOf (at4 (lo x.shape dim) (x.shape.get dim) (up x.shape dim) x.data) (share x.shape.batch b)
          a (ids.getD (if ids.length = 1 then 0 else b) 0) c 0 := by
  have ⟨_, _, hc, _, hb, _, hv⟩ := C02.Move.Fwd.pick_spec hx hlen h
  exact ⟨hc, hb, hv⟩

-- minibatch broadcasting of pick: x without minibatch, three ids → three samples
example : C02.Move.values (pickFw C02.Move.docX [0, 0, 1] 0 C02.Move.raw0) = some ([1, 3], 3, [1, 4, 7, 1, 4, 7, 2, 5, 8]) := by decide
-- incompatible sizes are rejected: 2 samples, 3 ids
example : C02.Move.values (pickFw (α := Int) ⟨⟨[2], 2, 2⟩, fun i => i, .here⟩ [0, 1, 0] 0 C02.Move.raw0) = none := by decide
-- slice_bw folds the minibatch of gy into a gx without one
example : (match sliceBw (α := Int) ⟨⟨[1], 3, 1⟩, fun i => 10 * (i + 1), .here⟩ 0 1 ⟨⟨[2], 1, 2⟩, fun _ => 1, .here⟩ with
    | .ok g => (List.range 2).map g.data | .error _ => []) = [1, 61] := by decide

theorem Batch.transpose_law {α} {x y : Tensor α} {raw : Nat → α} (hx : WF x.shape) (h : transposeFw x raw = .ok y) :
    y.shape.batch = x.shape.batch ∧
    ∀ i j b, i < x.shape.get 0 → j < x.shape.get 1 → b < x.shape.batch →
      atM (x.shape.get 1) (x.shape.get 0) y.data j i b = atM (x.shape.get 0) (x.shape.get 1) x.data i j b := by
  have ⟨_, hb, _, _, _, hv⟩ := C02.Move.Fwd.transpose_spec hx h
  exact ⟨hb, hv⟩

/-! ### backward: folding the minibatch into a batch-1 destination -/

theorem sum_range_mul {R} [AddCommMonoid R] (B K : Nat) (F : Nat → R) :
    ∑ t ∈ range (B * K), F t = ∑ b ∈ range B, ∑ t0 ∈ range K, F (t0 + K * b) := by
  induction B with
  | zero => simp
  | succ B ih =>
    rw [sum_range_succ, ← ih, Nat.add_mul, Nat.one_mul, sum_range_add]
    congr 1
    apply sum_congr rfl
    intro t _
    congr 1; ring

/-- A backward loop nest of `B * K` steps in which step `t0 + K b` writes where
the backward loop of sample `b` alone (`d0 b`, `s0 b`, `K` steps) writes at step
`t0` — the destination has minibatch size 1, i.e. zero batch stride — and reads
sample `b` of `gy` (`Vy` elements per sample), accumulates the SUM over the
samples of the per-sample backward results. -/
theorem Batch.bwd_fold {R} [AddCommMonoid R] (m : Moves) (B K Vy : Nat) (d0 s0 : Nat → Nat → Nat) (gy gx : Nat → R)
    (hcount : m.count = B * K)
    (hd : ∀ t0 b, t0 < K → b < B → m.didx (t0 + K * b) = d0 b t0)
    (hs : ∀ t0 b, t0 < K → b < B → m.sidx (t0 + K * b) = s0 b t0 + Vy * b) (j : Nat) :
    scatterAdd m.didx m.sidx gy m.count gx j =
      gx j + ∑ b ∈ range B, scatterAdd (d0 b) (s0 b) (fun i => gy (i + Vy * b)) K (fun _ => 0) j := by
  rw [scatterAdd_apply, hcount, sum_range_mul]
  congr 1
  apply sum_congr rfl
  intro b hb
  rw [scatterAdd_apply, zero_add]
  apply sum_congr rfl
  intro t0 ht0
  rw [hd t0 b (mem_range.mp ht0) (mem_range.mp hb), hs t0 b (mem_range.mp ht0) (mem_range.mp hb)]

/-- slice_bw: the gradient reaching a batch-1 `gx` from a `gy` with `B` samples is
the sum over the samples of what the one-sample calls add (`m1` is the loop nest
of `slice_bw` on one sample of `gy`). -/
theorem Batch.slice_bw_fold {R} [AddCommMonoid R] {sy sx : Shape} {dim offset : Nat} {m m1 : Moves}
    (hy : WF sy) (hx : WF sx) (hoff : offset < W) (hbx : sx.batch = 1) (hd : dim < sx.depth)
    (h : Front.sliceBw sy sx dim offset = .ok (.kernel m))
    (h1 : Front.sliceBw (oneSample sy) sx dim offset = .ok (.kernel m1)) (gy gx : Nat → R) (j : Nat) :
    scatterAdd m.didx m.sidx gy m.count gx j =
      gx j + ∑ b ∈ range sy.batch,
        scatterAdd m1.didx m1.sidx (fun i => gy (i + sy.volume * b)) m1.count (fun _ => 0) j := by
  obtain ⟨_, _, _, _, _, hp⟩ := Front.sliceBw_plan hy hx hoff h
  obtain ⟨_, _, _, _, _, hp1⟩ := Front.sliceBw_plan (oneSample_wf hy) hx hoff h1
  rcases hp with ⟨hd', _⟩ | ⟨_, hm⟩
  · omega
  rcases hp1 with ⟨hd', _⟩ | ⟨_, hm1⟩
  · omega
  simp only [Front.SliceBwPlan.kernel.injEq] at hm hm1
  have hv : sy.volume = lo sx dim * sy.get dim * up sx dim := by
    have v := hy.toView dim
    have e1 : lo sy dim = lo sx dim := lo_eq_of_get (fun i hi => (Front.sliceBw_plan hy hx hoff h).1 i (by omega))
    have e2 : up sy dim = up sx dim := up_eq_of_get (fun i hi => (Front.sliceBw_plan hy hx hoff h).1 i (by omega))
    rw [v.volume, e1, e2]
  have hg1 : (oneSample sy).get dim = sy.get dim := rfl
  have hb1 : (oneSample sy).batch = 1 := rfl
  rw [hg1, hb1, hbx] at hm1
  rw [hbx] at hm
  have hK : m1.count = up sx dim * (lo sx dim * sy.get dim) := by
    rw [hm1]; simp [sliceBwMoves]
  rw [hK]
  refine Batch.bwd_fold m sy.batch _ sy.volume (fun _ => m1.didx) (fun _ => m1.sidx) gy gx ?_ ?_ ?_ j
  · rw [hm]; simp only [sliceBwMoves]; rw [Nat.max_eq_right hy.bpos]; ring
  · intro t0 b ht0 hb
    have := sliceBw_fold_idx (L := lo sx dim) (ny := sy.get dim) (nx := sx.get dim) (U := up sx dim) (B := sy.batch)
      (off := offset) (Vx := lo sx dim * sx.get dim * up sx dim) ht0 hb
    rw [hm, hm1]; exact this.2.2.1
  · intro t0 b ht0 hb
    have := sliceBw_fold_idx (L := lo sx dim) (ny := sy.get dim) (nx := sx.get dim) (U := up sx dim) (B := sy.batch)
      (off := offset) (Vx := lo sx dim * sx.get dim * up sx dim) ht0 hb
    rw [hm, hm1, hv]; exact this.2.2.2

/-- pick_bw: the gradient reaching a batch-1 `gx` is the sum over the samples `b`
of what `pick_bw` adds for sample `b` of `gy` and the single id `ids[b]`
(`ids[0]` when there is only one id). -/
theorem Batch.pick_bw_fold {R} [AddCommMonoid R] {gys gxs : Shape} {ids : List Nat} {dim : Nat} {m : Moves}
    {m1 : Nat → Moves} (hy : WF gys) (hx : WF gxs) (hlen : ids.length < W) (hbx : gxs.batch = 1)
    (h : Front.pickBw gys gxs ids dim = .ok m)
    (h1 : ∀ b, b < gys.batch →
      Front.pickBw (oneSample gys) gxs [ids.getD (b * b2n (ids.length > 1)) 0] dim = .ok (m1 b))
    (gy gx : Nat → R) (j : Nat) :
    scatterAdd m.didx m.sidx gy m.count gx j =
      gx j + ∑ b ∈ range gys.batch,
        scatterAdd (m1 b).didx (m1 b).sidx (fun i => gy (i + gys.volume * b)) (lo gxs dim * up gxs dim) (fun _ => 0) j := by
  obtain ⟨_, _, _, _, hgb, hgg, hm, _, _⟩ := Front.pickBw_plan hy hx hlen h
  rw [hbx] at hm hgb
  have hv : gys.volume = up gxs dim * lo gxs dim := by
    have v := view_of_update hy hgg
    rw [v.volume]; ring
  have hm1 : ∀ b, b < gys.batch → m1 b = (pickMoves (max 1 1) ((if (1 : Nat) = 1 then 0 else 1) * (lo gxs dim * gxs.get dim * up gxs dim))
      (b2n ([ids.getD (b * b2n (ids.length > 1)) 0].length > 1)) (lo gxs dim) (lo gxs dim * gxs.get dim) (up gxs dim)
      [ids.getD (b * b2n (ids.length > 1)) 0]).swap := by
    intro b hb
    obtain ⟨_, _, _, _, _, _, e, _, _⟩ := Front.pickBw_plan (oneSample_wf hy) hx (by simp) (h1 b hb)
    rw [hbx] at e
    exact e
  have hK : lo gxs dim * up gxs dim = up gxs dim * lo gxs dim := by ring
  rw [hK]
  refine Batch.bwd_fold m gys.batch _ gys.volume (fun b => (m1 b).didx) (fun b => (m1 b).sidx) gy gx ?_ ?_ ?_ j
  · rw [hm, hgb]; simp only [Moves.swap, pickMoves]; ring
  · intro t0 b ht0 hb
    have := pickBw_fold_idx (L := lo gxs dim) (nx := gxs.get dim) (U := up gxs dim)
      (Vx := lo gxs dim * gxs.get dim * up gxs dim) (ids := ids) ht0 (by rw [← hgb]; exact hb)
    rw [hm, hm1 b hb]; exact this.2.2.1
  · intro t0 b ht0 hb
    have := pickBw_fold_idx (L := lo gxs dim) (nx := gxs.get dim) (U := up gxs dim)
      (Vx := lo gxs dim * gxs.get dim * up gxs dim) (ids := ids) ht0 (by rw [← hgb]; exact hb)
    rw [hm, hm1 b hb, hv]; exact this.2.2.2

/-- slice_bw on an axis at or beyond the depth (`inplace_add_impl`): the same fold law -/
theorem Batch.slice_bw_fold_inplace {R} [AddCommMonoid R] {sy sx : Shape} {dim offset : Nat} {m m1 : Moves}
    (hy : WF sy) (hx : WF sx) (hoff : offset < W) (hbx : sx.batch = 1)
    (h : Front.sliceBw sy sx dim offset = .ok (.inplaceAdd m))
    (h1 : Front.sliceBw (oneSample sy) sx dim offset = .ok (.inplaceAdd m1)) (gy gx : Nat → R) (j : Nat) :
    scatterAdd m.didx m.sidx gy m.count gx j =
      gx j + ∑ b ∈ range sy.batch,
        scatterAdd m1.didx m1.sidx (fun i => gy (i + sy.volume * b)) m1.count (fun _ => 0) j := by
  obtain ⟨hget, _, _, _, _, hp⟩ := Front.sliceBw_plan hy hx hoff h
  obtain ⟨_, _, _, _, _, hp1⟩ := Front.sliceBw_plan (oneSample_wf hy) hx hoff h1
  rcases hp with ⟨_, hy1, _, _, hm⟩ | ⟨_, hm⟩
  swap
  · cases hm
  rcases hp1 with ⟨_, _, _, _, hm1⟩ | ⟨_, hm1⟩
  swap
  · cases hm1
  simp only [Front.SliceBwPlan.inplaceAdd.injEq] at hm hm1
  have hv : sy.volume = lo sx dim * up sx dim := by
    have v := hy.toView dim
    have e1 : lo sy dim = lo sx dim := lo_eq_of_get (fun i hi => hget i (by omega))
    have e2 : up sy dim = up sx dim := up_eq_of_get (fun i hi => hget i (by omega))
    rw [v.volume, e1, e2, hy1]; ring
  have hb1 : (oneSample sy).batch = 1 := rfl
  rw [hb1, hbx] at hm1
  rw [hbx] at hm
  have hK : m1.count = lo sx dim * up sx dim := by rw [hm1]; simp [inplaceAddMoves]
  rw [hK]
  refine Batch.bwd_fold m sy.batch _ sy.volume (fun _ => m1.didx) (fun _ => m1.sidx) gy gx ?_ ?_ ?_ j
  · rw [hm]; exact (inplaceAdd_fold_idx (V := lo sx dim * up sx dim) (B := sy.batch) (t0 := 0) (b := 0)
      (Nat.mul_pos (lo_pos hx dim) (up_pos hx dim)) hy.bpos).1
  · intro t0 b ht0 hb
    rw [hm, hm1]; exact (inplaceAdd_fold_idx ht0 hb).2.2.1
  · intro t0 b ht0 hb
    rw [hm, hm1, hv]; exact (inplaceAdd_fold_idx ht0 hb).2.2.2

/-! ### the law at the level of the entry points

`sampleT gy b` is sample `b` of `gy` as a tensor of its own, `zeroLike gx` a
zero accumulator of the shape of `gx`; `dataOr0` reads an element of the
outcome of a call (the per-sample calls are shown to succeed). -/

def sampleT {α} (gy : Tensor α) (b : Nat) : Tensor α :=
  ⟨oneSample gy.shape, fun i => gy.data (i + gy.shape.volume * b), .here⟩

def zeroLike {α} [Zero α] (gx : Tensor α) : Tensor α := ⟨gx.shape, fun _ => 0, .here⟩

def dataOr0 {α} [Zero α] (r : R (Tensor α)) (j : Nat) : α :=
  match r with
  | .ok g => g.data j
  | .error _ => 0

/-- what a successful `slice_bw` leaves in `gx` -/
theorem sliceBw_data {R} [Add R] {gy gx g : Tensor R} {dim offset : Nat} (h : sliceBw gy dim offset gx = .ok g) :
    gy.loc = .here ∧ gx.loc = .here ∧ ∃ p, Front.sliceBw gy.shape gx.shape dim offset = .ok p ∧
      g.data = scatterAdd p.moves.didx p.moves.sidx gy.data p.moves.count gx.data := by
  unfold sliceBw sliceBwWith at h
  cases hc : checkDevice gy with
  | error e => simp [hc, bind, Except.bind] at h
  | ok u =>
  cases hc2 : checkDevice gx with
  | error e => simp [hc, hc2, bind, Except.bind] at h
  | ok u2 =>
  cases hB : Front.sliceBw gy.shape gx.shape dim offset with
  | error e => simp [hc, hc2, hB, bind, Except.bind] at h
  | ok p =>
  simp only [hc, hc2, hB, bind, Except.bind] at h
  obtain ⟨_, rfl⟩ := runAdd_inv h
  exact ⟨checkDevice_inv hc, checkDevice_inv hc2, p, rfl, rfl⟩

theorem sliceBw_data_ok {R} [Add R] {gy gx : Tensor R} {dim offset : Nat} {p : Front.SliceBwPlan}
    (hy : WF gy.shape) (hx : WF gx.shape) (hoff : offset < W) (hl1 : gy.loc = .here) (hl2 : gx.loc = .here)
    (hp : Front.sliceBw gy.shape gx.shape dim offset = .ok p) :
    sliceBw gy dim offset gx =
      .ok ⟨gx.shape, scatterAdd p.moves.didx p.moves.sidx gy.data p.moves.count gx.data, .here⟩ := by
  unfold sliceBw sliceBwWith
  simp only [checkDevice_ok hl1, checkDevice_ok hl2, hp, bind, Except.bind]
  exact runAdd_ok (C11.Move.Kernel.slice_bw_in_bounds hy hx hoff hp)

/-- **slice_bw** (also the backward of `concat`): the gradient reaching a
batch-1 `gx` is `gx` plus the sum over the samples of `gy` of what the call on
that sample alone adds to a zero accumulator; and each of these calls is accepted. -/
theorem Batch.slice_bw_law {R} [AddCommMonoid R] {gy gx g : Tensor R} {dim offset : Nat} (hy : WF gy.shape)
    (hx : WF gx.shape) (hoff : offset < W) (hbx : gx.shape.batch = 1) (h : sliceBw gy dim offset gx = .ok g) :
    (∀ b, b < gy.shape.batch → ∃ gb, sliceBw (sampleT gy b) dim offset (zeroLike gx) = .ok gb) ∧
    ∀ j, g.data j = gx.data j +
      ∑ b ∈ range gy.shape.batch, dataOr0 (sliceBw (sampleT gy b) dim offset (zeroLike gx)) j := by
  obtain ⟨_, _, p, hp, hg⟩ := sliceBw_data h
  obtain ⟨p1, hp1⟩ := Front.sliceBw_oneSample hp
  have hs : ∀ b, sliceBw (sampleT gy b) dim offset (zeroLike gx) =
      .ok ⟨gx.shape, scatterAdd p1.moves.didx p1.moves.sidx (fun i => gy.data (i + gy.shape.volume * b))
        p1.moves.count (fun _ => 0), .here⟩ :=
    fun b => sliceBw_data_ok (gy := sampleT gy b) (gx := zeroLike gx) (oneSample_wf hy) hx hoff rfl rfl hp1
  refine ⟨fun b _ => ⟨_, hs b⟩, fun j => ?_⟩
  rw [hg]
  simp only [hs, dataOr0]
  obtain ⟨_, _, _, _, _, hk⟩ := Front.sliceBw_plan hy hx hoff hp
  obtain ⟨_, _, _, _, _, hk1⟩ := Front.sliceBw_plan (oneSample_wf hy) hx hoff hp1
  rcases hk with ⟨hd, _, _, _, rfl⟩ | ⟨hd, rfl⟩
  · rcases hk1 with ⟨_, _, _, _, rfl⟩ | ⟨hd1, _⟩
    · exact Batch.slice_bw_fold_inplace hy hx hoff hbx hp hp1 gy.data gx.data j
    · omega
  · rcases hk1 with ⟨hd1, _⟩ | ⟨_, rfl⟩
    · omega
    · exact Batch.slice_bw_fold hy hx hoff hbx hd hp hp1 gy.data gx.data j

theorem pickBw_data_ok {R} [Add R] {gy gx : Tensor R} {ids : List Nat} {dim : Nat} {m : Moves}
    (hy : WF gy.shape) (hx : WF gx.shape) (hlen : ids.length < W) (hl1 : gy.loc = .here) (hl2 : gx.loc = .here)
    (hp : Front.pickBw gy.shape gx.shape ids dim = .ok m) :
    pickBw gy ids dim gx = .ok ⟨gx.shape, scatterAdd m.didx m.sidx gy.data m.count gx.data, .here⟩ := by
  unfold pickBw
  have ⟨hb, hi⟩ := C11.Move.Kernel.pick_bw_in_bounds hy hx hlen hp
  simp only [checkDevice_ok hl1, checkDevice_ok hl2, hp, bind, Except.bind, hi, Bool.not_true, Bool.false_eq_true, if_false]
  exact runAdd_ok hb

/-- **pick_bw**: the gradient reaching a batch-1 `gx` is `gx` plus the sum over the
samples `b` of what `pick_bw` on sample `b` of `gy` with the single id `ids[b]`
(`ids[0]` when there is only one id) adds to a zero accumulator. -/
theorem Batch.pick_bw_law {R} [AddCommMonoid R] {gy gx g : Tensor R} {ids : List Nat} {dim : Nat} (hy : WF gy.shape)
    (hx : WF gx.shape) (hlen : ids.length < W) (hbx : gx.shape.batch = 1) (h : pickBw gy ids dim gx = .ok g) :
    let idOf := fun b => ids.getD (b * b2n (ids.length > 1)) 0
    (∀ b, b < gy.shape.batch → ∃ gb, pickBw (sampleT gy b) [idOf b] dim (zeroLike gx) = .ok gb) ∧
    ∀ j, g.data j = gx.data j +
      ∑ b ∈ range gy.shape.batch, dataOr0 (pickBw (sampleT gy b) [idOf b] dim (zeroLike gx)) j := by
  intro idOf
  obtain ⟨_, _, m, hp, _, rfl⟩ := pickBw_inv h
  obtain ⟨_, hpos, hcomp, hids, hgb, _, _, _, _⟩ := Front.pickBw_plan hy hx hlen hp
  -- the per-sample plans
  have hmem : ∀ b, b < gy.shape.batch → idOf b ∈ ids := by
    intro b hb
    rw [hgb] at hb
    have ⟨h1, _⟩ := pick_id_ok (nx := gx.shape.get dim) hpos hcomp hids hx.bpos hb
    have : idOf b = ids[b * b2n (ids.length > 1)]'h1 := by
      simp [idOf, List.getD, List.getElem?_eq_getElem h1]
    rw [this]; exact List.getElem_mem h1
  let m1 : Nat → Moves := fun b =>
    (pickMoves (max gx.shape.batch 1) ((if gx.shape.batch = 1 then 0 else 1) * (lo gx.shape dim * gx.shape.get dim * up gx.shape dim))
      (b2n ([idOf b].length > 1)) (lo gx.shape dim) (lo gx.shape dim * gx.shape.get dim) (up gx.shape dim) [idOf b]).swap
  have hp1 : ∀ b, b < gy.shape.batch → Front.pickBw (oneSample gy.shape) gx.shape [idOf b] dim = .ok (m1 b) := by
    intro b hb
    obtain ⟨m', hm'⟩ := Front.pickBw_oneSample hx hbx hp (hmem b hb)
    obtain ⟨_, _, _, _, _, _, e, _, _⟩ := Front.pickBw_plan (oneSample_wf hy) hx (by simp) hm'
    rw [hm', e]; rfl
  have hs : ∀ b, b < gy.shape.batch → pickBw (sampleT gy b) [idOf b] dim (zeroLike gx) =
      .ok ⟨gx.shape, scatterAdd (m1 b).didx (m1 b).sidx (fun i => gy.data (i + gy.shape.volume * b))
        (m1 b).count (fun _ => 0), .here⟩ :=
    fun b hb => pickBw_data_ok (gy := sampleT gy b) (gx := zeroLike gx) (oneSample_wf hy) hx (by simp) rfl rfl (hp1 b hb)
  refine ⟨fun b hb => ⟨_, hs b hb⟩, fun j => ?_⟩
  have hfold := Batch.pick_bw_fold hy hx hlen hbx hp hp1 gy.data gx.data j
  simp only at hfold ⊢
  rw [hfold]
  congr 1
  apply sum_congr rfl
  intro b hb
  rw [hs b (mem_range.mp hb)]
  simp only [dataOr0]
  have hc : (m1 b).count = lo gx.shape dim * up gx.shape dim := by
    simp only [m1, Moves.swap, pickMoves, hbx]; simp; ring
  rw [hc]

theorem batchPickBw_data_ok {R} [Add R] {gy gx : Tensor R} {ids : List Nat} {m : Moves}
    (hy : WF gy.shape) (hx : WF gx.shape) (hlen : ids.length < W) (hl1 : gy.loc = .here) (hl2 : gx.loc = .here)
    (hp : Front.batchPickBw gy.shape gx.shape ids = .ok m) :
    batchPickBw gy ids gx = .ok ⟨gx.shape, scatterAdd m.didx m.sidx gy.data m.count gx.data, .here⟩ := by
  unfold batchPickBw
  have ⟨hb, hle⟩ := C11.Move.Kernel.batch_pick_bw_in_bounds hy hx hlen hp
  simp only [checkDevice_ok hl1, checkDevice_ok hl2, hp, bind, Except.bind]
  rw [if_neg (by omega)]
  exact runAdd_ok hb

/-- **batch_pick_bw** (the accumulator keeps its minibatch; several samples of `gy`
may go to the same sample of `gx`): `gx` plus the sum over the samples `b` of `gy`
of what `batch_pick_bw` on that sample with the single id `ids[b]` adds. -/
theorem Batch.batch_pick_bw_law {R} [AddCommMonoid R] {gy gx g : Tensor R} {ids : List Nat} (hy : WF gy.shape)
    (hx : WF gx.shape) (hlen : ids.length < W) (h : batchPickBw gy ids gx = .ok g) :
    gy.shape.batch = ids.length ∧
    (∀ b, b < ids.length → ∃ gb, batchPickBw (sampleT gy b) [ids.getD b 0] (zeroLike gx) = .ok gb) ∧
    ∀ j, g.data j = gx.data j +
      ∑ b ∈ range ids.length, dataOr0 (batchPickBw (sampleT gy b) [ids.getD b 0] (zeroLike gx)) j := by
  obtain ⟨_, _, m, hp, _, rfl⟩ := batchPickBw_inv h
  obtain ⟨_, _, hgb, hgg, hm, _, _⟩ := Front.batchPickBw_plan hy hx hlen hp
  have hvol : gy.shape.volume = gx.shape.volume := volume_eq_of_get hy hx hgg
  have hmem : ∀ b, b < ids.length → ids.getD b 0 ∈ ids := by
    intro b hb
    have : ids.getD b 0 = ids[b] := by simp [List.getD, List.getElem?_eq_getElem hb]
    rw [this]; exact List.getElem_mem hb
  have hp1 : ∀ b, b < ids.length → Front.batchPickBw (oneSample gy.shape) gx.shape [ids.getD b 0] =
      .ok (batchPickMoves 1 gx.shape.volume [ids.getD b 0]).swap := by
    intro b hb
    obtain ⟨m', hm', e⟩ := Front.batchPickBw_oneSample hx hp (hmem b hb)
    rw [hm', e]
  have hs : ∀ b, b < ids.length → batchPickBw (sampleT gy b) [ids.getD b 0] (zeroLike gx) =
      .ok ⟨gx.shape, scatterAdd (batchPickMoves 1 gx.shape.volume [ids.getD b 0]).swap.didx
        (batchPickMoves 1 gx.shape.volume [ids.getD b 0]).swap.sidx (fun i => gy.data (i + gy.shape.volume * b))
        (batchPickMoves 1 gx.shape.volume [ids.getD b 0]).swap.count (fun _ => 0), .here⟩ :=
    fun b hb => batchPickBw_data_ok (gy := sampleT gy b) (gx := zeroLike gx) (oneSample_wf hy) hx (by simp) rfl rfl (hp1 b hb)
  refine ⟨hgb, fun b hb => ⟨_, hs b hb⟩, fun j => ?_⟩
  simp only
  rw [hm, Batch.bwd_fold (batchPickMoves ids.length gx.shape.volume ids).swap ids.length gx.shape.volume gx.shape.volume
    (fun b => (batchPickMoves 1 gx.shape.volume [ids.getD b 0]).swap.didx)
    (fun b => (batchPickMoves 1 gx.shape.volume [ids.getD b 0]).swap.sidx) gy.data gx.data
    (batchPickBw_fold_idx (V := gx.shape.volume) (t0 := 0) (b := 0) (ids := ids) hx.vol_pos).1
    (fun t0 b ht0 _ => (batchPickBw_fold_idx ht0).2.2.1) (fun t0 b ht0 _ => (batchPickBw_fold_idx ht0).2.2.2) j]
  congr 1
  apply sum_congr rfl
  intro b hb
  rw [hs b (mem_range.mp hb)]
  simp only [dataOr0, hvol]
  have hc : (batchPickMoves 1 gx.shape.volume [ids.getD b 0]).swap.count = gx.shape.volume := by
    simp [Moves.swap, batchPickMoves]
  rw [hc]

theorem batchSliceBw_data_ok {R} [Add R] {gy gx : Tensor R} {offset : Nat} {m : Moves}
    (hy : WF gy.shape) (hx : WF gx.shape) (hoff : offset < W) (hl1 : gy.loc = .here) (hl2 : gx.loc = .here)
    (hp : Front.batchSliceBw gy.shape gx.shape offset = .ok m) :
    batchSliceBw gy offset gx = .ok ⟨gx.shape, scatterAdd m.didx m.sidx gy.data m.count gx.data, .here⟩ := by
  unfold batchSliceBw batchSliceBwWith
  simp only [checkDevice_ok hl1, checkDevice_ok hl2, hp, bind, Except.bind]
  exact runAdd_ok (C11.Move.Kernel.batch_slice_bw_in_bounds hy hx hoff hp)

/-- **batch_slice_bw**: `gx` plus the sum over the samples `b` of `gy` of what
`batch_slice_bw` on that sample with offset `offset + b` adds. -/
theorem Batch.batch_slice_bw_law {R} [AddCommMonoid R] {gy gx g : Tensor R} {offset : Nat} (hy : WF gy.shape)
    (hx : WF gx.shape) (hoff : offset < W) (h : batchSliceBw gy offset gx = .ok g) :
    offset + gy.shape.batch ≤ gx.shape.batch ∧
    (∀ b, b < gy.shape.batch → ∃ gb, batchSliceBw (sampleT gy b) (offset + b) (zeroLike gx) = .ok gb) ∧
    ∀ j, g.data j = gx.data j +
      ∑ b ∈ range gy.shape.batch, dataOr0 (batchSliceBw (sampleT gy b) (offset + b) (zeroLike gx)) j := by
  unfold batchSliceBw batchSliceBwWith at h
  obtain ⟨_, _, m, hp, _, rfl⟩ := bw_inv h
  obtain ⟨_, hle, hvol, hm, _, _⟩ := Front.batchSliceBw_plan hy hx hoff hp
  have hbW := Front.batch_lt hx
  have hp1 : ∀ b, b < gy.shape.batch → Front.batchSliceBw (oneSample gy.shape) gx.shape (offset + b) =
      .ok (batchSliceBwMoves gx.shape.volume 1 (offset + b)) :=
    fun b hb => Front.batchSliceBw_oneSample hy hx hoff hp hb
  have hs : ∀ b, b < gy.shape.batch → batchSliceBw (sampleT gy b) (offset + b) (zeroLike gx) =
      .ok ⟨gx.shape, scatterAdd (batchSliceBwMoves gx.shape.volume 1 (offset + b)).didx
        (batchSliceBwMoves gx.shape.volume 1 (offset + b)).sidx (fun i => gy.data (i + gy.shape.volume * b))
        (batchSliceBwMoves gx.shape.volume 1 (offset + b)).count (fun _ => 0), .here⟩ :=
    fun b hb => batchSliceBw_data_ok (gy := sampleT gy b) (gx := zeroLike gx) (oneSample_wf hy) hx (by omega) rfl rfl (hp1 b hb)
  refine ⟨hle, fun b hb => ⟨_, hs b hb⟩, fun j => ?_⟩
  simp only
  have hfit : ∀ b, b < gy.shape.batch → gx.shape.volume * (offset + b) < W := by
    intro b hb
    calc gx.shape.volume * (offset + b) ≤ gx.shape.volume * gx.shape.batch := Nat.mul_le_mul_left _ (by omega)
      _ < W := hx.fits
  rw [hm, Batch.bwd_fold (batchSliceBwMoves gx.shape.volume gy.shape.batch offset) gy.shape.batch gx.shape.volume
    gx.shape.volume (fun b => (batchSliceBwMoves gx.shape.volume 1 (offset + b)).didx)
    (fun b => (batchSliceBwMoves gx.shape.volume 1 (offset + b)).sidx) gy.data gx.data
    (by simp only [batchSliceBwMoves]; ring)
    (fun t0 b _ hb => (batchSliceBw_fold_idx (B := gy.shape.batch) (t0 := t0) (hfit b hb)).2.2.1)
    (fun t0 b _ hb => (batchSliceBw_fold_idx (B := gy.shape.batch) (t0 := t0) (hfit b hb)).2.2.2) j]
  congr 1
  apply sum_congr rfl
  intro b hb
  rw [hs b (mem_range.mp hb)]
  simp only [dataOr0, hvol]
  have hc : (batchSliceBwMoves gx.shape.volume 1 (offset + b)).count = gx.shape.volume := by
    simp [batchSliceBwMoves]
  rw [hc]

/-! ### backward kernels whose operands all have the same minibatch size

flip_bw, transpose_bw, permute_dims_bw, max_bw, min_bw: the guard forces `gy`
and `gx` to have the same number of samples, so a batch-1 accumulator receives
exactly one sample (the sum over samples has one term), and the kernel ADDS:
the result is `gx` plus what the same call leaves in a zero accumulator. -/

theorem scatterAdd_zero_split {R} [AddCommMonoid R] (d s : Nat → Nat) (gy gx : Nat → R) (n j : Nat) :
    scatterAdd d s gy n gx j = gx j + scatterAdd d s gy n (fun _ => 0) j := by
  rw [scatterAdd_apply, scatterAdd_apply, zero_add]

theorem Batch.flip_bw_law {R} [AddCommMonoid R] {gy gx g : Tensor R} {dim : Nat} (hy : WF gy.shape) (hx : WF gx.shape)
    (h : flipBw gy dim gx = .ok g) :
    gy.shape.batch = gx.shape.batch ∧
    ∃ g0, flipBw gy dim (zeroLike gx) = .ok g0 ∧ ∀ j, g.data j = gx.data j + g0.data j := by
  unfold flipBw at h
  obtain ⟨hl1, _, m, hF, hb, rfl⟩ := bw_inv h
  have hbatch : gy.shape.batch = gx.shape.batch := by
    unfold Front.flipBw at hF
    split at hF
    · cases hF
    · rename_i he; exact (eq_get (Front.not_not_eq he)).2
  refine ⟨hbatch, ⟨gx.shape, scatterAdd m.didx m.sidx gy.data m.count (fun _ => 0), .here⟩, ?_, fun j => scatterAdd_zero_split _ _ _ _ _ _⟩
  unfold flipBw
  simp only [checkDevice_ok hl1, checkDevice_ok (x := zeroLike gx) rfl, bind, Except.bind]
  rw [show (zeroLike gx).shape = gx.shape from rfl, hF]
  exact runAdd_ok (gx := zeroLike gx) hb

theorem Batch.permute_dims_bw_law {R} [AddCommMonoid R] {x y gy gx g : Tensor R} {perm : List Nat} (hx : WF x.shape)
    (hy : WF y.shape) (hgy : WF gy.shape) (hgx : WF gx.shape) (h : permuteBw x y gy perm gx = .ok g) :
    gy.shape.batch = gx.shape.batch ∧
    ∃ g0, permuteBw x y gy perm (zeroLike gx) = .ok g0 ∧ ∀ j, g.data j = gx.data j + g0.data j := by
  unfold permuteBw at h
  cases hc1 : checkDevice x with
  | error e => simp [hc1, bind, Except.bind] at h
  | ok u1 =>
  cases hc2 : checkDevice y with
  | error e => simp [hc1, hc2, bind, Except.bind] at h
  | ok u2 =>
  cases hc3 : checkDevice gy with
  | error e => simp [hc1, hc2, hc3, bind, Except.bind] at h
  | ok u3 =>
  cases hc4 : checkDevice gx with
  | error e => simp [hc1, hc2, hc3, hc4, bind, Except.bind] at h
  | ok u4 =>
  cases hF : Front.permuteBw x.shape y.shape gy.shape gx.shape perm with
  | error e => simp [hc1, hc2, hc3, hc4, hF, bind, Except.bind] at h
  | ok m =>
  simp only [hc1, hc2, hc3, hc4, hF, bind, Except.bind] at h
  obtain ⟨hb, rfl⟩ := runAdd_inv h
  obtain ⟨m', hFw, _, e1, e2⟩ := permuteBw_plan hx hy hgy hgx hF
  have hbatch : gy.shape.batch = gx.shape.batch := by
    rw [e2, e1]; exact (permuteFw_plan hx hFw).2.2.2.1
  refine ⟨hbatch, ⟨gx.shape, scatterAdd m.didx m.sidx gy.data m.count (fun _ => 0), .here⟩, ?_, fun j => scatterAdd_zero_split _ _ _ _ _ _⟩
  unfold permuteBw
  simp only [hc1, hc2, hc3, checkDevice_ok (x := zeroLike gx) rfl, bind, Except.bind]
  rw [show (zeroLike gx).shape = gx.shape from rfl, hF]
  exact runAdd_ok (gx := zeroLike gx) hb

theorem Batch.transpose_bw_law {R} [AddCommMonoid R] {x y gy gx g : Tensor R} {raw : Nat → R} (hx : WF x.shape)
    (hgy : WF gy.shape) (hgx : WF gx.shape) (h : transposeBw x y gy gx raw = .ok g) :
    gy.shape.batch = gx.shape.batch ∧
    ∃ g0, transposeBw x y gy (zeroLike gx) raw = .ok g0 ∧ ∀ j, g.data j = gx.data j + g0.data j := by
  unfold transposeBw at h
  cases hc1 : checkDevice x with
  | error e => simp [hc1, bind, Except.bind] at h
  | ok u1 =>
  cases hc2 : checkDevice y with
  | error e => simp [hc1, hc2, bind, Except.bind] at h
  | ok u2 =>
  cases hc3 : checkDevice gy with
  | error e => simp [hc1, hc2, hc3, bind, Except.bind] at h
  | ok u3 =>
  cases hc4 : checkDevice gx with
  | error e => simp [hc1, hc2, hc3, hc4, bind, Except.bind] at h
  | ok u4 =>
  cases hG : Front.transposeBwGuard x.shape y.shape gy.shape gx.shape with
  | error e => simp [hc1, hc2, hc3, hc4, hG, bind, Except.bind] at h
  | ok u5 =>
  cases hT : transposeFw gy raw with
  | error e => simp [hc1, hc2, hc3, hc4, hG, hT, bind, Except.bind] at h
  | ok t =>
  simp only [hc1, hc2, hc3, hc4, hG, hT, bind, Except.bind] at h
  obtain ⟨hb, rfl⟩ := runAdd_inv h
  have hbatch : gy.shape.batch = gx.shape.batch := by
    unfold Front.transposeBwGuard at hG
    split at hG
    · cases hG
    rename_i hc
    simp only [Bool.or_eq_true, not_or] at hc
    have c1 := Front.not_not_eq hc.1
    have c2 := Front.not_not_eq hc.2
    cases hS : ShapeOps.transpose x.shape with
    | error e => simp [hS, bind, Except.bind] at hG
    | ok s =>
      simp only [hS, bind, Except.bind] at hG
      split at hG
      · cases hG
      rename_i hc3'
      have c3 := Front.not_not_eq hc3'
      have hsb : s.batch = x.shape.batch := by
        unfold ShapeOps.transpose at hS
        split at hS
        · cases hS
        · exact (new_ok hS).2.1
      rw [← (eq_get c2).2, (eq_get c3).2, hsb, (eq_get c1).2]
  refine ⟨hbatch, ⟨gx.shape, scatterAdd _ _ t.data _ (fun _ => 0), .here⟩, ?_, fun j => scatterAdd_zero_split _ _ _ _ _ _⟩
  unfold transposeBw
  simp only [hc1, hc2, hc3, checkDevice_ok (x := zeroLike gx) rfl, bind, Except.bind]
  rw [show (zeroLike gx).shape = gx.shape from rfl, hG]
  simp only [hT]
  exact runAdd_ok (gx := zeroLike gx) hb

theorem selectAdd_zero_split {R} [AddCommMonoid R] [DecidableEq R] (r : Reduce) (x y gy gx : Nat → R) (n o : Nat) :
    selectAdd r x y gy n gx o = gx o + selectAdd r x y gy n (fun _ => 0) o := by
  rw [selectAdd_apply, selectAdd_apply, zero_add]

theorem Batch.max_bw_law {R} [AddCommMonoid R] [DecidableEq R] {x y gy gx g : Tensor R} {dim : Nat} (hx : WF x.shape)
    (hy : WF y.shape) (hgy : WF gy.shape) (hgx : WF gx.shape) (h : maxBw x y gy dim gx = .ok g) :
    gy.shape.batch = gx.shape.batch ∧
    ∃ g0, maxBw x y gy dim (zeroLike gx) = .ok g0 ∧ ∀ j, g.data j = gx.data j + g0.data j := by
  unfold maxBw at h
  cases hc1 : checkDevice x with
  | error e => simp [hc1, bind, Except.bind] at h
  | ok u1 =>
  cases hc2 : checkDevice y with
  | error e => simp [hc1, hc2, bind, Except.bind] at h
  | ok u2 =>
  cases hc3 : checkDevice gy with
  | error e => simp [hc1, hc2, hc3, bind, Except.bind] at h
  | ok u3 =>
  cases hc4 : checkDevice gx with
  | error e => simp [hc1, hc2, hc3, hc4, bind, Except.bind] at h
  | ok u4 =>
  cases hF : Front.maxBw x.shape y.shape gy.shape gx.shape dim with
  | error e => simp [hc1, hc2, hc3, hc4, hF, bind, Except.bind] at h
  | ok r =>
  simp only [hc1, hc2, hc3, hc4, hF, bind, Except.bind] at h
  split at h
  · cases h
  rename_i hchk
  simp only [pure, Except.pure, Except.ok.injEq] at h
  subst h
  have hbatch : gy.shape.batch = gx.shape.batch := by
    unfold Front.maxBw at hF
    cases hS : x.shape.resizeDim dim 1 with
    | error e => simp [hS, bind, Except.bind] at hF
    | ok s =>
      simp only [hS, bind, Except.bind] at hF
      split at hF
      · cases hF
      rename_i hc
      simp only [Bool.or_eq_true, not_or] at hc
      have c1 := Front.not_not_eq hc.1.1
      have c3 := Front.not_not_eq hc.2
      have ⟨_, _, _, hsb, _, _⟩ := resizeDim_ok hx hS
      rw [(eq_get c3).2, hsb, (eq_get c1).2]
  refine ⟨hbatch, ⟨gx.shape, selectAdd r x.data y.data gy.data r.rep (fun _ => 0), .here⟩, ?_, fun j => selectAdd_zero_split _ _ _ _ _ _ _⟩
  unfold maxBw
  simp only [hc1, hc2, hc3, checkDevice_ok (x := zeroLike gx) rfl, bind, Except.bind]
  rw [show (zeroLike gx).shape = gx.shape from rfl, hF]
  simp only
  rw [if_neg hchk]; rfl

theorem Batch.min_bw_law {R} [AddCommMonoid R] [DecidableEq R] {x y gy gx g : Tensor R} {dim : Nat} (hx : WF x.shape)
    (hy : WF y.shape) (hgy : WF gy.shape) (hgx : WF gx.shape) (h : minBw x y gy dim gx = .ok g) :
    gy.shape.batch = gx.shape.batch ∧
    ∃ g0, minBw x y gy dim (zeroLike gx) = .ok g0 ∧ ∀ j, g.data j = gx.data j + g0.data j :=
  Batch.max_bw_law hx hy hgy hgx h

end Primitiv.C03.Move
