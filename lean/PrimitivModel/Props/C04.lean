import PrimitivModel.Model.OpTable
import PrimitivModel.Gen.OpTable
import PrimitivModel.Driver.FuncsDrv
/-
C04 — the lazy Node API and the eager Tensor API agree; static shapes are sound.

The statements are over the WHOLE generated table (`Gen/OpTable.lean`, rewritten
from the working tree on every run), for both settings of PRIMITIV_USE_CACHE,
and are decided by kernel evaluation of the checking functions of
`Model/OpTable.lean`.
-/
namespace Primitiv.C04
open Primitiv.OpTable Primitiv.Gen.OpTable

set_option maxRecDepth 100000

/-- The translator understood every operator class, rule body, public Node /
Tensor function, operator template, wrapper, composite and device front-end. -/
theorem OpTable.no_unsupported :
    table.noUnsupported = true ∧ tableCache.noUnsupported = true := by decide +kernel

/-- For every public Node function the number of nodes it passes to
`add_operator` equals the operator's declared `argn` (or satisfies
NONZERO / ANY, an empty vector being rejected first); every `x[i]`, `y[i]`,
`gx[i]`, `gy[i]` used by FWD_SHAPE, FORWARD and BACKWARD is below the declared
counts; FWD_SHAPE and FORWARD assign exactly `retn` values. -/
theorem OpTable.arity_consistent :
    table.arityConsistent = true ∧ tableCache.arityConsistent = true := by decide +kernel

/-- every operator class is registered by some public Node function -/
theorem OpTable.all_ops_reachable :
    table.allOpsReachable = true ∧ tableCache.allOpsReachable = true := by decide +kernel

/-- For every public Node function `f` and every outcome of the scalar
dispatch, FORWARD of the operator(s) it registers — through
`functions::g<Tensor>`, the operator templates or a device method — runs the
same kernels with the same arguments in the same order, and returns the same
value, as the Tensor function `f`. -/
theorem Api.same_kernel : table.sameKernel = true := by decide +kernel

theorem Api.same_kernel_cache : tableCache.sameKernel = true := by decide +kernel

/-- The composite helpers that are defined once as templates over the variable type
(contrib/functions.h: selu, mean, batch::mean, batch::normalize, zeros, ones, dropout) run,
instantiated on Nodes, the same kernels on the same arguments as instantiated on Tensors. -/
theorem Api.same_kernel_composites :
    table.sameKernelComposites = true ∧ tableCache.sameKernelComposites = true := by decide +kernel

example : table.genericComposites.length = 11 := by decide +kernel

/-- For every operator registered by a public Node function whose FORWARD is a
single kernel call, FWD_SHAPE computes the static shape with the same shape
rule applied to the same arguments as the device front-end of that kernel uses
for the shape of its output (operators without a kernel return the shape of
their argument; the four composite operators are covered by the
correspondence run, see `shape_sound_full`). -/
theorem Api.shape_rule_consistent : table.shapeRuleConsistent = true := by decide +kernel

theorem Api.shape_rule_consistent_cache : tableCache.shapeRuleConsistent = true := by decide +kernel

/-- a concrete instance: `add(a, b)` with a scalar `a` registers AddScalar(b, a), whose FORWARD
`*x[0] + *x[1]` is `add_scalar_fw(b, a)` — what `add<Tensor>(a, b)` calls -/
example : (table.nodeFns.filter (fun f => f.name == "add")).length = 3 := by decide +kernel

/-! ### Full statements (stated, not proved)

Over the table-driven model of both APIs that the driver runs
(`Driver/FuncsDrv.lean`: `runApi st node …` interprets the public function on
the Node level — `Graph::add_operator`, FWD_SHAPE, and FORWARD on (shape,
device) pairs — or on the Tensor level — device front-ends —).  What is missing
for a proof: a semantic comparison of FWD_SHAPE with the composition of the
front-end shape rules for the composite operators (Split, BatchSplit,
SoftmaxCrossEntropy, SparseSoftmaxCrossEntropy) and for the composite
functions, for all shapes; the theorems above compare the rules syntactically
for the single-kernel operators, the correspondence run compares both levels
on the generated programs. -/

open Primitiv.Drv.FuncsDrv in
/-- In a single-graph program whose variables all have values, a call is accepted by the Node
API iff it is accepted by the Tensor API or its error is one that is due at evaluation (then
forcing the node throws), and the static Node shapes are the shapes of the Tensor results. -/
def Api.shape_sound_full : Prop :=
  ∀ (st : State) (kind name : String) (ks : List K) (toks : List String),
    st.singleGraph → st.allEager →
    match runApi st true kind name ks toks, runApi st false kind name ks toks with
    | some (rn, _), some (rt, _) =>
      ((resShapes rn).isSome = true ↔ ((resShapes rt).isSome = true ∨ resLazy rn = true)) ∧
      ((resShapes rt).isSome = true → resLazy rn = false ∧
        (resShapes rn).map (·.map Shape.toStr) = (resShapes rt).map (·.map Shape.toStr))
    | _, _ => True

end Primitiv.C04
