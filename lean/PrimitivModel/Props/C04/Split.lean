import PrimitivModel.Lemmas.SplitShape
/-
C04, proved fragment of `Api.shape_sound_full` for the composite operators
Split and BatchSplit (their FORWARD runs a loop of kernels, so the syntactic
comparison of `Api.shape_rule_consistent` does not apply): for ALL canonical
shapes, axes and partition counts the static shape of FWD_SHAPE is the shape
every slice front-end of the Tensor path computes, and both paths reject the
same arguments.  Over `Model/Shape.lean` (32-bit arithmetic included), whose
rules the driver runs and the correspondence validates.
-/
namespace Primitiv.C04
open Primitiv Primitiv.ShapeL

/-- C04, the composite operator Split: whenever FWD_SHAPE(Split) accepts `(x, dim, n)` with the
static shape `s`, the Tensor path of `split` (tensor_funcs.cc: the same two guards, then
`x.shape().resize_dim(dim, span)`, then `slice(x, dim, i * span, (i + 1) * span)` for every `i < n`)
passes its shape validation and every slice front-end computes exactly the shape `s`. -/
theorem Api.split_shape_sound_partial {x : Shape} (hx : x.Canonical) (dim n : Nat) {s : Shape}
    (h : ShapeOps.split x dim n = .ok s) :
    x.resizeDim dim (x.get dim / n) = .ok s ∧
    ∀ i, i < n → ShapeOps.slice x dim (mul32 i (x.get dim / n)) (mul32 (i + 1) (x.get dim / n)) = .ok s := by
  unfold ShapeOps.split at h
  by_cases hn : n = 0
  · rw [if_pos hn] at h; cases h
  rw [if_neg hn] at h
  by_cases hm : mul32 (x.get dim / n) n = x.get dim
  · simp only [hm, ne_eq, not_true_eq_false, if_false] at h
    refine ⟨h, fun i hi => ?_⟩
    obtain ⟨e1, e2, hs, hle, hlt⟩ := span_arith (hx.get_lt dim) (hx.get_pos dim) hm hi
    unfold ShapeOps.slice
    rw [e1, e2, if_neg (by omega)]
    have hsub : sub32 (i * (x.get dim / n) + x.get dim / n) (i * (x.get dim / n)) = x.get dim / n := by
      rw [sub32_eq (by omega) hlt]; omega
    by_cases hd : dim ≥ x.depth
    · rw [if_pos hd]
      -- beyond the depth the axis has size 1: one partition of span 1, the shape is unchanged
      have hg : x.get dim = 1 := by unfold Shape.get; exact getD_ge hd
      have hspan : x.get dim / n = 1 := by rw [hg] at hle hs ⊢; omega
      rw [hspan] at h
      have hd8 : dim < 8 := by
        apply Nat.lt_of_not_le; intro h8
        unfold Shape.updateDim at h; rw [if_pos h8] at h; cases h
      rw [updateDim_one_beyond hx hd hd8] at h
      exact h
    · rw [if_neg hd, hsub]; exact h
  · simp only [hm, ne_eq, not_false_eq_true, if_true] at h; cases h

/-- … and FWD_SHAPE(Split) rejects exactly when one of the three checks of the Tensor path fails. -/
theorem Api.split_rejects_iff (x : Shape) (dim n : Nat) :
    (∃ s, ShapeOps.split x dim n = .ok s) ↔
      (n ≠ 0 ∧ mul32 (x.get dim / n) n = x.get dim ∧ ∃ s, x.resizeDim dim (x.get dim / n) = .ok s) := by
  unfold ShapeOps.split Shape.resizeDim
  by_cases hn : n = 0
  · simp [hn, throwError]
  · by_cases hm : mul32 (x.get dim / n) n = x.get dim <;> simp [hn, hm, throwError]

/-- The same for BatchSplit: the Tensor path's `batch::slice(x, i * span, (i + 1) * span)` has the
static shape of FWD_SHAPE(BatchSplit). -/
theorem Api.batch_split_shape_sound_partial {x : Shape} (hx : x.Canonical) (n : Nat) {s : Shape}
    (h : ShapeOps.batchSplit x n = .ok s) :
    ∀ i, i < n → ShapeOps.batchSlice x (mul32 i (x.batch / n)) (mul32 (i + 1) (x.batch / n)) = .ok s := by
  unfold ShapeOps.batchSplit at h
  by_cases hn : n = 0
  · rw [if_pos hn] at h; cases h
  rw [if_neg hn] at h
  by_cases hm : mul32 (x.batch / n) n = x.batch
  · simp only [hm, ne_eq, not_true_eq_false, if_false] at h
    intro i hi
    obtain ⟨e1, e2, hs, hle, hlt⟩ := span_arith hx.batch_lt (Nat.pos_of_ne_zero hx.batch_ne) hm hi
    unfold ShapeOps.batchSlice
    rw [e1, e2, if_neg (by omega), sub32_eq (by omega) hlt]
    have : i * (x.batch / n) + x.batch / n - i * (x.batch / n) = x.batch / n := by omega
    rw [this]; exact h
  · simp only [hm, ne_eq, not_false_eq_true, if_true] at h; cases h

example : ShapeOps.split ⟨[2, 4], 3, 8⟩ 1 2 = .ok ⟨[2, 2], 3, 4⟩ := rfl

end Primitiv.C04
