import PrimitivModel.Model.Graph
namespace Primitiv.C05
open Primitiv.Graph

theorem forwardArgsWith_nil {τ} (ev : State τ → Addr → State τ × Except Err τ) (s : State τ) :
    forwardArgsWith ev s [] = (s, .ok []) := rfl

end Primitiv.C05
