import PrimitivModel.Model.Graph
import PrimitivModel.Lemmas.GraphForward
/-
Property C05 — nodes are evaluated on demand, at most once, and their values
never change.  Every `theorem` below is one proof obligation of `./check C05`.

The statements are over the executable model `Model/Graph.lean` (the
definitions the driver `drv_graph` runs against the real library), for *all*
histories

    Op τ ::= addOperator kind args sizes | forward a | backward a
           | setParamValue p v | setFail k

applied to the empty graph (`run`, `step`, `State.empty` in
Lemmas/GraphForward.lean; an operation that fails keeps the state it reached,
as the model and the C++ do).  The only hypothesis on a history is
`Op.Admissible`: an added operator obeys `KindOK` — a Parameter operator has no
arguments and one return value, a random source has one return value, and an
operator's `forward` fills all of its return values.  These are the arity check
of `Graph::add_operator` (which the model's `addOperator` assumes done) and the
contract of `Operator::forward`; all operators of the driver satisfy them.

`WF` (Lemmas/GraphForward.lean) is the invariant of reachable states:
arguments refer to existing nodes of earlier operators, the return values of
an operator are evaluated together, Parameter operators never memoise, an
evaluated operator's arguments are evaluated, the log lists exactly the
evaluated operators (each once), the random stream position counts the
evaluated random operators and the i-th of them holds sample i.  `Ext s s' l` says that `s'` is `s` after exactly
the operators `l` have been evaluated; the main induction `forwardRec_spec`
shows that every recursive forward call is such an extension.
-/
namespace Primitiv.C05
open Primitiv.Graph

variable {τ : Type}

/-- the states a program can reach -/
def Reachable (T : TOps τ) (s : State τ) : Prop :=
  ∃ (params : Params τ) (sample : Nat → Nat → τ) (h : List (Op τ)),
    (∀ op ∈ h, op.Admissible) ∧ s = run T (State.empty params sample) h

/-! ### witnesses used by the examples (τ = Nat) -/
def T0 : TOps Nat := ⟨fun _ => 0, fun _ => 1, (· + ·)⟩
/-- `y = Σ xs`, `gx_i += gy` -/
def sumSem : OpSem Nat :=
  { nret := 1, fwd := fun xs => some [xs.sum], bwd := fun xs _ gys => xs.map fun _ => gys.head? }
def P0 : Params Nat := ⟨fun p => p + 10, fun _ => 0⟩
def smp : Nat → Nat → Nat := fun k n => 100 * k + n
/-- parameter node 0; random node 1; `2 = 0 + 1`; `3 = 2 + 2` -/
def h0 : List (Op Nat) :=
  [.addOperator (.param 0) [] [1], .addOperator .rnd [] [1],
   .addOperator (.op sumSem) [⟨0, 0⟩, ⟨1, 0⟩] [1], .addOperator (.op sumSem) [⟨2, 0⟩, ⟨2, 0⟩] [1]]
def s0 : State Nat := run T0 (State.empty P0 smp) h0
/-- `s0` after node 2 has been forced -/
def s1 : State Nat := run T0 s0 [.forward ⟨2, 0⟩]

/-- `s1` with one more operator `4 = 2 + 0` -/
def s2 : State Nat := run T0 s1 [.addOperator (.op sumSem) [⟨2, 0⟩, ⟨0, 0⟩] [1]]

theorem h0_admissible : ∀ op ∈ h0, op.Admissible := by
  intro op hop
  simp only [h0, List.mem_cons, List.not_mem_nil, or_false] at hop
  rcases hop with rfl | rfl | rfl | rfl <;> simp [Op.Admissible, KindOK, sumSem]
  all_goals (intro xs ys h; subst h; simp)

theorem s0_reachable : Reachable T0 s0 := ⟨P0, smp, h0, h0_admissible, rfl⟩

/-! ### the invariant -/


/-- Every reachable state is well-formed. -/
theorem reachable_wf {T : TOps τ} {s : State τ} (h : Reachable T s) : WF s := by
  obtain ⟨params, sample, h, hadm, rfl⟩ := h
  exact run_wf T (WF.empty params sample) h hadm
example : Reachable T0 s0 := s0_reachable

/-- Reachable states are closed under admissible operations. -/
theorem reachable_run {T : TOps τ} {s : State τ} (hs : Reachable T s) {h : List (Op τ)}
    (hadm : ∀ op ∈ h, op.Admissible) : Reachable T (run T s h) := by
  obtain ⟨params, sample, h0, hadm0, rfl⟩ := hs
  refine ⟨params, sample, h0 ++ h, ?_, (run_append T _ h0 h).symm⟩
  intro op hop
  rcases List.mem_append.1 hop with hop | hop
  · exact hadm0 op hop
  · exact hadm op hop
example : Reachable T0 s1 := reachable_run s0_reachable (by simp [Op.Admissible])

theorem s2_reachable : Reachable T0 s2 := by
  refine reachable_run (reachable_run s0_reachable (h := [.forward ⟨2, 0⟩]) (by simp [Op.Admissible])) ?_
  intro op hop
  simp only [List.mem_singleton] at hop
  subst hop
  simp only [Op.Admissible, KindOK, sumSem]
  intro xs ys h; cases h; simp

/-! ### 1. the recursion is well-founded: `oid + 1` levels suffice, no undefined behaviour -/

/-- In a reachable state the recursion of `forward` never runs out of fuel and never reaches
any other `crash` branch: it returns a value or a `primitiv::Error` thrown by an operator. -/
theorem fuel_suffices {T : TOps τ} {s : State τ} (hs : Reachable T s) {a : Addr}
    (ha : s.validAddr a = true) : (forwardRec T (a.oid + 1) s a).2 ≠ .error .crash :=
  (forwardRec_spec T (a.oid + 1) s a (reachable_wf hs) ha (Nat.lt_succ_self _)).nocrash
example : Reachable T0 s0 ∧ s0.validAddr ⟨3, 0⟩ = true := ⟨s0_reachable, rfl⟩

/-- More fuel than `oid + 1` changes nothing. -/
theorem fuel_irrelevant {T : TOps τ} {s : State τ} (hs : Reachable T s) {a : Addr}
    (ha : s.validAddr a = true) {fuel : Nat} (hfuel : a.oid < fuel) :
    forwardRec T fuel s a = forward T s a := by
  unfold forward
  rw [if_pos ha]
  exact forwardRec_fuel T fuel (a.oid + 1) s a (reachable_wf hs) ha hfuel (Nat.lt_succ_self _)
example : forwardRec T0 100 s0 ⟨3, 0⟩ = forward T0 s0 ⟨3, 0⟩ :=
  fuel_irrelevant s0_reachable rfl (by decide)

/-- The same for the entry point; an invalid node is the only `crash` (`CHECK_NODE` aborts). -/
theorem forward_crash_iff {T : TOps τ} {s : State τ} (hs : Reachable T s) (a : Addr) :
    (forward T s a).2 = .error .crash ↔ s.validAddr a = false := by
  constructor
  · intro h
    cases hv : s.validAddr a with
    | false => rfl
    | true => exact absurd h (forward_spec T (reachable_wf hs) hv).nocrash
  · intro h
    simp [forward, h]
example : (forward T0 s0 ⟨4, 0⟩).2 = .error .crash ∧ (forward T0 s0 ⟨3, 0⟩).2 = .ok 22 := ⟨rfl, rfl⟩

/-! ### 2. at most once -/

/-- No operator's forward runs twice, whatever the history (failed forwards are not logged:
an operator is evaluated at most once *successfully*). -/
theorem evaluated_at_most_once (T : TOps τ) (params : Params τ) (sample : Nat → Nat → τ)
    (h : List (Op τ)) (hadm : ∀ op ∈ h, op.Admissible) :
    (run T (State.empty params sample) h).log.Nodup :=
  (run_wf T (WF.empty params sample) h hadm).log_nodup
example : (run T0 s0 [.forward ⟨2, 0⟩, .backward ⟨3, 0⟩, .forward ⟨3, 0⟩, .forward ⟨2, 0⟩]).log = [1, 2, 3] := rfl

/-- The log lists exactly the operators that hold values. -/
theorem log_iff_evaluated {T : TOps τ} {s : State τ} (hs : Reachable T s) (k : Nat) :
    k ∈ s.log ↔ s.evaluated k :=
  (reachable_wf hs).log_iff k
example : s1.log = [1, 2] := rfl

/-! ### 3. values never change -/

/-- A stored value never changes or disappears: later forwards, backward passes, parameter
updates, injected failures and added operators leave it as it is (and the graph's structure:
`run_keeps`). -/
theorem values_monotone {T : TOps τ} {s : State τ} (hs : Reachable T s) {a : Addr} {n : NodeInfo τ} {v : τ}
    (hn : s.node? a = some n) (hv : n.value = some v) (h' : List (Op τ)) (hadm : ∀ op ∈ h', op.Admissible) :
    ∃ n', (run T s h').node? a = some n' ∧ n'.value = some v :=
  (run_keeps T (reachable_wf hs) h' hadm).node hn hv
example : (s1.node? ⟨2, 0⟩).bind (·.value) = some 11 ∧
    ((run T0 s1 [.setParamValue 0 7, .backward ⟨3, 0⟩, .addOperator .rnd [] [1], .forward ⟨4, 0⟩]).node? ⟨2, 0⟩).bind
      (·.value) = some 11 := ⟨rfl, rfl⟩

/-- Requesting an evaluated node again returns the stored value and changes nothing. -/
theorem forward_memoised {T : TOps τ} {s : State τ} (hs : Reachable T s) {a : Addr} {n : NodeInfo τ} {v : τ}
    (hn : s.node? a = some n) (hv : n.value = some v) : forward T s a = (s, .ok v) :=
  forward_memo T (reachable_wf hs) hn hv
example : (s1.node? ⟨2, 0⟩).bind (·.value) = some 11 := rfl

/-! ### 4. a request evaluates exactly the unevaluated ancestors -/

/-- The operators evaluated by `forward a` (the extension `l` of the log): each at most once,
every one an ancestor of `a` (or `a`'s operator), not evaluated before, not a Parameter;
and the random stream advances by the number of random operators among them.
Holds also when the request fails. -/
theorem forward_evaluates_only_ancestors {T : TOps τ} {s : State τ} (hs : Reachable T s) (a : Addr) :
    ∃ l, (forward T s a).1.log = s.log ++ l ∧ l.Nodup ∧
      (∀ k ∈ l, AncOf s k a.oid ∧ ¬ s.evaluated k ∧ s.isParam k = false) ∧
      (forward T s a).1.rndPos = s.rndPos + l.countP s.isRnd := by
  obtain ⟨l, e⟩ := forward_evaluates T (reachable_wf hs) a
  exact ⟨l, e.log, e.nodup, e.only, e.rndPos⟩
example : (forward T0 s1 ⟨3, 0⟩).1.log = s1.log ++ [3] := rfl

/-- The same for `backward a` (which forces `a` first and evaluates nothing afterwards). -/
theorem backward_evaluates_only_ancestors {T : TOps τ} {s : State τ} (hs : Reachable T s) (a : Addr) :
    ∃ l, (backward T s a).1.log = s.log ++ l ∧ l.Nodup ∧
      (∀ k ∈ l, AncOf s k a.oid ∧ ¬ s.evaluated k ∧ s.isParam k = false) ∧
      (backward T s a).1.rndPos = s.rndPos + l.countP s.isRnd := by
  obtain ⟨l, e⟩ := backward_evaluates T (reachable_wf hs) a
  exact ⟨l, e.log, e.nodup, e.only, e.rndPos⟩
example : (backward T0 s0 ⟨2, 0⟩).1.log = s0.log ++ [1, 2] := rfl

/-- A successful `forward a` evaluates exactly the not-yet-evaluated non-parameter
ancestors of `a`: the extension of the log has no repetition and contains `k` iff `k` is such
an ancestor. -/
theorem forward_evaluates_exactly {T : TOps τ} {s : State τ} (hs : Reachable T s) {a : Addr}
    (ha : s.validAddr a = true) {v : τ} (hok : (forward T s a).2 = .ok v) :
    ∃ l, (forward T s a).1.log = s.log ++ l ∧ l.Nodup ∧
      ∀ k, k ∈ l ↔ (AncOf s k a.oid ∧ ¬ s.evaluated k ∧ s.isParam k = false) := by
  obtain ⟨l, e⟩ := forward_evaluates T (reachable_wf hs) a
  refine ⟨l, e.log, e.nodup, fun k => ⟨e.only k, ?_⟩⟩
  rintro ⟨h1, h2, h3⟩
  exact forward_complete T (reachable_wf hs) ha hok e h1 h2 h3
example : Reachable T0 s0 ∧ s0.validAddr ⟨3, 0⟩ = true ∧ (forward T0 s0 ⟨3, 0⟩).2 = .ok 22 ∧
    (forward T0 s0 ⟨3, 0⟩).1.log = [1, 2, 3] := ⟨s0_reachable, rfl, rfl, rfl⟩

/-- The exact evaluation order of a successful `forward a`: the log grows by `plan s … a` —
nothing for a Parameter, an evaluated operator or one evaluated earlier in this request;
otherwise first the arguments' plans, left to right, then the operator itself (depth-first
post-order, every operator once). -/
theorem forward_evaluates_in_order {T : TOps τ} {s : State τ} (hs : Reachable T s) {a : Addr} {v : τ}
    (hok : (forward T s a).2 = .ok v) :
    (forward T s a).1.log = s.log ++ plan s (a.oid + 1) [] a :=
  forward_plan T (reachable_wf hs) hok
example : plan s0 4 [] ⟨3, 0⟩ = [1, 2, 3] ∧ plan s1 4 [] ⟨3, 0⟩ = [3] ∧
    (forward T0 s0 ⟨3, 0⟩).2 = .ok 22 := ⟨rfl, rfl, rfl⟩

/-! ### 5. creation computes nothing -/

/-- `add_operator` appends one operator without values and touches nothing else: the log,
the random stream, the parameters, the fault schedule and all existing operators (hence all
values) are unchanged. -/
theorem creation_computes_nothing {s s' : State τ} {kind : Kind τ} {args : List Addr} {sizes : List Nat}
    {id : Nat} (h : addOperator s kind args sizes = .ok (s', id)) :
    s'.log = s.log ∧ s'.rndPos = s.rndPos ∧ s'.params = s.params ∧ s'.failIn = s.failIn ∧
    id = s.ops.length ∧ (∀ k < id, s'.ops[k]? = s.ops[k]?) ∧
    ∃ o, s'.ops = s.ops ++ [o] ∧ ∀ n ∈ o.rets, n.value = none ∧ n.grad = none := by
  rw [addOperator_eq] at h
  split at h
  · simp only [Except.ok.injEq, Prod.mk.injEq] at h
    obtain ⟨rfl, rfl⟩ := h
    refine ⟨rfl, rfl, rfl, rfl, rfl, fun k hk => push_getElem?_lt hk, _, rfl, ?_⟩
    simp [freshOp]
  · cases h
example : ∃ r, addOperator s1 (.op sumSem) [⟨2, 0⟩, ⟨3, 0⟩] [1] = .ok r := ⟨_, rfl⟩

/-! ### 6. order of requests, operators added later -/

/-- Forcing a set of nodes gives the same graph state whatever the order (and multiplicity) of
the requests: all operators — hence all values — the parameters and the stream position are
equal, and every node shows the same value.  For requests that succeed and evaluate no random
operator (with random sources the *stream order* is part of the result: a sample is assigned
when its node is evaluated; see `random_stream_position`). -/
theorem order_independent {T : TOps τ} {s : State τ} (hs : Reachable T s) {as as' : List Addr}
    (hmem : ∀ a, a ∈ as ↔ a ∈ as') (has : ∀ a ∈ as, s.validAddr a = true)
    {vs vs' : List τ} (h1 : (forceAll T s as).2 = .ok vs) (h2 : (forceAll T s as').2 = .ok vs')
    (hdet : (forceAll T s as).1.rndPos = s.rndPos) :
    (forceAll T s as).1.ops = (forceAll T s as').1.ops ∧
    (forceAll T s as).1.params = (forceAll T s as').1.params ∧
    (forceAll T s as).1.rndPos = (forceAll T s as').1.rndPos ∧
    ∀ a, (forceAll T s as).1.valueOf? a = (forceAll T s as').1.valueOf? a :=
  forceAll_order_independent T (reachable_wf hs) hmem has h1 h2 hdet
example : Reachable T0 s2 ∧ (forceAll T0 s2 [⟨3, 0⟩, ⟨4, 0⟩, ⟨2, 0⟩]).2 = .ok [22, 21, 11] ∧
    (forceAll T0 s2 [⟨4, 0⟩, ⟨2, 0⟩, ⟨3, 0⟩, ⟨4, 0⟩]).2 = .ok [21, 11, 22, 21] ∧
    (forceAll T0 s2 [⟨3, 0⟩, ⟨4, 0⟩, ⟨2, 0⟩]).1.rndPos = s2.rndPos ∧
    (forceAll T0 s2 [⟨3, 0⟩, ⟨4, 0⟩, ⟨2, 0⟩]).1.log = [1, 2, 3, 4] ∧
    (forceAll T0 s2 [⟨4, 0⟩, ⟨2, 0⟩, ⟨3, 0⟩, ⟨4, 0⟩]).1.log = [1, 2, 4, 3] :=
  ⟨s2_reachable, rfl, rfl, rfl, rfl, rfl⟩

/-- With no failure scheduled the success of one order implies the success of every other
order (and of every sub-multiset of the requests), with the same resulting graph. -/
theorem order_independent_total {T : TOps τ} {s : State τ} (hs : Reachable T s) (hf : s.failIn = none)
    {as as' : List Addr} (hmem : ∀ a, a ∈ as ↔ a ∈ as') (has : ∀ a ∈ as, s.validAddr a = true)
    {vs : List τ} (h1 : (forceAll T s as).2 = .ok vs) (hdet : (forceAll T s as).1.rndPos = s.rndPos) :
    ∃ vs', (forceAll T s as').2 = .ok vs' ∧ (forceAll T s as).1.ops = (forceAll T s as').1.ops ∧
      ∀ a, (forceAll T s as).1.valueOf? a = (forceAll T s as').1.valueOf? a := by
  obtain ⟨vs', h2⟩ := forceAll_succeeds T (reachable_wf hs) hf (fun a ha => (hmem a).2 ha) has h1 hdet
  have := forceAll_order_independent T (reachable_wf hs) hmem has h1 h2 hdet
  exact ⟨vs', h2, this.1, this.2.2.2⟩
example : Reachable T0 s2 ∧ s2.failIn = none ∧ (forceAll T0 s2 [⟨3, 0⟩, ⟨4, 0⟩]).2 = .ok [22, 21] ∧
    (forceAll T0 s2 [⟨3, 0⟩, ⟨4, 0⟩]).1.rndPos = s2.rndPos := ⟨s2_reachable, rfl, rfl, rfl⟩

/-- Operators added later are irrelevant: forcing an existing node after an `add_operator`
does exactly what it does before it — same result, same evaluations, same values, same stream
position — the new operator just sits at the end, unevaluated. -/
theorem later_nodes_irrelevant {T : TOps τ} {s s' : State τ} (hs : Reachable T s) {kind : Kind τ}
    {args : List Addr} {sizes : List Nat} {id : Nat} (h : addOperator s kind args sizes = .ok (s', id))
    {a : Addr} (ha : s.validAddr a = true) :
    (forward T s' a).2 = (forward T s a).2 ∧
    (forward T s' a).1 = (forward T s a).1.push (freshOp kind args sizes) := by
  rw [addOperator_eq] at h
  split at h
  · simp only [Except.ok.injEq, Prod.mk.injEq] at h
    obtain ⟨rfl, rfl⟩ := h
    rw [forward_push T (reachable_wf hs) _ ha]
    exact ⟨rfl, rfl⟩
  · cases h
example : Reachable T0 s0 ∧ s0.validAddr ⟨2, 0⟩ = true ∧
    ∃ r, addOperator s0 (.op sumSem) [⟨3, 0⟩] [1] = .ok r := ⟨s0_reachable, rfl, _, rfl⟩

/-- The same for any number of operators added later: the request returns the same result and
reaches the same state up to the appended (unevaluated) operators — same log, stream position,
parameters, and all existing operators with the same values. -/
theorem later_operators_irrelevant {T : TOps τ} {s : State τ} (hs : Reachable T s) (h : List (Op τ))
    (hadd : ∀ op ∈ h, op.isAdd = true ∧ op.Admissible) {a : Addr} (ha : s.validAddr a = true) :
    ∃ os, run T s h = { s with ops := s.ops ++ os } ∧
      (forward T (run T s h) a).2 = (forward T s a).2 ∧
      (forward T (run T s h) a).1 = { (forward T s a).1 with ops := (forward T s a).1.ops ++ os } := by
  obtain ⟨os, h1, h2⟩ := forward_run_adds T (reachable_wf hs) h hadd ha
  refine ⟨os, by rw [h1, pushAll_eq], by rw [h2], by rw [h2, pushAll_eq]⟩
example : (forward T0 (run T0 s0 [.addOperator .rnd [] [1], .addOperator (.op sumSem) [⟨4, 0⟩, ⟨2, 0⟩] [1]]) ⟨2, 0⟩).2
    = (forward T0 s0 ⟨2, 0⟩).2 := rfl

/-! ### 7. random nodes -/

/-- The stream position equals the number of random operators evaluated so far: unevaluated
random nodes do not consume the stream. -/
theorem random_stream_position {T : TOps τ} {s : State τ} (hs : Reachable T s) :
    s.rndPos = s.log.countP s.isRnd :=
  (reachable_wf hs).rnd_count
example : s0.rndPos = 0 ∧ s1.rndPos = 1 ∧ (run T0 s1 [.addOperator .rnd [] [1], .forward ⟨3, 0⟩]).rndPos = 1 :=
  ⟨rfl, rfl, rfl⟩

/-- The stream is consumed by the evaluated random operators, in evaluation order, without
gaps: the i-th random operator of the log holds sample number i (of the size of its node). -/
theorem random_samples_in_order {T : TOps τ} {s : State τ} (hs : Reachable T s) {i k : Nat}
    (h : (s.log.filter s.isRnd)[i]? = some k) :
    ∃ n, s.node? ⟨k, 0⟩ = some n ∧ n.value = some (s.sample i n.size) := by
  obtain ⟨o, n, h1, h2, h3⟩ := (reachable_wf hs).rnd_vals i k h
  exact ⟨n, by simp [State.node?, h1, h2], h3⟩
example : (s1.log.filter s1.isRnd)[0]? = some 1 ∧ (s1.node? ⟨1, 0⟩).bind (·.value) = some (smp 0 1) :=
  ⟨rfl, rfl⟩

/-- A random node exposes one single sample: once drawn, every later consumer — a repeated
request, the forward of any operator that has it as an argument (which reads `forward` of
the argument), and the backward rules (which read `valueOf?`) — sees that same value, after
any further history. -/
theorem random_single_sample {T : TOps τ} {s : State τ} (hs : Reachable T s) {a : Addr} {n : NodeInfo τ} {v : τ}
    (hn : s.node? a = some n) (hv : n.value = some v) (h' : List (Op τ)) (hadm : ∀ op ∈ h', op.Admissible) :
    forward T (run T s h') a = (run T s h', .ok v) ∧ (run T s h').valueOf? a = some v := by
  have w' := reachable_wf (reachable_run hs hadm)
  obtain ⟨n', hn', hv'⟩ := values_monotone hs hn hv h' hadm
  exact ⟨forward_memo T w' hn' hv', valueOf?_of_node w' hn' hv'⟩
example : (s1.node? ⟨1, 0⟩).bind (·.value) = some 1 ∧ s1.isRnd 1 = true := ⟨rfl, rfl⟩

end Primitiv.C05
