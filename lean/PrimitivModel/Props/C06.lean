import PrimitivModel.Model.Graph
namespace Primitiv.C06
open Primitiv.Graph

theorem sweep_zero {τ} (T : TOps τ) (s : State τ) : sweep T 0 s = (s, .ok ()) := rfl

end Primitiv.C06
