import PrimitivModel.Model.Graph
import PrimitivModel.Lemmas.GraphSweep
import PrimitivModel.Lemmas.GraphLive
/-!
C06 — gradient accumulation and isolation protocol of `backward()`.

All statements are about the executable model `Model/Graph.lean` that the driver
`drv_graph` runs against the real `primitiv::Graph` (τ = `List Int` there); here τ and
the tensor operations `T : TOps τ` are arbitrary unless laws are stated.  Helper
definitions and lemmas: `Lemmas/GraphSweep.lean`.

Vocabulary (all defined in `Lemmas/GraphSweep.lean`):
* `s.gradAt a`            the gradient stored at node `a` (`none` = invalid)
* `AllGradsInvalid s`     every node gradient is invalid
* `ArgsBelow s`           arguments refer to smaller operator ids (what `add_operator` guarantees)
* `SameFrame s s'`        `s'` differs from `s` at most in node gradients and parameter gradients:
                          kinds, arguments, sizes, node *values*, parameter values, `log`, `rndPos`,
                          `sample`, `failIn` are equal
* `Anc s.argsOf i j`      operator `i` is operator `j` or produces a transitive argument of it
* `s.mapPG f`             `s` with the table of parameter gradients replaced by `f s.params.grad`
* `fwdPhase T s a`        the "force the forward operation" prefix of `backward`
-/
namespace Primitiv.C06
open Primitiv.Graph

variable {τ : Type}

/-! ## 1. node gradients are invalid again after every pass -/

/-- If all node gradients are invalid before `backward` and it succeeds, all node gradients are
invalid after it. -/
theorem node_grads_invalid_after (T : TOps τ) (s s' : State τ) (a : Addr)
    (hg : AllGradsInvalid s) (hw : ArgsBelow s) (hb : backward T s a = (s', .ok ())) :
    AllGradsInvalid s' :=
  backward_allGradsInvalid T s s' a hg hw hb

example : ∃ (s s' : State Int) (a : Addr), AllGradsInvalid s ∧ ArgsBelow s ∧ backward TInt s a = (s', .ok ()) :=
  ⟨exSquare, _, ⟨1, 0⟩, allGradsInvalid_of_B (by decide), argsBelow_of_B (by decide), rfl⟩

/-- … as an invariant: from a new graph, after any history of `add_operator`, `forward`,
`backward`, parameter updates, gradient resets and fault schedules in which no `backward` threw and
no `CHECK_NODE` aborted, all node gradients are invalid (and arguments refer to smaller ids). -/
theorem node_grads_invalid_invariant (T : TOps τ) (params : Params τ) (sample : Nat → Nat → τ)
    (hist : List (Cmd τ)) (s' : State τ) (hr : runHist T (emptyGraph params sample) hist = some s') :
    AllGradsInvalid s' ∧ ArgsBelow s' :=
  runHist_ginv T hist _ s' (emptyGraph_ginv params sample) hr

example : ∃ s', runHist TInt (emptyGraph { value := fun _ => 3, grad := fun _ => 10 } fun _ _ => 0)
    [.addOp (.param 0) [] [1], .addOp (.op mulSem) [⟨0, 0⟩, ⟨0, 0⟩] [1], .backward ⟨1, 0⟩,
     .setValue 0 5, .backward ⟨1, 0⟩, .setGrad 0 0, .forward ⟨1, 0⟩] = some s' :=
  ⟨_, rfl⟩

/-- The invariant is preserved by every single operation of a history, from any state. -/
theorem node_grads_invalid_step (T : TOps τ) (s s' : State τ) (c : Cmd τ)
    (h : AllGradsInvalid s ∧ ArgsBelow s) (hr : c.run T s = some s') :
    AllGradsInvalid s' ∧ ArgsBelow s' :=
  Cmd.run_ginv T s s' c h hr

/-! ## 2. values are not changed by the sweep -/

/-- One iteration of the sweep changes no node value, size, kind or argument list, no parameter
value, and neither `log`, `rndPos`, `sample` nor `failIn`. -/
theorem values_unchanged_by_backwardStep (T : TOps τ) (s : State τ) (k : Nat) :
    SameFrame s (backwardStep T s k).1 :=
  backwardStep_sameFrame T s k

/-- The same for the whole loop … -/
theorem values_unchanged_by_sweep (T : TOps τ) (s : State τ) (k : Nat) :
    SameFrame s (sweep T k s).1 :=
  sweep_sameFrame T k s

/-- … and for `backward`: everything it evaluates, it evaluates through its initial `forward`. -/
theorem values_unchanged_by_backward (T : TOps τ) (s : State τ) (a : Addr) :
    SameFrame (fwdPhase T s a).1 (backward T s a).1 := by
  rw [backward_eq]
  split
  · unfold fwdPhase
    rename_i hv
    have : s.node? a = none := by
      unfold State.validAddr at hv
      unfold State.node?
      cases ho : s.ops[a.oid]? with
      | none => rfl
      | some o =>
        rw [ho] at hv
        simp only [Bool.not_eq_true', decide_eq_false_iff_not, Nat.not_lt] at hv
        simp only [List.getElem?_eq_none_iff]
        exact hv
    rw [this]
    exact SameFrame.refl s
  · rcases fwdPhase T s a with ⟨s1, r⟩
    cases r with
    | error e => exact SameFrame.refl _
    | ok u => cases u; exact (seed_sameFrame T s1 a).trans (sweep_sameFrame T _ _)

/-- What `SameFrame` gives pointwise: node values, the value a consumer sees, parameter values,
the evaluation log and the position of the random stream. -/
theorem values_unchanged_pointwise {s s' : State τ} (h : SameFrame s s') :
    (∀ a, (s'.node? a).map (·.value) = (s.node? a).map (·.value)) ∧
    (∀ a, s'.valueOf? a = s.valueOf? a) ∧
    s'.params.value = s.params.value ∧ s'.log = s.log ∧ s'.rndPos = s.rndPos := by
  refine ⟨fun a => ?_, fun a => skel_valueOf h.skel h.pvalue a, h.pvalue, h.log, h.rndPos⟩
  have := skel_node h.skel a
  cases h1 : s'.node? a <;> cases h2 : s.node? a <;> rw [h1, h2] at this <;> simp_all [NodeInfo.skel]

/-- If the target already has a value, `backward` evaluates nothing at all. -/
theorem values_unchanged_when_evaluated (T : TOps τ) (s : State τ) (a : Addr) (n : NodeInfo τ)
    (hn : s.node? a = some n) (hv : n.value.isSome = true) : SameFrame s (backward T s a).1 := by
  have h := values_unchanged_by_backward T s a
  have : fwdPhase T s a = (s, .ok ()) := by simp [fwdPhase, hn, hv]
  rw [this] at h
  exact h

/-! ## 3. parameters that are not ancestors of the target -/

/-- The gradient of a parameter `p`, none of whose Parameter operators is an ancestor of the target,
is not written by `backward`: the stored tensor afterwards *is* the stored tensor before, for any
tensor type and any `add` (so bit for bit), whether or not `backward` succeeds. -/
theorem non_ancestors_untouched (T : TOps τ) (s : State τ) (a : Addr) (p : Nat)
    (hg : AllGradsInvalid s)
    (hp : ∀ i, s.kindAt i = some (.param p) → ¬ Anc s.argsOf i a.oid) :
    (backward T s a).1.params.grad p = s.params.grad p :=
  backward_pgrad T s a p hg hp

/-- parameter 1 does not occur in `exSquare` at all -/
example : AllGradsInvalid exSquare ∧ ∀ i, exSquare.kindAt i = some (.param 1) → ¬ Anc exSquare.argsOf i 1 := by
  refine ⟨allGradsInvalid_of_B (by decide), fun i hi => ?_⟩
  exfalso
  match i, hi with
  | 0, hi => simp [State.kindAt, exSquare] at hi
  | 1, hi => simp [State.kindAt, exSquare] at hi
  | i + 2, hi => simp [State.kindAt, exSquare] at hi

/-! ## 4. `backward` only adds -/

/-- For an associative `add`: the result from any prior parameter gradients is the prior gradient
plus (`shiftG`: `p ↦ add (g0 p) (·)`) the result `D` from the zero gradients `z`; success or failure
and all other components of the state do not depend on the prior gradients.  No hypothesis on the
state. -/
theorem backward_adds (T : TOps τ) (hassoc : ∀ x y z : τ, T.add (T.add x y) z = T.add x (T.add y z))
    (s : State τ) (a : Addr) (z : Nat → τ) (hz : ∀ p x, T.add x (z p) = x) :
    (∀ p, (backward T s a).1.params.grad p =
       T.add (s.params.grad p) ((backward T (s.mapPG fun _ => z) a).1.params.grad p)) ∧
    (backward T s a).2 = (backward T (s.mapPG fun _ => z) a).2 ∧
    (backward T s a).1.ops = (backward T (s.mapPG fun _ => z) a).1.ops := by
  have h := backward_adds_gen T hassoc s a z hz
  refine ⟨fun p => ?_, ?_, ?_⟩ <;> rw [h] <;> rfl

example : (∀ x y z : Int, TInt.add (TInt.add x y) z = TInt.add x (TInt.add y z)) ∧
    (∀ (p : Nat) (x : Int), TInt.add x ((fun _ => (0 : Int)) p) = x) :=
  ⟨fun x y z => Int.add_assoc x y z, fun _ x => Int.add_zero x⟩

/-- Without a neutral element: shifting the prior gradients by `g` in front shifts the result by `g`. -/
theorem backward_adds_shift (T : TOps τ) (hassoc : ∀ x y z : τ, T.add (T.add x y) z = T.add x (T.add y z))
    (s : State τ) (a : Addr) (g : Nat → τ) :
    backward T (s.mapPG (shiftG T g)) a =
      ((backward T s a).1.mapPG (shiftG T g), (backward T s a).2) :=
  backward_shift T hassoc g a s

/-- `k` calls add `k` times the same `D` (`addN T k g d = g + d + … + d`), and change nothing else,
when the forward phase is a no-op (the target is evaluated: "values unchanged"). -/
theorem k_backwards (T : TOps τ) (hassoc : ∀ x y z : τ, T.add (T.add x y) z = T.add x (T.add y z))
    (s : State τ) (a : Addr) (z : Nat → τ) (hz : ∀ p x, T.add x (z p) = x)
    (hg : AllGradsInvalid s) (hw : ArgsBelow s)
    (hstable : fwdPhase T s a = (s, .ok ())) (hok : (backward T s a).2 = .ok ()) (k : Nat) :
    iterBackward T a k s =
      s.mapPG (fun _ p => addN T k (s.params.grad p) ((backward T (s.mapPG fun _ => z) a).1.params.grad p)) :=
  iterBackward_grad T hassoc s a z hz hg hw hstable hok k

/-- the state after one `backward` on `exSquare` satisfies the hypotheses of `k_backwards` -/
example : let s := (backward TInt exSquare ⟨1, 0⟩).1
    AllGradsInvalid s ∧ ArgsBelow s ∧ fwdPhase TInt s ⟨1, 0⟩ = (s, .ok ()) ∧ (backward TInt s ⟨1, 0⟩).2 = .ok () :=
  ⟨allGradsInvalid_of_B (by decide), argsBelow_of_B (by decide), rfl, rfl⟩

/-- Operators with an id `≥ k` are neither read nor written by `sweep T k`: appending any operators
to the graph commutes with the sweep. -/
theorem later_nodes_irrelevant (T : TOps τ) (extra : List (OpInfo τ)) (k : Nat) (s : State τ)
    (hk : k ≤ s.ops.length) (hw : ArgsBelow s) :
    sweep T k (s.appendOps extra) = ((sweep T k s).1.appendOps extra, (sweep T k s).2) :=
  appendOps_sweep T extra k s hk hw

example : (2 : Nat) ≤ exSquare.ops.length ∧ ArgsBelow exSquare := ⟨by decide, argsBelow_of_B (by decide)⟩

/-- … and the same for the whole of `backward`, forward phase included: operators created after
the target influence neither the resulting gradients nor success, and are themselves untouched. -/
theorem later_nodes_irrelevant_backward (T : TOps τ) (extra : List (OpInfo τ)) (s : State τ) (a : Addr)
    (hv : s.validAddr a = true) (hw : ArgsBelow s) :
    backward T (s.appendOps extra) a = ((backward T s a).1.appendOps extra, (backward T s a).2) :=
  appendOps_backward T extra s a hv hw

example : exSquare.validAddr ⟨1, 0⟩ = true ∧ ArgsBelow exSquare := ⟨by decide, argsBelow_of_B (by decide)⟩

/-- `reset_gradient()` of parameter `p` (modelled as the history operation `setGrad p (zeros n)`):
afterwards the gradient of `p` is exactly `zeros n` and nothing else has changed; and — the base case
of the accumulation — a following `backward` leaves in `p` exactly `D p`, the result from zero
gradients, when `zeros n` is neutral on the left (the other parameters get `g0 q + D q` as always). -/
theorem reset_gradient_zero (T : TOps τ) (hassoc : ∀ x y z : τ, T.add (T.add x y) z = T.add x (T.add y z))
    (s s0 : State τ) (a : Addr) (p n : Nat) (z : Nat → τ) (hz : ∀ q x, T.add x (z q) = x)
    (hzl : ∀ x, T.add (T.zeros n) x = x)
    (hr : (Cmd.setGrad p (T.zeros n)).run T s = some s0) :
    s0.params.grad p = T.zeros n ∧ (∀ q, q ≠ p → s0.params.grad q = s.params.grad q) ∧
    s0.ops = s.ops ∧ s0.params.value = s.params.value ∧ s0.log = s.log ∧ s0.rndPos = s.rndPos ∧
    (backward T s0 a).1.params.grad p = (backward T (s.mapPG fun _ => z) a).1.params.grad p ∧
    (∀ q, q ≠ p → (backward T s0 a).1.params.grad q =
      T.add (s.params.grad q) ((backward T (s.mapPG fun _ => z) a).1.params.grad q)) := by
  simp only [Cmd.run, Option.some.injEq] at hr
  subst hr
  have h := backward_adds_gen T hassoc
    { s with params := { s.params with grad := fun q => if q = p then T.zeros n else s.params.grad q } } a z hz
  refine ⟨by simp, fun q hq => by simp [hq], rfl, rfl, rfl, rfl, ?_, fun q hq => ?_⟩
  · rw [h]
    show T.add (if p = p then T.zeros n else s.params.grad p) _ = _
    rw [if_pos rfl, hzl]
    rfl
  · rw [h]
    show T.add (if q = p then T.zeros n else s.params.grad q) _ = _
    rw [if_neg hq]
    rfl

example : (∀ x y z : Int, TInt.add (TInt.add x y) z = TInt.add x (TInt.add y z)) ∧
    (∀ (q : Nat) (x : Int), TInt.add x ((fun _ => (0 : Int)) q) = x) ∧
    (∀ x : Int, TInt.add (TInt.zeros 1) x = x) ∧
    ∃ s0, (Cmd.setGrad 0 (TInt.zeros 1)).run TInt exSquare = some s0 :=
  ⟨fun x y z => Int.add_assoc x y z, fun _ x => Int.add_zero x, fun x => Int.zero_add x, _, rfl⟩

/-- Two graphs `sA`, `sB` over the same parameters (`sB.params = sA.params`; the parameter table is
threaded from one pass to the next with `withParams`), `add` associative and commutative, `z` neutral:
`backward` in A then in B, or in B then in A, accumulates both derivatives `DA`, `DB` (each graph's
result from zero gradients) on top of the prior gradients — the same table of gradients in either
order, parameter values unchanged.  What a pass does to its own graph (nodes, outcome) does not depend
on whether the other graph's pass ran before, and a pass does not touch the other graph's nodes
(its node values and node gradients are not even an input of the pass). -/
theorem shared_parameters_across_graphs (T : TOps τ)
    (hassoc : ∀ x y z : τ, T.add (T.add x y) z = T.add x (T.add y z))
    (hcomm : ∀ x y : τ, T.add x y = T.add y x)
    (sA sB : State τ) (a b : Addr) (z : Nat → τ) (hz : ∀ p x, T.add x (z p) = x)
    (hshare : sB.params = sA.params) :
    let DA := (backward T (sA.mapPG fun _ => z) a).1.params.grad
    let DB := (backward T (sB.mapPG fun _ => z) b).1.params.grad
    let rA := backward T sA a
    let rB := backward T (sB.withParams rA.1.params) b      -- A, then B
    let rB' := backward T sB b
    let rA' := backward T (sA.withParams rB'.1.params) a    -- B, then A
    (∀ p, rB.1.params.grad p = T.add (T.add (sA.params.grad p) (DA p)) (DB p)) ∧
    (∀ p, rA'.1.params.grad p = T.add (T.add (sA.params.grad p) (DB p)) (DA p)) ∧
    rB.1.params.grad = rA'.1.params.grad ∧
    rB.1.params.value = sA.params.value ∧ rA'.1.params.value = sA.params.value ∧
    rA'.1.ops = rA.1.ops ∧ rA'.2 = rA.2 ∧ rB.1.ops = rB'.1.ops ∧ rB.2 = rB'.2 ∧
    (sB.withParams rA.1.params).ops = sB.ops ∧ (sA.withParams rB'.1.params).ops = sA.ops := by
  intro DA DB rA rB rB' rA'
  have hvA : rA.1.params.value = sB.params.value := by rw [hshare]; exact backward_pvalue T sA a
  have hvB : rB'.1.params.value = sA.params.value := by rw [← hshare]; exact backward_pvalue T sB b
  have hA := backward_adds_gen T hassoc sA a z hz
  have hB := backward_adds_gen T hassoc sB b z hz
  have hAB := backward_withParams T hassoc sB b z hz rA.1.params hvA
  have hBA := backward_withParams T hassoc sA a z hz rB'.1.params hvB
  have gA : ∀ p, rA.1.params.grad p = T.add (sA.params.grad p) (DA p) := fun p => by
    show (backward T sA a).1.params.grad p = _; rw [hA]; rfl
  have gB' : ∀ p, rB'.1.params.grad p = T.add (sA.params.grad p) (DB p) := fun p => by
    show (backward T sB b).1.params.grad p = _; rw [hB, hshare]; rfl
  have g1 : ∀ p, rB.1.params.grad p = T.add (T.add (sA.params.grad p) (DA p)) (DB p) := fun p => by
    show (backward T (sB.withParams rA.1.params) b).1.params.grad p = _
    rw [hAB, ← gA p]; rfl
  have g2 : ∀ p, rA'.1.params.grad p = T.add (T.add (sA.params.grad p) (DB p)) (DA p) := fun p => by
    show (backward T (sA.withParams rB'.1.params) a).1.params.grad p = _
    rw [hBA, ← gB' p]; rfl
  refine ⟨g1, g2, ?_, ?_, ?_, ?_, ?_, ?_, ?_, rfl, rfl⟩
  · funext p
    rw [g1 p, g2 p, hassoc, hassoc, hcomm (DA p) (DB p)]
  · show (backward T (sB.withParams rA.1.params) b).1.params.value = _
    rw [backward_pvalue]; exact backward_pvalue T sA a
  · show (backward T (sA.withParams rB'.1.params) a).1.params.value = _
    rw [backward_pvalue]; exact hvB
  · show (backward T (sA.withParams rB'.1.params) a).1.ops = (backward T sA a).1.ops
    rw [hBA, hA]; rfl
  · show (backward T (sA.withParams rB'.1.params) a).2 = (backward T sA a).2
    rw [hBA, hA]
  · show (backward T (sB.withParams rA.1.params) b).1.ops = (backward T sB b).1.ops
    rw [hAB, hB]; rfl
  · show (backward T (sB.withParams rA.1.params) b).2 = (backward T sB b).2
    rw [hAB, hB]

/-- `y = x * x` and `y' = stop_gradient(p0) + p1` over the same two integer parameters -/
example : (∀ x y z : Int, TInt.add (TInt.add x y) z = TInt.add x (TInt.add y z)) ∧
    (∀ x y : Int, TInt.add x y = TInt.add y x) ∧
    (∀ (p : Nat) (x : Int), TInt.add x ((fun _ => (0 : Int)) p) = x) ∧
    (exBlocked TInt 3 10).params = exSquare.params :=
  ⟨fun x y z => Int.add_assoc x y z, fun x y => Int.add_comm x y, fun _ x => Int.add_zero x, rfl⟩

/-- … on which both orders give gradient `10 + 6 + 0` for parameter 0 and `10 + 0 + 1` for parameter 1 -/
example :
    (backward TInt ((exBlocked TInt 3 10).withParams (backward TInt exSquare ⟨1, 0⟩).1.params) ⟨3, 0⟩).1.params.grad 0 = 16 ∧
    (backward TInt (exSquare.withParams (backward TInt (exBlocked TInt 3 10) ⟨3, 0⟩).1.params) ⟨1, 0⟩).1.params.grad 0 = 16 ∧
    (backward TInt ((exBlocked TInt 3 10).withParams (backward TInt exSquare ⟨1, 0⟩).1.params) ⟨3, 0⟩).1.params.grad 1 = 11 ∧
    (backward TInt (exSquare.withParams (backward TInt (exBlocked TInt 3 10) ⟨3, 0⟩).1.params) ⟨1, 0⟩).1.params.grad 1 = 11 := by
  decide

/-! ## 5. blocked paths -/

/-- Exact arithmetic (`x + zeros n = x`; every rule fed with zero gradients contributes zeros —
`ZeroPreserving`): a parameter all of whose Parameter nodes lie in a set `Z` of nodes from which the
target is reachable only through argument positions whose backward rule contributes nothing
(`BlockedSet`, e.g. below `stop_gradient`) keeps the *value* of its gradient.  The sweep does reach
these nodes: it zero-fills their gradients and adds zeros into them. -/
theorem blocked_paths_add_zero_partial (T : TOps τ) (hz : ∀ n x, T.add x (T.zeros n) = x)
    (Z : Addr → Prop) (s : State τ) (a : Addr) (p : Nat)
    (hg : AllGradsInvalid s) (ha : ¬ Z a)
    (hB : BlockedSet s.shape Z) (hP : ZeroPreserving T s.shape Z)
    (hp : ∀ i, s.kindAt i = some (.param p) → Z ⟨i, 0⟩) :
    (backward T s a).1.params.grad p = s.params.grad p :=
  backward_pgrad_blocked T hz Z s a p hg ha hB hP hp

/-- `y = stop_gradient(p0) + p1` over the integers, `Z = {the Parameter node of p0}` -/
example : (∀ (n : Nat) (x : Int), TInt.add x (TInt.zeros n) = x) ∧
    AllGradsInvalid (exBlocked TInt 3 10) ∧ ¬ ((⟨3, 0⟩ : Addr) = ⟨0, 0⟩) ∧
    BlockedSet (exBlocked TInt 3 10).shape (fun b => b = ⟨0, 0⟩) ∧
    ZeroPreserving TInt (exBlocked TInt 3 10).shape (fun b => b = ⟨0, 0⟩) ∧
    (∀ i, (exBlocked TInt 3 10).kindAt i = some (.param 0) → (⟨i, 0⟩ : Addr) = ⟨0, 0⟩) :=
  ⟨fun _ x => Int.add_zero x, allGradsInvalid_of_B (by decide), by decide, exBlocked_blockedSet _ _ _,
   exBlocked_zeroPreserving _ _ _, fun i hi => by rw [exBlocked_kindAt _ _ _ i hi]⟩

/-- The full statement "the gradient of such a parameter is not written at all" — i.e. the stored
tensor is the same for *every* tensor type and `add`, as in `non_ancestors_untouched` — is FALSE for
this code: see `Props/Findings/C06Blocked.lean` (`blocked_paths_written_witness`).  The sweep
zero-fills the argument gradients of every enabled operator (graph.cc:210-212), so zeros are
propagated below the blocker and finally `+=`-ed into the parameter. -/
def blocked_paths_untouched_full : Prop :=
  ∀ (τ : Type) (T : TOps τ) (Z : Addr → Prop) (s : State τ) (a : Addr) (p : Nat),
    AllGradsInvalid s → ArgsBelow s → ¬ Z a → BlockedSet s.shape Z →
    (∀ i, s.kindAt i = some (.param p) → Z ⟨i, 0⟩) →
    (backward T s a).1.params.grad p = s.params.grad p

end Primitiv.C06
