import PrimitivModel.Model.Cow
namespace Primitiv.Cow

theorem placeholder_init : liveCount init = 0 := rfl

end Primitiv.Cow
