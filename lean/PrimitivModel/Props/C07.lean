import PrimitivModel.Lemmas.CowRefine
import PrimitivModel.Lemmas.CowFree
/-
C07 — tensors have value semantics.

Model: Model/Cow.lean (copy-on-write heap with use counts, exactly the sharing
discipline of tensor.{h,cc}); specification: Spec/Cow.lean (a pool of plain
values, no heap).  `absState` forgets the heap.  All statements are about every
history of the protocol (lists of `Op`), from the empty state, by induction with
the invariant `Inv` (use count = number of owners, no dangling handle, buffer
length = shape size).
-/
namespace Primitiv.Cow

/-- pointwise agreement of two answer streams, `live` excepted (the abstract
state has no buffers to count) -/
def outsAgree : List Op → List Out → List Out → Prop
  | [], [], [] => True
  | op :: ops, o :: os, o' :: os' => (op ≠ .live → o = o') ∧ outsAgree ops os os'
  | _, _, _ => False

/-- **Refinement**, from any state satisfying the invariant: the model run is a
run of the pure-value specification. -/
theorem refines_from {s : State} (hs : Inv s) (ops : List Op) :
    Inv (run s ops).1 ∧ absState (run s ops).1 = (Spec.run (absState s) ops).1 ∧
    outsAgree ops (run s ops).2 (Spec.run (absState s) ops).2 := by
  induction ops generalizing s with
  | nil => exact ⟨hs, rfl, trivial⟩
  | cons op ops ih =>
    obtain ⟨h1, h2, h3⟩ := step_refines hs op
    obtain ⟨i1, i2, i3⟩ := ih h1
    simp only [run, Spec.run]
    rw [← h2]
    exact ⟨i1, i2, h3, i3⟩

/-- **Cow.refines**: for every history from the empty state, the copy-on-write
implementation is observationally the pure-value pool: same abstract state,
same answers. -/
theorem refines (ops : List Op) :
    Inv (run init ops).1 ∧ absState (run init ops).1 = (Spec.run Spec.init ops).1 ∧
    outsAgree ops (run init ops).2 (Spec.run Spec.init ops).2 :=
  refines_from inv_init ops

example : (run init [.new 0 [2, 3] 1 [1, 2, 3, 4, 5, 6], .copy 0 3, .reshape 0 6 [3, 2] 1, .iadd 0 6, .read 3]).2
    = [.ok, .ok, .ok, .err, .vals ⟨[2, 3], 1, 6⟩ [1, 2, 3, 4, 5, 6]] := by decide

/-- the reachable states -/
def Reachable (s : State) : Prop := ∃ ops, s = (run init ops).1

theorem reachable_inv {s : State} (h : Reachable s) : Inv s := by
  obtain ⟨ops, rfl⟩ := h; exact (refines ops).1

/-- **Isolation**: in every reachable state, an operation leaves the value of
every object that is not one of its targets unchanged — whatever buffers are
shared underneath (copies, reshape/flatten views, parameter values, `x += x`). -/
theorem isolation {s : State} (h : Reachable s) (op : Op) (j : Nat) (hj : j ∉ Spec.targets op) :
    getSlot (absState (step s op).1).pool j = getSlot (absState s).pool j := by
  rw [(step_refines (reachable_inv h) op).2.1]
  exact spec_isolation _ op j hj

example : (6 : Nat) ∉ Spec.targets (.iadd 0 3) := by decide

/-- the Device entry points called directly on tensors that share one buffer:
`add_bw` with `ga`, `gb` two copies of ONE zero tensor, `slice_bw` into a view's
sharer, `inplace_add` on a copy of a parameter's gradient — each write stays in
its target -/
example : (run init [.new 0 [2] 2 [0, 0, 0, 0], .copy 0 3, .copy 0 6, .new 9 [2] 2 [1, 2, 3, 4],
    .daddBw 9 3 6, .dsubBw 9 3 6, .new 12 [1] 2 [5, 6], .dsliceBw 12 0 1 3, .flatten 3 15, .dimul 15 2, .readall]).2.getLast?
    = some (.all [(0, some (⟨[2], 2, 2⟩, [0, 0, 0, 0])), (3, some (⟨[2], 2, 2⟩, [2, 9, 6, 14])),
        (6, some (⟨[2], 2, 2⟩, [0, 0, 0, 0])), (9, some (⟨[2], 2, 2⟩, [1, 2, 3, 4])),
        (12, some (⟨[], 2, 1⟩, [5, 6])), (15, some (⟨[2], 2, 2⟩, [4, 18, 12, 28]))]) := by decide

/-- … and the target gets the value the specification prescribes (one instance
spelled out: `h += g` on valid operands of admissible shapes). -/
theorem iadd_effect {s : State} (hr : Reachable s) {h g : Nat} {sy sx : Shape} {Y X : List Int}
    (hh : getSlot (absState s).pool h = some (some (sy, Y))) (hg : getSlot (absState s).pool g = some (some (sx, X)))
    (hc : (!sx.hasSameDims sy || !sx.hasCompatibleBatch sy) = false) :
    getSlot (absState (step s (.iadd h g)).1).pool h = some (some (sy, arith (· + ·) sy sx Y (some X))) := by
  rw [(step_refines (reachable_inv hr) _).2.1]
  simp [Spec.step, Spec.inplace2, hh, hg, hc, Spec.setT]

/-- **move_invalidates_source** (`g = std::move(h)`, `h ≠ g`): the source object
is left invalid, the target holds the value the source had. -/
theorem move_invalidates_source {s : State} (hr : Reachable s) {h g : Nat} (hne : h ≠ g) {v : Handle}
    (hv : getSlot s.pool h = some v) :
    (step s (.move h g)).2 = .ok ∧
    getSlot (step s (.move h g)).1.pool h = some .invalid ∧
    getSlot (absState (step s (.move h g)).1).pool h = some none ∧
    getSlot (absState (step s (.move h g)).1).pool g = some (absHandle s.heap v) := by
  have hs := reachable_inv hr
  have hv' : getSlot (absState s).pool h = some (absHandle s.heap v) := by rw [abs_get, hv]; rfl
  refine ⟨?_, ?_, ?_, ?_⟩
  · simp [step, hv, hne]
  · simp [step, hv, hne, replace]
  · rw [(step_refines hs _).2.1]; simp [Spec.step, hv', hne, Spec.setT]
  · rw [(step_refines hs _).2.1]
    simp [Spec.step, hv', hne, Spec.setT, getSlot_setSlot, Ne.symm hne]

example : getSlot (step (step init (.new 0 [2] 1 [1, 2])).1 (.move 0 3)).1.pool 0 = some .invalid := by decide

/-- accessor or arithmetic use of the object in slot `h` -/
def usesObject (h : Nat) : Op → Bool
  | .read x | .shape x | .device x | .reset x _ | .resetv x _ | .imul x _ | .flatten x _ | .reshape x _ _ _ => x == h
  | .iadd x y | .isub x y | .diadd x y | .disub x y => x == h || y == h
  | .piaddValue _ y | .piaddGrad _ y => y == h
  | .dimul x _ | .fcopy x _ | .fpositive x _ | .fconcat1 x _ _ | .fbconcat1 x _ | .probe _ x => x == h
  | .dsliceBw gy _ _ gx | .dpickBw gy _ _ gx | .dflipBw gy _ gx | .dtransposeBw gy gx => gy == h || gx == h
  | .daddBw gy ga gb | .dsubBw gy ga gb => gy == h || ga == h || gb == h
  | _ => false

/-- the protocol passes the call to the library: the other objects it names exist
(otherwise the harness answers `noobj`) and, for the backward kernels, the
operands are different objects (otherwise `alias`) -/
def issued (s : State) : Op → Bool
  | .iadd x y | .isub x y | .diadd x y | .disub x y => (getSlot s.pool x).isSome && (getSlot s.pool y).isSome
  | .piaddValue p _ => (getSlot s.pool (vslot p)).isSome
  | .piaddGrad p _ => (getSlot s.pool (gslot p)).isSome
  | .dsliceBw gy _ _ gx | .dpickBw gy _ _ gx | .dflipBw gy _ gx | .dtransposeBw gy gx =>
    (getSlot s.pool gy).isSome && (getSlot s.pool gx).isSome && gy != gx
  | .daddBw gy ga gb | .dsubBw gy ga gb =>
    (getSlot s.pool gy).isSome && (getSlot s.pool ga).isSome && (getSlot s.pool gb).isSome &&
      gy != ga && gy != gb && ga != gb
  | _ => true

/-- **invalid_rejects_everything**: every accessor (`to_vector`, `shape`, `device`)
and every arithmetic or view use (`reset*`, `*=`, `+=`, `-=` on either side,
`reshape`, `flatten`, `param.value() +=`), every direct call of a Device entry point
(`inplace_add/subtract/multiply_const`, `slice_bw`, `pick_bw`, `flip_bw`,
`transpose_bw`, `add_bw`, `subtract_bw`, in any operand position) and every
function of one operand (`copy`, `positive`, `concat({&h})`, `batch::concat({&h})`,
`sum`, `h + h`, `matmul`, `batch::sum`, `to_float`, `argmax`) of an invalid tensor
is `err` — never `crash`, never `ok` — and changes nothing.  No invariant is needed. -/
theorem invalid_rejects_everything {s : State} {h : Nat} (hinv : getSlot s.pool h = some .invalid)
    (op : Op) (hu : usesObject h op = true) (hex : issued s op = true) :
    step s op = (s, .err) := by
  cases op <;> simp [usesObject] at hu
  case read x => subst hu; simp [step, hinv]
  case shape x => subst hu; simp [step, hinv]
  case device x => subst hu; simp [step, hinv]
  case reset x k => subst hu; simp [step, hinv]
  case resetv x vals => subst hu; simp [step, hinv]
  case imul x k => subst hu; simp [step, hinv]
  case flatten x g => subst hu; simp [step, viewOp, hinv]
  case reshape x g dims batch =>
    subst hu
    simp only [step, hinv, withShape]
    cases hn : Shape.new dims batch with
    | error e =>
      cases e with
      | error => rfl
      | crash => exact absurd hn (shape_new_ne_crash dims batch)
    | ok nsh => simp [viewOp, hinv]
  case iadd x y =>
    simp [issued] at hex
    rcases hu with hu | hu <;> subst hu
    · cases hy : getSlot s.pool y with
      | none => simp [hy] at hex
      | some v => cases v <;> simp [step, inplace2, hinv, hy]
    · cases hx : getSlot s.pool x with
      | none => simp [hx] at hex
      | some v => cases v <;> simp [step, inplace2, hinv, hx]
  case isub x y =>
    simp [issued] at hex
    rcases hu with hu | hu <;> subst hu
    · cases hy : getSlot s.pool y with
      | none => simp [hy] at hex
      | some v => cases v <;> simp [step, inplace2, hinv, hy]
    · cases hx : getSlot s.pool x with
      | none => simp [hx] at hex
      | some v => cases v <;> simp [step, inplace2, hinv, hx]
  case piaddValue p y =>
    subst hu
    simp [issued] at hex
    cases hx : getSlot s.pool (vslot p) with
    | none => simp [hx] at hex
    | some v =>
      simp only [step, hinv]
      by_cases hf : s.pvalid.getD p false = true
      · rw [if_pos hf]; cases v <;> simp [inplace2, hinv, hx]
      · rw [if_neg hf]

  case diadd x y =>
    simp [issued] at hex
    rcases hu with hu | hu <;> subst hu
    · cases hy : getSlot s.pool y with
      | none => simp [hy] at hex
      | some v => cases v <;> simp [step, inplace2, hinv, hy]
    · cases hx : getSlot s.pool x with
      | none => simp [hx] at hex
      | some v => cases v <;> simp [step, inplace2, hinv, hx]
  case disub x y =>
    simp [issued] at hex
    rcases hu with hu | hu <;> subst hu
    · cases hy : getSlot s.pool y with
      | none => simp [hy] at hex
      | some v => cases v <;> simp [step, inplace2, hinv, hy]
    · cases hx : getSlot s.pool x with
      | none => simp [hx] at hex
      | some v => cases v <;> simp [step, inplace2, hinv, hx]
  case dimul x k => subst hu; simp [step, hinv]
  case fcopy x g => subst hu; simp [step, freshOp, hinv]
  case fpositive x g => subst hu; simp [step, hinv]
  case fconcat1 x g dim => subst hu; simp [step, freshOp, hinv]
  case fbconcat1 x g => subst hu; simp [step, freshOp, hinv]
  case probe fn x => subst hu; simp [step, hinv]
  case piaddGrad p y =>
    subst hu
    simp [issued] at hex
    cases hx : getSlot s.pool (gslot p) with
    | none => simp [hx] at hex
    | some v =>
      simp only [step, hinv]
      by_cases hf : s.pvalid.getD p false = true
      · rw [if_pos hf]; cases v <;> simp [inplace2, hinv, hx]
      · rw [if_neg hf]
  case dsliceBw gy dim off gx =>
    simp [issued] at hex
    exact bwOp_invalid _ _ hex.2 hex.1.1 hex.1.2 (by rcases hu with hu | hu <;> subst hu <;> simp [hinv])
  case dpickBw gy dim ids gx =>
    simp [issued] at hex
    exact bwOp_invalid _ _ hex.2 hex.1.1 hex.1.2 (by rcases hu with hu | hu <;> subst hu <;> simp [hinv])
  case dflipBw gy dim gx =>
    simp [issued] at hex
    exact bwOp_invalid _ _ hex.2 hex.1.1 hex.1.2 (by rcases hu with hu | hu <;> subst hu <;> simp [hinv])
  case dtransposeBw gy gx =>
    simp [issued] at hex
    exact bwOp_invalid _ _ hex.2 hex.1.1 hex.1.2 (by rcases hu with hu | hu <;> subst hu <;> simp [hinv])
  case daddBw gy ga gb =>
    simp [issued] at hex
    obtain ⟨⟨⟨⟨⟨e1, e2⟩, e3⟩, n1⟩, n2⟩, n3⟩ := hex
    exact abBwOp_invalid _ (by simp [n1, n2, n3]) e1 e2 e3 (by rcases hu with (hu | hu) | hu <;> subst hu <;> simp [hinv])
  case dsubBw gy ga gb =>
    simp [issued] at hex
    obtain ⟨⟨⟨⟨⟨e1, e2⟩, e3⟩, n1⟩, n2⟩, n3⟩ := hex
    exact abBwOp_invalid _ (by simp [n1, n2, n3]) e1 e2 e3 (by rcases hu with (hu | hu) | hu <;> subst hu <;> simp [hinv])

example : getSlot (run init [.new 0 [2] 1 [1, 2], .move 0 3]).1.pool 0 = some .invalid := by decide

example : (run init [.new 0 [2] 1 [1, 2], .move 0 3, .fconcat1 0 6 0, .fbconcat1 0 6, .fpositive 0 6, .fcopy 0 6,
    .probe .sum0 0, .probe .matmul 0, .dsliceBw 3 0 0 0, .daddBw 3 0 6, .readall]).2
    = [.ok, .ok, .err, .err, .err, .err, .err, .err, .err, .noobj,
       .all [(0, none), (3, some (⟨[2], 1, 2⟩, [1, 2]))]] := by decide

/-- **no_crash**: in no reachable state does any operation make the model touch
freed memory, run past a buffer, or otherwise leave defined behaviour. -/
theorem no_crash {s : State} (hr : Reachable s) (op : Op) : (step s op).2 ≠ .crash := by
  by_cases hop : op = .live
  · subst hop; simp [step]
  · rw [(step_refines (reachable_inv hr) op).2.2 hop]
    refine spec_never_crashes ?_ op
    obtain ⟨ops, rfl⟩ := hr
    rw [(refines ops).2.1]
    exact run_anz anz_init ops

/-! ### buffers: freed exactly when the last owner goes, never twice -/

theorem reachable_step {s : State} (hr : Reachable s) (op : Op) : Reachable (step s op).1 := by
  obtain ⟨ops, rfl⟩ := hr
  exact ⟨ops ++ [op], (run_snoc init ops op).symm⟩

/-- a buffer is live exactly as long as some Tensor object holds it: it is freed
exactly when its use count reaches 0 -/
theorem freed_iff_unreferenced {s : State} (hr : Reachable s) (b : Nat) :
    getSlot s.heap b = none ↔ refs s.pool b = 0 := by
  have hs := reachable_inv hr
  have hrc := hs.rc b
  constructor
  · intro h; rw [← hrc]; simp [rcOf, h]
  · intro h
    cases hb : getSlot s.heap b with
    | none => rfl
    | some bf =>
      have := hs.pos b bf hb
      simp [rcOf, hb] at hrc
      omega

theorem use_count_exact {s : State} (hr : Reachable s) (b : Nat) : rcOf s.heap b = refs s.pool b :=
  (reachable_inv hr).rc b

/-- **no_leak**: when no valid Tensor object is left (all dropped, invalidated or
moved from), no device buffer is left either. -/
theorem no_leak {s : State} (hr : Reachable s) (hall : ∀ i sh b, getSlot s.pool i ≠ some (.valid sh b)) :
    liveCount s = 0 := by
  apply filter_isSome_of_all_none
  intro b
  rw [freed_iff_unreferenced hr]
  apply refs_zero_of_none
  intro i hb
  obtain ⟨sh, hv⟩ := bufOf_eq_some hb
  exact hall i sh b hv

example : liveCount (run init [.new 0 [2] 1 [1, 2], .copy 0 3, .param 0 [2] 1 [5, 6], .ptensor 0 6,
    .drop 0, .invalidate 3, .pdrop 0, .move 6 9, .drop 9]).1 = 0 := by decide

/-- **no_double_free**: a freed buffer stays freed for ever — its id is not
reused, no later operation touches it, and no object refers to it. -/
theorem no_double_free {s : State} (hr : Reachable s) (op : Op) (b : Nat)
    (hb : b < s.heap.length) (hf : getSlot s.heap b = none) :
    b < (step s op).1.heap.length ∧ getSlot (step s op).1.heap b = none ∧ refs (step s op).1.pool b = 0 := by
  have he := evo_step s op
  have h2 := he.2 b hb hf
  exact ⟨Nat.lt_of_lt_of_le hb he.1, h2, (freed_iff_unreferenced (reachable_step hr op) b).1 h2⟩

example : getSlot (run init [.new 0 [2] 1 [1, 2], .drop 0, .new 0 [2] 1 [3, 4]]).1.heap 0 = none := by decide

end Primitiv.Cow
