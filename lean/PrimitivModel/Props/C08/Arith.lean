import PrimitivModel.Model.KernelsArith
namespace Primitiv.C08.Arith
theorem placeholder : True := trivial
end Primitiv.C08.Arith
