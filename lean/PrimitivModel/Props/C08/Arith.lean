import PrimitivModel.Analysis.Scalar
import PrimitivModel.Gen.Elementwise
import Mathlib.Tactic.Ring
import Mathlib.Tactic.Linarith
/-
C08 (all CPU backends compute the same function), arithmetic kernels.

`Elementwise.naive_eq_eigen_<kernel>`: for every elementwise kernel pair the
formula generated from devices/naive/ops and the one generated from
devices/eigen/ops denote the same function over ℝ.  Most pairs are equal after
token normalisation (`syntactic_pairs`); the `select` / `sign` forms (abs_bw,
prelu, elu) need a case split.  The loop kernels (binary backward, matmul,
conv2d, max_pool2d, logsumexp, pown, in-place) have one model for both
backends: each backend is tied to that model by the correspondence run.
-/
namespace Primitiv.C08.Arith
open Primitiv.Gen.Elementwise Primitiv.Analysis

/-- unfold both formulas, interpret the literals, then `ring` or a case split on the comparisons -/
local macro "ew_tac" a:ident b:ident : tactic =>
  `(tactic| (
    unfold $a $b
    (try simp only [lit_zero, lit_one, lit_half, fns_exp, fns_log, fns_tanh, fns_sqrt, fns_sin, fns_cos, fns_tan,
      fns_abs, fns_sign, fns_pow, sgn, gt_iff_lt]) <;>
    first
      | rfl
      | ring1
      | (split_ifs <;> first | ring1 | (exfalso; linarith) | (simp <;> ring1))))

namespace Elementwise

theorem naive_eq_eigen_abs_bw (x y gy : ℝ) :
    naive_abs_bw realFns x y gy = eigen_abs_bw realFns x y gy := by
  ew_tac naive_abs_bw eigen_abs_bw

theorem naive_eq_eigen_abs_fw (x : ℝ) :
    naive_abs_fw realFns x = eigen_abs_fw realFns x := by
  ew_tac naive_abs_fw eigen_abs_fw

theorem naive_eq_eigen_add_fw (a b : ℝ) :
    naive_add_fw realFns a b = eigen_add_fw realFns a b := by
  ew_tac naive_add_fw eigen_add_fw

theorem naive_eq_eigen_add_const_bw (x y gy k : ℝ) :
    naive_add_const_bw realFns x y gy k = eigen_add_const_bw realFns x y gy k := by
  ew_tac naive_add_const_bw eigen_add_const_bw

theorem naive_eq_eigen_add_const_fw (x k : ℝ) :
    naive_add_const_fw realFns x k = eigen_add_const_fw realFns x k := by
  ew_tac naive_add_const_fw eigen_add_const_fw

theorem naive_eq_eigen_add_scalar_fw (x k : ℝ) :
    naive_add_scalar_fw realFns x k = eigen_add_scalar_fw realFns x k := by
  ew_tac naive_add_scalar_fw eigen_add_scalar_fw

theorem naive_eq_eigen_cos_bw (x y gy : ℝ) :
    naive_cos_bw realFns x y gy = eigen_cos_bw realFns x y gy := by
  ew_tac naive_cos_bw eigen_cos_bw

theorem naive_eq_eigen_cos_fw (x : ℝ) :
    naive_cos_fw realFns x = eigen_cos_fw realFns x := by
  ew_tac naive_cos_fw eigen_cos_fw

theorem naive_eq_eigen_divide_fw (a b : ℝ) :
    naive_divide_fw realFns a b = eigen_divide_fw realFns a b := by
  ew_tac naive_divide_fw eigen_divide_fw

theorem naive_eq_eigen_divide_const_l_bw (x y gy k : ℝ) :
    naive_divide_const_l_bw realFns x y gy k = eigen_divide_const_l_bw realFns x y gy k := by
  ew_tac naive_divide_const_l_bw eigen_divide_const_l_bw

theorem naive_eq_eigen_divide_const_l_fw (x k : ℝ) :
    naive_divide_const_l_fw realFns x k = eigen_divide_const_l_fw realFns x k := by
  ew_tac naive_divide_const_l_fw eigen_divide_const_l_fw

theorem naive_eq_eigen_divide_const_r_bw (x y gy k : ℝ) :
    naive_divide_const_r_bw realFns x y gy k = eigen_divide_const_r_bw realFns x y gy k := by
  ew_tac naive_divide_const_r_bw eigen_divide_const_r_bw

theorem naive_eq_eigen_divide_const_r_fw (x k : ℝ) :
    naive_divide_const_r_fw realFns x k = eigen_divide_const_r_fw realFns x k := by
  ew_tac naive_divide_const_r_fw eigen_divide_const_r_fw

theorem naive_eq_eigen_divide_scalar_l_fw (x k : ℝ) :
    naive_divide_scalar_l_fw realFns x k = eigen_divide_scalar_l_fw realFns x k := by
  ew_tac naive_divide_scalar_l_fw eigen_divide_scalar_l_fw

theorem naive_eq_eigen_divide_scalar_r_fw (x k : ℝ) :
    naive_divide_scalar_r_fw realFns x k = eigen_divide_scalar_r_fw realFns x k := by
  ew_tac naive_divide_scalar_r_fw eigen_divide_scalar_r_fw

theorem naive_eq_eigen_elu_bw (x y gy k : ℝ) :
    naive_elu_bw realFns x y gy k = eigen_elu_bw realFns x y gy k := by
  ew_tac naive_elu_bw eigen_elu_bw

theorem naive_eq_eigen_elu_fw (x k : ℝ) :
    naive_elu_fw realFns x k = eigen_elu_fw realFns x k := by
  ew_tac naive_elu_fw eigen_elu_fw

theorem naive_eq_eigen_exp_bw (x y gy : ℝ) :
    naive_exp_bw realFns x y gy = eigen_exp_bw realFns x y gy := by
  ew_tac naive_exp_bw eigen_exp_bw

theorem naive_eq_eigen_exp_fw (x : ℝ) :
    naive_exp_fw realFns x = eigen_exp_fw realFns x := by
  ew_tac naive_exp_fw eigen_exp_fw

theorem naive_eq_eigen_log_bw (x y gy : ℝ) :
    naive_log_bw realFns x y gy = eigen_log_bw realFns x y gy := by
  ew_tac naive_log_bw eigen_log_bw

theorem naive_eq_eigen_log_fw (x : ℝ) :
    naive_log_fw realFns x = eigen_log_fw realFns x := by
  ew_tac naive_log_fw eigen_log_fw

theorem naive_eq_eigen_multiply_fw (a b : ℝ) :
    naive_multiply_fw realFns a b = eigen_multiply_fw realFns a b := by
  ew_tac naive_multiply_fw eigen_multiply_fw

theorem naive_eq_eigen_multiply_const_bw (x y gy k : ℝ) :
    naive_multiply_const_bw realFns x y gy k = eigen_multiply_const_bw realFns x y gy k := by
  ew_tac naive_multiply_const_bw eigen_multiply_const_bw

theorem naive_eq_eigen_multiply_const_fw (x k : ℝ) :
    naive_multiply_const_fw realFns x k = eigen_multiply_const_fw realFns x k := by
  ew_tac naive_multiply_const_fw eigen_multiply_const_fw

theorem naive_eq_eigen_multiply_scalar_fw (x k : ℝ) :
    naive_multiply_scalar_fw realFns x k = eigen_multiply_scalar_fw realFns x k := by
  ew_tac naive_multiply_scalar_fw eigen_multiply_scalar_fw

theorem naive_eq_eigen_negate_fw (x : ℝ) :
    naive_negate_fw realFns x = eigen_negate_fw realFns x := by
  ew_tac naive_negate_fw eigen_negate_fw

theorem naive_eq_eigen_pow_fw (a b : ℝ) :
    naive_pow_fw realFns a b = eigen_pow_fw realFns a b := by
  ew_tac naive_pow_fw eigen_pow_fw

theorem naive_eq_eigen_pow_const_l_bw (x y gy k : ℝ) :
    naive_pow_const_l_bw realFns x y gy k = eigen_pow_const_l_bw realFns x y gy k := by
  ew_tac naive_pow_const_l_bw eigen_pow_const_l_bw

theorem naive_eq_eigen_pow_const_l_fw (x k : ℝ) :
    naive_pow_const_l_fw realFns x k = eigen_pow_const_l_fw realFns x k := by
  ew_tac naive_pow_const_l_fw eigen_pow_const_l_fw

theorem naive_eq_eigen_pow_const_r_bw (x y gy k : ℝ) :
    naive_pow_const_r_bw realFns x y gy k = eigen_pow_const_r_bw realFns x y gy k := by
  ew_tac naive_pow_const_r_bw eigen_pow_const_r_bw

theorem naive_eq_eigen_pow_const_r_fw (x k : ℝ) :
    naive_pow_const_r_fw realFns x k = eigen_pow_const_r_fw realFns x k := by
  ew_tac naive_pow_const_r_fw eigen_pow_const_r_fw

theorem naive_eq_eigen_pow_scalar_l_fw (x k : ℝ) :
    naive_pow_scalar_l_fw realFns x k = eigen_pow_scalar_l_fw realFns x k := by
  ew_tac naive_pow_scalar_l_fw eigen_pow_scalar_l_fw

theorem naive_eq_eigen_pow_scalar_r_fw (x k : ℝ) :
    naive_pow_scalar_r_fw realFns x k = eigen_pow_scalar_r_fw realFns x k := by
  ew_tac naive_pow_scalar_r_fw eigen_pow_scalar_r_fw

theorem naive_eq_eigen_prelu_bw (x y gy k : ℝ) :
    naive_prelu_bw realFns x y gy k = eigen_prelu_bw realFns x y gy k := by
  ew_tac naive_prelu_bw eigen_prelu_bw

theorem naive_eq_eigen_prelu_fw (x k : ℝ) :
    naive_prelu_fw realFns x k = eigen_prelu_fw realFns x k := by
  ew_tac naive_prelu_fw eigen_prelu_fw

theorem naive_eq_eigen_sigmoid_bw (x y gy : ℝ) :
    naive_sigmoid_bw realFns x y gy = eigen_sigmoid_bw realFns x y gy := by
  ew_tac naive_sigmoid_bw eigen_sigmoid_bw

theorem naive_eq_eigen_sigmoid_fw (x : ℝ) :
    naive_sigmoid_fw realFns x = eigen_sigmoid_fw realFns x := by
  ew_tac naive_sigmoid_fw eigen_sigmoid_fw

theorem naive_eq_eigen_sin_bw (x y gy : ℝ) :
    naive_sin_bw realFns x y gy = eigen_sin_bw realFns x y gy := by
  ew_tac naive_sin_bw eigen_sin_bw

theorem naive_eq_eigen_sin_fw (x : ℝ) :
    naive_sin_fw realFns x = eigen_sin_fw realFns x := by
  ew_tac naive_sin_fw eigen_sin_fw

theorem naive_eq_eigen_softplus_bw (x y gy : ℝ) :
    naive_softplus_bw realFns x y gy = eigen_softplus_bw realFns x y gy := by
  ew_tac naive_softplus_bw eigen_softplus_bw

theorem naive_eq_eigen_softplus_fw (x : ℝ) :
    naive_softplus_fw realFns x = eigen_softplus_fw realFns x := by
  ew_tac naive_softplus_fw eigen_softplus_fw

theorem naive_eq_eigen_sqrt_bw (x y gy : ℝ) :
    naive_sqrt_bw realFns x y gy = eigen_sqrt_bw realFns x y gy := by
  ew_tac naive_sqrt_bw eigen_sqrt_bw

theorem naive_eq_eigen_sqrt_fw (x : ℝ) :
    naive_sqrt_fw realFns x = eigen_sqrt_fw realFns x := by
  ew_tac naive_sqrt_fw eigen_sqrt_fw

theorem naive_eq_eigen_subtract_fw (a b : ℝ) :
    naive_subtract_fw realFns a b = eigen_subtract_fw realFns a b := by
  ew_tac naive_subtract_fw eigen_subtract_fw

theorem naive_eq_eigen_subtract_const_l_bw (x y gy k : ℝ) :
    naive_subtract_const_l_bw realFns x y gy k = eigen_subtract_const_l_bw realFns x y gy k := by
  ew_tac naive_subtract_const_l_bw eigen_subtract_const_l_bw

theorem naive_eq_eigen_subtract_const_l_fw (x k : ℝ) :
    naive_subtract_const_l_fw realFns x k = eigen_subtract_const_l_fw realFns x k := by
  ew_tac naive_subtract_const_l_fw eigen_subtract_const_l_fw

theorem naive_eq_eigen_subtract_const_r_bw (x y gy k : ℝ) :
    naive_subtract_const_r_bw realFns x y gy k = eigen_subtract_const_r_bw realFns x y gy k := by
  ew_tac naive_subtract_const_r_bw eigen_subtract_const_r_bw

theorem naive_eq_eigen_subtract_const_r_fw (x k : ℝ) :
    naive_subtract_const_r_fw realFns x k = eigen_subtract_const_r_fw realFns x k := by
  ew_tac naive_subtract_const_r_fw eigen_subtract_const_r_fw

theorem naive_eq_eigen_subtract_scalar_l_fw (x k : ℝ) :
    naive_subtract_scalar_l_fw realFns x k = eigen_subtract_scalar_l_fw realFns x k := by
  ew_tac naive_subtract_scalar_l_fw eigen_subtract_scalar_l_fw

theorem naive_eq_eigen_subtract_scalar_r_fw (x k : ℝ) :
    naive_subtract_scalar_r_fw realFns x k = eigen_subtract_scalar_r_fw realFns x k := by
  ew_tac naive_subtract_scalar_r_fw eigen_subtract_scalar_r_fw

theorem naive_eq_eigen_tan_bw (x y gy : ℝ) :
    naive_tan_bw realFns x y gy = eigen_tan_bw realFns x y gy := by
  ew_tac naive_tan_bw eigen_tan_bw

theorem naive_eq_eigen_tan_fw (x : ℝ) :
    naive_tan_fw realFns x = eigen_tan_fw realFns x := by
  ew_tac naive_tan_fw eigen_tan_fw

theorem naive_eq_eigen_tanh_bw (x y gy : ℝ) :
    naive_tanh_bw realFns x y gy = eigen_tanh_bw realFns x y gy := by
  ew_tac naive_tanh_bw eigen_tanh_bw

theorem naive_eq_eigen_tanh_fw (x : ℝ) :
    naive_tanh_fw realFns x = eigen_tanh_fw realFns x := by
  ew_tac naive_tanh_fw eigen_tanh_fw

/-- The kernels whose two formulas are already equal as normalised token strings (computed by the
translator); a change of this list means the two sources diverged textually. -/
theorem syntactic_pairs : syntacticallyDifferent = ["abs_bw", "elu_bw", "elu_fw", "prelu_bw", "prelu_fw"] := by
  decide

/-- every formula of both backends is inside the translated subset -/
theorem all_supported : unsupportedFormulas = [] := by decide

/-- both backends define the same set of elementwise kernels (no normal form is absent) -/
theorem same_kernel_set : (normalForms.filter fun r => r.2.1 == "-" || r.2.2 == "-") = [] := by decide

end Elementwise
end Primitiv.C08.Arith
