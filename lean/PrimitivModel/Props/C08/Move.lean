import PrimitivModel.Model.KernelsMove
namespace Primitiv.C08.Move
end Primitiv.C08.Move
