import PrimitivModel.Gen.DeviceFront
import PrimitivModel.Model.KernelsMove
/-
C08 — all CPU backends compute the same function; the part that follows from
the structure of the sources.  The table `Gen.DeviceFront` is regenerated from
primitiv/core/device.{h,cc} and primitiv/devices/{naive,eigen}/device.h on every
run (translate/device_front.py); the theorems below are decided over it.

Why this gives "the backends accept the same arguments and return the same
shapes": every member function of `Device` that device.cc defines is
non-virtual (`fronts_not_virtual`), so a backend cannot replace it, and the
backends declare nothing but overrides of the `*_impl` hooks, `new_handle`,
`dump_description`, `type` and their destructor (`backends_override_only_hooks`,
`backends_hide_nothing`); in each of those shared functions every device check,
shape precondition and output-shape computation comes before the first call of
a `*_impl` hook (`shared_checks`).  Hence whether a call is rejected, and the
shape of the tensor handed to the hook, are computed by code that is the same
for both backends.  That the hooks then compute the same *values* is the
statement "both backends refine the one model kernel" — the model has no device
parameter (`Move.pickFw` … take tensors only) — and is tied to the code by the
correspondence run of every line on both backends.
-/
namespace Primitiv.C08.Move
open Primitiv.Gen.DeviceFront

/-- scan a statement list: `seen` = a `*_impl` hook has been called on some path -/
def checksFirst : List Stmt → Bool → Bool
  | [], _ => true
  | .check _ :: rest, seen => !seen && checksFirst rest seen
  | .guard _ :: rest, seen => !seen && checksFirst rest seen
  | .alloc _ :: rest, seen => !seen && checksFirst rest seen
  | .handle :: rest, seen => !seen && checksFirst rest seen
  | .impl _ _ :: rest, _ => checksFirst rest true
  | .retImpl _ _ :: rest, _ => checksFirst rest true
  | .other _ :: _, _ => false
  | _ :: rest, seen => checksFirst rest seen

def isHook (n : String) : Bool :=
  (n.toList.reverse.take 5 == "_impl".toList.reverse) || n == "new_handle" || n == "dump_description" || n == "type" ||
  n == "~Device" || n == "~Naive" || n == "~Eigen"

/-- every call of another member from a shared function goes to a shared
(non-virtual) function that is itself in the table -/
def callsShared (e : Entry) : Bool :=
  e.stmts.all fun s =>
    match s with
    | .call f _ => entries.any (·.name == f) && !deviceVirtuals.contains f
    | _ => true

/-- Every entry point of `Device` performs all its device checks, shape
preconditions and output-shape computations before the first `*_impl` call, and
contains no statement outside the translated subset. -/
theorem Front.shared_checks : entries.all (fun e => checksFirst e.stmts false && callsShared e) = true := by
  decide +kernel

/-- The functions device.cc defines are not virtual: no backend can replace a
front-end. -/
theorem Front.fronts_not_virtual : entries.all (fun e => !deviceVirtuals.contains e.name) = true := by
  decide +kernel

/-- Every virtual member of `Device` is a hook, and every other member is one of
the shared functions of the table (or an inline handle accessor). -/
theorem Front.members_partition :
    deviceVirtuals.all isHook = true ∧
    deviceMembers.all (fun m => deviceVirtuals.contains m.1 || entries.any (·.name == m.1) ||
      m.1 == "get_handle" || m.1 == "get_mutable_handle") = true := by
  decide +kernel

/-- The two CPU backends override hooks only … -/
theorem Front.backends_override_only_hooks :
    naiveOverrides.all isHook = true ∧ eigenOverrides.all isHook = true := by
  decide +kernel

/-- … declare no member that would hide a shared function, and implement every
hook. -/
theorem Front.backends_hide_nothing :
    naiveDeclared.all (fun n => !entries.any (·.name == n)) = true ∧
    eigenDeclared.all (fun n => !entries.any (·.name == n)) = true ∧
    deviceVirtuals.all (fun v => v == "~Device" || (naiveOverrides.contains v && eigenOverrides.contains v)) = true := by
  decide +kernel

/-- The front-ends of the kernels family, as they were when the model
(`Move.Front.*`, `Move.*`) was written: device checks, guard text, output-shape
expression and hook call of each entry point. -/
def modelled : List Entry := [
  ⟨"new_raw_tensor", "private", [
      .local "std::size_t allocated_size",
      .handle,
      .ret "Tensor(shape, *this, std::move(handle), allocated_size)"
    ]⟩,
  ⟨"new_tensor_by_constant", "public", [
      .local "std::size_t allocated_size",
      .handle,
      .local "Tensor ret(shape, *this, std::move(handle), allocated_size)",
      .call "reset_tensor" "k, ret",
      .ret "ret"
    ]⟩,
  ⟨"new_tensor_by_array", "public", [
      .local "std::size_t allocated_size",
      .handle,
      .local "Tensor ret(shape, *this, std::move(handle), allocated_size)",
      .call "reset_tensor_by_array" "values, ret",
      .ret "ret"
    ]⟩,
  ⟨"new_tensor_by_vector", "public", [
      .local "std::size_t allocated_size",
      .handle,
      .local "Tensor ret(shape, *this, std::move(handle), allocated_size)",
      .call "reset_tensor_by_vector" "values, ret",
      .ret "ret"
    ]⟩,
  ⟨"tensor_to_vector", "private", [
      .check "x",
      .retImpl "tensor_to_vector_impl" "x"
    ]⟩,
  ⟨"argmax", "private", [
      .check "x",
      .retImpl "argmax_impl" "x, dim"
    ]⟩,
  ⟨"argmin", "private", [
      .check "x",
      .retImpl "argmin_impl" "x, dim"
    ]⟩,
  ⟨"reset_tensor", "protected", [
      .check "x",
      .impl "reset_tensor_impl" "k, x"
    ]⟩,
  ⟨"reset_tensor_by_array", "protected", [
      .check "x",
      .impl "reset_tensor_by_array_impl" "values, x"
    ]⟩,
  ⟨"reset_tensor_by_vector", "protected", [
      .check "x",
      .guard "values.size() != x.shape().size()",
      .impl "reset_tensor_by_array_impl" "values.data(), x"
    ]⟩,
  ⟨"copy_tensor", "public", [
      .guard "!x.valid()",
      .alloc "x.shape()",
      .impl "copy_tensor_impl" "x, y",
      .ret "y"
    ]⟩,
  ⟨"identity", "public", [
      .guard "size == 0",
      .alloc "{size, size}",
      .impl "identity_impl" "y",
      .ret "y"
    ]⟩,
  ⟨"pick_fw", "public", [
      .check "x",
      .alloc "shape_ops::pick(x.shape(), ids, dim)",
      .impl "pick_fw_impl" "x, ids, dim, y",
      .ret "y"
    ]⟩,
  ⟨"slice_fw", "public", [
      .check "x",
      .alloc "shape_ops::slice(x.shape(), dim, lower, upper)",
      .impl "slice_fw_impl" "x, dim, lower, y",
      .ret "y"
    ]⟩,
  ⟨"concat_fw", "public", [
      .guard "xs.empty()",
      .local "vector<Shape> shapes",
      .local "shapes.reserve(xs.size())",
      .loopBegin "std::uint32_t i = 0; i < xs.size(); ++i",
      .check "*xs[i]",
      .local "shapes.emplace_back(xs[i]->shape())",
      .loopEnd,
      .alloc "shape_ops::concat(shapes, dim)",
      .impl "concat_fw_impl" "xs, dim, y",
      .ret "y"
    ]⟩,
  ⟨"pick_bw", "public", [
      .check "gy",
      .check "gx",
      .local "const Shape sy = shape_ops::pick(gx.shape(), ids, dim)",
      .guard "gy.shape() != sy",
      .impl "pick_bw_impl" "gy, ids, dim, gx"
    ]⟩,
  ⟨"slice_bw", "public", [
      .check "gy",
      .check "gx",
      .local "const Shape &sy = gy.shape()",
      .local "const Shape &sx = gx.shape()",
      .guard "!sy.has_same_loo_dims(sx, dim) || !sy.has_compatible_batch(sx) || offset > sx[dim] || sy[dim] > sx[dim] - offset",
      .branchBegin "dim >= sx.depth()",
      .impl "inplace_add_impl" "gy, gx",
      .branchElse,
      .impl "slice_bw_impl" "gy, dim, offset, gx",
      .branchEnd
    ]⟩,
  ⟨"transpose_fw", "public", [
      .check "x",
      .alloc "shape_ops::transpose(x.shape())",
      .impl "transpose_fw_impl" "x, y",
      .ret "y"
    ]⟩,
  ⟨"permute_dims_fw", "public", [
      .check "x",
      .alloc "shape_ops::permute_dims(x.shape(), perm)",
      .impl "permute_dims_fw_impl" "x, perm, y",
      .ret "y"
    ]⟩,
  ⟨"transpose_bw", "public", [
      .check "x",
      .check "y",
      .check "gy",
      .check "gx",
      .guard "x.shape() != gx.shape() || y.shape() != gy.shape() || y.shape() != shape_ops::transpose(x.shape())",
      .impl "transpose_bw_impl" "x, y, gy, gx"
    ]⟩,
  ⟨"permute_dims_bw", "public", [
      .check "x",
      .check "y",
      .check "gy",
      .check "gx",
      .local "const Shape &s = x.shape()",
      .local "const Shape sy = shape_ops::permute_dims(x.shape(), perm)",
      .guard "y.shape() != sy || gy.shape() != sy || gx.shape() != s",
      .impl "permute_dims_bw_impl" "x, y, gy, perm, gx"
    ]⟩,
  ⟨"flip_fw", "public", [
      .check "x",
      .alloc "x.shape()",
      .impl "flip_fw_impl" "x, dim, y",
      .ret "y"
    ]⟩,
  ⟨"flip_bw", "public", [
      .check "gy",
      .check "gx",
      .guard "gy.shape() != gx.shape()",
      .impl "flip_bw_impl" "gy, dim, gx"
    ]⟩,
  ⟨"max_fw", "public", [
      .check "x",
      .alloc "x.shape().resize_dim(dim, 1)",
      .impl "max_fw_impl" "x, dim, y",
      .ret "y"
    ]⟩,
  ⟨"min_fw", "public", [
      .check "x",
      .alloc "x.shape().resize_dim(dim, 1)",
      .impl "min_fw_impl" "x, dim, y",
      .ret "y"
    ]⟩,
  ⟨"max_bw", "public", [
      .check "x",
      .check "y",
      .check "gy",
      .check "gx",
      .local "const Shape &r = x.shape()",
      .local "const Shape s = r.resize_dim(dim, 1)",
      .guard "gx.shape() != r || y.shape() != s || gy.shape() != s",
      .impl "max_bw_impl" "x, y, gy, dim, gx"
    ]⟩,
  ⟨"min_bw", "public", [
      .check "x",
      .check "y",
      .check "gy",
      .check "gx",
      .local "const Shape &r = x.shape()",
      .local "const Shape s = r.resize_dim(dim, 1)",
      .guard "gx.shape() != r || y.shape() != s || gy.shape() != s",
      .impl "min_bw_impl" "x, y, gy, dim, gx"
    ]⟩,
  ⟨"sum_fw", "public", [
      .check "x",
      .alloc "x.shape().resize_dim(dim, 1)",
      .impl "sum_fw_impl" "x, dim, y",
      .ret "y"
    ]⟩,
  ⟨"broadcast_fw", "public", [
      .check "x",
      .alloc "shape_ops::broadcast(x.shape(), dim, size)",
      .impl "broadcast_fw_impl" "x, dim, size, y",
      .ret "y"
    ]⟩,
  ⟨"batch_pick_fw", "public", [
      .check "x",
      .alloc "shape_ops::batch_pick(x.shape(), ids)",
      .impl "batch_pick_fw_impl" "x, ids, y",
      .ret "y"
    ]⟩,
  ⟨"batch_slice_fw", "public", [
      .check "x",
      .alloc "shape_ops::batch_slice(x.shape(), lower, upper)",
      .impl "batch_slice_fw_impl" "x, lower, y",
      .ret "y"
    ]⟩,
  ⟨"batch_concat_fw", "public", [
      .guard "xs.empty()",
      .local "vector<Shape> shapes",
      .local "shapes.reserve(xs.size())",
      .loopBegin "std::uint32_t i = 0; i < xs.size(); ++i",
      .check "*xs[i]",
      .local "shapes.emplace_back(xs[i]->shape())",
      .loopEnd,
      .alloc "shape_ops::batch_concat(shapes)",
      .impl "batch_concat_fw_impl" "xs, y",
      .ret "y"
    ]⟩,
  ⟨"batch_sum_fw", "public", [
      .check "x",
      .alloc "x.shape().resize_batch(1)",
      .impl "batch_sum_fw_impl" "x, y",
      .ret "y"
    ]⟩,
  ⟨"batch_pick_bw", "public", [
      .check "gy",
      .check "gx",
      .local "const Shape sy = shape_ops::batch_pick(gx.shape(), ids)",
      .guard "gy.shape() != sy",
      .impl "batch_pick_bw_impl" "gy, ids, gx"
    ]⟩,
  ⟨"batch_slice_bw", "public", [
      .check "gy",
      .check "gx",
      .local "const Shape &sy = gy.shape()",
      .local "const Shape &sx = gx.shape()",
      .guard "!sy.has_same_dims(sx) || offset > sx.batch() || sy.batch() > sx.batch() - offset",
      .impl "batch_slice_bw_impl" "gy, offset, gx"
    ]⟩
]

/-- The source still has exactly these statements for the entry points the
`kernels` model describes (in particular the wrap-free guards of `slice_bw` and
`batch_slice_bw`, `Move.Front.sliceBwGuard`). -/
theorem Front.kernels_fronts_as_modelled :
    modelled.all (fun m => entries.any (fun e => e == m)) = true := by
  decide +kernel

end Primitiv.C08.Move
