import PrimitivModel.Model.Shape
import PrimitivModel.Spec.Shape
namespace Primitiv.C09

theorem trim_nil : trim [] = [] := rfl

end Primitiv.C09
