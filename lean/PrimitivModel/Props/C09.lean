import PrimitivModel.Model.Shape
import PrimitivModel.Spec.Shape
import PrimitivModel.Lemmas.Shape
/-
Property C09 — shape algebra.  Every `theorem` below is one proof obligation
of `./check C09`.  The statements are over the executable model
`Model/Shape.lean` (the code's 32/64-bit arithmetic) and the documentation-level
specification `Spec/Shape.lean` (unbounded naturals, `none` = Error); both are
run against the real library by the correspondence part of the check.

* `Shape.Canonical` (Lemmas/Shape.lean) is the class invariant: depth ≤ 8, no
  zero dimension, no trailing 1, batch ≠ 0, the cached `volume` is the exact
  product of the dimensions and `volume * batch ≤ 0xffffffff`.
* `toSpec s = ⟨s.dims, s.batch⟩`; `toSpec?` maps an Error to `none`.
* for every constructor / rule `r` there are three theorems, for canonical
  arguments and *all* other argument values (no bound at all is needed on axis,
  index, size, padding, stride arguments; the only side condition is
  `ids.length < 2^32` for `pick`/`batch_pick`, whose C++ narrows `ids.size()`
  to `std::uint32_t`):
    `r_spec`      `toSpec? (Model.r args) = Spec.r (toSpec args)`
    `r_total`     `Model.r args ≠ crash`      (no undefined behaviour reached)
    `r_canonical` `Model.r args = .ok s → s.Canonical`
  All three are projections of one lemma `r_agree` in Lemmas/Shape.lean.
* the `example` after an implication-shaped theorem shows that its hypotheses
  are satisfied by a concrete non-trivial instance.
-/
namespace Primitiv.C09
open Primitiv Primitiv.Spec

/-! ### witnesses used by the examples -/
/-- `Shape({2,3,1,4}, 5)` -/
abbrev ex1 : Shape := ⟨[2, 3, 1, 4], 5, 24⟩
/-- the same dimensions without a batch -/
abbrev ex1b : Shape := ⟨[2, 3, 1, 4], 1, 24⟩
abbrev ex3 : Shape := ⟨[6, 4], 1, 24⟩
abbrev ex4 : Shape := ⟨[2, 3], 5, 6⟩
abbrev ex5 : Shape := ⟨[4, 7], 3, 28⟩
abbrev ex6 : Shape := ⟨[9, 8, 3], 2, 216⟩
abbrev ex7 : Shape := ⟨[3, 2, 3, 5], 1, 90⟩

/-! ### 1. canonical form -/

/-- The default constructor. -/
theorem scalar_canonical : Shape.scalar.Canonical := by decide

/-- Every constructed shape is canonical. -/
theorem new_canonical {dims : List Nat} {b : Nat} {s : Shape} (h : Shape.new dims b = .ok s) :
    s.Canonical :=
  (new_agree dims b).canonical h
example : Shape.new [2, 3, 1, 4, 1, 1] 5 = .ok ex1 := rfl

/-- A canonical shape is determined by its dimensions and batch. -/
theorem canonical_ext {a b : Shape} (ha : a.Canonical) (hb : b.Canonical)
    (h : toSpec a = toSpec b) : a = b := by
  cases a; cases b
  simp only [toSpec, SShape.mk.injEq] at h
  have h1 := ha.vol; have h2 := hb.vol
  simp only at h1 h2
  simp [h.1, h.2, h1, h2]
example : ex1.Canonical ∧ toSpec ex1 = toSpec ex1 := by decide

/-- Dimensions and the batch of a canonical shape fit `std::uint32_t`. -/
theorem canonical_fits {s : Shape} (h : s.Canonical) :
    (∀ i, 0 < s.get i ∧ s.get i < W) ∧ 0 < s.batch ∧ s.batch < W ∧ 0 < s.volume ∧ s.volume < W :=
  ⟨fun i => ⟨h.get_pos i, h.get_lt i⟩, Nat.pos_of_ne_zero h.batch_ne, h.batch_lt, h.vol_pos, h.vol_lt⟩
example : ex1.Canonical := by decide

/-! ### 2. the constructor against the specification; no silent wrap -/

/-- `Shape(dims, batch)` accepts exactly what the specification accepts, with the same result
(for all lists and batches, of any length and magnitude). -/
theorem new_spec (dims : List Nat) (b : Nat) : toSpec? (Shape.new dims b) = Spec.mk dims b :=
  (new_agree dims b).toSpec_eq

theorem new_total (dims : List Nat) (b : Nat) : Shape.new dims b ≠ crash :=
  (new_agree dims b).not_crash

/-- `volume()` is the true product of the dimensions. -/
theorem volume_exact {s : Shape} (h : s.Canonical) : s.volume = (toSpec s).volume := h.vol
example : ex1.Canonical := by decide

/-- `size()` (a 32-bit multiplication in the code) is the true element count, which is below 2^32. -/
theorem size_exact {s : Shape} (h : s.Canonical) : s.size = (toSpec s).size ∧ (toSpec s).size < W := by
  have h1 := size_exact' h
  have h2 := h.bound
  refine ⟨h1, ?_⟩
  show s.batch * Spec.prod s.dims < W
  rw [← h.vol, Nat.mul_comm]
  simp only [MAXU, W] at *; omega
example : ex1.Canonical := by decide

/-- `lower_volume(dim)` (a 32-bit product in the code) is the true product of the first `dim`
dimensions, for every `dim`. -/
theorem lowerVolume_exact {s : Shape} (h : s.Canonical) (d : Nat) :
    s.lowerVolume d = (toSpec s).lowerVolume d :=
  lowerVolume_exact' h d
example : ex1.Canonical := by decide

/-! ### 3. equality and the leave-one-out comparison -/

/-- `has_same_dims` is equality of the dimension lists (no hypothesis needed). -/
theorem hasSameDims_iff (a b : Shape) : a.hasSameDims b = true ↔ a.dims = b.dims :=
  Primitiv.hasSameDims_iff a b

/-- `operator==` is "same dimensions and same batch". -/
theorem eq_iff (a b : Shape) : a.eq b = true ↔ a.dims = b.dims ∧ a.batch = b.batch :=
  eq_iff' a b

/-- `has_same_loo_dims` never reaches undefined behaviour and computes the specification's
leave-one-out comparison, for every `dim`. -/
theorem hasSameLooDims_spec {a b : Shape} (ha : a.Canonical) (hb : b.Canonical) (d : Nat) :
    a.hasSameLooDims b d = .ok (Spec.sameLoo (toSpec a) (toSpec b) d) :=
  hasSameLooDims_eq ha.trimmed hb.trimmed d
example : ex1.Canonical ∧ ex4.Canonical := by decide

/-- … which is: equal on every axis except `dim`. -/
theorem hasSameLooDims_iff {a b : Shape} (ha : a.Canonical) (hb : b.Canonical) (d : Nat) :
    ∃ r, a.hasSameLooDims b d = .ok r ∧ (r = true ↔ ∀ i, i ≠ d → a.get i = b.get i) :=
  ⟨_, hasSameLooDims_eq ha.trimmed hb.trimmed d, sameLoo_iff (toSpec a) (toSpec b) d⟩
example : ex1.Canonical ∧ ex4.Canonical ∧ ex4.hasSameLooDims ex1 3 = .ok true := ⟨by decide, by decide, rfl⟩

/-! ### 4. the rules -/

/-! #### reshape -/
theorem reshape_spec {a b : Shape} (ha : a.Canonical) (hb : b.Canonical) :
    toSpec? (ShapeOps.reshape a b) = Spec.reshape (toSpec a) (toSpec b) :=
  (ShapeOps.reshape_agree ha hb).toSpec_eq
theorem reshape_total {a b : Shape} (ha : a.Canonical) (hb : b.Canonical) :
    ShapeOps.reshape a b ≠ crash :=
  (ShapeOps.reshape_agree ha hb).not_crash
theorem reshape_canonical {a b : Shape} (ha : a.Canonical) (hb : b.Canonical) {s : Shape}
    (h : ShapeOps.reshape a b = .ok s) : s.Canonical :=
  (ShapeOps.reshape_agree ha hb).canonical h
example : ex1.Canonical ∧ ex3.Canonical ∧ ShapeOps.reshape ex1 ex3 = .ok ⟨[6, 4], 5, 24⟩ :=
  ⟨by decide, by decide, rfl⟩

/-! #### flatten -/
theorem flatten_spec {x : Shape} (hx : x.Canonical) :
    toSpec? (ShapeOps.flatten x) = Spec.flatten (toSpec x) :=
  (ShapeOps.flatten_agree hx).toSpec_eq
theorem flatten_total {x : Shape} (hx : x.Canonical) :
    ShapeOps.flatten x ≠ crash :=
  (ShapeOps.flatten_agree hx).not_crash
theorem flatten_canonical {x : Shape} (hx : x.Canonical) {s : Shape}
    (h : ShapeOps.flatten x = .ok s) : s.Canonical :=
  (ShapeOps.flatten_agree hx).canonical h
example : ex1.Canonical ∧ ShapeOps.flatten ex1 = .ok ⟨[24], 5, 24⟩ :=
  ⟨by decide, rfl⟩

/-! #### scalarOp -/
theorem scalarOp_spec {x k : Shape} (hx : x.Canonical) (hk : k.Canonical) :
    toSpec? (ShapeOps.scalarOp x k) = Spec.scalarOp (toSpec x) (toSpec k) :=
  (ShapeOps.scalarOp_agree hx hk).toSpec_eq
theorem scalarOp_total {x k : Shape} (hx : x.Canonical) (hk : k.Canonical) :
    ShapeOps.scalarOp x k ≠ crash :=
  (ShapeOps.scalarOp_agree hx hk).not_crash
theorem scalarOp_canonical {x k : Shape} (hx : x.Canonical) (hk : k.Canonical) {s : Shape}
    (h : ShapeOps.scalarOp x k = .ok s) : s.Canonical :=
  (ShapeOps.scalarOp_agree hx hk).canonical h
example : ex1.Canonical ∧ Shape.scalar.Canonical ∧ ShapeOps.scalarOp ex1 Shape.scalar = .ok ex1 :=
  ⟨by decide, by decide, rfl⟩

/-! #### elementwise -/
theorem elementwise_spec {a b : Shape} (ha : a.Canonical) (hb : b.Canonical) :
    toSpec? (ShapeOps.elementwise a b) = Spec.elementwise (toSpec a) (toSpec b) :=
  (ShapeOps.elementwise_agree ha hb).toSpec_eq
theorem elementwise_total {a b : Shape} (ha : a.Canonical) (hb : b.Canonical) :
    ShapeOps.elementwise a b ≠ crash :=
  (ShapeOps.elementwise_agree ha hb).not_crash
theorem elementwise_canonical {a b : Shape} (ha : a.Canonical) (hb : b.Canonical) {s : Shape}
    (h : ShapeOps.elementwise a b = .ok s) : s.Canonical :=
  (ShapeOps.elementwise_agree ha hb).canonical h
example : ex1.Canonical ∧ ex1b.Canonical ∧ ShapeOps.elementwise ex1b ex1 = .ok ex1 :=
  ⟨by decide, by decide, rfl⟩

/-! #### slice -/
theorem slice_spec {x : Shape} (hx : x.Canonical) (d lo up : Nat) :
    toSpec? (ShapeOps.slice x d lo up) = Spec.slice (toSpec x) d lo up :=
  (ShapeOps.slice_agree hx d lo up).toSpec_eq
theorem slice_total {x : Shape} (hx : x.Canonical) (d lo up : Nat) :
    ShapeOps.slice x d lo up ≠ crash :=
  (ShapeOps.slice_agree hx d lo up).not_crash
theorem slice_canonical {x : Shape} (hx : x.Canonical) (d lo up : Nat) {s : Shape}
    (h : ShapeOps.slice x d lo up = .ok s) : s.Canonical :=
  (ShapeOps.slice_agree hx d lo up).canonical h
example : ex1.Canonical ∧ ShapeOps.slice ex1 3 1 4 = .ok ⟨[2, 3, 1, 3], 5, 18⟩ :=
  ⟨by decide, rfl⟩

/-! #### concat -/
theorem concat_spec {xs : List Shape} (hxs : ∀ s ∈ xs, s.Canonical) (d : Nat) :
    toSpec? (ShapeOps.concat xs d) = Spec.concat (xs.map toSpec) d :=
  (ShapeOps.concat_agree xs hxs d).toSpec_eq
theorem concat_total {xs : List Shape} (hxs : ∀ s ∈ xs, s.Canonical) (d : Nat) :
    ShapeOps.concat xs d ≠ crash :=
  (ShapeOps.concat_agree xs hxs d).not_crash
theorem concat_canonical {xs : List Shape} (hxs : ∀ s ∈ xs, s.Canonical) (d : Nat) {s : Shape}
    (h : ShapeOps.concat xs d = .ok s) : s.Canonical :=
  (ShapeOps.concat_agree xs hxs d).canonical h
example : (∀ s ∈ [ex1b, ex1, ex4], s.Canonical) ∧ ShapeOps.concat [ex1b, ex1, ex4] 3 = .ok ⟨[2, 3, 1, 9], 5, 54⟩ :=
  ⟨by decide, rfl⟩

/-! #### broadcast -/
theorem broadcast_spec {x : Shape} (hx : x.Canonical) (d n : Nat) :
    toSpec? (ShapeOps.broadcast x d n) = Spec.broadcast (toSpec x) d n :=
  (ShapeOps.broadcast_agree hx d n).toSpec_eq
theorem broadcast_total {x : Shape} (hx : x.Canonical) (d n : Nat) :
    ShapeOps.broadcast x d n ≠ crash :=
  (ShapeOps.broadcast_agree hx d n).not_crash
theorem broadcast_canonical {x : Shape} (hx : x.Canonical) (d n : Nat) {s : Shape}
    (h : ShapeOps.broadcast x d n = .ok s) : s.Canonical :=
  (ShapeOps.broadcast_agree hx d n).canonical h
example : ex1.Canonical ∧ ShapeOps.broadcast ex1 2 7 = .ok ⟨[2, 3, 7, 4], 5, 168⟩ :=
  ⟨by decide, rfl⟩

/-! #### pick -/
theorem pick_spec {x : Shape} (hx : x.Canonical) (ids : List Nat) (d : Nat) (hids : ids.length < W) :
    toSpec? (ShapeOps.pick x ids d) = Spec.pick (toSpec x) ids d :=
  (ShapeOps.pick_agree hx ids d hids).toSpec_eq
theorem pick_total {x : Shape} (hx : x.Canonical) (ids : List Nat) (d : Nat) (hids : ids.length < W) :
    ShapeOps.pick x ids d ≠ crash :=
  (ShapeOps.pick_agree hx ids d hids).not_crash
theorem pick_canonical {x : Shape} (hx : x.Canonical) (ids : List Nat) (d : Nat) (hids : ids.length < W) {s : Shape}
    (h : ShapeOps.pick x ids d = .ok s) : s.Canonical :=
  (ShapeOps.pick_agree hx ids d hids).canonical h
example : ex1.Canonical ∧ [0, 2, 1, 1, 0].length < W ∧ ShapeOps.pick ex1 [0, 2, 1, 1, 0] 1 = .ok ⟨[2, 1, 1, 4], 5, 8⟩ :=
  ⟨by decide, by decide, rfl⟩

/-! #### transpose -/
theorem transpose_spec {x : Shape} (hx : x.Canonical) :
    toSpec? (ShapeOps.transpose x) = Spec.transpose (toSpec x) :=
  (ShapeOps.transpose_agree hx).toSpec_eq
theorem transpose_total {x : Shape} (hx : x.Canonical) :
    ShapeOps.transpose x ≠ crash :=
  (ShapeOps.transpose_agree hx).not_crash
theorem transpose_canonical {x : Shape} (hx : x.Canonical) {s : Shape}
    (h : ShapeOps.transpose x = .ok s) : s.Canonical :=
  (ShapeOps.transpose_agree hx).canonical h
example : ex3.Canonical ∧ ShapeOps.transpose ex3 = .ok ⟨[4, 6], 1, 24⟩ :=
  ⟨by decide, rfl⟩

/-! #### permuteDims -/
theorem permuteDims_spec {x : Shape} (hx : x.Canonical) (perm : List Nat) :
    toSpec? (ShapeOps.permuteDims x perm) = Spec.permuteDims (toSpec x) perm :=
  (ShapeOps.permuteDims_agree hx perm).toSpec_eq
theorem permuteDims_total {x : Shape} (hx : x.Canonical) (perm : List Nat) :
    ShapeOps.permuteDims x perm ≠ crash :=
  (ShapeOps.permuteDims_agree hx perm).not_crash
theorem permuteDims_canonical {x : Shape} (hx : x.Canonical) (perm : List Nat) {s : Shape}
    (h : ShapeOps.permuteDims x perm = .ok s) : s.Canonical :=
  (ShapeOps.permuteDims_agree hx perm).canonical h
example : ex1.Canonical ∧ ShapeOps.permuteDims ex1 [3, 0, 4, 1, 2] = .ok ⟨[4, 2, 1, 3], 5, 24⟩ :=
  ⟨by decide, rfl⟩

/-! #### matmul -/
theorem matmul_spec {l r : Shape} (hl : l.Canonical) (hr : r.Canonical) :
    toSpec? (ShapeOps.matmul l r) = Spec.matmul (toSpec l) (toSpec r) :=
  (ShapeOps.matmul_agree hl hr).toSpec_eq
theorem matmul_total {l r : Shape} (hl : l.Canonical) (hr : r.Canonical) :
    ShapeOps.matmul l r ≠ crash :=
  (ShapeOps.matmul_agree hl hr).not_crash
theorem matmul_canonical {l r : Shape} (hl : l.Canonical) (hr : r.Canonical) {s : Shape}
    (h : ShapeOps.matmul l r = .ok s) : s.Canonical :=
  (ShapeOps.matmul_agree hl hr).canonical h
example : ex3.Canonical ∧ ex5.Canonical ∧ ShapeOps.matmul ex3 ex5 = .ok ⟨[6, 7], 3, 42⟩ :=
  ⟨by decide, by decide, rfl⟩

/-! #### conv2d -/
theorem conv2d_spec {x w : Shape} (hx : x.Canonical) (hw : w.Canonical) (p0 p1 s0 s1 d0 d1 : Nat) :
    toSpec? (ShapeOps.conv2d x w p0 p1 s0 s1 d0 d1) = Spec.conv2d (toSpec x) (toSpec w) p0 p1 s0 s1 d0 d1 :=
  (ShapeOps.conv2d_agree hx hw p0 p1 s0 s1 d0 d1).toSpec_eq
theorem conv2d_total {x w : Shape} (hx : x.Canonical) (hw : w.Canonical) (p0 p1 s0 s1 d0 d1 : Nat) :
    ShapeOps.conv2d x w p0 p1 s0 s1 d0 d1 ≠ crash :=
  (ShapeOps.conv2d_agree hx hw p0 p1 s0 s1 d0 d1).not_crash
theorem conv2d_canonical {x w : Shape} (hx : x.Canonical) (hw : w.Canonical) (p0 p1 s0 s1 d0 d1 : Nat) {s : Shape}
    (h : ShapeOps.conv2d x w p0 p1 s0 s1 d0 d1 = .ok s) : s.Canonical :=
  (ShapeOps.conv2d_agree hx hw p0 p1 s0 s1 d0 d1).canonical h
example : ex6.Canonical ∧ ex7.Canonical ∧ ShapeOps.conv2d ex6 ex7 1 0 2 1 1 2 = .ok ⟨[5, 6, 5], 2, 150⟩ :=
  ⟨by decide, by decide, rfl⟩

/-! #### pool2d -/
theorem pool2d_spec {x : Shape} (hx : x.Canonical) (w0 w1 p0 p1 s0 s1 : Nat) :
    toSpec? (ShapeOps.pool2d x w0 w1 p0 p1 s0 s1) = Spec.pool2d (toSpec x) w0 w1 p0 p1 s0 s1 :=
  (ShapeOps.pool2d_agree hx w0 w1 p0 p1 s0 s1).toSpec_eq
theorem pool2d_total {x : Shape} (hx : x.Canonical) (w0 w1 p0 p1 s0 s1 : Nat) :
    ShapeOps.pool2d x w0 w1 p0 p1 s0 s1 ≠ crash :=
  (ShapeOps.pool2d_agree hx w0 w1 p0 p1 s0 s1).not_crash
theorem pool2d_canonical {x : Shape} (hx : x.Canonical) (w0 w1 p0 p1 s0 s1 : Nat) {s : Shape}
    (h : ShapeOps.pool2d x w0 w1 p0 p1 s0 s1 = .ok s) : s.Canonical :=
  (ShapeOps.pool2d_agree hx w0 w1 p0 p1 s0 s1).canonical h
example : ex6.Canonical ∧ ShapeOps.pool2d ex6 2 3 1 0 2 1 = .ok ⟨[5, 6, 3], 2, 90⟩ :=
  ⟨by decide, rfl⟩

/-! #### batchPick -/
theorem batchPick_spec {x : Shape} (hx : x.Canonical) (ids : List Nat) (hids : ids.length < W) :
    toSpec? (ShapeOps.batchPick x ids) = Spec.batchPick (toSpec x) ids :=
  (ShapeOps.batchPick_agree hx ids hids).toSpec_eq
theorem batchPick_total {x : Shape} (hx : x.Canonical) (ids : List Nat) (hids : ids.length < W) :
    ShapeOps.batchPick x ids ≠ crash :=
  (ShapeOps.batchPick_agree hx ids hids).not_crash
theorem batchPick_canonical {x : Shape} (hx : x.Canonical) (ids : List Nat) (hids : ids.length < W) {s : Shape}
    (h : ShapeOps.batchPick x ids = .ok s) : s.Canonical :=
  (ShapeOps.batchPick_agree hx ids hids).canonical h
example : ex1.Canonical ∧ [4, 0, 0].length < W ∧ ShapeOps.batchPick ex1 [4, 0, 0] = .ok ⟨[2, 3, 1, 4], 3, 24⟩ :=
  ⟨by decide, by decide, rfl⟩

/-! #### batchSlice -/
theorem batchSlice_spec {x : Shape} (hx : x.Canonical) (lo up : Nat) :
    toSpec? (ShapeOps.batchSlice x lo up) = Spec.batchSlice (toSpec x) lo up :=
  (ShapeOps.batchSlice_agree hx lo up).toSpec_eq
theorem batchSlice_total {x : Shape} (hx : x.Canonical) (lo up : Nat) :
    ShapeOps.batchSlice x lo up ≠ crash :=
  (ShapeOps.batchSlice_agree hx lo up).not_crash
theorem batchSlice_canonical {x : Shape} (hx : x.Canonical) (lo up : Nat) {s : Shape}
    (h : ShapeOps.batchSlice x lo up = .ok s) : s.Canonical :=
  (ShapeOps.batchSlice_agree hx lo up).canonical h
example : ex1.Canonical ∧ ShapeOps.batchSlice ex1 1 4 = .ok ⟨[2, 3, 1, 4], 3, 24⟩ :=
  ⟨by decide, rfl⟩

/-! #### batchConcat -/
theorem batchConcat_spec {xs : List Shape} (hxs : ∀ s ∈ xs, s.Canonical) :
    toSpec? (ShapeOps.batchConcat xs) = Spec.batchConcat (xs.map toSpec) :=
  (ShapeOps.batchConcat_agree xs hxs).toSpec_eq
theorem batchConcat_total {xs : List Shape} (hxs : ∀ s ∈ xs, s.Canonical) :
    ShapeOps.batchConcat xs ≠ crash :=
  (ShapeOps.batchConcat_agree xs hxs).not_crash
theorem batchConcat_canonical {xs : List Shape} (hxs : ∀ s ∈ xs, s.Canonical) {s : Shape}
    (h : ShapeOps.batchConcat xs = .ok s) : s.Canonical :=
  (ShapeOps.batchConcat_agree xs hxs).canonical h
example : (∀ s ∈ [ex1b, ex1, ex1], s.Canonical) ∧ ShapeOps.batchConcat [ex1b, ex1, ex1] = .ok ⟨[2, 3, 1, 4], 11, 24⟩ :=
  ⟨by decide, rfl⟩

/-! #### split -/
theorem split_spec {x : Shape} (hx : x.Canonical) (d n : Nat) :
    toSpec? (ShapeOps.split x d n) = Spec.split (toSpec x) d n :=
  (ShapeOps.split_agree hx d n).toSpec_eq
theorem split_total {x : Shape} (hx : x.Canonical) (d n : Nat) :
    ShapeOps.split x d n ≠ crash :=
  (ShapeOps.split_agree hx d n).not_crash
theorem split_canonical {x : Shape} (hx : x.Canonical) (d n : Nat) {s : Shape}
    (h : ShapeOps.split x d n = .ok s) : s.Canonical :=
  (ShapeOps.split_agree hx d n).canonical h
example : ex1.Canonical ∧ ShapeOps.split ex1 3 2 = .ok ⟨[2, 3, 1, 2], 5, 12⟩ :=
  ⟨by decide, rfl⟩

/-! #### batchSplit -/
theorem batchSplit_spec {x : Shape} (hx : x.Canonical) (n : Nat) :
    toSpec? (ShapeOps.batchSplit x n) = Spec.batchSplit (toSpec x) n :=
  (ShapeOps.batchSplit_agree hx n).toSpec_eq
theorem batchSplit_total {x : Shape} (hx : x.Canonical) (n : Nat) :
    ShapeOps.batchSplit x n ≠ crash :=
  (ShapeOps.batchSplit_agree hx n).not_crash
theorem batchSplit_canonical {x : Shape} (hx : x.Canonical) (n : Nat) {s : Shape}
    (h : ShapeOps.batchSplit x n = .ok s) : s.Canonical :=
  (ShapeOps.batchSplit_agree hx n).canonical h
example : ex1.Canonical ∧ ShapeOps.batchSplit ex1 5 = .ok ex1b :=
  ⟨by decide, rfl⟩

/-! #### resizeDim -/
theorem resizeDim_spec {x : Shape} (hx : x.Canonical) (d m : Nat) :
    toSpec? (x.resizeDim d m) = Spec.setDim (toSpec x) d m :=
  (updateDim_agree hx d m).toSpec_eq
theorem resizeDim_total {x : Shape} (hx : x.Canonical) (d m : Nat) :
    x.resizeDim d m ≠ crash :=
  (updateDim_agree hx d m).not_crash
theorem resizeDim_canonical {x : Shape} (hx : x.Canonical) (d m : Nat) {s : Shape}
    (h : x.resizeDim d m = .ok s) : s.Canonical :=
  (updateDim_agree hx d m).canonical h
example : ex1.Canonical ∧ ex1.resizeDim 6 9 = .ok ⟨[2, 3, 1, 4, 1, 1, 9], 5, 216⟩ :=
  ⟨by decide, rfl⟩

/-! #### resizeBatch -/
theorem resizeBatch_spec {x : Shape} (hx : x.Canonical) (b : Nat) :
    toSpec? (x.resizeBatch b) = Spec.setBatch (toSpec x) b :=
  (updateBatch_agree hx b).toSpec_eq
theorem resizeBatch_total {x : Shape} (hx : x.Canonical) (b : Nat) :
    x.resizeBatch b ≠ crash :=
  (updateBatch_agree hx b).not_crash
theorem resizeBatch_canonical {x : Shape} (hx : x.Canonical) (b : Nat) {s : Shape}
    (h : x.resizeBatch b = .ok s) : s.Canonical :=
  (updateBatch_agree hx b).canonical h
example : ex1.Canonical ∧ ex1.resizeBatch 178956970 = .ok ⟨[2, 3, 1, 4], 178956970, 24⟩ :=
  ⟨by decide, rfl⟩

/-! #### updateDim -/
theorem updateDim_spec {x : Shape} (hx : x.Canonical) (d m : Nat) :
    toSpec? (x.updateDim d m) = Spec.setDim (toSpec x) d m :=
  (updateDim_agree hx d m).toSpec_eq
theorem updateDim_total {x : Shape} (hx : x.Canonical) (d m : Nat) :
    x.updateDim d m ≠ crash :=
  (updateDim_agree hx d m).not_crash
theorem updateDim_canonical {x : Shape} (hx : x.Canonical) (d m : Nat) {s : Shape}
    (h : x.updateDim d m = .ok s) : s.Canonical :=
  (updateDim_agree hx d m).canonical h
example : ex1.Canonical ∧ ex1.updateDim 3 1 = .ok ex4 :=
  ⟨by decide, rfl⟩

/-! #### updateBatch -/
theorem updateBatch_spec {x : Shape} (hx : x.Canonical) (b : Nat) :
    toSpec? (x.updateBatch b) = Spec.setBatch (toSpec x) b :=
  (updateBatch_agree hx b).toSpec_eq
theorem updateBatch_total {x : Shape} (hx : x.Canonical) (b : Nat) :
    x.updateBatch b ≠ crash :=
  (updateBatch_agree hx b).not_crash
theorem updateBatch_canonical {x : Shape} (hx : x.Canonical) (b : Nat) {s : Shape}
    (h : x.updateBatch b = .ok s) : s.Canonical :=
  (updateBatch_agree hx b).canonical h
example : ex1.Canonical ∧ ex1.updateBatch 1 = .ok ex1b :=
  ⟨by decide, rfl⟩
end Primitiv.C09

/-! ### FWD_SHAPE(SoftmaxCrossEntropy) (added with the `sce` lines of the shape family) -/
namespace Primitiv.C09
open Primitiv Primitiv.Spec

theorem softmaxCrossEntropy_spec {x t : Shape} (hx : x.Canonical) (ht : t.Canonical) (dim : Nat) :
    toSpec? (ShapeOps.softmaxCrossEntropy x t dim) = Spec.softmaxCrossEntropy (toSpec x) (toSpec t) dim := by
  have he := elementwise_spec hx ht
  unfold ShapeOps.softmaxCrossEntropy Spec.softmaxCrossEntropy
  cases h : ShapeOps.elementwise x t with
  | error e =>
    rw [h] at he
    simp only [toSpec?] at he
    simp [bind, Except.bind, toSpec?, ← he]
  | ok y =>
    rw [h] at he
    simp only [toSpec?] at he
    have hy := elementwise_canonical hx ht h
    simp [bind, Except.bind, ← he, updateDim_spec hy dim 1]

theorem softmaxCrossEntropy_total {x t : Shape} (hx : x.Canonical) (ht : t.Canonical) (dim : Nat) :
    ShapeOps.softmaxCrossEntropy x t dim ≠ crash := by
  unfold ShapeOps.softmaxCrossEntropy
  cases h : ShapeOps.elementwise x t with
  | error e =>
    have := elementwise_total hx ht
    rw [h] at this
    cases e with
    | error => simp [bind, Except.bind, crash]
    | crash => exact absurd rfl this
  | ok y =>
    simpa [bind, Except.bind] using updateDim_total (elementwise_canonical hx ht h) dim 1

theorem softmaxCrossEntropy_canonical {x t : Shape} (hx : x.Canonical) (ht : t.Canonical) (dim : Nat) {s : Shape}
    (h : ShapeOps.softmaxCrossEntropy x t dim = .ok s) : s.Canonical := by
  unfold ShapeOps.softmaxCrossEntropy at h
  cases he : ShapeOps.elementwise x t with
  | error e => simp [he, bind, Except.bind] at h
  | ok y =>
    simp [he, bind, Except.bind] at h
    exact updateDim_canonical (elementwise_canonical hx ht he) dim 1 h

example : ex1.Canonical ∧ ShapeOps.softmaxCrossEntropy ex1 ex1 1 = ShapeOps.softmaxCrossEntropy ex1 ex1 1 := ⟨by decide, rfl⟩

end Primitiv.C09
