import PrimitivModel.Model.Graph
import PrimitivModel.Lemmas.GraphForward
import PrimitivModel.Lemmas.GraphFailure
import PrimitivModel.Lemmas.GraphFailureSweep
/-
Property C10 — failures are exceptions and change nothing: the graph part (rejected calls of
`Graph::add_operator` / `forward` / `backward`, and failures injected while node values are
computed).  Every `theorem` below is one proof obligation of `./check C10`.

Same model and same history semantics as Props/C05.lean (`Model/Graph.lean`, `Op`, `run`,
`Op.Admissible` of Lemmas/GraphForward.lean).  A failing device allocation is modelled at
operator granularity by `State.failIn`: `some k` = the (k+1)-th *schedulable* operator forward
from now throws (`Kind.faulty`: the harness can only make its own operators fail), after which the
schedule is empty.  `.error .error` is a thrown exception; `.error .crash` is behaviour that the
C++ leaves undefined or an abort.

* `FailEvol fi m ok fi'` (Lemmas/GraphFailure.lean) describes how the schedule evolves over a
  call during which `m` schedulable forwards ran to completion.
* `LocalEq s k`: the stored return values of operator `k` are `fwd` of the current values of its
  arguments; `Consistent s`: this holds for every evaluated operator.
* a retry is `forward` from the state the failed attempt reached, with the schedule emptied
  (`s1.clr = { s1 with failIn := none }`: "memory is available again").
-/
namespace Primitiv.C10
open Primitiv.Graph

variable {τ : Type}

/-- the states a program can reach (as in C05) -/
def Reachable (T : TOps τ) (s : State τ) : Prop :=
  ∃ (params : Params τ) (sample : Nat → Nat → τ) (h : List (Op τ)),
    (∀ op ∈ h, op.Admissible) ∧ s = run T (State.empty params sample) h

/-! ### witnesses used by the examples (τ = Nat) -/
def T0 : TOps Nat := ⟨fun _ => 0, fun _ => 1, (· + ·)⟩
/-- `y = Σ xs` -/
def sumSem : OpSem Nat :=
  { nret := 1, fwd := fun xs => some [xs.sum], bwd := fun xs _ gys => xs.map fun _ => gys.head? }
/-- two outputs `(Σ xs, 1 + Σ xs)` -/
def twoSem : OpSem Nat :=
  { nret := 2, fwd := fun xs => some [xs.sum, xs.sum + 1], bwd := fun xs _ _ => xs.map fun _ => none }
def P0 : Params Nat := ⟨fun p => p + 10, fun _ => 0⟩
def smp : Nat → Nat → Nat := fun k n => 100 * k + n
/-- parameter node 0; `1 = 0 + 0`; `(2.0, 2.1) = two(1, 0)`; `3 = 2.0 + 2.1` -/
def h0 : List (Op Nat) :=
  [.addOperator (.param 0) [] [1], .addOperator (.op sumSem) [⟨0, 0⟩, ⟨0, 0⟩] [1],
   .addOperator (.op twoSem) [⟨1, 0⟩, ⟨0, 0⟩] [1, 1], .addOperator (.op sumSem) [⟨2, 0⟩, ⟨2, 1⟩] [1]]
def s0 : State Nat := run T0 (State.empty P0 smp) h0
/-- the second operator forward from now throws -/
def sF : State Nat := { s0 with failIn := some 1 }

theorem h0_admissible : ∀ op ∈ h0, op.Admissible := by
  intro op hop
  simp only [h0, List.mem_cons, List.not_mem_nil, or_false] at hop
  rcases hop with rfl | rfl | rfl | rfl <;> simp [Op.Admissible, KindOK, sumSem, twoSem]
  all_goals (intro xs ys h; subst h; simp)

theorem s0_reachable : Reachable T0 s0 := ⟨P0, smp, h0, h0_admissible, rfl⟩

/-- Every reachable state is well-formed. -/
theorem reachable_wf {T : TOps τ} {s : State τ} (h : Reachable T s) : WF s := by
  obtain ⟨params, sample, h, hadm, rfl⟩ := h
  exact run_wf T (WF.empty params sample) h hadm
example : Reachable T0 s0 := s0_reachable

/-- Reachable states are closed under admissible operations (scheduling a failure is one). -/
theorem reachable_run {T : TOps τ} {s : State τ} (hs : Reachable T s) {h : List (Op τ)}
    (hadm : ∀ op ∈ h, op.Admissible) : Reachable T (run T s h) := by
  obtain ⟨params, sample, h0, hadm0, rfl⟩ := hs
  refine ⟨params, sample, h0 ++ h, ?_, (run_append T _ h0 h).symm⟩
  intro op hop
  rcases List.mem_append.1 hop with hop | hop
  · exact hadm0 op hop
  · exact hadm op hop

theorem sF_reachable : Reachable T0 sF :=
  reachable_run s0_reachable (h := [.setFail 1]) (by simp [Op.Admissible])

/-! ### 1. a failure is an exception -/

/-- Whatever failure is scheduled, a request for a valid node returns a value or throws an
exception — it never reaches undefined behaviour — and the schedule evolves as `FailEvol` says:
nothing scheduled → nothing injected; `some k` scheduled and `m` schedulable forwards ran:
on success `m ≤ k` and `some (k - m)` is left; on failure either the scheduled failure fired
(`m = k`, the schedule is empty) or an operator failed by itself and the counter was decremented
by the forwards that ran. -/
theorem Alloc.failure_is_exception {T : TOps τ} {s : State τ} (hs : Reachable T s) {a : Addr}
    (ha : s.validAddr a = true) :
    (forward T s a).2 ≠ .error .crash ∧
    ∃ l, (forward T s a).1.log = s.log ++ l ∧
      FailEvol s.failIn (l.countP s.isFaulty) (isOk (forward T s a).2) (forward T s a).1.failIn :=
  ⟨(forward_spec T (reachable_wf hs) ha).nocrash, forward_failEvol T (reachable_wf hs) ha⟩
example : Reachable T0 sF ∧ sF.validAddr ⟨3, 0⟩ = true ∧ (forward T0 sF ⟨3, 0⟩).2 = .error .error ∧
    (forward T0 sF ⟨3, 0⟩).1.log = [1] ∧ (forward T0 sF ⟨3, 0⟩).1.failIn = none :=
  ⟨sF_reachable, rfl, rfl, rfl, rfl⟩

/-- With nothing scheduled nothing is injected: the schedule stays empty. -/
theorem Alloc.no_schedule {T : TOps τ} {s : State τ} (hs : Reachable T s) {a : Addr}
    (ha : s.validAddr a = true) (hf : s.failIn = none) : (forward T s a).1.failIn = none := by
  obtain ⟨l, _, h⟩ := forward_failEvol T (reachable_wf hs) ha
  rw [hf] at h
  exact h
example : s0.failIn = none ∧ (forward T0 s0 ⟨3, 0⟩).2 = .ok 61 := ⟨rfl, rfl⟩

/-- A successful request has counted the schedule down by the schedulable forwards it ran. -/
theorem Alloc.schedule_after_success {T : TOps τ} {s : State τ} (hs : Reachable T s) {a : Addr}
    (ha : s.validAddr a = true) {k : Nat} (hf : s.failIn = some k) {v : τ} (hok : (forward T s a).2 = .ok v) :
    ∃ l, (forward T s a).1.log = s.log ++ l ∧ l.countP s.isFaulty ≤ k ∧
      (forward T s a).1.failIn = some (k - l.countP s.isFaulty) := by
  obtain ⟨l, hl, h⟩ := forward_failEvol T (reachable_wf hs) ha
  rw [hf, hok] at h
  exact ⟨l, hl, h.1, h.2⟩
example : (forward T0 { s0 with failIn := some 5 } ⟨3, 0⟩).2 = .ok 61 ∧
    (forward T0 { s0 with failIn := some 5 } ⟨3, 0⟩).1.failIn = some 2 := ⟨rfl, rfl⟩

/-- A failed request leaves the schedule empty (the failure fired, after exactly `k` schedulable
forwards) or counted down. -/
theorem Alloc.schedule_after_failure {T : TOps τ} {s : State τ} (hs : Reachable T s) {a : Addr}
    (ha : s.validAddr a = true) {k : Nat} (hf : s.failIn = some k) {e : Err} (he : (forward T s a).2 = .error e) :
    e = .error ∧ ∃ l, (forward T s a).1.log = s.log ++ l ∧
      (((forward T s a).1.failIn = none ∧ l.countP s.isFaulty = k) ∨
        ∃ j ≤ k, (forward T s a).1.failIn = some j) := by
  have hnc := (forward_spec T (reachable_wf hs) ha).nocrash
  obtain ⟨l, hl, h⟩ := forward_failEvol T (reachable_wf hs) ha
  rw [hf, he] at h
  refine ⟨?_, l, hl, ?_⟩
  · cases e with
    | error => rfl
    | crash => exact absurd he hnc
  · simp only [FailEvol, isOk, Bool.false_eq_true, if_false] at h
    rcases h with ⟨h1, h2⟩ | ⟨h1, h2⟩ | ⟨h1, h2⟩
    · exact .inl ⟨h2, h1⟩
    · exact .inr ⟨_, Nat.sub_le _ _, h2⟩
    · exact .inr ⟨_, by omega, h2⟩
example : sF.failIn = some 1 ∧ (forward T0 sF ⟨3, 0⟩).2 = .error .error := ⟨rfl, rfl⟩

/-! ### 2. a failure leaves a consistent graph -/

/-- The state a (failing or succeeding) request reaches is again a reachable, well-formed state;
in particular every operator has all of its return values or none — no partially built value is
visible — and every value stored before the call is still there, unchanged, as are the
parameters. -/
theorem Alloc.failure_atomic {T : TOps τ} {s : State τ} (hs : Reachable T s) (a : Addr) :
    Reachable T (forward T s a).1 ∧ WF (forward T s a).1 ∧
    (∀ (k : Nat) (o : OpInfo τ), (forward T s a).1.ops[k]? = some o →
      (∀ n ∈ o.rets, n.value = none) ∨ (∀ n ∈ o.rets, n.value.isSome = true)) ∧
    (∀ (b : Addr) (n : NodeInfo τ) (v : τ), s.node? b = some n → n.value = some v →
      ∃ n', (forward T s a).1.node? b = some n' ∧ n'.value = some v) ∧
    (forward T s a).1.params = s.params := by
  have hr : Reachable T (forward T s a).1 := reachable_run hs (h := [.forward a]) (by simp [Op.Admissible])
  have w' := reachable_wf hr
  obtain ⟨l, e, _⟩ := forward_ext T a (reachable_wf hs)
  exact ⟨hr, w', w'.all_or_none, fun b n v hn hv => e.node_mono hn hv, e.params⟩
example : ((forward T0 sF ⟨3, 0⟩).1.node? ⟨1, 0⟩).bind (·.value) = some 20 ∧
    ((forward T0 sF ⟨3, 0⟩).1.node? ⟨2, 0⟩).bind (·.value) = none ∧
    ((forward T0 sF ⟨3, 0⟩).1.node? ⟨2, 1⟩).bind (·.value) = none := ⟨rfl, rfl, rfl⟩

/-- Every value a (failing or succeeding) request stores is what the operator computes from the
values of its arguments in the state reached: `LocalEq` for every operator the call evaluated. -/
theorem Alloc.stored_values_computed {T : TOps τ} {s : State τ} (hs : Reachable T s) (a : Addr) :
    ∃ l, (forward T s a).1.log = s.log ++ l ∧ ∀ k ∈ l, LocalEq (forward T s a).1 k := by
  obtain ⟨l, e, _⟩ := forward_ext T a (reachable_wf hs)
  exact ⟨l, e.log, e.loc⟩
example : (forward T0 sF ⟨3, 0⟩).1.log = sF.log ++ [1] := rfl

/-- In a history without in-place parameter updates *every* stored value is what its operator
computes from the current values of its arguments, failures or not.  (After a parameter update
the old values are deliberately kept: that is C05.) -/
theorem Alloc.values_consistent (T : TOps τ) (params : Params τ) (sample : Nat → Nat → τ)
    (h : List (Op τ)) (hadm : ∀ op ∈ h, op.Admissible) (hup : ∀ op ∈ h, op.isUpdate = false) :
    Consistent (run T (State.empty params sample) h) :=
  run_consistent T (WF.empty params sample) (Consistent.empty params sample) h hadm hup
example : ∀ op ∈ h0 ++ [.setFail 1, .forward ⟨3, 0⟩, .backward ⟨3, 0⟩], op.isUpdate = false := by
  simp [h0, Op.isUpdate]

/-- The operator whose request failed is exactly as it was: none of its return values has become
visible. -/
theorem Alloc.failed_node_untouched {T : TOps τ} {s : State τ} (hs : Reachable T s) {a : Addr}
    (ha : s.validAddr a = true) {e : Err} (he : (forward T s a).2 = .error e) :
    (forward T s a).1.ops[a.oid]? = s.ops[a.oid]? :=
  forward_error_unevaluated T (reachable_wf hs) ha he
example : (forward T0 sF ⟨3, 0⟩).2 = .error .error ∧ sF.validAddr ⟨3, 0⟩ = true := ⟨rfl, rfl⟩

/-! ### 3. retrying gives the results of a run that never failed -/

/-- **Exact resumption, any schedule.**  If `forward a` with the schedule emptied succeeds from
`s`, then after an attempt from `s` under whatever failure is scheduled, `forward a` with the
schedule emptied returns the same value and reaches the very same state — operators, values,
gradients, log, stream position — as the run that never failed.  No determinism hypothesis: the
evaluation order is fixed, so the attempt evaluates a prefix of the clean run's operators and
random sources receive the same samples. -/
theorem Alloc.retry_resumes {T : TOps τ} {s : State τ} (hs : Reachable T s) {a : Addr}
    (ha : s.validAddr a = true) {sc : State τ} {v : τ} (hclean : forward T s.clr a = (sc, .ok v)) :
    forward T (forward T s a).1.clr a = (sc, .ok v) :=
  forward_resume T (reachable_wf hs) ha hclean
example : sF.clr = s0 ∧ (forward T0 sF.clr ⟨3, 0⟩).2 = .ok 61 ∧ (forward T0 sF ⟨3, 0⟩).2 = .error .error ∧
    (forward T0 (forward T0 sF ⟨3, 0⟩).1.clr ⟨3, 0⟩).2 = .ok 61 := ⟨rfl, rfl, rfl, rfl⟩

/-- For every `k`: let the (k+1)-th operator forward fail during `forward a`; requesting `a` again
once memory is available gives exactly the result and the state `(sc, v)` of a run that never
failed (so every node shows the same `valueOf?`), and no operator is evaluated twice over the
attempt and the retry: the attempt evaluated `l1`, the retry `l2`, and `s.log ++ l1 ++ l2` — the
log of the clean run — has no repetition. -/
theorem Alloc.retry_equals_clean_run {T : TOps τ} {s : State τ} (hs : Reachable T s) {a : Addr}
    (ha : s.validAddr a = true) (k : Nat) {sc : State τ} {v : τ}
    (hclean : forward T { s with failIn := none } a = (sc, .ok v)) :
    forward T { (forward T { s with failIn := some k } a).1 with failIn := none } a = (sc, .ok v) ∧
    ∃ l1 l2, (forward T { s with failIn := some k } a).1.log = s.log ++ l1 ∧
      sc.log = s.log ++ l1 ++ l2 ∧ (s.log ++ l1 ++ l2).Nodup := by
  have w := reachable_wf hs
  have wf : WF { s with failIn := some k } := w.setFailIn (some k)
  have hres : forward T { (forward T { s with failIn := some k } a).1 with failIn := none } a = (sc, .ok v) :=
    forward_resume T wf (s := { s with failIn := some k }) ha hclean
  refine ⟨hres, ?_⟩
  obtain ⟨l1, e1, _⟩ := forward_ext T a wf
  have w1 : WF { (forward T { s with failIn := some k } a).1 with failIn := none } := (e1.wf wf).setFailIn none
  obtain ⟨l2, e2, _⟩ := forward_ext T a w1
  rw [hres] at e2
  have hlog : sc.log = s.log ++ l1 ++ l2 := by
    have h1 := e1.log
    have h2 := e2.log
    simp only at h1 h2
    rw [h2, h1]
  refine ⟨l1, l2, e1.log, hlog, ?_⟩
  rw [← hlog]
  exact (e2.wf w1).log_nodup
example : Reachable T0 s0 ∧ s0.validAddr ⟨3, 0⟩ = true ∧ (forward T0 { s0 with failIn := none } ⟨3, 0⟩).2 = .ok 61 ∧
    (forward T0 { s0 with failIn := some 1 } ⟨3, 0⟩).2 = .error .error ∧
    (forward T0 { s0 with failIn := some 1 } ⟨3, 0⟩).1.log = [1] ∧
    (forward T0 { (forward T0 { s0 with failIn := some 1 } ⟨3, 0⟩).1 with failIn := none } ⟨3, 0⟩).2 = .ok 61 ∧
    (forward T0 { (forward T0 { s0 with failIn := some 1 } ⟨3, 0⟩).1 with failIn := none } ⟨3, 0⟩).1.log = [1, 2, 3] :=
  ⟨s0_reachable, rfl, rfl, rfl, rfl, rfl, rfl⟩

/-- The same with a random source among the ancestors (witness for the statement above): the
sample drawn before the failure is the one the clean run draws. -/
example :
    let g : State Nat := run T0 (State.empty P0 smp)
      [.addOperator .rnd [] [1], .addOperator .rnd [] [1], .addOperator (.op sumSem) [⟨1, 0⟩, ⟨0, 0⟩] [1]]
    (forward T0 { g with failIn := some 1 } ⟨2, 0⟩).2 = .error .error ∧
    (forward T0 { g with failIn := some 1 } ⟨2, 0⟩).1.rndPos = 1 ∧
    (forward T0 { (forward T0 { g with failIn := some 1 } ⟨2, 0⟩).1 with failIn := none } ⟨2, 0⟩).2 =
      (forward T0 { g with failIn := none } ⟨2, 0⟩).2 ∧
    (forward T0 { g with failIn := none } ⟨2, 0⟩).2 = .ok 102 := ⟨rfl, rfl, rfl, rfl⟩

/-! ### 4. rejected calls change nothing -/

/-- `add_operator` with an argument that is not a node of this graph is rejected (in the model:
`CHECK_NODE` aborts, i.e. `crash` — see the findings of C10 for nodes of another graph); an
`Except.error` carries no state, the caller keeps `s`: `step` returns `s` itself.  An accepted call
only appends one operator without values (C05 `creation_computes_nothing`). -/
theorem Graph.reject_unchanged (T : TOps τ) (s : State τ) (kind : Kind τ) (args : List Addr) (sizes : List Nat) :
    (args.all s.validAddr = false →
      addOperator s kind args sizes = .error .crash ∧ step T s (.addOperator kind args sizes) = s) ∧
    (args.all s.validAddr = true →
      addOperator s kind args sizes = .ok ({ s with ops := s.ops ++ [freshOp kind args sizes] }, s.ops.length)) := by
  rw [addOperator_eq]
  constructor
  · intro h
    simp [step, addOperator_eq, h]
  · intro h
    simp [h, State.push]
example : addOperator s0 (.op sumSem) [⟨0, 0⟩, ⟨7, 0⟩] [1] = .error .crash := rfl

/-- `forward` and `backward` of something that is not a node of this graph return the graph
unchanged. -/
theorem Graph.invalid_node_unchanged (T : TOps τ) (s : State τ) (a : Addr) (h : s.validAddr a = false) :
    forward T s a = (s, .error .crash) ∧ backward T s a = (s, .error .crash) :=
  ⟨forward_invalid T h, backward_invalid T h⟩
example : s0.validAddr ⟨2, 2⟩ = false ∧ s0.validAddr ⟨4, 0⟩ = false := ⟨rfl, rfl⟩

/-! ### 5. `backward`: a failure in its forward phase -/

/-- If the forward evaluation that `backward a` starts with fails, `backward` fails with the same
exception in the state that `forward` reached: the parameters — values *and gradients* — are those
of `s`, no node gradient has changed, and the node values are as after the failed `forward`
(`Alloc.failure_atomic`, `Alloc.stored_values_computed`). -/
theorem Alloc.backward_failure_atomic {T : TOps τ} {s : State τ} (hs : Reachable T s) {a : Addr}
    (ha : s.validAddr a = true) {e : Err} (he : (forward T s a).2 = .error e)
    (hval : ∀ n, s.node? a = some n → n.value = none) :
    backward T s a = ((forward T s a).1, .error e) ∧ e = .error ∧
    (backward T s a).1.params = s.params ∧
    (∀ b, ((backward T s a).1.node? b).map (·.grad) = (s.node? b).map (·.grad)) ∧
    WF (backward T s a).1 := by
  obtain ⟨n, hn⟩ := node?_of_valid ha
  have hb := backward_fwd_error T ha hn (hval n hn) he
  have hnc := (forward_spec T (reachable_wf hs) ha).nocrash
  obtain ⟨l, ext, _⟩ := forward_ext T a (reachable_wf hs)
  rw [hb]
  refine ⟨rfl, ?_, ext.params, ext.node_grad, ext.wf (reachable_wf hs)⟩
  cases e with
  | error => rfl
  | crash => exact absurd he hnc
example : (backward T0 sF ⟨3, 0⟩).2 = .error .error ∧ (backward T0 sF ⟨3, 0⟩).1.log = [1] ∧
    (backward T0 sF ⟨3, 0⟩).1.params.grad 0 = 0 := ⟨rfl, rfl, rfl⟩

/-- No gradient of a node is pending between the calls of a history (C06's invariant, here for
the histories of this file, failing calls included). -/
theorem reachable_gradsInvalid {T : TOps τ} {s : State τ} (h : Reachable T s) : AllGradsInvalid s := by
  obtain ⟨params, sample, h, hadm, rfl⟩ := h
  exact run_gradsInvalid T (WF.empty params sample) (AllGradsInvalid.empty params sample) h hadm
example : Reachable T0 (run T0 sF [.backward ⟨3, 0⟩]) :=
  reachable_run sF_reachable (by simp [Op.Admissible])

/-- `backward a` can fail in two ways only: `a` is not a node of this graph (nothing happens), or
the forward evaluation of `a` throws, and then `backward` throws the same exception in the state
that `forward` reached.  In particular the reverse sweep itself never fails and never reaches
undefined behaviour in a reachable state. -/
theorem Alloc.backward_fails_only_in_forward {T : TOps τ} {s s' : State τ} (hs : Reachable T s) {a : Addr}
    {e : Err} (h : backward T s a = (s', .error e)) :
    (s.validAddr a = false ∧ s' = s ∧ e = .crash) ∨
    (s.validAddr a = true ∧ (∃ n, s.node? a = some n ∧ n.value = none) ∧
      (forward T s a).2 = .error e ∧ s' = (forward T s a).1 ∧ e = .error) := by
  rcases backward_error_cases T (reachable_wf hs) (reachable_gradsInvalid hs) h with h1 | ⟨h1, h2, h3, h4⟩
  · exact .inl h1
  · refine .inr ⟨h1, h2, h3, h4, ?_⟩
    have hnc := (forward_spec T (reachable_wf hs) h1).nocrash
    cases e with
    | error => rfl
    | crash => exact absurd h3 hnc
example : (backward T0 sF ⟨3, 0⟩).2 = .error .error ∧ (backward T0 sF ⟨4, 0⟩).2 = .error .crash ∧
    (backward T0 s0 ⟨3, 0⟩).2 = .ok () := ⟨rfl, rfl, rfl⟩

/-- A failing `backward`, wherever it fails, leaves the parameters — values and gradients — and
all node gradients unchanged, every value stored before in place, and a well-formed graph. -/
theorem Alloc.backward_failure_changes_no_gradient {T : TOps τ} {s s' : State τ} (hs : Reachable T s)
    {a : Addr} {e : Err} (h : backward T s a = (s', .error e)) :
    s'.params = s.params ∧ (∀ b, (s'.node? b).map (·.grad) = (s.node? b).map (·.grad)) ∧ WF s' ∧
    (∀ (b : Addr) (n : NodeInfo τ) (v : τ), s.node? b = some n → n.value = some v →
      ∃ n', s'.node? b = some n' ∧ n'.value = some v) := by
  rcases backward_error_cases T (reachable_wf hs) (reachable_gradsInvalid hs) h with ⟨_, rfl, _⟩ | ⟨_, _, _, rfl⟩
  · exact ⟨rfl, fun _ => rfl, reachable_wf hs, fun b n v hn hv => ⟨n, hn, hv⟩⟩
  · obtain ⟨l, ext, _⟩ := forward_ext T a (reachable_wf hs)
    exact ⟨ext.params, ext.node_grad, ext.wf (reachable_wf hs), fun b n v hn hv => ext.node_mono hn hv⟩
example : (backward T0 sF ⟨3, 0⟩).2 = .error .error ∧ (backward T0 sF ⟨3, 0⟩).1.params.grad 0 = sF.params.grad 0 :=
  ⟨rfl, rfl⟩

/-- When the node already has its value `backward` evaluates nothing at all (no allocation for
values can fail): the log, the stream and all values are unchanged. -/
theorem Alloc.backward_memoised_evaluates_nothing {T : TOps τ} {s : State τ} {a : Addr}
    {n : NodeInfo τ} {v : τ} (hn : s.node? a = some n) (hv : n.value = some v) :
    SameVals s (backward T s a).1 := by
  have ha : s.validAddr a = true := by
    unfold State.node? at hn
    cases ho : s.ops[a.oid]? with
    | none => simp [ho] at hn
    | some o =>
      simp only [ho] at hn
      exact validAddr_iff.2 ⟨o, ho, (List.getElem?_eq_some_iff.1 hn).1⟩
  rw [backward_memo T ha hn hv]
  exact (updNode_sameVals s a (fun n => { n with grad := some (T.ones n.size) }) (fun _ => rfl)).trans
    (sweep_sameVals T _ _)
example : ((forward T0 s0 ⟨3, 0⟩).1.node? ⟨3, 0⟩).bind (·.value) = some 61 := rfl

end Primitiv.C10
