import PrimitivModel.Props.C11.Move
/-
C10 — failures are exceptions and change nothing, for the entry points of the
`kernels` family.

* `Guard.<entry>_sound`: for all argument values (shapes well-formed: what the
  library can construct) the modelled entry point never reaches `crash`: a call
  the guard lets through runs a kernel whose every index is in bounds and which
  writes every output element; a call it does not let through is an `error`.
* `Fail.<entry>`: every `error` outcome is produced by the device checks or by
  the shape-level front-end (`Move.Front.<entry>`, a function of the shapes and
  the integer arguments only), i.e. BEFORE the kernel loop (`runSet` / `runAdd`
  / `selectAdd`) is entered: no element of any tensor has been read or written.
  The model is functional, so "gx unchanged" is literal: an `error` outcome
  carries no tensor, and the accumulator the caller holds is the value it
  passed.  (That the C++ performs these checks before the first `*_impl` call is
  `C08.Move.Front.shared_checks`, decided over the generated table.)
-/
namespace Primitiv.C10.Move
open Primitiv Primitiv.Move Primitiv.MoveShape Primitiv.C11.Move

/-! ### guards are sound -/

theorem Guard.pick_fw_sound {α} (x : Tensor α) (hx : WF x.shape) (ids : List Nat) (hlen : ids.length < W) (dim : Nat)
    (raw : Nat → α) : NoCrash (pickFw x ids dim raw) := Api.pick_fw_no_crash x hx ids hlen dim raw
theorem Guard.pick_bw_sound {α} [Add α] (gy gx : Tensor α) (hy : WF gy.shape) (hx : WF gx.shape) (ids : List Nat)
    (hlen : ids.length < W) (dim : Nat) : NoCrash (pickBw gy ids dim gx) := Api.pick_bw_no_crash gy gx hy hx ids hlen dim
theorem Guard.slice_fw_sound {α} (x : Tensor α) (hx : WF x.shape) (dim lower upper : Nat) (raw : Nat → α) :
    NoCrash (sliceFw x dim lower upper raw) := Api.slice_fw_no_crash x hx dim lower upper raw
/-- the repaired guard of `slice_bw` (defect #4): also for offsets near 2^32 -/
theorem Guard.slice_bw_sound {α} [Add α] (gy gx : Tensor α) (hy : WF gy.shape) (hx : WF gx.shape) (dim offset : Nat)
    (hoff : offset < W) : NoCrash (sliceBw gy dim offset gx) := Api.slice_bw_no_crash gy gx hy hx dim offset hoff
theorem Guard.concat_fw_sound {α} (xs : List (Tensor α)) (hxs : ∀ x ∈ xs, WF x.shape) (dim : Nat) (raw : Nat → α) :
    NoCrash (concatFw xs dim raw) := Api.concat_fw_no_crash xs hxs dim raw
theorem Guard.transpose_fw_sound {α} (x : Tensor α) (hx : WF x.shape) (raw : Nat → α) : NoCrash (transposeFw x raw) :=
  Api.transpose_fw_no_crash x hx raw
theorem Guard.transpose_bw_sound {α} [Add α] (x y gy gx : Tensor α) (hx : WF x.shape) (hy : WF y.shape)
    (hgy : WF gy.shape) (hgx : WF gx.shape) (raw : Nat → α) : NoCrash (transposeBw x y gy gx raw) :=
  Api.transpose_bw_no_crash x y gy gx hx hy hgy hgx raw
theorem Guard.permute_dims_fw_sound {α} (x : Tensor α) (hx : WF x.shape) (perm : List Nat) (raw : Nat → α) :
    NoCrash (permuteFw x perm raw) := Api.permute_dims_fw_no_crash x hx perm raw
theorem Guard.permute_dims_bw_sound {α} [Add α] (x y gy gx : Tensor α) (hx : WF x.shape) (hy : WF y.shape)
    (hgy : WF gy.shape) (hgx : WF gx.shape) (perm : List Nat) : NoCrash (permuteBw x y gy perm gx) :=
  Api.permute_dims_bw_no_crash x y gy gx hx hy hgy hgx perm
theorem Guard.flip_fw_sound {α} (x : Tensor α) (hx : WF x.shape) (dim : Nat) (raw : Nat → α) : NoCrash (flipFw x dim raw) :=
  Api.flip_fw_no_crash x hx dim raw
theorem Guard.flip_bw_sound {α} [Add α] (gy gx : Tensor α) (hy : WF gy.shape) (hx : WF gx.shape) (dim : Nat) :
    NoCrash (flipBw gy dim gx) := Api.flip_bw_no_crash gy gx hy hx dim
theorem Guard.sum_fw_sound {α} [Add α] [Zero α] (x : Tensor α) (hx : WF x.shape) (dim : Nat) : NoCrash (sumFw x dim) :=
  Api.sum_fw_no_crash x hx dim
theorem Guard.max_fw_sound {α} [LT α] [DecidableLT α] (x : Tensor α) (hx : WF x.shape) (dim : Nat) : NoCrash (maxFw x dim) :=
  Api.max_fw_no_crash x hx dim
theorem Guard.min_fw_sound {α} [LT α] [DecidableLT α] (x : Tensor α) (hx : WF x.shape) (dim : Nat) : NoCrash (minFw x dim) :=
  Api.min_fw_no_crash x hx dim
theorem Guard.max_bw_sound {α} [Add α] [DecidableEq α] (x y gy gx : Tensor α) (hx : WF x.shape) (hy : WF y.shape)
    (hgy : WF gy.shape) (hgx : WF gx.shape) (dim : Nat) : NoCrash (maxBw x y gy dim gx) :=
  Api.max_bw_no_crash x y gy gx hx hy hgy hgx dim
theorem Guard.min_bw_sound {α} [Add α] [DecidableEq α] (x y gy gx : Tensor α) (hx : WF x.shape) (hy : WF y.shape)
    (hgy : WF gy.shape) (hgx : WF gx.shape) (dim : Nat) : NoCrash (minBw x y gy dim gx) :=
  Api.min_bw_no_crash x y gy gx hx hy hgy hgx dim
theorem Guard.broadcast_fw_sound {α} (x : Tensor α) (hx : WF x.shape) (dim size : Nat) (raw : Nat → α) :
    NoCrash (broadcastFw x dim size raw) := Api.broadcast_fw_no_crash x hx dim size raw
/-- argmax / argmin have no guard and need none -/
theorem Guard.argmax_sound {α} [LT α] [DecidableLT α] (x : Tensor α) (hx : WF x.shape) (dim : Nat) : NoCrash (argmax x dim) :=
  Api.argmax_no_crash x hx dim
theorem Guard.argmin_sound {α} [LT α] [DecidableLT α] (x : Tensor α) (hx : WF x.shape) (dim : Nat) : NoCrash (argmin x dim) :=
  Api.argmin_no_crash x hx dim
theorem Guard.batch_pick_fw_sound {α} (x : Tensor α) (hx : WF x.shape) (ids : List Nat) (hlen : ids.length < W)
    (raw : Nat → α) : NoCrash (batchPickFw x ids raw) := Api.batch_pick_fw_no_crash x hx ids hlen raw
theorem Guard.batch_pick_bw_sound {α} [Add α] (gy gx : Tensor α) (hy : WF gy.shape) (hx : WF gx.shape) (ids : List Nat)
    (hlen : ids.length < W) : NoCrash (batchPickBw gy ids gx) := Api.batch_pick_bw_no_crash gy gx hy hx ids hlen
theorem Guard.batch_slice_fw_sound {α} (x : Tensor α) (hx : WF x.shape) (lower upper : Nat) (raw : Nat → α) :
    NoCrash (batchSliceFw x lower upper raw) := Api.batch_slice_fw_no_crash x hx lower upper raw
/-- the repaired guard of `batch_slice_bw` (defect #4) -/
theorem Guard.batch_slice_bw_sound {α} [Add α] (gy gx : Tensor α) (hy : WF gy.shape) (hx : WF gx.shape) (offset : Nat)
    (hoff : offset < W) : NoCrash (batchSliceBw gy offset gx) := Api.batch_slice_bw_no_crash gy gx hy hx offset hoff
theorem Guard.batch_concat_fw_sound {α} (xs : List (Tensor α)) (hxs : ∀ x ∈ xs, WF x.shape) (raw : Nat → α) :
    NoCrash (batchConcatFw xs raw) := Api.batch_concat_fw_no_crash xs hxs raw
theorem Guard.batch_sum_fw_sound {α} [Add α] [Zero α] (x : Tensor α) (hx : WF x.shape) : NoCrash (batchSumFw x) :=
  Api.batch_sum_fw_no_crash x hx
theorem Guard.copy_sound {α} (x : Tensor α) (raw : Nat → α) : NoCrash (copyTensor x raw) := Api.copy_no_crash x raw
theorem Guard.identity_sound {α} (zero one : α) (size : Nat) : NoCrash (Move.identity zero one size) :=
  Api.identity_no_crash zero one size

/-- On the pinned tree the guard of `slice_bw` was NOT sound (witness: gy = [2],
gx = [4], offset = 0xffffffff). -/
theorem Guard.slice_bw_pinned_unsound :
    ∃ sy sx dim offset p, WF sy ∧ WF sx ∧ offset < W ∧ Front.sliceBwPinned sy sx dim offset = .ok p ∧
      ¬ p.moves.InBounds sy.size sx.size := Kernel.slice_bw_pinned_guard_unsound

/-! ### every failure precedes the kernel loop -/

theorem checkDevice_error {α} {x : Tensor α} {e : Err} (h : checkDevice x = .error e) : e = .error ∧ x.loc ≠ .here := by
  unfold checkDevice at h
  split at h
  · cases h
  · rename_i hl
    cases h
    exact ⟨rfl, hl⟩

theorem err_of_noCrash {α} {r : R α} {e : Err} (hn : NoCrash r) (h : r = .error e) : e = .error := by
  cases e with
  | error => rfl
  | crash => exact absurd h hn

/-- forward entry points of the form `check; (ys, m) ← front; loop` -/
theorem fw_fail {α} {x : Tensor α} {F : R (Shape × Moves)} {raw : Nat → α} {e : Err}
    (hn : NoCrash (do checkDevice x; let (ys, m) ← F; runSet m x.data x.shape.size ys raw))
    (hok : ∀ ys m, F = .ok (ys, m) → m.InBounds x.shape.size ys.size ∧ m.WritesAll ys.size)
    (h : (do checkDevice x; let (ys, m) ← F; runSet m x.data x.shape.size ys raw) = .error e) :
    e = .error ∧ (x.loc ≠ .here ∨ F = .error .error) := by
  have he := err_of_noCrash hn h
  subst he
  refine ⟨rfl, ?_⟩
  cases hc : checkDevice x with
  | error e' => exact Or.inl (checkDevice_error hc).2
  | ok u =>
    right
    cases hF : F with
    | error e' =>
      simp only [hc, hF, bind, Except.bind] at h
      cases h; rfl
    | ok p =>
      obtain ⟨ys, m⟩ := p
      have ⟨h1, h2⟩ := hok ys m hF
      simp only [hc, hF, bind, Except.bind, runSet_ok h1 h2] at h
      cases h

theorem Fail.slice_fw {α} {x : Tensor α} {dim lower upper : Nat} {raw : Nat → α} {e : Err} (hx : WF x.shape)
    (h : sliceFw x dim lower upper raw = .error e) :
    e = .error ∧ (x.loc ≠ .here ∨ Front.sliceFw x.shape dim lower upper = .error .error) := by
  have hn := Api.slice_fw_no_crash x hx dim lower upper raw
  unfold sliceFw at h hn
  exact fw_fail hn (fun ys m hF => ⟨Kernel.slice_fw_in_bounds hx hF, (Kernel.slice_fw_writes_all hx hF).1⟩) h

theorem Fail.transpose_fw {α} {x : Tensor α} {raw : Nat → α} {e : Err} (hx : WF x.shape)
    (h : transposeFw x raw = .error e) :
    e = .error ∧ (x.loc ≠ .here ∨ Front.transposeFw x.shape = .error .error) := by
  have hn := Api.transpose_fw_no_crash x hx raw
  unfold transposeFw at h hn
  exact fw_fail hn (fun ys m hF => ⟨Kernel.transpose_fw_in_bounds hx hF, (Kernel.transpose_fw_writes_all hx hF).1⟩) h

theorem Fail.permute_dims_fw {α} {x : Tensor α} {perm : List Nat} {raw : Nat → α} {e : Err} (hx : WF x.shape)
    (h : permuteFw x perm raw = .error e) :
    e = .error ∧ (x.loc ≠ .here ∨ Front.permuteFw x.shape perm = .error .error) := by
  have hn := Api.permute_dims_fw_no_crash x hx perm raw
  unfold permuteFw at h hn
  exact fw_fail hn (fun ys m hF => ⟨(Kernel.permute_dims_fw_in_bounds hx hF).1, (Kernel.permute_dims_fw_in_bounds hx hF).2.1⟩) h

theorem Fail.broadcast_fw {α} {x : Tensor α} {dim size : Nat} {raw : Nat → α} {e : Err} (hx : WF x.shape)
    (h : broadcastFw x dim size raw = .error e) :
    e = .error ∧ (x.loc ≠ .here ∨ Front.broadcastFw x.shape dim size = .error .error) := by
  have hn := Api.broadcast_fw_no_crash x hx dim size raw
  unfold broadcastFw at h hn
  exact fw_fail hn (fun ys m hF => ⟨Kernel.broadcast_fw_in_bounds hx hF, (Kernel.broadcast_fw_writes_all hx hF).1⟩) h

theorem Fail.batch_slice_fw {α} {x : Tensor α} {lower upper : Nat} {raw : Nat → α} {e : Err} (hx : WF x.shape)
    (h : batchSliceFw x lower upper raw = .error e) :
    e = .error ∧ (x.loc ≠ .here ∨ Front.batchSliceFw x.shape lower upper = .error .error) := by
  have hn := Api.batch_slice_fw_no_crash x hx lower upper raw
  unfold batchSliceFw at h hn
  exact fw_fail hn (fun ys m hF => ⟨(Kernel.batch_slice_fw_in_bounds hx hF).1, (Kernel.batch_slice_fw_in_bounds hx hF).2.1⟩) h

/-- flip_fw has no shape precondition: the only failure is the device check -/
theorem Fail.flip_fw {α} {x : Tensor α} {dim : Nat} {raw : Nat → α} {e : Err} (hx : WF x.shape)
    (h : flipFw x dim raw = .error e) : e = .error ∧ x.loc ≠ .here := by
  have hn := Api.flip_fw_no_crash x hx dim raw
  unfold flipFw at h hn
  have := fw_fail hn (fun ys m hF => ⟨Kernel.flip_fw_in_bounds hx hF, (Kernel.flip_fw_writes_all hx hF).1⟩) h
  refine ⟨this.1, ?_⟩
  rcases this.2 with hl | hf
  · exact hl
  · cases hf

theorem Fail.pick_fw {α} {x : Tensor α} {ids : List Nat} {dim : Nat} {raw : Nat → α} {e : Err} (hx : WF x.shape)
    (hlen : ids.length < W) (h : pickFw x ids dim raw = .error e) :
    e = .error ∧ (x.loc ≠ .here ∨ Front.pickFw x.shape ids dim = .error .error) := by
  have he := err_of_noCrash (Api.pick_fw_no_crash x hx ids hlen dim raw) h
  subst he
  refine ⟨rfl, ?_⟩
  unfold pickFw at h
  cases hc : checkDevice x with
  | error e' => exact Or.inl (checkDevice_error hc).2
  | ok u =>
    right
    cases hF : Front.pickFw x.shape ids dim with
    | error e' =>
      simp only [hc, hF, bind, Except.bind] at h
      cases h; rfl
    | ok p =>
      obtain ⟨ys, m⟩ := p
      have ⟨hb, hi⟩ := Kernel.pick_fw_in_bounds hx hlen hF
      simp only [hc, hF, bind, Except.bind, hi, Bool.not_true, Bool.false_eq_true, if_false,
        runSet_ok hb (Kernel.pick_fw_writes_all hx hlen hF).1] at h
      cases h

theorem Fail.batch_pick_fw {α} {x : Tensor α} {ids : List Nat} {raw : Nat → α} {e : Err} (hx : WF x.shape)
    (hlen : ids.length < W) (h : batchPickFw x ids raw = .error e) :
    e = .error ∧ (x.loc ≠ .here ∨ Front.batchPickFw x.shape ids = .error .error) := by
  have he := err_of_noCrash (Api.batch_pick_fw_no_crash x hx ids hlen raw) h
  subst he
  refine ⟨rfl, ?_⟩
  unfold batchPickFw at h
  cases hc : checkDevice x with
  | error e' => exact Or.inl (checkDevice_error hc).2
  | ok u =>
    right
    cases hF : Front.batchPickFw x.shape ids with
    | error e' =>
      simp only [hc, hF, bind, Except.bind] at h
      cases h; rfl
    | ok p =>
      obtain ⟨ys, m⟩ := p
      have ⟨hb, hle, hw, _⟩ := Kernel.batch_pick_fw_in_bounds hx hlen hF
      simp only [hc, hF, bind, Except.bind] at h
      rw [if_neg (by omega), runSet_ok hb hw] at h
      cases h

/-- sum_fw, max_fw, min_fw: `dim ≥ 8` (or a device mismatch) is the only failure -/
theorem reduce_fail {α} {x : Tensor α} {dim : Nat} {f : (Nat → α) → (Nat → Nat) → Nat → α} {e : Err} (hx : WF x.shape)
    (h : (do checkDevice x; let (ys, r) ← Front.reduceFw x.shape dim; runReduce r x ys f) = .error e) :
    e = .error ∧ (x.loc ≠ .here ∨ Front.reduceFw x.shape dim = .error .error) := by
  have he := err_of_noCrash (reduce_no_crash x hx dim f) h
  subst he
  refine ⟨rfl, ?_⟩
  cases hc : checkDevice x with
  | error e' => exact Or.inl (checkDevice_error hc).2
  | ok u =>
    right
    cases hF : Front.reduceFw x.shape dim with
    | error e' =>
      simp only [hc, hF, bind, Except.bind] at h
      cases h; rfl
    | ok p =>
      obtain ⟨ys, r⟩ := p
      have ⟨hb, hr, _⟩ := Kernel.reduce_fw_in_bounds hx hF
      simp only [hc, hF, bind, Except.bind, runReduce_ok hb hr] at h
      cases h

theorem Fail.sum_fw {α} [Add α] [Zero α] {x : Tensor α} {dim : Nat} {e : Err} (hx : WF x.shape)
    (h : sumFw x dim = .error e) : e = .error ∧ (x.loc ≠ .here ∨ Front.reduceFw x.shape dim = .error .error) := by
  unfold sumFw at h; exact reduce_fail hx h

theorem Fail.max_fw {α} [LT α] [DecidableLT α] {x : Tensor α} {dim : Nat} {e : Err} (hx : WF x.shape)
    (h : maxFw x dim = .error e) : e = .error ∧ (x.loc ≠ .here ∨ Front.reduceFw x.shape dim = .error .error) := by
  unfold maxFw at h; exact reduce_fail hx h

theorem Fail.min_fw {α} [LT α] [DecidableLT α] {x : Tensor α} {dim : Nat} {e : Err} (hx : WF x.shape)
    (h : minFw x dim = .error e) : e = .error ∧ (x.loc ≠ .here ∨ Front.reduceFw x.shape dim = .error .error) := by
  unfold minFw at h; exact reduce_fail hx h

/-- argmax / argmin fail only on an invalid tensor -/
theorem Fail.argmax_only_device {α} [LT α] [DecidableLT α] {x : Tensor α} {dim : Nat} {e : Err} (hx : WF x.shape)
    (h : Move.argmax x dim = .error e) : e = .error ∧ x.loc ≠ .here := by
  have he := err_of_noCrash (Api.argmax_no_crash x hx dim) h
  subst he
  refine ⟨rfl, ?_⟩
  unfold Move.argmax argList at h
  cases hc : checkDevice x with
  | error e' => exact (checkDevice_error hc).2
  | ok u =>
    simp only [hc, bind, Except.bind, Reduce.inBounds_iff.mpr (Kernel.argmax_in_bounds hx dim).1] at h
    cases h

/-- backward entry points of the form `check gy; check gx; m ← front; loop`:
an `error` means the accumulator was never touched -/
theorem bw_fail {α} [Add α] {gy gx : Tensor α} {F : R Moves} {e : Err}
    (hn : NoCrash (do checkDevice gy; checkDevice gx; let m ← F; runAdd m gy gx))
    (hok : ∀ m, F = .ok m → m.InBounds gy.shape.size gx.shape.size)
    (h : (do checkDevice gy; checkDevice gx; let m ← F; runAdd m gy gx) = .error e) :
    e = .error ∧ (gy.loc ≠ .here ∨ gx.loc ≠ .here ∨ F = .error .error) := by
  have he := err_of_noCrash hn h
  subst he
  refine ⟨rfl, ?_⟩
  cases hc : checkDevice gy with
  | error e' => exact Or.inl (checkDevice_error hc).2
  | ok u =>
    cases hc2 : checkDevice gx with
    | error e' => exact Or.inr (Or.inl (checkDevice_error hc2).2)
    | ok u2 =>
      right; right
      cases hF : F with
      | error e' =>
        simp only [hc, hc2, hF, bind, Except.bind] at h
        cases h; rfl
      | ok m =>
        simp only [hc, hc2, hF, bind, Except.bind, runAdd_ok (hok m hF)] at h
        cases h

theorem Fail.flip_bw {α} [Add α] {gy gx : Tensor α} {dim : Nat} {e : Err} (hy : WF gy.shape) (hx : WF gx.shape)
    (h : flipBw gy dim gx = .error e) :
    e = .error ∧ (gy.loc ≠ .here ∨ gx.loc ≠ .here ∨ Front.flipBw gy.shape gx.shape dim = .error .error) := by
  have hn := Api.flip_bw_no_crash gy gx hy hx dim
  unfold flipBw at h hn
  exact bw_fail hn (fun m hF => Kernel.flip_bw_in_bounds hy hx hF) h

theorem Fail.batch_slice_bw {α} [Add α] {gy gx : Tensor α} {offset : Nat} {e : Err} (hy : WF gy.shape) (hx : WF gx.shape)
    (hoff : offset < W) (h : batchSliceBw gy offset gx = .error e) :
    e = .error ∧ (gy.loc ≠ .here ∨ gx.loc ≠ .here ∨ Front.batchSliceBw gy.shape gx.shape offset = .error .error) := by
  have hn := Api.batch_slice_bw_no_crash gy gx hy hx offset hoff
  unfold batchSliceBw batchSliceBwWith at h hn
  exact bw_fail hn (fun m hF => Kernel.batch_slice_bw_in_bounds hy hx hoff hF) h

theorem Fail.slice_bw {α} [Add α] {gy gx : Tensor α} {dim offset : Nat} {e : Err} (hy : WF gy.shape) (hx : WF gx.shape)
    (hoff : offset < W) (h : sliceBw gy dim offset gx = .error e) :
    e = .error ∧ (gy.loc ≠ .here ∨ gx.loc ≠ .here ∨ Front.sliceBw gy.shape gx.shape dim offset = .error .error) := by
  have he := err_of_noCrash (Api.slice_bw_no_crash gy gx hy hx dim offset hoff) h
  subst he
  refine ⟨rfl, ?_⟩
  unfold sliceBw sliceBwWith at h
  cases hc : checkDevice gy with
  | error e' => exact Or.inl (checkDevice_error hc).2
  | ok u =>
    cases hc2 : checkDevice gx with
    | error e' => exact Or.inr (Or.inl (checkDevice_error hc2).2)
    | ok u2 =>
      right; right
      cases hF : Front.sliceBw gy.shape gx.shape dim offset with
      | error e' =>
        simp only [hc, hc2, hF, bind, Except.bind] at h
        cases h; rfl
      | ok p =>
        simp only [hc, hc2, hF, bind, Except.bind, runAdd_ok (Kernel.slice_bw_in_bounds hy hx hoff hF)] at h
        cases h

theorem Fail.pick_bw {α} [Add α] {gy gx : Tensor α} {ids : List Nat} {dim : Nat} {e : Err} (hy : WF gy.shape)
    (hx : WF gx.shape) (hlen : ids.length < W) (h : pickBw gy ids dim gx = .error e) :
    e = .error ∧ (gy.loc ≠ .here ∨ gx.loc ≠ .here ∨ Front.pickBw gy.shape gx.shape ids dim = .error .error) := by
  have he := err_of_noCrash (Api.pick_bw_no_crash gy gx hy hx ids hlen dim) h
  subst he
  refine ⟨rfl, ?_⟩
  unfold pickBw at h
  cases hc : checkDevice gy with
  | error e' => exact Or.inl (checkDevice_error hc).2
  | ok u =>
    cases hc2 : checkDevice gx with
    | error e' => exact Or.inr (Or.inl (checkDevice_error hc2).2)
    | ok u2 =>
      right; right
      cases hF : Front.pickBw gy.shape gx.shape ids dim with
      | error e' =>
        simp only [hc, hc2, hF, bind, Except.bind] at h
        cases h; rfl
      | ok m =>
        have ⟨hb, hi⟩ := Kernel.pick_bw_in_bounds hy hx hlen hF
        simp only [hc, hc2, hF, bind, Except.bind, hi, Bool.not_true, Bool.false_eq_true, if_false, runAdd_ok hb] at h
        cases h

theorem Fail.batch_pick_bw {α} [Add α] {gy gx : Tensor α} {ids : List Nat} {e : Err} (hy : WF gy.shape)
    (hx : WF gx.shape) (hlen : ids.length < W) (h : batchPickBw gy ids gx = .error e) :
    e = .error ∧ (gy.loc ≠ .here ∨ gx.loc ≠ .here ∨ Front.batchPickBw gy.shape gx.shape ids = .error .error) := by
  have he := err_of_noCrash (Api.batch_pick_bw_no_crash gy gx hy hx ids hlen) h
  subst he
  refine ⟨rfl, ?_⟩
  unfold batchPickBw at h
  cases hc : checkDevice gy with
  | error e' => exact Or.inl (checkDevice_error hc).2
  | ok u =>
    cases hc2 : checkDevice gx with
    | error e' => exact Or.inr (Or.inl (checkDevice_error hc2).2)
    | ok u2 =>
      right; right
      cases hF : Front.batchPickBw gy.shape gx.shape ids with
      | error e' =>
        simp only [hc, hc2, hF, bind, Except.bind] at h
        cases h; rfl
      | ok m =>
        have ⟨hb, hle⟩ := Kernel.batch_pick_bw_in_bounds hy hx hlen hF
        simp only [hc, hc2, hF, bind, Except.bind] at h
        rw [if_neg (by omega), runAdd_ok hb] at h
        cases h

/-- the four-operand backward entry points (x, y, gy, gx): an `error` comes
from one of the four device checks or from the shape condition -/
theorem Fail.permute_dims_bw {α} [Add α] {x y gy gx : Tensor α} {perm : List Nat} {e : Err} (hx : WF x.shape)
    (hy : WF y.shape) (hgy : WF gy.shape) (hgx : WF gx.shape) (h : permuteBw x y gy perm gx = .error e) :
    e = .error ∧ (x.loc ≠ .here ∨ y.loc ≠ .here ∨ gy.loc ≠ .here ∨ gx.loc ≠ .here ∨
      Front.permuteBw x.shape y.shape gy.shape gx.shape perm = .error .error) := by
  have he := err_of_noCrash (Api.permute_dims_bw_no_crash x y gy gx hx hy hgy hgx perm) h
  subst he
  refine ⟨rfl, ?_⟩
  unfold permuteBw at h
  cases hc1 : checkDevice x with
  | error e' => exact Or.inl (checkDevice_error hc1).2
  | ok u1 =>
  cases hc2 : checkDevice y with
  | error e' => exact Or.inr (Or.inl (checkDevice_error hc2).2)
  | ok u2 =>
  cases hc3 : checkDevice gy with
  | error e' => exact Or.inr (Or.inr (Or.inl (checkDevice_error hc3).2))
  | ok u3 =>
  cases hc4 : checkDevice gx with
  | error e' => exact Or.inr (Or.inr (Or.inr (Or.inl (checkDevice_error hc4).2)))
  | ok u4 =>
  right; right; right; right
  cases hF : Front.permuteBw x.shape y.shape gy.shape gx.shape perm with
  | error e' =>
    simp only [hc1, hc2, hc3, hc4, hF, bind, Except.bind] at h
    cases h; rfl
  | ok m =>
    simp only [hc1, hc2, hc3, hc4, hF, bind, Except.bind,
      runAdd_ok (Kernel.permute_dims_bw_in_bounds hx hy hgy hgx hF)] at h
    cases h

theorem Fail.max_bw {α} [Add α] [DecidableEq α] {x y gy gx : Tensor α} {dim : Nat} {e : Err} (hx : WF x.shape)
    (hy : WF y.shape) (hgy : WF gy.shape) (hgx : WF gx.shape) (h : maxBw x y gy dim gx = .error e) :
    e = .error ∧ (x.loc ≠ .here ∨ y.loc ≠ .here ∨ gy.loc ≠ .here ∨ gx.loc ≠ .here ∨
      Front.maxBw x.shape y.shape gy.shape gx.shape dim = .error .error) := by
  have he := err_of_noCrash (Api.max_bw_no_crash x y gy gx hx hy hgy hgx dim) h
  subst he
  refine ⟨rfl, ?_⟩
  unfold maxBw at h
  cases hc1 : checkDevice x with
  | error e' => exact Or.inl (checkDevice_error hc1).2
  | ok u1 =>
  cases hc2 : checkDevice y with
  | error e' => exact Or.inr (Or.inl (checkDevice_error hc2).2)
  | ok u2 =>
  cases hc3 : checkDevice gy with
  | error e' => exact Or.inr (Or.inr (Or.inl (checkDevice_error hc3).2))
  | ok u3 =>
  cases hc4 : checkDevice gx with
  | error e' => exact Or.inr (Or.inr (Or.inr (Or.inl (checkDevice_error hc4).2)))
  | ok u4 =>
  right; right; right; right
  cases hF : Front.maxBw x.shape y.shape gy.shape gx.shape dim with
  | error e' =>
    simp only [hc1, hc2, hc3, hc4, hF, bind, Except.bind] at h
    cases h; rfl
  | ok r =>
    simp only [hc1, hc2, hc3, hc4, hF, bind, Except.bind] at h
    split at h
    · cases h
    · cases h

theorem Fail.min_bw {α} [Add α] [DecidableEq α] {x y gy gx : Tensor α} {dim : Nat} {e : Err} (hx : WF x.shape)
    (hy : WF y.shape) (hgy : WF gy.shape) (hgx : WF gx.shape) (h : minBw x y gy dim gx = .error e) :
    e = .error ∧ (x.loc ≠ .here ∨ y.loc ≠ .here ∨ gy.loc ≠ .here ∨ gx.loc ≠ .here ∨
      Front.maxBw x.shape y.shape gy.shape gx.shape dim = .error .error) :=
  Fail.max_bw hx hy hgy hgx h

theorem Fail.transpose_bw {α} [Add α] {x y gy gx : Tensor α} {raw : Nat → α} {e : Err} (hx : WF x.shape)
    (hy : WF y.shape) (hgy : WF gy.shape) (hgx : WF gx.shape) (h : transposeBw x y gy gx raw = .error e) :
    e = .error ∧ (x.loc ≠ .here ∨ y.loc ≠ .here ∨ gy.loc ≠ .here ∨ gx.loc ≠ .here ∨
      Front.transposeBwGuard x.shape y.shape gy.shape gx.shape = .error .error ∨
      Front.transposeFw gy.shape = .error .error) := by
  have he := err_of_noCrash (Api.transpose_bw_no_crash x y gy gx hx hy hgy hgx raw) h
  subst he
  refine ⟨rfl, ?_⟩
  unfold transposeBw at h
  cases hc1 : checkDevice x with
  | error e' => exact Or.inl (checkDevice_error hc1).2
  | ok u1 =>
  cases hc2 : checkDevice y with
  | error e' => exact Or.inr (Or.inl (checkDevice_error hc2).2)
  | ok u2 =>
  cases hc3 : checkDevice gy with
  | error e' => exact Or.inr (Or.inr (Or.inl (checkDevice_error hc3).2))
  | ok u3 =>
  cases hc4 : checkDevice gx with
  | error e' => exact Or.inr (Or.inr (Or.inr (Or.inl (checkDevice_error hc4).2)))
  | ok u4 =>
  right; right; right; right
  cases hG : Front.transposeBwGuard x.shape y.shape gy.shape gx.shape with
  | error e' =>
    simp only [hc1, hc2, hc3, hc4, hG, bind, Except.bind] at h
    cases h; exact Or.inl rfl
  | ok u5 =>
    right
    cases hT : transposeFw gy raw with
    | error e' =>
      simp only [hc1, hc2, hc3, hc4, hG, hT, bind, Except.bind] at h
      cases h
      have := (Fail.transpose_fw hgy hT).2
      rcases this with hl | hf
      · exact absurd (checkDevice_inv hc3) hl
      · exact hf
    | ok t =>
      exfalso
      have hT' := hT
      unfold transposeFw at hT'
      obtain ⟨_, ts, mt, hF, _, _, rfl⟩ := fw_inv hT'
      have hb := (Kernel.transpose_bw_in_bounds hx hy hgy hgx hG hF).2
      have hr := runAdd_ok (gy := (⟨ts, scatterSet mt.didx mt.sidx gy.data mt.count raw, .here⟩ : Tensor α)) (gx := gx) hb
      simp only [hc1, hc2, hc3, hc4, hG, hT, bind, Except.bind] at h
      rw [hr] at h
      cases h

end Primitiv.C10.Move
