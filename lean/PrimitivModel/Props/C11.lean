import PrimitivModel.Model.Graph
import PrimitivModel.Lemmas.GraphSweep
import PrimitivModel.Lemmas.GraphLive
/-!
C11, the part about `Graph::backward`: "backward() releases intermediate gradients as it goes;
every buffer obtained from a device is released exactly once".

In the model (`Model/Graph.lean`, the definitions that the driver `drv_graph` runs against the real
`primitiv::Graph`) a node gradient that holds a tensor is `grad = some _` ("live"); `invalidate()`
is `grad := none`.  A gradient tensor is obtained from the device when a gradient becomes live (the
`ones` seed, the zero-fills) and released when it is invalidated.

Vocabulary (Lemmas/GraphSweep.lean, Lemmas/GraphLive.lean):
* `sweepTrace T k s`   the states after each completed iteration of `sweep T k s`, with the operator id
* `stepPoints T s k`   the states at the five program points of the iteration for operator `k`
* `sweepPoints T k s`  all program points of all iterations of `sweep T k s`, with the operator id
* `GradsBelow k s`     every live gradient belongs to an operator with id `< k`
* `OnlyAnc args t s`   every live gradient belongs to an ancestor of operator `t`
* `liveGrads s`        the number of live gradient tensors
-/
namespace Primitiv.C11
open Primitiv.Graph

variable {τ : Type}

/-! ## gradients are released as the sweep goes -/

/-- During `sweep T (k+1) s` (target operator `k`), after the iteration for operator `oid` no
gradient of an operator with id `≥ oid` is live — for every state in which no gradient of an operator
`> k` is live and arguments refer to smaller ids.  So the set of live node gradients only ever
contains operators below the sweep position. -/
theorem Graph.backward_releases (T : TOps τ) (k : Nat) (s : State τ)
    (hw : ArgsBelow s) (hg : GradsBelow (k + 1) s) :
    ∀ x ∈ sweepTrace T (k + 1) s, ∀ b : Addr, x.1 ≤ b.oid → x.2.gradAt b = none :=
  fun x hx => sweepTrace_gradsBelow T (k + 1) s hw hg x hx

/-- `exSquare` after the seed: two iterations, both complete -/
example : ArgsBelow (seed TInt exSquare ⟨1, 0⟩) ∧ GradsBelow 2 (seed TInt exSquare ⟨1, 0⟩) ∧
    (sweepTrace TInt 2 (seed TInt exSquare ⟨1, 0⟩)).map (·.1) = [1, 0] :=
  ⟨argsBelow_of_B (by decide), gradsBelow_seed TInt exSquare ⟨1, 0⟩ (allGradsInvalid_of_B (by decide)), by decide⟩

/-- The trace is the sweep: a successful `sweep T k s` completes exactly `k` iterations, the last one
for operator 0, and the state after it is the result. -/
theorem Graph.sweep_trace_complete (T : TOps τ) (k : Nat) (s s' : State τ)
    (hs : sweep T k s = (s', .ok ())) :
    (sweepTrace T k s).length = k ∧ (0 < k → (sweepTrace T k s).getLast? = some (0, s')) :=
  sweepTrace_of_ok T k s s' hs

example : ∃ s', sweep TInt 2 (seed TInt exSquare ⟨1, 0⟩) = (s', .ok ()) := ⟨_, rfl⟩

/-- The last program point of an iteration is the state that `backwardStep` returns. -/
theorem Graph.step_points_end (T : TOps τ) (s : State τ) (k : Nat) :
    (stepPoints T s k).getLast? = some (backwardStep T s k).1 :=
  stepPoints_last T s k

/-- At every program point of the sweep — on entry of an iteration, after either zero-fill, after the
operator's backward rule, after the invalidation, and also in an iteration that fails — every live
gradient belongs to an ancestor of the target `t` whose id is below the sweep position, or to the
operator being processed (which then is an ancestor too). -/
theorem Graph.live_gradients_bounded (T : TOps τ) (t k : Nat) (s : State τ)
    (hw : ArgsBelow s) (ha : OnlyAnc s.argsOf t s) (hg : GradsBelow k s) :
    ∀ x ∈ sweepPoints T k s, ∀ b : Addr, (x.2.gradAt b).isSome = true →
      Anc s.argsOf b.oid t ∧ (b.oid < x.1 ∨ b.oid = x.1) := by
  intro x hx b hb
  obtain ⟨h1, h2⟩ := sweepPoints_bounded T t k s hw ha hg x hx b hb
  exact ⟨h1, Nat.lt_or_eq_of_le h2⟩

/-- `y = stop_gradient(p0) + p1`: four iterations, five program points each -/
example : let s0 := seed TInt (fwdPhase TInt (exBlocked TInt 3 10) ⟨3, 0⟩).1 ⟨3, 0⟩
    ArgsBelow s0 ∧ OnlyAnc s0.argsOf 3 s0 ∧ GradsBelow 4 s0 ∧
    (sweepPoints TInt 4 s0).map (·.1) = [3, 3, 3, 3, 3, 2, 2, 2, 2, 2, 1, 1, 1, 1, 1, 0, 0, 0, 0, 0] :=
  ⟨argsBelow_of_B (by decide), onlyAnc_seed TInt _ ⟨3, 0⟩ (allGradsInvalid_of_B (by decide)),
   gradsBelow_seed TInt _ ⟨3, 0⟩ (allGradsInvalid_of_B (by decide)), by decide⟩

/-- The hypotheses of the two theorems hold for the sweep that `backward` runs (after its forward
phase and the seed), whenever all node gradients were invalid before. -/
theorem Graph.backward_sweep_start (T : TOps τ) (s : State τ) (a : Addr)
    (hg : AllGradsInvalid s) (hw : ArgsBelow s) :
    let s0 := seed T (fwdPhase T s a).1 a
    ArgsBelow s0 ∧ GradsBelow (a.oid + 1) s0 ∧ OnlyAnc s0.argsOf a.oid s0 := by
  have hf := fwdPhase_fwdFrame T s a
  have hg1 : AllGradsInvalid (fwdPhase T s a).1 := fun b => by rw [gskel_gradAt hf.gskel]; exact hg b
  exact ⟨argsBelow_of_skel (seed_sameFrame T _ a).skel (argsBelow_of_gskel hf.gskel hw),
    gradsBelow_seed T _ a hg1, onlyAnc_seed T _ a hg1⟩

example : AllGradsInvalid exSquare ∧ ArgsBelow exSquare :=
  ⟨allGradsInvalid_of_B (by decide), argsBelow_of_B (by decide)⟩

/-! ## no gradient tensor is leaked -/

/-- The number of live gradient tensors is 0 exactly when all node gradients are invalid. -/
theorem Graph.live_count_zero_iff (s : State τ) : liveGrads s = 0 ↔ AllGradsInvalid s :=
  liveGrads_eq_zero s

/-- A successful `backward` that starts without live gradient tensors ends without: the number of
live gradient tensors after it equals the number before (every tensor obtained for a gradient
during the pass has been released). -/
theorem Graph.no_gradient_leak (T : TOps τ) (s s' : State τ) (a : Addr)
    (hw : ArgsBelow s) (hg : liveGrads s = 0) (hb : backward T s a = (s', .ok ())) :
    liveGrads s' = liveGrads s := by
  rw [hg, liveGrads_eq_zero]
  exact backward_allGradsInvalid T s s' a ((liveGrads_eq_zero s).mp hg) hw hb

example : ArgsBelow exSquare ∧ liveGrads exSquare = 0 ∧ ∃ s', backward TInt exSquare ⟨1, 0⟩ = (s', .ok ()) :=
  ⟨argsBelow_of_B (by decide), by decide, _, rfl⟩

/-- … and as an invariant: from a new graph, after any history of `add_operator`, `forward`,
`backward`, parameter updates, gradient resets and fault schedules in which every `backward`
completed (and no `CHECK_NODE` aborted), no gradient tensor is live. -/
theorem Graph.no_gradient_leak_history (T : TOps τ) (params : Params τ) (sample : Nat → Nat → τ)
    (hist : List (Cmd τ)) (s' : State τ) (hr : runHist T (emptyGraph params sample) hist = some s') :
    liveGrads s' = 0 :=
  (liveGrads_eq_zero s').mpr (runHist_ginv T hist _ s' (emptyGraph_ginv params sample) hr).1

example : ∃ s', runHist TInt (emptyGraph { value := fun _ => 3, grad := fun _ => 10 } fun _ _ => 0)
    [.addOp (.param 0) [] [1], .addOp (.op mulSem) [⟨0, 0⟩, ⟨0, 0⟩] [1], .backward ⟨1, 0⟩,
     .backward ⟨0, 0⟩, .setGrad 0 0, .backward ⟨1, 0⟩] = some s' :=
  ⟨_, rfl⟩

end Primitiv.C11
