import PrimitivModel.Lemmas.ArithIndex
import PrimitivModel.Props.C01.Arith
import PrimitivModel.Props.C02.Arith
/-
C11 (memory safety), arithmetic kernels: index bounds and writes-all of the loop nests.

For every loop kernel of Model/KernelsArith.lean: every address the loop reads or writes is below the size of
the tensor it addresses (`*_in_bounds`), and the forward kernels write every cell of their raw result
(`*_writes_all`: the write addresses of the loop nest are exactly `0, 1, …, size−1`, in order; hence the result
does not depend on the previous content of the buffer, `*_junk_free`).  The hypotheses are the facts the
front-end guard establishes about the dimensions: a batch stride is 0 for an operand with batch 1 and the full
volume for an operand with the result's batch (`StrideOK`), and a tensor's volume is the product of its dims.
-/
namespace Primitiv.C11.Arith
open Primitiv Primitiv.Arith Finset
open Primitiv.C01.Arith.Binary (StrideOK addr_lt)

/-! ### broadcasting binary / scalar kernels and the in-place updates -/

/-- forward: the write addresses `b·size + i` of the loop nest are `0 … bs·size − 1`, each exactly once -/
theorem binary_writes_all (bs size : Nat) :
    (range2 bs size).map (fun t => t.1 * size + t.2) = List.range (bs * size) := range2_addr bs size

/-- forward and backward: an operand (or accumulator) with `Bx` samples and stride `skip ∈ {0, size}` is
addressed inside its `Bx·size` elements -/
theorem binary_in_bounds {skip size bs Bx : Nat} (h : StrideOK skip size bs Bx) :
    ∀ t ∈ range2 bs size, t.1 * skip + t.2 < Bx * size := addr_lt h
example : StrideOK 0 4 3 1 := Or.inl ⟨rfl, le_refl 1⟩

/-- `*src_k` of the scalar kernels: `skip_k = k.has_batch()` -/
theorem scalar_k_in_bounds {skipK bs Bk : Nat} (h : (skipK = 0 ∧ 1 ≤ Bk) ∨ (skipK = 1 ∧ bs ≤ Bk)) :
    ∀ t ∈ range2 bs 1, t.1 * skipK < Bk := by
  intro t ht
  rw [mem_range2] at ht
  rcases h with ⟨rfl, h1⟩ | ⟨rfl, h1⟩ <;> omega

/-- the forward result does not depend on what the raw buffer held -/
theorem binFw_junk_free {α : Type} (op : α → α → α) (size bs skipA skipB : Nat) (a b : Buf α) (j1 j2 : α)
    {n : Nat} (hn : n < bs * size) :
    binFw op size bs skipA skipB a b j1 n = binFw op size bs skipA skipB a b j2 n := by
  unfold binFw
  apply writeAt_init_irrelevant _ _ _ _ _ (range2_addr_nodup bs size)
  rw [range2_addr]
  exact List.mem_range.mpr hn

theorem scalarFw_junk_free {α : Type} (op : α → α → α) (size bs skipX skipK : Nat) (x k : Buf α) (j1 j2 : α)
    {n : Nat} (hn : n < bs * size) :
    scalarFw op size bs skipX skipK x k j1 n = scalarFw op size bs skipX skipK x k j2 n := by
  unfold scalarFw
  apply writeAt_init_irrelevant _ _ _ _ _ (range2_addr_nodup bs size)
  rw [range2_addr]
  exact List.mem_range.mpr hn

/-- in-place add/subtract: `bs = max(bx, by)`; destination stride 0 or `size`, source stride 0 or `size` -/
theorem inplace_in_bounds {skipD skipS size bs Bd Bs : Nat} (hd : StrideOK skipD size bs Bd) (hs : StrideOK skipS size bs Bs) :
    ∀ t ∈ range2 bs size, t.1 * skipD + t.2 < Bd * size ∧ t.1 * skipS + t.2 < Bs * size :=
  fun t ht => ⟨addr_lt hd t ht, addr_lt hs t ht⟩

/-! ### matmul -/
namespace Matmul
open Primitiv.C01.Arith.Matmul (InBounds)

/-- every read of `a`, `b`, `gy` and every write of `y`, `ga`, `gb` is inside its tensor
(`a`: `d2·d1` elements per sample, `b`: `d3·d2`, `y`: `d3·d1`) -/
theorem in_bounds (D : MatDims) (Ba Bb : Nat)
    (ha : StrideOK D.skipA (D.d2 * D.d1) D.bs Ba) (hb : StrideOK D.skipB (D.d3 * D.d2) D.bs Bb) :
    InBounds D (Ba * (D.d2 * D.d1)) (Bb * (D.d3 * D.d2)) := by
  intro t ht
  obtain ⟨h1, h2, h3, h4⟩ := mem_matIts.mp ht
  exact ⟨bcast_idx_lt h1 (idx_lt h4 h3) ha, bcast_idx_lt h1 (idx_lt h2 h4) hb, idx_lt h1 (idx_lt h2 h3)⟩
example : StrideOK 6 (3 * 2) 4 4 := Or.inr ⟨rfl, le_refl 4⟩

/-- the zero-fill covers the whole result: no cell keeps the raw content -/
theorem writes_all {α : Type} [Add α] [Mul α] (zero : α) (D : MatDims) (a b : Buf α) (j1 j2 : α) {n : Nat}
    (hn : n < D.bs * (D.d3 * D.d1)) : matmulFw zero D a b j1 n = matmulFw zero D a b j2 n := by
  unfold matmulFw
  rw [if_pos hn, if_pos hn]

end Matmul

/-! ### conv2d -/
namespace Conv2d
open Primitiv.C01.Arith.Conv2d (InBounds)

theorem mem_its {D : ConvDims} {t : ConvIt} (ht : t ∈ D.its) :
    t.bn < D.bs ∧ t.yc < D.yc ∧ t.yx < D.yw ∧ t.yy < D.yh ∧ t.xc < D.xc ∧ t.wx < D.ww ∧ t.wy < D.wh ∧
      D.valid t = true := by
  unfold ConvDims.its ConvDims.allIts at ht
  obtain ⟨hm, hv⟩ := List.mem_filter.mp ht
  obtain ⟨s, hs, hin⟩ := List.mem_flatMap.mp hm
  obtain ⟨r, hr, rfl⟩ := List.mem_map.mp hin
  obtain ⟨a1, a2, a3, a4⟩ := mem_range4.mp hs
  obtain ⟨b1, b2, b3⟩ := mem_range3.mp hr
  exact ⟨a1, a2, a3, a4, b1, b2, b3, hv⟩

/-- the bounds test of the kernel: the window position is a valid coordinate of x -/
theorem valid_pos {D : ConvDims} {t : ConvIt} (hv : D.valid t = true) :
    (D.posY t).toNat < D.xh ∧ (D.posX t).toNat < D.xw := by
  simp only [ConvDims.valid, Bool.and_eq_true, decide_eq_true_eq] at hv
  omega

/-- every read of `x`, `w`, `gy` and every write of `y`, `gx`, `gw` is inside its tensor, for every padding,
stride, dilation and batch pattern (`x`: `xc·xw·xh` per sample, `w`: `yc·xc·ww·wh`, `y`: `yc·yw·yh`) -/
theorem in_bounds (D : ConvDims) (Bx Bw : Nat)
    (hx : StrideOK D.xShift (D.xc * (D.xw * D.xh)) D.bs Bx)
    (hw : StrideOK D.wShift (D.yc * (D.xc * (D.ww * D.wh))) D.bs Bw)
    (hY : D.yShift = D.yc * (D.yw * D.yh)) :
    InBounds D (Bx * (D.xc * (D.xw * D.xh))) (Bw * (D.yc * (D.xc * (D.ww * D.wh)))) := by
  intro t ht
  obtain ⟨h1, h2, h3, h4, h5, h6, h7, hv⟩ := mem_its ht
  obtain ⟨py, px⟩ := valid_pos hv
  refine ⟨?_, ?_, ?_⟩
  · unfold ConvDims.xa
    apply bcast_idx_lt h1 _ hx
    calc (t.xc * D.xw + (D.posX t).toNat) * D.xh + (D.posY t).toNat < D.xc * D.xw * D.xh := idx_lt (idx_lt h5 px) py
      _ = D.xc * (D.xw * D.xh) := by ring
  · unfold ConvDims.wa
    apply bcast_idx_lt h1 _ hw
    have e1 : D.ww - 1 - t.wx < D.ww := by omega
    have e2 : D.wh - 1 - t.wy < D.wh := by omega
    calc ((t.yc * D.xc + t.xc) * D.ww + (D.ww - 1 - t.wx)) * D.wh + (D.wh - 1 - t.wy)
        < D.yc * D.xc * D.ww * D.wh := idx_lt (idx_lt (idx_lt h2 h5) e1) e2
      _ = D.yc * (D.xc * (D.ww * D.wh)) := by ring
  · unfold ConvDims.ya
    rw [hY]
    apply idx_lt h1
    calc (t.yc * D.yw + t.yx) * D.yh + t.yy < D.yc * D.yw * D.yh := idx_lt (idx_lt h2 h3) h4
      _ = D.yc * (D.yw * D.yh) := by ring

/-- the `py[y_addr] = 0` writes of the four output loops visit every cell of the result exactly once -/
theorem writes_all (D : ConvDims) (hY : D.yShift = D.yc * (D.yw * D.yh)) :
    D.outer.map (C02.Arith.convCell D) = List.range (D.bs * D.yShift) := by
  have h : D.outer.map (C02.Arith.convCell D)
      = (range4 D.bs D.yc D.yw D.yh).map fun t =>
          t.1 * (D.yc * (D.yw * D.yh)) + (t.2.1 * (D.yw * D.yh) + (t.2.2.1 * D.yh + t.2.2.2)) := by
    apply List.map_congr_left
    intro s _
    simp only [C02.Arith.convCell, hY]
    ring
  rw [h, range4_addr, hY]

end Conv2d

/-! ### max_pool2d -/
namespace MaxPool

/-- a cell the window scan accepts is a cell of the `xw × xh` plane -/
theorem window_in_bounds (D : PoolDims) (yx yy : Nat) : ∀ a ∈ D.window yx yy, a < D.xw * D.xh := by
  intro a ha
  unfold PoolDims.window at ha
  obtain ⟨wx, _, hin⟩ := List.mem_flatMap.mp ha
  simp only at hin
  split at hin
  · simp at hin
  · next hx =>
    obtain ⟨wy, _, hsome⟩ := List.mem_filterMap.mp hin
    split at hsome
    · simp at hsome
    · next hy =>
      simp only [Option.some.injEq] at hsome
      subst hsome
      apply idx_lt <;> omega

/-- forward and backward: every read of `x` (and every `+=` into `gx`) is inside the `rep` planes -/
theorem reads_in_bounds (D : PoolDims) {t : Nat × Nat × Nat} (ht : t ∈ D.outer) :
    ∀ a ∈ D.window t.2.1 t.2.2, D.xbase t + a < D.rep * (D.xh * D.xw) := by
  intro a ha
  have h := window_in_bounds D _ _ a ha
  have ht' := mem_range3.mp ht
  unfold PoolDims.xbase
  rw [Nat.mul_comm D.xh D.xw]
  exact idx_lt ht'.1 h

theorem bw_write_in_bounds {α : Type} [BEq α] (D : PoolDims) (x y : Buf α) {t : Nat × Nat × Nat} (ht : t ∈ D.outer)
    {n : Nat} (h : firstMatch D x y t = some n) : n < D.rep * (D.xh * D.xw) := by
  unfold firstMatch at h
  cases hf : (D.window t.2.1 t.2.2).find? (fun a => x (D.xbase t + a) == y (D.ya t)) with
  | none => rw [hf] at h; simp at h
  | some a =>
    rw [hf] at h
    simp only [Option.map_some, Option.some.injEq] at h
    subst h
    exact reads_in_bounds D ht a (List.mem_of_find?_eq_some hf)

/-- the three output loops write every cell of the result exactly once, in order -/
theorem writes_all (D : PoolDims) : D.outer.map D.ya = List.range (D.rep * (D.yw * D.yh)) := by
  have h : D.outer.map D.ya
      = (range3 D.rep D.yw D.yh).map fun t => t.1 * (D.yw * D.yh) + (t.2.1 * D.yh + t.2.2) := by
    apply List.map_congr_left
    intro t _
    simp only [PoolDims.ya, Nat.mul_comm D.yh D.yw]
  rw [h, range3_addr]

/-- hence the forward result does not depend on the raw buffer's content -/
theorem junk_free {α : Type} [LT α] [DecidableLT α] (lowest : α) (D : PoolDims) (x : Buf α) (j1 j2 : α) {n : Nat}
    (hn : n < D.rep * (D.yw * D.yh)) : maxPoolFw lowest D x j1 n = maxPoolFw lowest D x j2 n := by
  unfold maxPoolFw
  have hnd : (D.outer.map D.ya).Nodup := by rw [writes_all]; exact List.nodup_range
  apply writeAt_init_irrelevant _ _ _ _ _ hnd
  rw [writes_all]
  exact List.mem_range.mpr hn

end MaxPool

/-- The dimension hypotheses above (`StrideOK`, volume = product of the dims, `yShift = yc·yw·yh`) follow from
the front-end guards (`devBinFw`, `devMatmulFw`, `devConv2dFw`, `devMaxPoolFw` and the `guardBwAB` forms) for
every Shape obtainable from the constructor; stated for matmul, not proved (needs the Shape invariants of C09). -/
def front_end_guard_full : Prop :=
  ∀ (a b ys : Shape), (∃ da ba, Shape.new da ba = .ok a) → (∃ db bb, Shape.new db bb = .ok b) →
    ShapeOps.matmul a b = .ok ys →
    let D := matDims a b ys
    StrideOK D.skipA (D.d2 * D.d1) D.bs a.batch ∧ StrideOK D.skipB (D.d3 * D.d2) D.bs b.batch ∧
      a.volume = D.d2 * D.d1 ∧ b.volume = D.d3 * D.d2 ∧ ys.volume = D.d3 * D.d1

end Primitiv.C11.Arith
