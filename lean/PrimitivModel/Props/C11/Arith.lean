import PrimitivModel.Lemmas.ArithIndex
import PrimitivModel.Props.C01.Arith
import PrimitivModel.Props.C02.Arith
/-
C11 (memory safety), arithmetic kernels: index bounds and writes-all of the loop nests.

For every loop kernel of Model/KernelsArith.lean: every address the loop reads or writes is below the size of
the tensor it addresses (`*_in_bounds`), and the forward kernels write every cell of their raw result
(`*_writes_all`: the write addresses of the loop nest are exactly `0, 1, …, size−1`, in order; hence the result
does not depend on the previous content of the buffer, `*_junk_free`).  The hypotheses are the facts the
front-end guard establishes about the dimensions: a batch stride is 0 for an operand with batch 1 and the full
volume for an operand with the result's batch (`StrideOK`), and a tensor's volume is the product of its dims.
-/
namespace Primitiv.C11.Arith
open Primitiv Primitiv.Arith Finset
open Primitiv.C01.Arith.Binary (StrideOK addr_lt)

/-! ### broadcasting binary / scalar kernels and the in-place updates -/

/-- forward: the write addresses `b·size + i` of the loop nest are `0 … bs·size − 1`, each exactly once -/
theorem binary_writes_all (bs size : Nat) :
    (range2 bs size).map (fun t => t.1 * size + t.2) = List.range (bs * size) := range2_addr bs size

/-- forward and backward: an operand (or accumulator) with `Bx` samples and stride `skip ∈ {0, size}` is
addressed inside its `Bx·size` elements -/
theorem binary_in_bounds {skip size bs Bx : Nat} (h : StrideOK skip size bs Bx) :
    ∀ t ∈ range2 bs size, t.1 * skip + t.2 < Bx * size := addr_lt h
example : StrideOK 0 4 3 1 := Or.inl ⟨rfl, le_refl 1⟩

/-- `*src_k` of the scalar kernels: `skip_k = k.has_batch()` -/
theorem scalar_k_in_bounds {skipK bs Bk : Nat} (h : (skipK = 0 ∧ 1 ≤ Bk) ∨ (skipK = 1 ∧ bs ≤ Bk)) :
    ∀ t ∈ range2 bs 1, t.1 * skipK < Bk := by
  intro t ht
  rw [mem_range2] at ht
  rcases h with ⟨rfl, h1⟩ | ⟨rfl, h1⟩ <;> omega

/-- the forward result does not depend on what the raw buffer held -/
theorem binFw_junk_free {α : Type} (op : α → α → α) (size bs skipA skipB : Nat) (a b : Buf α) (j1 j2 : α)
    {n : Nat} (hn : n < bs * size) :
    binFw op size bs skipA skipB a b j1 n = binFw op size bs skipA skipB a b j2 n := by
  unfold binFw
  apply writeAt_init_irrelevant _ _ _ _ _ (range2_addr_nodup bs size)
  rw [range2_addr]
  exact List.mem_range.mpr hn

theorem scalarFw_junk_free {α : Type} (op : α → α → α) (size bs skipX skipK : Nat) (x k : Buf α) (j1 j2 : α)
    {n : Nat} (hn : n < bs * size) :
    scalarFw op size bs skipX skipK x k j1 n = scalarFw op size bs skipX skipK x k j2 n := by
  unfold scalarFw
  apply writeAt_init_irrelevant _ _ _ _ _ (range2_addr_nodup bs size)
  rw [range2_addr]
  exact List.mem_range.mpr hn

/-- in-place add/subtract: `bs = max(bx, by)`; destination stride 0 or `size`, source stride 0 or `size` -/
theorem inplace_in_bounds {skipD skipS size bs Bd Bs : Nat} (hd : StrideOK skipD size bs Bd) (hs : StrideOK skipS size bs Bs) :
    ∀ t ∈ range2 bs size, t.1 * skipD + t.2 < Bd * size ∧ t.1 * skipS + t.2 < Bs * size :=
  fun t ht => ⟨addr_lt hd t ht, addr_lt hs t ht⟩

/-! ### matmul -/
namespace Matmul
open Primitiv.C01.Arith.Matmul (InBounds)

/-- every read of `a`, `b`, `gy` and every write of `y`, `ga`, `gb` is inside its tensor
(`a`: `d2·d1` elements per sample, `b`: `d3·d2`, `y`: `d3·d1`) -/
theorem in_bounds (D : MatDims) (Ba Bb : Nat)
    (ha : StrideOK D.skipA (D.d2 * D.d1) D.bs Ba) (hb : StrideOK D.skipB (D.d3 * D.d2) D.bs Bb) :
    InBounds D (Ba * (D.d2 * D.d1)) (Bb * (D.d3 * D.d2)) := by
  intro t ht
  obtain ⟨h1, h2, h3, h4⟩ := mem_matIts.mp ht
  exact ⟨bcast_idx_lt h1 (idx_lt h4 h3) ha, bcast_idx_lt h1 (idx_lt h2 h4) hb, idx_lt h1 (idx_lt h2 h3)⟩
example : StrideOK 6 (3 * 2) 4 4 := Or.inr ⟨rfl, le_refl 4⟩

/-- the zero-fill covers the whole result: no cell keeps the raw content -/
theorem writes_all {α : Type} [Add α] [Mul α] (zero : α) (D : MatDims) (a b : Buf α) (j1 j2 : α) {n : Nat}
    (hn : n < D.bs * (D.d3 * D.d1)) : matmulFw zero D a b j1 n = matmulFw zero D a b j2 n := by
  unfold matmulFw
  rw [if_pos hn, if_pos hn]

end Matmul

/-! ### conv2d -/
namespace Conv2d
open Primitiv.C01.Arith.Conv2d (InBounds)

theorem mem_its {D : ConvDims} {t : ConvIt} (ht : t ∈ D.its) :
    t.bn < D.bs ∧ t.yc < D.yc ∧ t.yx < D.yw ∧ t.yy < D.yh ∧ t.xc < D.xc ∧ t.wx < D.ww ∧ t.wy < D.wh ∧
      D.valid t = true := by
  unfold ConvDims.its ConvDims.allIts at ht
  obtain ⟨hm, hv⟩ := List.mem_filter.mp ht
  obtain ⟨s, hs, hin⟩ := List.mem_flatMap.mp hm
  obtain ⟨r, hr, rfl⟩ := List.mem_map.mp hin
  obtain ⟨a1, a2, a3, a4⟩ := mem_range4.mp hs
  obtain ⟨b1, b2, b3⟩ := mem_range3.mp hr
  exact ⟨a1, a2, a3, a4, b1, b2, b3, hv⟩

/-- the bounds test of the kernel: the window position is a valid coordinate of x -/
theorem valid_pos {D : ConvDims} {t : ConvIt} (hv : D.valid t = true) :
    (D.posY t).toNat < D.xh ∧ (D.posX t).toNat < D.xw := by
  simp only [ConvDims.valid, Bool.and_eq_true, decide_eq_true_eq] at hv
  omega

/-- every read of `x`, `w`, `gy` and every write of `y`, `gx`, `gw` is inside its tensor, for every padding,
stride, dilation and batch pattern (`x`: `xc·xw·xh` per sample, `w`: `yc·xc·ww·wh`, `y`: `yc·yw·yh`) -/
theorem in_bounds (D : ConvDims) (Bx Bw : Nat)
    (hx : StrideOK D.xShift (D.xc * (D.xw * D.xh)) D.bs Bx)
    (hw : StrideOK D.wShift (D.yc * (D.xc * (D.ww * D.wh))) D.bs Bw)
    (hY : D.yShift = D.yc * (D.yw * D.yh)) :
    InBounds D (Bx * (D.xc * (D.xw * D.xh))) (Bw * (D.yc * (D.xc * (D.ww * D.wh)))) := by
  intro t ht
  obtain ⟨h1, h2, h3, h4, h5, h6, h7, hv⟩ := mem_its ht
  obtain ⟨py, px⟩ := valid_pos hv
  refine ⟨?_, ?_, ?_⟩
  · unfold ConvDims.xa
    apply bcast_idx_lt h1 _ hx
    calc (t.xc * D.xw + (D.posX t).toNat) * D.xh + (D.posY t).toNat < D.xc * D.xw * D.xh := idx_lt (idx_lt h5 px) py
      _ = D.xc * (D.xw * D.xh) := by ring
  · unfold ConvDims.wa
    apply bcast_idx_lt h1 _ hw
    have e1 : D.ww - 1 - t.wx < D.ww := by omega
    have e2 : D.wh - 1 - t.wy < D.wh := by omega
    calc ((t.yc * D.xc + t.xc) * D.ww + (D.ww - 1 - t.wx)) * D.wh + (D.wh - 1 - t.wy)
        < D.yc * D.xc * D.ww * D.wh := idx_lt (idx_lt (idx_lt h2 h5) e1) e2
      _ = D.yc * (D.xc * (D.ww * D.wh)) := by ring
  · unfold ConvDims.ya
    rw [hY]
    apply idx_lt h1
    calc (t.yc * D.yw + t.yx) * D.yh + t.yy < D.yc * D.yw * D.yh := idx_lt (idx_lt h2 h3) h4
      _ = D.yc * (D.yw * D.yh) := by ring

/-- the `py[y_addr] = 0` writes of the four output loops visit every cell of the result exactly once -/
theorem writes_all (D : ConvDims) (hY : D.yShift = D.yc * (D.yw * D.yh)) :
    D.outer.map (C02.Arith.convCell D) = List.range (D.bs * D.yShift) := by
  have h : D.outer.map (C02.Arith.convCell D)
      = (range4 D.bs D.yc D.yw D.yh).map fun t =>
          t.1 * (D.yc * (D.yw * D.yh)) + (t.2.1 * (D.yw * D.yh) + (t.2.2.1 * D.yh + t.2.2.2)) := by
    apply List.map_congr_left
    intro s _
    simp only [C02.Arith.convCell, hY]
    ring
  rw [h, range4_addr, hY]

end Conv2d

/-! ### max_pool2d -/
namespace MaxPool

/-- a cell the window scan accepts is a cell of the `xw × xh` plane -/
theorem window_in_bounds (D : PoolDims) (yx yy : Nat) : ∀ a ∈ D.window yx yy, a < D.xw * D.xh := by
  intro a ha
  unfold PoolDims.window at ha
  obtain ⟨wx, _, hin⟩ := List.mem_flatMap.mp ha
  simp only at hin
  split at hin
  · simp at hin
  · next hx =>
    obtain ⟨wy, _, hsome⟩ := List.mem_filterMap.mp hin
    split at hsome
    · simp at hsome
    · next hy =>
      simp only [Option.some.injEq] at hsome
      subst hsome
      apply idx_lt <;> omega

/-- forward and backward: every read of `x` (and every `+=` into `gx`) is inside the `rep` planes -/
theorem reads_in_bounds (D : PoolDims) {t : Nat × Nat × Nat} (ht : t ∈ D.outer) :
    ∀ a ∈ D.window t.2.1 t.2.2, D.xbase t + a < D.rep * (D.xh * D.xw) := by
  intro a ha
  have h := window_in_bounds D _ _ a ha
  have ht' := mem_range3.mp ht
  unfold PoolDims.xbase
  rw [Nat.mul_comm D.xh D.xw]
  exact idx_lt ht'.1 h

theorem bw_write_in_bounds {α : Type} [BEq α] (D : PoolDims) (x y : Buf α) {t : Nat × Nat × Nat} (ht : t ∈ D.outer)
    {n : Nat} (h : firstMatch D x y t = some n) : n < D.rep * (D.xh * D.xw) := by
  unfold firstMatch at h
  cases hf : (D.window t.2.1 t.2.2).find? (fun a => x (D.xbase t + a) == y (D.ya t)) with
  | none => rw [hf] at h; simp at h
  | some a =>
    rw [hf] at h
    simp only [Option.map_some, Option.some.injEq] at h
    subst h
    exact reads_in_bounds D ht a (List.mem_of_find?_eq_some hf)

/-- the three output loops write every cell of the result exactly once, in order -/
theorem writes_all (D : PoolDims) : D.outer.map D.ya = List.range (D.rep * (D.yw * D.yh)) := by
  have h : D.outer.map D.ya
      = (range3 D.rep D.yw D.yh).map fun t => t.1 * (D.yw * D.yh) + (t.2.1 * D.yh + t.2.2) := by
    apply List.map_congr_left
    intro t _
    simp only [PoolDims.ya, Nat.mul_comm D.yh D.yw]
  rw [h, range3_addr]

/-- hence the forward result does not depend on the raw buffer's content -/
theorem junk_free {α : Type} [LT α] [DecidableLT α] (lowest : α) (D : PoolDims) (x : Buf α) (j1 j2 : α) {n : Nat}
    (hn : n < D.rep * (D.yw * D.yh)) : maxPoolFw lowest D x j1 n = maxPoolFw lowest D x j2 n := by
  unfold maxPoolFw
  have hnd : (D.outer.map D.ya).Nodup := by rw [writes_all]; exact List.nodup_range
  apply writeAt_init_irrelevant _ _ _ _ _ hnd
  rw [writes_all]
  exact List.mem_range.mpr hn

end MaxPool

/-! ### the front-end guards of device.cc establish the hypotheses used above

For canonical operand shapes (every Shape the constructor returns is canonical, Props/C09 `new_canonical`) the
shape rule a `Device` entry point evaluates before it calls the kernel (`devBinFw`, `devScalarFw`,
`devMatmulFw`, `devConv2dFw`, `devMaxPoolFw`; the `*_bw` entry points via `guardBwAB`; `guardInplace`) yields
exactly the stride / volume facts the bounds theorems assume, with the tensors' true element counts
`size = batch · volume`. -/
namespace FrontEnd
open Primitiv.Arith.Guard Primitiv.Spec Primitiv.ShapeL

theorem stride_of_compat {s : Shape} (h : s.Canonical) (size bs : Nat) (hb : bs = s.batch ∨ s.batch = 1) :
    StrideOK (skipOf s size) size bs s.batch := skipOf_ok h size bs hb

/-- shape_ops::elementwise (add, subtract, multiply, divide, pow — forward, and backward via `guardBwAB`) -/
theorem elementwise_guard {a b ys : Shape} (ha : a.Canonical) (hb : b.Canonical)
    (h : ShapeOps.elementwise a b = .ok ys) :
    ys.Canonical ∧ ys.volume = a.volume ∧ b.volume = a.volume ∧
      StrideOK (skipOf a ys.volume) ys.volume ys.batch a.batch ∧
      StrideOK (skipOf b ys.volume) ys.volume ys.batch b.batch := by
  have ag := ShapeOps.elementwise_agree ha hb
  rw [h] at ag
  obtain ⟨t, ht, hts, hc⟩ := agree_ok_inv ag
  subst hts
  unfold Spec.elementwise at ht
  split at ht
  · simp at ht
  · next hneg =>
    obtain ⟨hd, hbt⟩ := of_mk ht
    simp only [not_or, ne_eq, Decidable.not_not, toSpec_dims, Bool.not_eq_true'] at hneg
    obtain ⟨hdims, hcompat⟩ := hneg
    simp only [Spec.compatibleBatch, toSpec_batch] at hcompat hbt
    have hm := compat_max ha.batch_ne hb.batch_ne (Bool.eq_true_of_not_eq_false hcompat)
    have hv : ys.volume = a.volume := by rw [hc.vol, ha.vol, hd, toSpec_dims, ha.trimmed]
    have hvb : b.volume = a.volume := by rw [hb.vol, ha.vol, hdims]
    refine ⟨hc, hv, hvb, stride_of_compat ha _ _ ?_, stride_of_compat hb _ _ ?_⟩
    · rw [hbt]; exact hm.1
    · rw [hbt]; exact hm.2
example : (⟨[2, 3], 5, 6⟩ : Shape).Canonical := by decide

/-- every address of a broadcasting binary kernel is below the element count of the tensor it addresses -/
theorem devBin_in_bounds {a b ys : Shape} (ha : a.Canonical) (hb : b.Canonical)
    (h : ShapeOps.elementwise a b = .ok ys) :
    ∀ t ∈ range2 ys.batch ys.volume,
      t.1 * skipOf a ys.volume + t.2 < a.size ∧ t.1 * skipOf b ys.volume + t.2 < b.size ∧
        t.1 * ys.volume + t.2 < ys.size := by
  obtain ⟨hc, hv, hvb, sa, sb⟩ := elementwise_guard ha hb h
  intro t ht
  rw [canon_size ha, canon_size hb, canon_size hc, ← hv, hvb, ← hv]
  exact ⟨addr_lt sa t ht, addr_lt sb t ht, idx_lt (mem_range2.mp ht).1 (mem_range2.mp ht).2⟩

/-- shape_ops::scalar_op (the eight `*_scalar_*` kernels): `k` is a scalar, read at `b · has_batch` -/
theorem scalarOp_guard {x k ys : Shape} (hx : x.Canonical) (hk : k.Canonical)
    (h : ShapeOps.scalarOp x k = .ok ys) :
    ys.Canonical ∧ ys.volume = x.volume ∧ k.volume = 1 ∧
      StrideOK (skipOf x ys.volume) ys.volume ys.batch x.batch ∧ StrideOK (skipOf k 1) 1 ys.batch k.batch := by
  have ag := ShapeOps.scalarOp_agree hx hk
  rw [h] at ag
  obtain ⟨t, ht, hts, hc⟩ := agree_ok_inv ag
  subst hts
  unfold Spec.scalarOp at ht
  split at ht
  · simp at ht
  · next hneg =>
    obtain ⟨hd, hbt⟩ := of_mk ht
    simp only [not_or, ne_eq, Decidable.not_not, toSpec_depth, Bool.not_eq_true'] at hneg
    obtain ⟨hdepth, hcompat⟩ := hneg
    simp only [Spec.compatibleBatch, toSpec_batch] at hcompat hbt
    have hm := compat_max hx.batch_ne hk.batch_ne (Bool.eq_true_of_not_eq_false hcompat)
    have hv : ys.volume = x.volume := by rw [hc.vol, hx.vol, hd, toSpec_dims, hx.trimmed]
    refine ⟨hc, hv, canon_vol0 hk hdepth, stride_of_compat hx _ _ ?_, stride_of_compat hk _ _ ?_⟩
    · rw [hbt]; exact hm.1
    · rw [hbt]; exact hm.2

/-- shape_ops::matmul -/
theorem matmul_guard {a b ys : Shape} (ha : a.Canonical) (hb : b.Canonical) (h : ShapeOps.matmul a b = .ok ys) :
    let D := matDims a b ys
    ys.Canonical ∧ StrideOK D.skipA (D.d2 * D.d1) D.bs a.batch ∧ StrideOK D.skipB (D.d3 * D.d2) D.bs b.batch ∧
      a.volume = D.d2 * D.d1 ∧ b.volume = D.d3 * D.d2 ∧ ys.volume = D.d3 * D.d1 := by
  have ag := ShapeOps.matmul_agree ha hb
  rw [h] at ag
  obtain ⟨t, ht, hts, hc⟩ := agree_ok_inv ag
  subst hts
  unfold Spec.matmul at ht
  split at ht
  · simp at ht
  · next hneg =>
    obtain ⟨hd, hbt⟩ := of_mk ht
    simp only [not_or, ne_eq, Decidable.not_not, toSpec_depth, toSpec_dimAt, Bool.not_eq_true',
      Nat.not_lt] at hneg
    obtain ⟨hda, hdb, hmid, hcompat⟩ := hneg
    simp only [Spec.compatibleBatch, toSpec_batch, toSpec_dimAt] at hcompat hbt hd
    have hm := compat_max ha.batch_ne hb.batch_ne (Bool.eq_true_of_not_eq_false hcompat)
    have hva : a.volume = a.get 1 * a.get 0 := canon_vol2 ha hda
    have hvb : b.volume = b.get 1 * b.get 0 := canon_vol2 hb hdb
    have hlen : ys.dims.length ≤ 2 := by
      rw [hd]; exact Nat.le_trans (length_trim_le _) (by simp)
    have hg0 : ys.get 0 = a.get 0 := by unfold Shape.get; rw [hd, getD_trim]; rfl
    have hg1 : ys.get 1 = b.get 1 := by unfold Shape.get; rw [hd, getD_trim]; rfl
    have hvy : ys.volume = b.get 1 * a.get 0 := by rw [canon_vol2 hc hlen, hg0, hg1]
    intro D
    refine ⟨hc, ?_, ?_, hva, ?_, hvy⟩
    · show StrideOK (skipOf a (a.get 0 * a.get 1)) (a.get 1 * a.get 0) ys.batch a.batch
      rw [Nat.mul_comm (a.get 0)]
      exact stride_of_compat ha _ _ (by rw [hbt]; exact hm.1)
    · show StrideOK (skipOf b (a.get 1 * b.get 1)) (b.get 1 * a.get 1) ys.batch b.batch
      rw [Nat.mul_comm (a.get 1)]
      exact stride_of_compat hb _ _ (by rw [hbt]; exact hm.2)
    · show b.volume = b.get 1 * a.get 1
      rw [hvb, hmid]

/-- Device::matmul_fw / matmul_bw: the loop nest stays inside the three tensors -/
theorem devMatmul_in_bounds {a b ys : Shape} (ha : a.Canonical) (hb : b.Canonical)
    (h : ShapeOps.matmul a b = .ok ys) :
    C01.Arith.Matmul.InBounds (matDims a b ys) a.size b.size ∧
      (matDims a b ys).bs * ((matDims a b ys).d3 * (matDims a b ys).d1) = ys.size := by
  obtain ⟨hc, sa, sb, hva, hvb, hvy⟩ := matmul_guard ha hb h
  rw [canon_size ha, canon_size hb, canon_size hc, hva, hvb, hvy]
  exact ⟨Matmul.in_bounds _ _ _ sa sb, rfl⟩

/-- shape_ops::conv2d -/
theorem conv2d_guard {x w ys : Shape} (hx : x.Canonical) (hw : w.Canonical) (p0 p1 s0 s1 d0 d1 : Nat)
    (h : ShapeOps.conv2d x w p0 p1 s0 s1 d0 d1 = .ok ys) :
    let D := convDims x w ys p0 p1 s0 s1 d0 d1
    ys.Canonical ∧ StrideOK D.xShift (D.xc * (D.xw * D.xh)) D.bs x.batch ∧
      StrideOK D.wShift (D.yc * (D.xc * (D.ww * D.wh))) D.bs w.batch ∧ D.yShift = D.yc * (D.yw * D.yh) ∧
      x.volume = D.xc * (D.xw * D.xh) ∧ w.volume = D.yc * (D.xc * (D.ww * D.wh)) := by
  have ag := ShapeOps.conv2d_agree hx hw p0 p1 s0 s1 d0 d1
  rw [h] at ag
  obtain ⟨t, ht, hts, hc⟩ := agree_ok_inv ag
  subst hts
  unfold Spec.conv2d at ht
  simp only [] at ht
  split at ht
  · simp at ht
  · next hneg =>
    split at ht
    · simp at ht
    · obtain ⟨hd, hbt⟩ := of_mk ht
      simp only [not_or, ne_eq, Decidable.not_not, toSpec_depth, toSpec_dimAt, Bool.not_eq_true',
        Nat.not_lt] at hneg
      obtain ⟨hdx, hdw, _, _, hch, hcompat, _⟩ := hneg
      simp only [Spec.compatibleBatch, toSpec_batch, toSpec_dimAt] at hcompat hbt hd
      have hm := compat_max hx.batch_ne hw.batch_ne (Bool.eq_true_of_not_eq_false hcompat)
      have hvx : x.volume = x.get 2 * (x.get 1 * x.get 0) := canon_vol3 hx hdx
      have hvw : w.volume = w.get 3 * (w.get 2 * (w.get 1 * w.get 0)) := canon_vol4 hw hdw
      have hlen : ys.dims.length ≤ 3 := by
        rw [hd]; exact Nat.le_trans (length_trim_le _) (by simp)
      have hg2 : ys.get 2 = w.get 3 := by unfold Shape.get; rw [hd, getD_trim]; rfl
      intro D
      refine ⟨hc, ?_, ?_, canon_vol3 hc hlen, hvx, ?_⟩
      · show StrideOK (skipOf x x.volume) (x.get 2 * (x.get 1 * x.get 0)) ys.batch x.batch
        rw [← hvx]
        exact stride_of_compat hx _ _ (by rw [hbt]; exact hm.1)
      · show StrideOK (skipOf w w.volume) (ys.get 2 * (x.get 2 * (w.get 1 * w.get 0))) ys.batch w.batch
        rw [hg2, hch, ← hvw]
        exact stride_of_compat hw _ _ (by rw [hbt]; exact hm.2)
      · show w.volume = ys.get 2 * (x.get 2 * (w.get 1 * w.get 0))
        rw [hg2, hch, hvw]

/-- Device::conv2d_fw / conv2d_bw: every read and write of the seven-level nest is inside its tensor and the
zero-writes cover the result -/
theorem devConv2d_in_bounds {x w ys : Shape} (hx : x.Canonical) (hw : w.Canonical) (p0 p1 s0 s1 d0 d1 : Nat)
    (h : ShapeOps.conv2d x w p0 p1 s0 s1 d0 d1 = .ok ys) :
    C01.Arith.Conv2d.InBounds (convDims x w ys p0 p1 s0 s1 d0 d1) x.size w.size ∧
      (convDims x w ys p0 p1 s0 s1 d0 d1).outer.map (C02.Arith.convCell (convDims x w ys p0 p1 s0 s1 d0 d1))
        = List.range ys.size := by
  obtain ⟨hc, sx, sw, hY, hvx, hvw⟩ := conv2d_guard hx hw p0 p1 s0 s1 d0 d1 h
  rw [canon_size hx, canon_size hw, canon_size hc, hvx, hvw]
  exact ⟨Conv2d.in_bounds _ _ _ sx sw hY, Conv2d.writes_all _ hY⟩

/-- shape_ops::pool2d: `repeat = x.size() / (x_height · x_width)` planes on both sides -/
theorem pool2d_guard {x ys : Shape} (hx : x.Canonical) (w0 w1 p0 p1 s0 s1 : Nat)
    (h : ShapeOps.pool2d x w0 w1 p0 p1 s0 s1 = .ok ys) :
    let D := poolDims x ys w0 w1 p0 p1 s0 s1
    ys.Canonical ∧ D.rep * (D.xh * D.xw) = x.size ∧ D.rep * (D.yw * D.yh) = ys.size := by
  have ag := ShapeOps.pool2d_agree hx w0 w1 p0 p1 s0 s1
  rw [h] at ag
  obtain ⟨t, ht, hts, hc⟩ := agree_ok_inv ag
  subst hts
  unfold Spec.pool2d at ht
  simp only [] at ht
  split at ht
  · simp at ht
  · next hneg =>
    split at ht
    · simp at ht
    · obtain ⟨hd, hbt⟩ := of_mk ht
      simp only [not_or, toSpec_depth, toSpec_dimAt, Nat.not_lt] at hneg
      obtain ⟨hdx, _⟩ := hneg
      simp only [toSpec_batch, toSpec_dimAt] at hbt hd
      have hvx : x.volume = x.get 2 * (x.get 1 * x.get 0) := canon_vol3 hx hdx
      have hlen : ys.dims.length ≤ 3 := by
        rw [hd]; exact Nat.le_trans (length_trim_le _) (by simp)
      have hg2 : ys.get 2 = x.get 2 := by unfold Shape.get; rw [hd, getD_trim]; rfl
      have hvy : ys.volume = x.get 2 * (ys.get 1 * ys.get 0) := by rw [canon_vol3 hc hlen, hg2]
      have hpos : 0 < x.get 0 * x.get 1 := Nat.mul_pos (hx.get_pos 0) (hx.get_pos 1)
      have hrep : x.size / (x.get 0 * x.get 1) = x.batch * x.get 2 := by
        rw [canon_size hx, hvx]
        have : x.batch * (x.get 2 * (x.get 1 * x.get 0)) = (x.batch * x.get 2) * (x.get 0 * x.get 1) := by ring
        rw [this, Nat.mul_div_cancel _ hpos]
      intro D
      refine ⟨hc, ?_, ?_⟩
      · show x.size / (x.get 0 * x.get 1) * (x.get 0 * x.get 1) = x.size
        rw [hrep, canon_size hx, hvx]; ring
      · show x.size / (x.get 0 * x.get 1) * (ys.get 1 * ys.get 0) = ys.size
        rw [hrep, canon_size hc, hvy, hbt]; ring

/-- Device::max_pool2d_fw / max_pool2d_bw: reads of `x` (writes of `gx`) inside x, the result fully written -/
theorem devMaxPool_in_bounds {x ys : Shape} (hx : x.Canonical) (w0 w1 p0 p1 s0 s1 : Nat)
    (h : ShapeOps.pool2d x w0 w1 p0 p1 s0 s1 = .ok ys) :
    (∀ t ∈ (poolDims x ys w0 w1 p0 p1 s0 s1).outer, ∀ a ∈ (poolDims x ys w0 w1 p0 p1 s0 s1).window t.2.1 t.2.2,
        (poolDims x ys w0 w1 p0 p1 s0 s1).xbase t + a < x.size) ∧
      (poolDims x ys w0 w1 p0 p1 s0 s1).outer.map (poolDims x ys w0 w1 p0 p1 s0 s1).ya = List.range ys.size := by
  obtain ⟨_, h1, h2⟩ := pool2d_guard hx w0 w1 p0 p1 s0 s1 h
  rw [← h1, ← h2]
  exact ⟨fun t ht a ha => MaxPool.reads_in_bounds _ ht a ha, MaxPool.writes_all _⟩

/-- the guard of every binary `*_bw` entry point (DEV_BW_AB, conv2d_bw): the accumulators and `gy` have the
shapes of the operands and of the forward result, so the facts above hold for them as well -/
theorem guardBwAB_ok {sop : Shape → Shape → R Shape} {a b y gy ga gb : Shape}
    (h : guardBwAB sop a b y gy ga gb = .ok ()) :
    a.eq ga = true ∧ b.eq gb = true ∧ y.eq gy = true ∧ ∃ ys, sop a b = .ok ys ∧ y.eq ys = true := by
  unfold guardBwAB at h
  by_cases h1 : (!a.eq ga || !b.eq gb || !y.eq gy) = true
  · simp [h1, Primitiv.throwError, bind, Except.bind] at h
  · simp only [h1] at h
    simp only [Bool.or_eq_true, Bool.not_eq_true', not_or, Bool.not_eq_false] at h1
    obtain ⟨⟨ha, hb⟩, hy⟩ := h1
    cases hs : sop a b with
    | error e => simp [hs, bind, Except.bind] at h
    | ok ys =>
      refine ⟨ha, hb, hy, ys, rfl, ?_⟩
      by_cases h2 : (!y.eq ys) = true
      · simp [hs, h2, Primitiv.throwError, bind, Except.bind] at h
      · simpa using h2

/-- Device::inplace_add / inplace_subtract -/
theorem inplace_guard {sx sy : Shape} (hx : sx.Canonical) (hy : sy.Canonical) (h : guardInplace sx sy = true) :
    sx.volume = sy.volume ∧
      StrideOK (skipOf sy sy.volume) sy.volume (max sx.batch sy.batch) sy.batch ∧
      StrideOK (skipOf sx sy.volume) sy.volume (max sx.batch sy.batch) sx.batch := by
  unfold guardInplace at h
  rw [Bool.and_eq_true, hasSameDims_iff] at h
  obtain ⟨hd, hcompat⟩ := h
  unfold Shape.hasCompatibleBatch at hcompat
  have hm := compat_max hx.batch_ne hy.batch_ne hcompat
  exact ⟨by rw [hx.vol, hy.vol, hd], stride_of_compat hy _ _ hm.2, stride_of_compat hx _ _ hm.1⟩

end FrontEnd

end Primitiv.C11.Arith
