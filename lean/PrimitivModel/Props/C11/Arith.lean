import PrimitivModel.Model.KernelsArith
namespace Primitiv.C11.Arith
theorem placeholder : True := trivial
end Primitiv.C11.Arith
