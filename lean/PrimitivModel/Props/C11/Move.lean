import PrimitivModel.Lemmas.MovePlans
import PrimitivModel.Lemmas.MoveKernels
import PrimitivModel.Lemmas.MoveNoCrash
import PrimitivModel.Lemmas.MoveSpec
import PrimitivModel.Lemmas.MovePermute
/-
C11 — memory safety of the kernels of the `kernels` family, as far as it is
index arithmetic: under the front-end guard of each public entry point
(`Move.Front.<k> … = .ok …`), every index the kernel reads is below the size of
the tensor read, every index it writes is below the size of the tensor written
(`Moves.InBounds src dst` / `Reduce.InBounds src`), and a forward kernel writes
every element of its raw (uninitialised) output tensor (`Moves.WritesAll`).
Shapes are arbitrary well-formed shapes (`MoveShape.WF`: what the `Shape`
constructor yields, `MoveShape.new_ok`, and every shape rule preserves): depth
0..8, size-1 axes anywhere, any batch combination the guard admits, any axis
argument.  `ids.length < W`, `offset < W`: the arguments are `std::uint32_t`s /
a vector that fits in memory.
(Shared with C10: `Guard.<entry>_sound` is the same statement.)
-/
namespace Primitiv.C11.Move
open Primitiv Primitiv.Move Primitiv.Move.Front Primitiv.MoveShape

/-! ### slice -/

theorem Kernel.slice_fw_in_bounds {x ys : Shape} {dim lower upper : Nat} {m : Moves} (hx : WF x)
    (h : Front.sliceFw x dim lower upper = .ok (ys, m)) : m.InBounds x.size ys.size := by
  have ⟨hl, hu, hy, _, _, hm, hxs, hys⟩ := sliceFw_plan hx h
  rw [hm, hxs, hys]
  exact sliceFw_bounds (by omega) (lo_pos hx dim) (by omega)

theorem Kernel.slice_fw_writes_all {x ys : Shape} {dim lower upper : Nat} {m : Moves} (hx : WF x)
    (h : Front.sliceFw x dim lower upper = .ok (ys, m)) : m.WritesAll ys.size ∧ m.WritesOnce := by
  have ⟨_, _, _, _, _, hm, _, hys⟩ := sliceFw_plan hx h
  rw [hm, hys]
  exact writesAll_of_id (fun _ => rfl) (sliceFw_count _ _)

example : Front.sliceFw ⟨[3, 2], 2, 6⟩ 1 1 2 = .ok (⟨[3], 2, 3⟩, sliceFwMoves 3 3 6 2 1) := by rfl

theorem Kernel.slice_bw_in_bounds {sy sx : Shape} {dim offset : Nat} {p : SliceBwPlan} (hy : WF sy) (hx : WF sx)
    (hoff : offset < W) (h : Front.sliceBw sy sx dim offset = .ok p) : p.moves.InBounds sy.size sx.size := by
  have ⟨_, hcomp, hg, hxs, hys, hp⟩ := sliceBw_plan hy hx hoff h
  have hfit : lo sx dim * sx.get dim * up sx dim * sx.batch < W := by
    rw [← (hx.toView dim).volume]; exact hx.fits
  rcases hp with ⟨_, hy1, hx1, _, rfl⟩ | ⟨_, rfl⟩
  · rw [hxs, hys, hy1, hx1]
    simp only [Nat.mul_one, SliceBwPlan.moves]
    exact inplaceAdd_bounds (Nat.mul_pos (lo_pos hx dim) (up_pos hx dim)) hx.bpos hy.bpos hcomp
  · rw [hxs, hys]
    exact sliceBw_bounds hg (lo_pos hx dim) (hy.pos dim) (up_pos hx dim) hx.bpos hy.bpos hcomp hfit

/-- The guard of the pinned tree (`offset + sy[dim] > sx[dim]` with a 32-bit
sum) does not protect the kernel: `slice_bw(gy = [2], 0, 0xffffffff, gx = [4])`
passes it and the first write index is far outside `gx`.  (Defect #4 of
DESIGN.md section 4; repaired by patches/fix-slice-bw-wrap.diff.) -/
theorem Kernel.slice_bw_pinned_guard_unsound :
    ∃ sy sx dim offset p, WF sy ∧ WF sx ∧ offset < W ∧ Front.sliceBwPinned sy sx dim offset = .ok p ∧
      ¬ p.moves.InBounds sy.size sx.size := by
  refine ⟨⟨[2], 1, 2⟩, ⟨[4], 1, 4⟩, 0, 4294967295, .kernel (sliceBwMoves 1 2 4 1 1 0 0 4294967295), ?_, ?_, by decide, by rfl, ?_⟩
  · exact (new_ok (dims := [2]) (b := 1) (by decide)).1
  · exact (new_ok (dims := [4]) (b := 1) (by decide)).1
  · intro hb
    have := (hb 0 (by decide)).2
    revert this; decide

theorem Kernel.batch_slice_bw_pinned_guard_unsound :
    ∃ sy sx offset m, WF sy ∧ WF sx ∧ offset < W ∧ Front.batchSliceBwPinned sy sx offset = .ok m ∧
      ¬ m.InBounds sy.size sx.size := by
  refine ⟨⟨[], 2, 1⟩, ⟨[], 4, 1⟩, 4294967295, batchSliceBwMoves 1 2 4294967295, ?_, ?_, by decide, by rfl, ?_⟩
  · exact (new_ok (dims := []) (b := 2) (by decide)).1
  · exact (new_ok (dims := []) (b := 4) (by decide)).1
  · intro hb
    have := (hb 0 (by decide)).2
    revert this; decide

example : Front.sliceBw ⟨[2], 1, 2⟩ ⟨[4], 1, 4⟩ 0 2 = .ok (.kernel (sliceBwMoves 1 2 4 1 1 0 0 2)) := by rfl
example : Front.sliceBw ⟨[2], 1, 2⟩ ⟨[4], 1, 4⟩ 0 4294967295 = .error .error := by rfl
example : Front.sliceBw ⟨[2], 1, 2⟩ ⟨[4], 1, 4⟩ 0 3 = .error .error := by rfl

/-! ### pick -/

theorem Kernel.pick_fw_in_bounds {x ys : Shape} {ids : List Nat} {dim : Nat} {m : Moves} (hx : WF x)
    (hlen : ids.length < W) (h : Front.pickFw x ids dim = .ok (ys, m)) :
    m.InBounds x.size ys.size ∧ Front.pickIdsOk ys.batch ids = true := by
  have ⟨_, hpos, hcomp, hids, _, hb, _, hm, hxs, hys⟩ := pickFw_plan hx hlen h
  refine ⟨?_, ?_⟩
  · rw [hm, hxs, hys]
    exact pick_bounds (lo_pos hx dim) (up_pos hx dim) hx.bpos hpos hcomp hids
  · unfold Front.pickIdsOk
    simp only [List.all_eq_true, List.mem_range, decide_eq_true_eq]
    intro b hb'
    rw [hb] at hb'
    exact (pick_id_ok hpos hcomp hids hx.bpos hb').1

theorem Kernel.pick_fw_writes_all {x ys : Shape} {ids : List Nat} {dim : Nat} {m : Moves} (hx : WF x)
    (hlen : ids.length < W) (h : Front.pickFw x ids dim = .ok (ys, m)) : m.WritesAll ys.size ∧ m.WritesOnce := by
  have ⟨_, _, _, _, _, _, _, hm, _, hys⟩ := pickFw_plan hx hlen h
  rw [hm, hys]
  exact writesAll_of_id (fun _ => rfl) (pick_count _ _ _ _ _ _ _)

theorem Kernel.pick_bw_in_bounds {gy gx : Shape} {ids : List Nat} {dim : Nat} {m : Moves} (hy : WF gy) (hx : WF gx)
    (hlen : ids.length < W) (h : Front.pickBw gy gx ids dim = .ok m) :
    m.InBounds gy.size gx.size ∧ Front.pickIdsOk gy.batch ids = true := by
  have ⟨_, hpos, hcomp, hids, hb, _, hm, hxs, hys⟩ := pickBw_plan hy hx hlen h
  refine ⟨?_, ?_⟩
  · rw [hm, hxs, hys]
    exact Moves.swap_inBounds (pick_bounds (lo_pos hx dim) (up_pos hx dim) hx.bpos hpos hcomp hids)
  · unfold Front.pickIdsOk
    simp only [List.all_eq_true, List.mem_range, decide_eq_true_eq]
    intro b hb'
    rw [hb] at hb'
    exact (pick_id_ok hpos hcomp hids hx.bpos hb').1

example : Front.pickFw ⟨[3, 3], 1, 9⟩ [1, 2] 1 = .ok (⟨[3], 2, 3⟩, pickMoves 2 0 1 3 9 1 [1, 2]) := by rfl
example : Front.pickBw ⟨[3], 2, 3⟩ ⟨[3, 3], 1, 9⟩ [1, 2] 1 = .ok (pickMoves 2 0 1 3 9 1 [1, 2]).swap := by rfl

/-! ### flip -/

theorem Kernel.flip_fw_in_bounds {x ys : Shape} {dim : Nat} {m : Moves} (hx : WF x)
    (h : Front.flipFw x dim = .ok (ys, m)) : m.InBounds x.size ys.size := by
  have ⟨rfl, hm, hxs⟩ := flipFw_plan hx h
  rw [hm, hxs]
  exact flip_bounds (hx.pos dim) (lo_pos hx dim)

theorem Kernel.flip_fw_writes_all {x ys : Shape} {dim : Nat} {m : Moves} (hx : WF x)
    (h : Front.flipFw x dim = .ok (ys, m)) : m.WritesAll ys.size ∧ m.WritesOnce := by
  have ⟨rfl, hm, hxs⟩ := flipFw_plan hx h
  rw [hm, hxs]
  exact flip_writes (hx.pos dim) (lo_pos hx dim)

theorem Kernel.flip_bw_in_bounds {gy gx : Shape} {dim : Nat} {m : Moves} (hy : WF gy) (hx : WF gx)
    (h : Front.flipBw gy gx dim = .ok m) : m.InBounds gy.size gx.size := by
  have ⟨hs, hm, hxs⟩ := flipBw_plan hy hx h
  rw [hm, hs, hxs]
  exact flip_bounds (hx.pos dim) (lo_pos hx dim)

/-! ### sum, max, min, argmax, argmin, broadcast -/

/-- sum_fw, max_fw, min_fw: reads in bounds, and exactly the elements of the
output are written (`dest[i]`, `i < repeat = y.size`). -/
theorem Kernel.reduce_fw_in_bounds {x ys : Shape} {dim : Nat} {r : Reduce} (hx : WF x)
    (h : Front.reduceFw x dim = .ok (ys, r)) : r.InBounds x.size ∧ r.rep = ys.size ∧ 0 < r.n := by
  have ⟨_, _, _, _, hr, hxs, hys⟩ := reduceFw_plan hx h
  rw [hr, hxs, hys]
  exact ⟨axisReduce_bounds (lo_pos hx dim), rfl, hx.pos dim⟩

theorem Kernel.max_bw_in_bounds {x y gy gx : Shape} {dim : Nat} {r : Reduce} (hx : WF x) (hy : WF y) (hgy : WF gy)
    (hgx : WF gx) (h : Front.maxBw x y gy gx dim = .ok r) :
    r.InBounds x.size ∧ r.InBounds gx.size ∧ r.rep = y.size ∧ r.rep = gy.size := by
  have ⟨_, _, hr, hxs, hgxs, hys, hgys⟩ := maxBw_plan hx hy hgy hgx h
  rw [hgxs, hgys, hr, hxs, hys]
  exact ⟨axisReduce_bounds (lo_pos hx dim), axisReduce_bounds (lo_pos hx dim), rfl, rfl⟩

/-- argmax / argmin have no front-end guard at all, for any axis argument -/
theorem Kernel.argmax_in_bounds {x : Shape} (hx : WF x) (dim : Nat) :
    (Front.argReduce x dim).InBounds x.size ∧ 0 < (Front.argReduce x dim).n := by
  have ⟨hr, hxs⟩ := argReduce_plan hx dim
  rw [hr, hxs]
  exact ⟨axisReduce_bounds (lo_pos hx dim), hx.pos dim⟩

theorem Kernel.broadcast_fw_in_bounds {x ys : Shape} {dim size : Nat} {m : Moves} (hx : WF x)
    (h : Front.broadcastFw x dim size = .ok (ys, m)) : m.InBounds x.size ys.size := by
  have ⟨_, _, hs, _, _, _, hm, hxs, hys⟩ := broadcastFw_plan hx h
  rw [hm, hxs, hys]
  exact broadcast_bounds hs (lo_pos hx dim)

theorem Kernel.broadcast_fw_writes_all {x ys : Shape} {dim size : Nat} {m : Moves} (hx : WF x)
    (h : Front.broadcastFw x dim size = .ok (ys, m)) : m.WritesAll ys.size ∧ m.WritesOnce := by
  have ⟨_, _, hs, _, _, _, hm, _, hys⟩ := broadcastFw_plan hx h
  rw [hm, hys]
  exact broadcast_writes hs (lo_pos hx dim)

example : Front.reduceFw ⟨[3, 2], 2, 6⟩ 0 = .ok (⟨[1, 2], 2, 2⟩, axisReduce 4 3 1) := by rfl
example : Front.reduceFw ⟨[3, 2], 2, 6⟩ 8 = .error .error := by rfl
example : Front.broadcastFw ⟨[3], 2, 3⟩ 1 2 = .ok (⟨[3, 2], 2, 6⟩, broadcastMoves 6 3 2) := by rfl

/-! ### transpose -/

theorem Kernel.transpose_fw_in_bounds {x ys : Shape} {m : Moves} (hx : WF x)
    (h : Front.transposeFw x = .ok (ys, m)) : m.InBounds x.size ys.size := by
  have ⟨_, _, _, _, _, _, hm, hxs, hys⟩ := transposeFw_plan hx h
  rw [hm, hxs, hys]
  exact transpose_bounds _ _ _

theorem Kernel.transpose_fw_writes_all {x ys : Shape} {m : Moves} (hx : WF x)
    (h : Front.transposeFw x = .ok (ys, m)) : m.WritesAll ys.size ∧ m.WritesOnce := by
  have ⟨_, _, _, _, _, _, hm, _, hys⟩ := transposeFw_plan hx h
  rw [hm, hys]
  exact transpose_writes (hx.pos 0) (hx.pos 1)

/-- transpose_bw (Naive: `inplace_add_impl(transpose_fw(gy), gx)`): both loop nests in bounds -/
theorem Kernel.transpose_bw_in_bounds {x y gy gx ts : Shape} {mt : Moves} (hx : WF x) (hy : WF y) (hgy : WF gy)
    (hgx : WF gx) (hG : Front.transposeBwGuard x y gy gx = .ok ()) (hT : Front.transposeFw gy = .ok (ts, mt)) :
    mt.InBounds gy.size ts.size ∧
    (inplaceAddMoves gx.volume (max ts.batch gx.batch) (b2n gx.hasBatch * gx.volume)
      (b2n ts.hasBatch * gx.volume)).InBounds ts.size gx.size := by
  refine ⟨Kernel.transpose_fw_in_bounds hgy hT, ?_⟩
  unfold Front.transposeBwGuard at hG
  split at hG
  · cases hG
  rename_i hc
  simp only [Bool.or_eq_true, not_or] at hc
  have c1 := not_not_eq hc.1
  have c2 := not_not_eq hc.2
  cases hS : ShapeOps.transpose x with
  | error e => simp [hS, bind, Except.bind] at hG
  | ok s =>
  simp only [hS, bind, Except.bind] at hG
  split at hG
  · cases hG
  rename_i hc3
  have c3 := not_not_eq hc3
  have ⟨hF, _⟩ : ∃ m, Front.transposeFw x = .ok (s, m) := ⟨_, by unfold Front.transposeFw; simp [hS, bind, Except.bind]; rfl⟩
  obtain ⟨hmx, _, hsb, s0, s1, _, _, _, _⟩ := transposeFw_plan hx (by assumption)
  obtain ⟨hmg, hts, htb, t0, t1, _, _, _, htsz⟩ := transposeFw_plan hgy hT
  have ⟨gxg, gxb⟩ := eq_get c1
  have ⟨gyg, gyb⟩ := eq_get c2
  have ⟨ysg, ysb⟩ := eq_get c3
  have hgxm : gx.isMatrix = true := by
    unfold Shape.isMatrix Shape.depth at hmx ⊢
    simp only [decide_eq_true_eq] at hmx ⊢
    unfold Shape.eq Shape.hasSameDims at c1
    simp only [Bool.and_eq_true, beq_iff_eq] at c1
    unfold Shape.depth at c1
    omega
  have e0 : gy.get 0 = gx.get 1 := by rw [← gyg, ysg, s0, gxg]
  have e1 : gy.get 1 = gx.get 0 := by rw [← gyg, ysg, s1, gxg]
  have eb : gy.batch = gx.batch := by rw [← gyb, ysb, hsb, gxb]
  have hv : gx.volume = gx.get 0 * gx.get 1 := matrix_volume hgx hgxm
  rw [htsz, e0, e1, eb, hgx.size_eq, htb, eb, b2n_hasBatch gx hgx, b2n_hasBatch ts hts, htb, eb, hv]
  have := inplaceAdd_bounds (V := gx.get 0 * gx.get 1) (Bx := gx.batch) (By := gx.batch)
    (Nat.mul_pos (hgx.pos 0) (hgx.pos 1)) hgx.bpos hgx.bpos (Or.inl rfl)
  convert this using 2; ring

/-! ### permute_dims -/

/-- permute_dims_fw: reads and writes in bounds, every output element written
exactly once, for every accepted `perm` (the mixed-radix re-encoding `permJ` is
a bijection: Lemmas/MovePermute.lean). -/
theorem Kernel.permute_dims_fw_in_bounds {x ys : Shape} {perm : List Nat} {m : Moves} (hx : WF x)
    (h : Front.permuteFw x perm = .ok (ys, m)) : m.InBounds x.size ys.size ∧ m.WritesAll ys.size ∧ m.WritesOnce := by
  obtain ⟨e1, e2, hb, hw, ho⟩ := permuteFw_facts hx h
  rw [e1, e2]; exact ⟨hb, hw, ho⟩

/-- permute_dims_bw: the same loop nest with source and destination exchanged -/
theorem Kernel.permute_dims_bw_in_bounds {x y gy gx : Shape} {perm : List Nat} {mb : Moves} (hx : WF x) (hy : WF y)
    (hgy : WF gy) (hgx : WF gx) (h : Front.permuteBw x y gy gx perm = .ok mb) : mb.InBounds gy.size gx.size := by
  obtain ⟨m, hF, rfl, rfl, rfl⟩ := permuteBw_plan hx hy hgy hgx h
  exact Moves.swap_inBounds (Kernel.permute_dims_fw_in_bounds hgx hF).1

/-! ### batch kernels -/

theorem Kernel.batch_pick_fw_in_bounds {x ys : Shape} {ids : List Nat} {m : Moves} (hx : WF x) (hlen : ids.length < W)
    (h : Front.batchPickFw x ids = .ok (ys, m)) :
    m.InBounds x.size ys.size ∧ ys.batch ≤ ids.length ∧ m.WritesAll ys.size ∧ m.WritesOnce := by
  have ⟨_, hids, _, hb, _, hm, hxs, hys⟩ := batchPickFw_plan hx hlen h
  rw [hm, hxs, hys]
  exact ⟨batchPick_bounds hids, by omega, writesAll_of_id (fun _ => rfl) (by simp [batchPickMoves, Nat.mul_comm])⟩

theorem Kernel.batch_pick_bw_in_bounds {gy gx : Shape} {ids : List Nat} {m : Moves} (hy : WF gy) (hx : WF gx)
    (hlen : ids.length < W) (h : Front.batchPickBw gy gx ids = .ok m) :
    m.InBounds gy.size gx.size ∧ gy.batch ≤ ids.length := by
  have ⟨_, hids, hb, _, hm, hxs, hys⟩ := batchPickBw_plan hy hx hlen h
  rw [hm, hxs, hys]
  exact ⟨Moves.swap_inBounds (batchPick_bounds hids), by omega⟩

theorem Kernel.batch_slice_fw_in_bounds {x ys : Shape} {lower upper : Nat} {m : Moves} (hx : WF x)
    (h : Front.batchSliceFw x lower upper = .ok (ys, m)) :
    m.InBounds x.size ys.size ∧ m.WritesAll ys.size ∧ m.WritesOnce := by
  have ⟨_, _, _, _, _, hm, hxs, hys⟩ := batchSliceFw_plan hx h
  rw [hm, hxs, hys]
  exact ⟨batchSliceFw_bounds (by omega), writesAll_of_id (fun _ => rfl) rfl⟩

theorem Kernel.batch_slice_bw_in_bounds {sy sx : Shape} {offset : Nat} {m : Moves} (hy : WF sy) (hx : WF sx)
    (hoff : offset < W) (h : Front.batchSliceBw sy sx offset = .ok m) : m.InBounds sy.size sx.size := by
  have ⟨_, hg, _, hm, hxs, hys⟩ := batchSliceBw_plan hy hx hoff h
  rw [hm, hxs, hys]
  exact batchSliceBw_bounds hg hx.fits

theorem Kernel.batch_sum_fw_in_bounds {x ys : Shape} {r : Reduce} (hx : WF x)
    (h : Front.batchSumFw x = .ok (ys, r)) : r.InBounds x.size ∧ r.rep = ys.size := by
  have ⟨_, _, _, hr, hxs, hys⟩ := batchSumFw_plan hx h
  rw [hr, hxs, hys]
  exact ⟨batchSum_bounds _ _, rfl⟩

/-- batch_concat_fw: every loop nest (one per operand) reads its operand and
writes the output in bounds, and together they write every output element. -/
theorem Kernel.batch_concat_fw_in_bounds {xs : List Shape} {ys : Shape} {ms : List Moves} (hxs : ∀ s ∈ xs, WF s)
    (h : Front.batchConcatFw xs = .ok (ys, ms)) :
    ms.length = xs.length ∧
    (∀ p (hp : p < xs.length) (hp' : p < ms.length), ms[p].InBounds xs[p].size ys.size) ∧
    (∀ o, o < ys.size → ∃ p, ∃ hp : p < ms.length, ∃ t, t < ms[p].count ∧ ms[p].didx t = o) := by
  obtain ⟨x0, rest, hcons, _, _, _, _, hys, rfl, hall⟩ := batchConcatFw_plan hxs h
  have hsum := sizes_sum (V := x0.volume) (fun s hs => (hall s hs).2)
  refine ⟨batchConcatPlan_length _ _, ?_, ?_⟩
  · intro p hp hp' t ht
    rw [batchConcatPlan_get _ _ _ hp] at ht ⊢
    simp only [batchConcatMoves, Nat.zero_add] at ht ⊢
    have := take_sum_succ_le (xs.map (·.size)) p (by simpa using hp)
    simp only [List.getElem_map, ← List.map_take] at this
    rw [hys, ← hsum]
    exact ⟨ht, by omega⟩
  · intro o ho
    rw [hys, ← hsum] at ho
    obtain ⟨p, hp, h1, h2⟩ := exists_block _ o ho
    have hp2 : p < xs.length := by simpa using hp
    refine ⟨p, by rw [batchConcatPlan_length]; exact hp2, o - ((xs.take p).map (·.size)).sum, ?_, ?_⟩
    · rw [batchConcatPlan_get _ _ _ hp2]
      simp only [batchConcatMoves, List.getElem_map, ← List.map_take] at h1 h2 ⊢; omega
    · rw [batchConcatPlan_get _ _ _ hp2]
      simp only [batchConcatMoves, ← List.map_take] at h1 ⊢; omega

/-- concat_fw: every loop nest (one per operand) reads its operand and writes the
output in bounds, and together they write every output element. -/
theorem Kernel.concat_fw_in_bounds {xs : List Shape} {ys : Shape} {ms : List Moves} {dim : Nat} (hxs : ∀ s ∈ xs, WF s)
    (h : Front.concatFw xs dim = .ok (ys, ms)) :
    ms.length = xs.length ∧
    (∀ p (hp : p < xs.length) (hp' : p < ms.length), ms[p].InBounds xs[p].size ys.size) ∧
    (∀ o, o < ys.size → ∃ p, ∃ hp : p < ms.length, ∃ t, t < ms[p].count ∧ ms[p].didx t = o) := by
  obtain ⟨x0, rest, hcons, _, hy, _, _, hms⟩ := concatFw_plan hxs h
  have hlen : ms.length = xs.length := by rw [hms, concatPlan_length]
  have hL := lo_pos hy dim
  have hU := up_pos hy dim
  refine ⟨hlen, ?_, ?_⟩
  · intro p hp hp'
    obtain ⟨_, hm, hps, hyss, hN, hbp⟩ := concatFw_entry hxs h p hp
    have hxp := hxs _ (List.getElem_mem hp)
    rw [hm, hps, hyss]
    apply concat_bounds hL (hxp.pos dim) hU hxp.bpos _ hbp
    have := take_sum_succ_le (xs.map (·.get dim)) p (by simpa using hp)
    simp only [List.getElem_map, ← List.map_take] at this
    rw [hN]; exact this
  · intro o ho
    have ⟨_, _, _, hyss, hN, _⟩ := concatFw_entry hxs h 0 (by rw [hcons]; simp)
    rw [hyss] at ho
    have ho' : o < lo ys dim * ys.get dim * (up ys dim * ys.batch) := by rw [← Nat.mul_assoc]; exact ho
    have hkk := Nat.lt_of_lt_of_eq (View3.onAxis_lt (lo := lo ys dim) (i := o) (hy.pos dim)) hN
    obtain ⟨p, hp, h1, h2⟩ := exists_block _ _ hkk
    have hp2 : p < xs.length := by simpa using hp
    obtain ⟨hp', hm, _, _, _, hbp⟩ := concatFw_entry hxs h p hp2
    simp only [List.getElem_map, ← List.map_take] at h1 h2
    have hcc := View3.above_lt ho'
    have hc : View3.above (lo ys dim) (ys.get dim) o % up ys dim < up ys dim := Nat.mod_lt _ hU
    have hb : View3.above (lo ys dim) (ys.get dim) o / up ys dim < ys.batch := Nat.div_lt_of_lt_mul hcc
    have ⟨s1, s2, _⟩ := concat_step (B := ys.batch) (L := lo ys dim) (N := ys.get dim) (U := up ys dim)
      (s := ((xs.take p).map (·.get dim)).sum) (n := xs[p].get dim) (Bp := xs[p].batch)
      (a := View3.below (lo ys dim) o) (k := View3.onAxis (lo ys dim) (ys.get dim) o - ((xs.take p).map (·.get dim)).sum)
      (View3.below_lt hL) (by omega) hc hb hbp
    refine ⟨p, hp', _, by rw [hm]; exact s1, ?_⟩
    rw [hm, s2]
    have e1 : ((xs.take p).map (·.get dim)).sum + (View3.onAxis (lo ys dim) (ys.get dim) o - ((xs.take p).map (·.get dim)).sum)
        = View3.onAxis (lo ys dim) (ys.get dim) o := by omega
    have e2 : View3.above (lo ys dim) (ys.get dim) o % up ys dim + up ys dim * (View3.above (lo ys dim) (ys.get dim) o / up ys dim)
        = View3.above (lo ys dim) (ys.get dim) o := Nat.mod_add_div _ _
    rw [e1, e2, View3.comp3_decomp]

/-! ### copy, identity, creation -/

theorem Kernel.copy_in_bounds (n : Nat) :
    (copyMoves n).InBounds n n ∧ (copyMoves n).WritesAll n ∧ (copyMoves n).WritesOnce :=
  ⟨copy_bounds n, writesAll_of_id (fun _ => rfl) rfl⟩

theorem Kernel.identity_in_bounds {size : Nat} {ys : Shape} (h : Front.identity size = .ok ys) :
    ys.size = size * size ∧ ∀ i, i < size → i * (size + 1) < ys.size := by
  unfold Front.identity at h
  split at h
  · cases h
  · have ⟨hy, hb, hg, _, hlen⟩ := new_ok h
    have hm : ys.isMatrix = true := by
      unfold Shape.isMatrix Shape.depth; simp only [decide_eq_true_eq]; exact hlen
    have hs : ys.size = size * size := by
      rw [hy.size_eq, matrix_volume hy hm, hb, hg, hg]; simp [List.getD]
    exact ⟨hs, fun i hi => by rw [hs]; exact identity_bounds hi⟩

/-! ### new_handle (defect #9 of DESIGN.md section 4, read, never run) -/

/-- On the pinned tree `mem_size` is a `std::uint32_t`: a shape the constructor
admits (2^30 elements) asks for 0 bytes. -/
theorem NewHandle.pinned_truncates :
    ∃ s, WF s ∧ Front.memSizePinned s < 4 * s.size := by
  refine ⟨⟨[32768, 32768], 1, 1073741824⟩, (new_ok (dims := [32768, 32768]) (b := 1) (by decide)).1, by decide⟩

/-- With `std::size_t` (patches/fix-new-handle-size.diff) the byte count is exact
for every shape. -/
theorem NewHandle.size_t_exact {s : Shape} (hs : WF s) : Front.memSize s = 4 * s.size := by
  unfold Front.memSize
  have : s.size < W := by rw [hs.size_eq]; exact hs.fits
  exact Nat.mod_eq_of_lt (by
    have h1 : W * W = 18446744073709551616 := by decide
    have h2 : W = 4294967296 := rfl
    omega)

/-! ### `crash` is unreachable (C10 `Api.no_crash`, for the entry points of this family)

For every tensor whose shape is well-formed — valid or not for the call, on this
device, on another one, or invalid — and all argument values, the modelled
entry point returns `ok` or `error`, never `crash`: it neither indexes out of
bounds nor leaves an output element unwritten.  -/

theorem Api.slice_fw_no_crash {α} (x : Tensor α) (hx : WF x.shape) (dim lower upper : Nat) (raw : Nat → α) :
    NoCrash (Move.sliceFw x dim lower upper raw) := by
  unfold Move.sliceFw
  refine noCrash_bind (checkDevice_noCrash x) (fun _ _ => noCrash_bind ?_ (fun p hp => ?_))
  · unfold Front.sliceFw
    exact noCrash_bind (Rules.slice_noCrash hx _ _ _) (fun _ _ => noCrash_pure _)
  · obtain ⟨ys, m⟩ := p
    simp only
    rw [runSet_ok (Kernel.slice_fw_in_bounds hx hp) (Kernel.slice_fw_writes_all hx hp).1]
    exact noCrash_ok _

theorem Api.slice_bw_no_crash {α} [Add α] (gy gx : Tensor α) (hy : WF gy.shape) (hx : WF gx.shape) (dim offset : Nat)
    (hoff : offset < W) : NoCrash (Move.sliceBw gy dim offset gx) := by
  unfold Move.sliceBw Move.sliceBwWith
  refine noCrash_bind (checkDevice_noCrash gy) (fun _ _ => noCrash_bind (checkDevice_noCrash gx) (fun _ _ =>
    noCrash_bind ?_ (fun p hp => ?_)))
  · unfold Front.sliceBw Front.sliceBwWith
    refine noCrash_bind (Rules.hasSameLooDims_noCrash _ _ _) (fun _ _ => noCrash_ite (fun _ => noCrash_throw) (fun _ => ?_))
    exact noCrash_ite (fun _ => noCrash_pure _) (fun _ => noCrash_pure _)
  · rw [runAdd_ok (Kernel.slice_bw_in_bounds hy hx hoff hp)]
    exact noCrash_ok _

theorem Api.pick_fw_no_crash {α} (x : Tensor α) (hx : WF x.shape) (ids : List Nat) (hlen : ids.length < W) (dim : Nat)
    (raw : Nat → α) : NoCrash (Move.pickFw x ids dim raw) := by
  unfold Move.pickFw
  refine noCrash_bind (checkDevice_noCrash x) (fun _ _ => noCrash_bind ?_ (fun p hp => ?_))
  · unfold Front.pickFw
    exact noCrash_bind (Rules.pick_noCrash hx _ _) (fun _ _ => noCrash_pure _)
  · obtain ⟨ys, m⟩ := p
    simp only
    have ⟨hb, hi⟩ := Kernel.pick_fw_in_bounds hx hlen hp
    rw [hi]
    simp only [Bool.not_true, Bool.false_eq_true, if_false]
    rw [runSet_ok hb (Kernel.pick_fw_writes_all hx hlen hp).1]
    exact noCrash_ok _

theorem Api.pick_bw_no_crash {α} [Add α] (gy gx : Tensor α) (hy : WF gy.shape) (hx : WF gx.shape) (ids : List Nat)
    (hlen : ids.length < W) (dim : Nat) : NoCrash (Move.pickBw gy ids dim gx) := by
  unfold Move.pickBw
  refine noCrash_bind (checkDevice_noCrash gy) (fun _ _ => noCrash_bind (checkDevice_noCrash gx) (fun _ _ =>
    noCrash_bind ?_ (fun m hp => ?_)))
  · unfold Front.pickBw
    exact noCrash_bind (Rules.pick_noCrash hx _ _) (fun _ _ => noCrash_ite (fun _ => noCrash_throw) (fun _ => noCrash_pure _))
  · have ⟨hb, hi⟩ := Kernel.pick_bw_in_bounds hy hx hlen hp
    rw [hi]
    simp only [Bool.not_true, Bool.false_eq_true, if_false]
    rw [runAdd_ok hb]
    exact noCrash_ok _

theorem Api.flip_fw_no_crash {α} (x : Tensor α) (hx : WF x.shape) (dim : Nat) (raw : Nat → α) :
    NoCrash (Move.flipFw x dim raw) := by
  unfold Move.flipFw
  refine noCrash_bind (checkDevice_noCrash x) (fun _ _ => noCrash_bind (noCrash_pure _) (fun p hp => ?_))
  obtain ⟨ys, m⟩ := p
  simp only
  rw [runSet_ok (Kernel.flip_fw_in_bounds hx hp) (Kernel.flip_fw_writes_all hx hp).1]
  exact noCrash_ok _

theorem Api.flip_bw_no_crash {α} [Add α] (gy gx : Tensor α) (hy : WF gy.shape) (hx : WF gx.shape) (dim : Nat) :
    NoCrash (Move.flipBw gy dim gx) := by
  unfold Move.flipBw
  refine noCrash_bind (checkDevice_noCrash gy) (fun _ _ => noCrash_bind (checkDevice_noCrash gx) (fun _ _ =>
    noCrash_bind ?_ (fun m hp => ?_)))
  · unfold Front.flipBw
    exact noCrash_ite (fun _ => noCrash_throw) (fun _ => noCrash_pure _)
  · rw [runAdd_ok (Kernel.flip_bw_in_bounds hy hx hp)]
    exact noCrash_ok _

theorem reduceFw_noCrash {x : Shape} (hx : WF x) (dim : Nat) : NoCrash (Front.reduceFw x dim) := by
  unfold Front.reduceFw
  exact noCrash_bind (Rules.updateDim_noCrash hx _ _) (fun _ _ => noCrash_pure _)

theorem reduce_no_crash {α} (x : Tensor α) (hx : WF x.shape) (dim : Nat) (f : (Nat → α) → (Nat → Nat) → Nat → α) :
    NoCrash (do checkDevice x; let (ys, r) ← Front.reduceFw x.shape dim; runReduce r x ys f) := by
  refine noCrash_bind (checkDevice_noCrash x) (fun _ _ => noCrash_bind (reduceFw_noCrash hx dim) (fun p hp => ?_))
  obtain ⟨ys, r⟩ := p
  simp only
  have ⟨hb, hr, _⟩ := Kernel.reduce_fw_in_bounds hx hp
  rw [runReduce_ok hb hr]
  exact noCrash_ok _

theorem Api.sum_fw_no_crash {α} [Add α] [Zero α] (x : Tensor α) (hx : WF x.shape) (dim : Nat) : NoCrash (sumFw x dim) :=
  reduce_no_crash x hx dim sumLoop

theorem Api.max_fw_no_crash {α} [LT α] [DecidableLT α] (x : Tensor α) (hx : WF x.shape) (dim : Nat) : NoCrash (maxFw x dim) :=
  reduce_no_crash x hx dim maxLoop

theorem Api.min_fw_no_crash {α} [LT α] [DecidableLT α] (x : Tensor α) (hx : WF x.shape) (dim : Nat) : NoCrash (minFw x dim) :=
  reduce_no_crash x hx dim minLoop

theorem Api.max_bw_no_crash {α} [Add α] [DecidableEq α] (x y gy gx : Tensor α) (hx : WF x.shape) (hy : WF y.shape)
    (hgy : WF gy.shape) (hgx : WF gx.shape) (dim : Nat) : NoCrash (Move.maxBw x y gy dim gx) := by
  unfold Move.maxBw
  refine noCrash_bind (checkDevice_noCrash x) (fun _ _ => noCrash_bind (checkDevice_noCrash y) (fun _ _ =>
    noCrash_bind (checkDevice_noCrash gy) (fun _ _ => noCrash_bind (checkDevice_noCrash gx) (fun _ _ =>
    noCrash_bind ?_ (fun r hp => ?_)))))
  · unfold Front.maxBw
    exact noCrash_bind (Rules.updateDim_noCrash hx _ _) (fun _ _ => noCrash_ite (fun _ => noCrash_throw) (fun _ => noCrash_pure _))
  · have ⟨h1, h2, h3, h4⟩ := Kernel.max_bw_in_bounds hx hy hgy hgx hp
    rw [Reduce.inBounds_iff.mpr h1, Reduce.inBounds_iff.mpr h2]
    have e1 : ¬ r.rep > y.shape.size := by omega
    have e2 : ¬ r.rep > gy.shape.size := by omega
    simp only [Bool.not_true, Bool.false_or, decide_eq_true_eq, e1, e2, or_self, if_false]
    exact noCrash_pure _

theorem Api.min_bw_no_crash {α} [Add α] [DecidableEq α] (x y gy gx : Tensor α) (hx : WF x.shape) (hy : WF y.shape)
    (hgy : WF gy.shape) (hgx : WF gx.shape) (dim : Nat) : NoCrash (Move.minBw x y gy dim gx) :=
  Api.max_bw_no_crash x y gy gx hx hy hgy hgx dim

theorem Api.broadcast_fw_no_crash {α} (x : Tensor α) (hx : WF x.shape) (dim size : Nat) (raw : Nat → α) :
    NoCrash (Move.broadcastFw x dim size raw) := by
  unfold Move.broadcastFw
  refine noCrash_bind (checkDevice_noCrash x) (fun _ _ => noCrash_bind ?_ (fun p hp => ?_))
  · unfold Front.broadcastFw
    exact noCrash_bind (Rules.broadcast_noCrash hx _ _) (fun _ _ => noCrash_pure _)
  · obtain ⟨ys, m⟩ := p
    simp only
    rw [runSet_ok (Kernel.broadcast_fw_in_bounds hx hp) (Kernel.broadcast_fw_writes_all hx hp).1]
    exact noCrash_ok _

/-- argmax / argmin: no argument value at all can make them index out of bounds -/
theorem Api.argmax_no_crash {α} [LT α] [DecidableLT α] (x : Tensor α) (hx : WF x.shape) (dim : Nat) :
    NoCrash (argmax x dim) := by
  unfold argmax argList
  refine noCrash_bind (checkDevice_noCrash x) (fun _ _ => ?_)
  rw [Reduce.inBounds_iff.mpr (Kernel.argmax_in_bounds hx dim).1]
  exact noCrash_pure _

theorem Api.argmin_no_crash {α} [LT α] [DecidableLT α] (x : Tensor α) (hx : WF x.shape) (dim : Nat) :
    NoCrash (argmin x dim) := by
  unfold argmin argList
  refine noCrash_bind (checkDevice_noCrash x) (fun _ _ => ?_)
  rw [Reduce.inBounds_iff.mpr (Kernel.argmax_in_bounds hx dim).1]
  exact noCrash_pure _

theorem transposeFw_noCrash (x : Shape) : NoCrash (Front.transposeFw x) := by
  unfold Front.transposeFw
  exact noCrash_bind (Rules.transpose_noCrash _) (fun _ _ => noCrash_pure _)

theorem Api.transpose_fw_no_crash {α} (x : Tensor α) (hx : WF x.shape) (raw : Nat → α) : NoCrash (Move.transposeFw x raw) := by
  unfold Move.transposeFw
  refine noCrash_bind (checkDevice_noCrash x) (fun _ _ => noCrash_bind (transposeFw_noCrash _) (fun p hp => ?_))
  obtain ⟨ys, m⟩ := p
  simp only
  rw [runSet_ok (Kernel.transpose_fw_in_bounds hx hp) (Kernel.transpose_fw_writes_all hx hp).1]
  exact noCrash_ok _

theorem Api.batch_pick_fw_no_crash {α} (x : Tensor α) (hx : WF x.shape) (ids : List Nat) (hlen : ids.length < W)
    (raw : Nat → α) : NoCrash (Move.batchPickFw x ids raw) := by
  unfold Move.batchPickFw
  refine noCrash_bind (checkDevice_noCrash x) (fun _ _ => noCrash_bind ?_ (fun p hp => ?_))
  · unfold Front.batchPickFw
    exact noCrash_bind (Rules.batchPick_noCrash _ _) (fun _ _ => noCrash_pure _)
  · obtain ⟨ys, m⟩ := p
    simp only
    have ⟨hb, hle, hw, _⟩ := Kernel.batch_pick_fw_in_bounds hx hlen hp
    rw [if_neg (by omega), runSet_ok hb hw]
    exact noCrash_ok _

theorem Api.batch_pick_bw_no_crash {α} [Add α] (gy gx : Tensor α) (hy : WF gy.shape) (hx : WF gx.shape) (ids : List Nat)
    (hlen : ids.length < W) : NoCrash (Move.batchPickBw gy ids gx) := by
  unfold Move.batchPickBw
  refine noCrash_bind (checkDevice_noCrash gy) (fun _ _ => noCrash_bind (checkDevice_noCrash gx) (fun _ _ =>
    noCrash_bind ?_ (fun m hp => ?_)))
  · unfold Front.batchPickBw
    exact noCrash_bind (Rules.batchPick_noCrash _ _) (fun _ _ => noCrash_ite (fun _ => noCrash_throw) (fun _ => noCrash_pure _))
  · have ⟨hb, hle⟩ := Kernel.batch_pick_bw_in_bounds hy hx hlen hp
    rw [if_neg (by omega), runAdd_ok hb]
    exact noCrash_ok _

theorem Api.batch_slice_fw_no_crash {α} (x : Tensor α) (hx : WF x.shape) (lower upper : Nat) (raw : Nat → α) :
    NoCrash (Move.batchSliceFw x lower upper raw) := by
  unfold Move.batchSliceFw
  refine noCrash_bind (checkDevice_noCrash x) (fun _ _ => noCrash_bind ?_ (fun p hp => ?_))
  · unfold Front.batchSliceFw
    exact noCrash_bind (Rules.batchSlice_noCrash _ _ _) (fun _ _ => noCrash_pure _)
  · obtain ⟨ys, m⟩ := p
    simp only
    have ⟨hb, hw, _⟩ := Kernel.batch_slice_fw_in_bounds hx hp
    rw [runSet_ok hb hw]
    exact noCrash_ok _

theorem Api.batch_slice_bw_no_crash {α} [Add α] (gy gx : Tensor α) (hy : WF gy.shape) (hx : WF gx.shape) (offset : Nat)
    (hoff : offset < W) : NoCrash (Move.batchSliceBw gy offset gx) := by
  unfold Move.batchSliceBw Move.batchSliceBwWith
  refine noCrash_bind (checkDevice_noCrash gy) (fun _ _ => noCrash_bind (checkDevice_noCrash gx) (fun _ _ =>
    noCrash_bind ?_ (fun m hp => ?_)))
  · unfold Front.batchSliceBw Front.batchSliceBwWith
    exact noCrash_ite (fun _ => noCrash_throw) (fun _ => noCrash_pure _)
  · rw [runAdd_ok (Kernel.batch_slice_bw_in_bounds hy hx hoff hp)]
    exact noCrash_ok _

theorem Api.batch_sum_fw_no_crash {α} [Add α] [Zero α] (x : Tensor α) (hx : WF x.shape) : NoCrash (Move.batchSumFw x) := by
  unfold Move.batchSumFw
  refine noCrash_bind (checkDevice_noCrash x) (fun _ _ => noCrash_bind ?_ (fun p hp => ?_))
  · unfold Front.batchSumFw
    exact noCrash_bind (Rules.updateBatch_noCrash _ _) (fun _ _ => noCrash_pure _)
  · obtain ⟨ys, r⟩ := p
    simp only
    have ⟨hb, hr⟩ := Kernel.batch_sum_fw_in_bounds hx hp
    rw [runReduce_ok hb hr]
    exact noCrash_ok _

theorem many_no_crash {α} {xs : List (Tensor α)} {ys : Shape} {ms : List Moves} (raw : Nat → α)
    (hlen : ms.length = xs.length)
    (hb : ∀ p (hp : p < xs.length) (hp' : p < ms.length), ms[p].InBounds xs[p].shape.size ys.size)
    (hall : ∀ o, o < ys.size → ∃ p, ∃ hp : p < ms.length, ∃ t, t < ms[p].count ∧ ms[p].didx t = o) :
    NoCrash (do let d ← runSetMany ys (ms.zip xs) raw
                if !manyCover ms ys.size then (crash : R (Tensor α)) else pure ⟨ys, d, .here⟩) := by
  have hbz : ∀ e ∈ ms.zip xs, e.1.InBounds e.2.shape.size ys.size := by
    intro e he
    obtain ⟨q, hq, rfl⟩ := List.getElem_of_mem he
    simp only [List.length_zip] at hq
    rw [List.getElem_zip]
    exact hb q (by omega) (by omega)
  obtain ⟨d, hd⟩ := runSetMany_ok (ms.zip xs) raw hbz
  have hc : manyCover ms ys.size = true := by
    rw [manyCover_iff]
    intro o ho
    obtain ⟨p, hp, t, ht, e⟩ := hall o ho
    exact ⟨ms[p], List.getElem_mem hp, t, ht, e⟩
  rw [hd]
  simp only [bind, Except.bind, hc, Bool.not_true, Bool.false_eq_true, if_false]
  exact noCrash_pure _

theorem Api.concat_fw_no_crash {α} (xs : List (Tensor α)) (hxs : ∀ x ∈ xs, WF x.shape) (dim : Nat) (raw : Nat → α) :
    NoCrash (Move.concatFw xs dim raw) := by
  unfold Move.concatFw
  refine noCrash_ite (fun _ => noCrash_throw) (fun _ => noCrash_bind (checkAll_noCrash xs) (fun _ _ => ?_))
  have hsh : ∀ s ∈ xs.map (·.shape), WF s := by
    intro s hs
    obtain ⟨x, hx, rfl⟩ := List.mem_map.mp hs
    exact hxs x hx
  refine noCrash_bind ?_ (fun p hp => ?_)
  · unfold Front.concatFw
    refine noCrash_ite (fun _ => noCrash_throw) (fun _ => noCrash_bind (Rules.concat_noCrash hsh dim) (fun _ _ => noCrash_pure _))
  · obtain ⟨ys, ms⟩ := p
    simp only
    have ⟨hlen, hb, hall⟩ := Kernel.concat_fw_in_bounds hsh hp
    refine many_no_crash raw (by simpa using hlen) ?_ hall
    intro q hq hq'
    have := hb q (by simpa using hq) hq'
    simpa using this

theorem Api.batch_concat_fw_no_crash {α} (xs : List (Tensor α)) (hxs : ∀ x ∈ xs, WF x.shape) (raw : Nat → α) :
    NoCrash (Move.batchConcatFw xs raw) := by
  unfold Move.batchConcatFw
  refine noCrash_ite (fun _ => noCrash_throw) (fun _ => noCrash_bind (checkAll_noCrash xs) (fun _ _ => ?_))
  have hsh : ∀ s ∈ xs.map (·.shape), WF s := by
    intro s hs
    obtain ⟨x, hx, rfl⟩ := List.mem_map.mp hs
    exact hxs x hx
  refine noCrash_bind ?_ (fun p hp => ?_)
  · unfold Front.batchConcatFw
    refine noCrash_ite (fun _ => noCrash_throw) (fun _ => noCrash_bind (Rules.batchConcat_noCrash _) (fun _ _ => noCrash_pure _))
  · obtain ⟨ys, ms⟩ := p
    simp only
    have ⟨hlen, hb, hall⟩ := Kernel.batch_concat_fw_in_bounds hsh hp
    refine many_no_crash raw (by simpa using hlen) ?_ hall
    intro q hq hq'
    have := hb q (by simpa using hq) hq'
    simpa using this

theorem Api.transpose_bw_no_crash {α} [Add α] (x y gy gx : Tensor α) (hx : WF x.shape) (hy : WF y.shape)
    (hgy : WF gy.shape) (hgx : WF gx.shape) (raw : Nat → α) : NoCrash (Move.transposeBw x y gy gx raw) := by
  unfold Move.transposeBw
  refine noCrash_bind (checkDevice_noCrash x) (fun _ _ => noCrash_bind (checkDevice_noCrash y) (fun _ _ =>
    noCrash_bind (checkDevice_noCrash gy) (fun _ _ => noCrash_bind (checkDevice_noCrash gx) (fun _ _ =>
    noCrash_bind ?_ (fun u hG => noCrash_bind (Api.transpose_fw_no_crash gy hgy raw) (fun t hT => ?_))))))
  · unfold Front.transposeBwGuard
    refine noCrash_ite (fun _ => noCrash_throw) (fun _ => noCrash_bind (Rules.transpose_noCrash _) (fun _ _ => ?_))
    exact noCrash_ite (fun _ => noCrash_throw) (fun _ => noCrash_pure _)
  · unfold Move.transposeFw at hT
    obtain ⟨_, ts, mt, hF, _, _, rfl⟩ := fw_inv hT
    have := (Kernel.transpose_bw_in_bounds hx hy hgy hgx hG hF).2
    rw [runAdd_ok this]
    exact noCrash_ok _

theorem Api.permute_dims_fw_no_crash {α} (x : Tensor α) (hx : WF x.shape) (perm : List Nat) (raw : Nat → α) :
    NoCrash (Move.permuteFw x perm raw) := by
  unfold Move.permuteFw
  refine noCrash_bind (checkDevice_noCrash x) (fun _ _ => noCrash_bind ?_ (fun p hp => ?_))
  · unfold Front.permuteFw
    exact noCrash_bind (Rules.permuteDims_noCrash _ _) (fun _ _ => noCrash_pure _)
  · obtain ⟨ys, m⟩ := p
    simp only
    have ⟨hb, hw, _⟩ := Kernel.permute_dims_fw_in_bounds hx hp
    rw [runSet_ok hb hw]
    exact noCrash_ok _

theorem Api.permute_dims_bw_no_crash {α} [Add α] (x y gy gx : Tensor α) (hx : WF x.shape) (hy : WF y.shape)
    (hgy : WF gy.shape) (hgx : WF gx.shape) (perm : List Nat) : NoCrash (Move.permuteBw x y gy perm gx) := by
  unfold Move.permuteBw
  refine noCrash_bind (checkDevice_noCrash x) (fun _ _ => noCrash_bind (checkDevice_noCrash y) (fun _ _ =>
    noCrash_bind (checkDevice_noCrash gy) (fun _ _ => noCrash_bind (checkDevice_noCrash gx) (fun _ _ =>
    noCrash_bind ?_ (fun m hp => ?_)))))
  · unfold Front.permuteBw
    exact noCrash_bind (Rules.permuteDims_noCrash _ _) (fun _ _ => noCrash_ite (fun _ => noCrash_throw) (fun _ => noCrash_pure _))
  · rw [runAdd_ok (Kernel.permute_dims_bw_in_bounds hx hy hgy hgx hp)]
    exact noCrash_ok _

theorem Api.copy_no_crash {α} (x : Tensor α) (raw : Nat → α) : NoCrash (copyTensor x raw) := by
  unfold copyTensor
  refine noCrash_ite (fun _ => noCrash_throw) (fun _ => ?_)
  rw [runSet_ok (Kernel.copy_in_bounds _).1 (Kernel.copy_in_bounds _).2.1]
  exact noCrash_ok _

theorem Api.identity_no_crash {α} (zero one : α) (size : Nat) : NoCrash (Move.identity zero one size) := by
  unfold Move.identity
  refine noCrash_bind ?_ (fun ys hp => ?_)
  · unfold Front.identity
    exact noCrash_ite (fun _ => noCrash_throw) (fun _ => Rules.new_noCrash _ _)
  · have ⟨_, hb⟩ := Kernel.identity_in_bounds hp
    rw [allBelow_iff.mpr hb]
    exact noCrash_pure _

theorem Api.creation_no_crash {α} (x : Tensor α) (k : α) (values : List α) (raw : Nat → α) :
    NoCrash (newConstant x.shape k) ∧ NoCrash (resetTensor k x) ∧ NoCrash (resetByVector values k x raw) ∧
    NoCrash (resetByArray (fun i => values.getD i k) x raw) ∧ NoCrash (toVector x) := by
  refine ⟨noCrash_pure _, ?_, ?_, ?_, ?_⟩
  · unfold resetTensor
    exact noCrash_bind (checkDevice_noCrash x) (fun _ _ => noCrash_pure _)
  · unfold resetByVector
    refine noCrash_bind (checkDevice_noCrash x) (fun _ _ => noCrash_ite (fun _ => noCrash_throw) (fun _ => ?_))
    rw [runSet_ok (Kernel.copy_in_bounds _).1 (Kernel.copy_in_bounds _).2.1]
    exact noCrash_ok _
  · unfold resetByArray
    refine noCrash_bind (checkDevice_noCrash x) (fun _ _ => ?_)
    rw [runSet_ok (Kernel.copy_in_bounds _).1 (Kernel.copy_in_bounds _).2.1]
    exact noCrash_ok _
  · unfold toVector
    exact noCrash_bind (checkDevice_noCrash x) (fun _ _ => noCrash_pure _)

end Primitiv.C11.Move
