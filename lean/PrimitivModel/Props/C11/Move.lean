import PrimitivModel.Model.KernelsMove
namespace Primitiv.C11.Move
end Primitiv.C11.Move
