import PrimitivModel.Lemmas.Optim
/-
C12 — optimizers implement their update rules over arbitrary training histories.

Objects: `Gen/Optimizers.lean` (generated from optimizer_impl.{h,cc} and
optimizer.{h,cc} on every run), `Model/Optimizer.lean` (hand-written
`Optimizer::update`, `add`, `reset_gradients`, settings), `Spec/Optimizers.lean`
(the textbook equations and what `update()` must do).  All statements are over
an arbitrary linearly ordered field `K` (ℝ where the square root matters);
float32 rounding and the float evaluation of `std::pow` are outside (measured
by the correspondence run, see props/C12.py).
-/
set_option linter.unusedSectionVars false
namespace Primitiv.C12
open Primitiv.Opt Primitiv.Gen.Opt

section field
variable {K : Type} [Field K]

/-! ### the generated statement sequences are the textbook equations -/

theorem Opt.sgd_update_spec (F : Fns K) (η s : K) (e : Nat) (g θ : K) :
    sgd_update F η s e g θ = (Spec.sgd η s g θ, []) := sgd_eq F η s e g θ

theorem Opt.momentumsgd_update_spec (F : Fns K) (η μ s : K) (e : Nat) (g θ m : K) :
    momentumsgd_update F η μ s e g θ m =
      ((Spec.momentum η μ s g θ m).1, [(Spec.momentum η μ s g θ m).2]) := momentumsgd_eq F η μ s e g θ m

theorem Opt.adagrad_update_spec (F : Fns K) (η ε s : K) (e : Nat) (g θ m : K) :
    adagrad_update F η ε s e g θ m =
      ((Spec.adagrad F η ε s g θ m).1, [(Spec.adagrad F η ε s g θ m).2]) := adagrad_eq F η ε s e g θ m

theorem Opt.rmsprop_update_spec (F : Fns K) (η a ε s : K) (e : Nat) (g θ m : K) :
    rmsprop_update F η a ε s e g θ m =
      ((Spec.rmsprop F η a ε s g θ m).1, [(Spec.rmsprop F η a ε s g θ m).2]) := rmsprop_eq F η a ε s e g θ m

/-- in particular `m2` is updated before `dx` is formed and `m1` after -/
theorem Opt.adadelta_update_spec (F : Fns K) (ρ ε s : K) (e : Nat) (g θ m1 m2 : K) :
    adadelta_update F ρ ε s e g θ m1 m2 =
      ((Spec.adadelta F ρ ε s g θ m1 m2).1,
       [(Spec.adadelta F ρ ε s g θ m1 m2).2.1, (Spec.adadelta F ρ ε s g θ m1 m2).2.2]) :=
  adadelta_eq F ρ ε s e g θ m1 m2

/-- bias correction with `epoch + 1` (as a 32-bit counter) -/
theorem Opt.adam_update_spec (F : Fns K) (a β1 β2 ε s : K) (e : Nat) (g θ m1 m2 : K) :
    adam_update F a β1 β2 ε s e g θ m1 m2 =
      ((Spec.adam F a β1 β2 ε s ((e + 1) % 4294967296) g θ m1 m2).1,
       [(Spec.adam F a β1 β2 ε s ((e + 1) % 4294967296) g θ m1 m2).2.1,
        (Spec.adam F a β1 β2 ε s ((e + 1) % 4294967296) g θ m1 m2).2.2]) :=
  adam_eq F a β1 β2 ε s e g θ m1 m2

/-- the specification-level power is the power of the field -/
theorem Opt.npow_eq_pow (b : K) (n : Nat) : npow b n = b ^ n := by
  induction n with
  | zero => simp [npow]
  | succ n ih => simp [npow, ih, pow_succ]

/-- Adam written out: when `std::pow` is the power and the epoch counter does
not wrap, the new value is `θ − (s·α)·( m̂₁ / (√m̂₂ + ε) )` with
`m̂ᵢ = mᵢ' / (1 − βᵢ^(epoch+1))`. -/
theorem Opt.adam_bias_correction (F : Fns K) (hF : ∀ b n, F.pow b n = b ^ n) (a β1 β2 ε s : K) (e : Nat)
    (he : e + 1 < 4294967296) (g θ m1 m2 : K) :
    (adam_update F a β1 β2 ε s e g θ m1 m2).1 =
      θ - (s * a) * (((β1 * m1 + (1 - β1) * g) / (1 - β1 ^ (e + 1))) /
        (F.sqrt ((β2 * m2 + (1 - β2) * (g * g)) / (1 - β2 ^ (e + 1))) + ε)) := by
  rw [Opt.adam_update_spec, Nat.mod_eq_of_lt he]
  simp only [Spec.adam, hF]

example : ∃ F : Fns ℚ, ∀ b n, F.pow b n = b ^ n := ⟨⟨fun x => x, fun b n => b ^ n, fun _ => 0⟩, fun _ _ => rfl⟩

/-- every algorithm's dispatcher entry, for hyper-parameter and statistic
lists of the algorithm's arity -/
theorem Opt.updateElem_spec (F : Fns K) (k : Kind) (fields : List K) (s : K) (e : Nat) (g θ : K) (st : List K)
    (hf : fields.length = arity k) (hs : st.length = (statsUsed k).length) :
    updateElem F k fields s e g θ st = Spec.elem F k fields s e g θ st :=
  updateElem_eq_spec F k fields s e g θ st hf hs

example : ([1, 2] : List ℚ).length = arity .MomentumSGD ∧ ([0] : List ℚ).length = (statsUsed .MomentumSGD).length := by
  decide

end field

/-- AdaDelta in the paper's RMS form: `Δ = RMS[Δx] / RMS[g] · g` with
`RMS[x] = √(E[x²] + ε)`, over ℝ with the true square root. -/
theorem Opt.adadelta_update_spec_real (F : Fns ℝ) (hF : F.sqrt = Real.sqrt) (ρ ε s : ℝ) (e : Nat) (g θ m1 m2 : ℝ)
    (h1 : 0 ≤ m1 + ε) :
    (adadelta_update F ρ ε s e g θ m1 m2).1 =
      θ - s * (Real.sqrt (m1 + ε) / Real.sqrt (ρ * m2 + (1 - ρ) * (g * g) + ε) * g) := by
  rw [Opt.adadelta_update_spec]
  simp only [Spec.adadelta, hF, Real.sqrt_div h1]

example : (0 : ℝ) ≤ 0 + 1e-6 := by norm_num

section ordered
variable {K : Type} [Field K] [LinearOrder K] [IsStrictOrderedRing K]

/-! ### `update()` -/

/-- the hand-written `Optimizer::update` with the generated rules does what
the specification says: decay, then clipping, then the equations, then
`epoch + 1` -/
theorem Opt.update_spec (F : Fns K) (s : State K) (hf : s.o.fields.length = arity s.o.kind) :
    updateCore F s = Spec.updateCore F s := updateCore_eq_spec F s hf

example : ∃ s : State ℚ, s.o.fields.length = arity s.o.kind :=
  ⟨{ o := { kind := .Adam, fields := [1, 2, 3, 4], base := Base.init, reg := [0] }, ps := [] }, by decide⟩

/-- weight decay comes first and the clipping factor is computed from the
decayed gradients: after `update()` the gradient of every registered parameter
is `clipFactor(‖g + λθ‖²) · (g + λθ)` -/
theorem Opt.decay_then_clip (F : Fns K) (s : State K) :
    regGrads s.o.reg (updateCore F s).ps =
      (decayedGrads s).map (fun g => g.map (fun x =>
        Spec.clipFactor F s.o.base.clip_threshold_ (sqNorm (decayedGrads s)) * x)) :=
  grads_after_update F s

/-- gradients are unchanged by clipping when it is off or the norm is within the threshold -/
theorem Opt.clip_unchanged (F : Fns K) (s : State K)
    (h : ¬ (0 < s.o.base.clip_threshold_ ∧
      s.o.base.clip_threshold_ * s.o.base.clip_threshold_ < sqNorm (decayedGrads s))) :
    regGrads s.o.reg (updateCore F s).ps = decayedGrads s := by
  rw [grads_after_update]
  simp [Spec.clipFactor, h]

example : ¬ ((0 : ℚ) < 2 ∧ (2 : ℚ) * 2 < 3) := by norm_num

theorem Opt.update_epoch_succ (F : Fns K) (s : State K) :
    (updateCore F s).o.base.epoch_ = (s.o.base.epoch_ + 1) % 4294967296 ∧
    (s.o.base.epoch_ + 1 < 4294967296 → (updateCore F s).o.base.epoch_ = s.o.base.epoch_ + 1) := by
  refine ⟨rfl, fun h => ?_⟩
  show (s.o.base.epoch_ + 1) % 4294967296 = _
  exact Nat.mod_eq_of_lt h

/-- `update()` changes nothing but the epoch in the optimizer object -/
theorem Opt.update_keeps_settings (F : Fns K) (s : State K) :
    (updateCore F s).o.kind = s.o.kind ∧ (updateCore F s).o.fields = s.o.fields ∧
    (updateCore F s).o.reg = s.o.reg ∧
    (updateCore F s).o.base.lr_scale_ = s.o.base.lr_scale_ ∧
    (updateCore F s).o.base.l2_strength_ = s.o.base.l2_strength_ ∧
    (updateCore F s).o.base.clip_threshold_ = s.o.base.clip_threshold_ :=
  ⟨rfl, rfl, rfl, rfl, rfl, rfl⟩

/-- a parameter that is not registered is not touched by `update()` -/
theorem Opt.touches_only_registered (F : Fns K) (s : State K) (i : Nat) (hi : i ∉ s.o.reg) :
    (updateCore F s).ps[i]? = s.ps[i]? := updateCore_unregistered F s i hi

/-- over any history: a parameter that was never passed to `add` (and whose
gradient the user did not write) is exactly as it was -/
theorem Opt.history_touches_only_registered (F : Fns K) (h : List (Op K)) (s : State K) (i : Nat)
    (hi : i ∉ s.o.reg) (hm : ∀ op ∈ h, ¬ op.mentions i) :
    (run (exec F) h s).1.ps[i]? = s.ps[i]? := run_unregistered F h s i hi hm

example : ∀ op ∈ ([.add 0, .update, .setLr 2, .setGrad 0 [1], .update, .reset] : List (Op ℚ)), ¬ op.mentions 1 := by
  intro op h
  simp only [List.mem_cons, List.not_mem_nil, or_false] at h
  rcases h with rfl | rfl | rfl | rfl | rfl | rfl <;> simp [Op.mentions]

/-! ### registration -/

/-- adding a registered parameter again has no effect at all -/
theorem Opt.add_idempotent (s : State K) (i : Nat) (h : i ∈ s.o.reg) : add s i = (s, true) := by
  simp [add, h]

/-- … in particular immediately after a successful `add`, also mid-history -/
theorem Opt.add_twice (s : State K) (i : Nat) (h : (add s i).2 = true) :
    add (add s i).1 i = ((add s i).1, true) := by
  apply Opt.add_idempotent
  unfold add at h ⊢
  by_cases hr : i ∈ s.o.reg
  · simp [hr]
  · simp only [hr, if_false] at h ⊢
    cases hp : s.ps[i]? with
    | none => simp [hp] at h
    | some p =>
      simp only [hp] at h ⊢
      by_cases hc : (configure s.o.kind p).2 = true
      · simp [hc]
      · simp [hc] at h

/-- statistics are created only if absent: on a valid parameter `add` appends
zero statistics for exactly the missing names and keeps the existing ones -/
theorem Opt.add_keeps_stats (k : Kind) (p : Param K) (hv : p.valid = true) :
    configure k p = ({ p with stats := p.stats ++
      ((Spec.statNames k).filter (fun n => !p.hasStat n)).map (fun n => (n, zeros p.value.length)) }, true) :=
  configure_valid k p hv

/-- a failed `add` (invalid parameter) leaves optimizer and parameters as they
were — the behaviour after patches/fix-optimizer-add-order.diff -/
theorem Opt.add_invalid_rejected (s : State K) (i : Nat) (p : Param K) (hp : s.ps[i]? = some p)
    (hv : p.valid = false) (hk : statNames s.o.kind ≠ []) (hr : i ∉ s.o.reg) : add s i = (s, false) := by
  unfold add
  simp only [hr, if_false, hp, configure_invalid _ _ hv hk]
  simp [set_self _ _ _ hp]

example : statNames .Adam ≠ [] := by decide

/-! ### settings -/

theorem Opt.negative_settings_rejected (F : Fns K) (s : State K) (x : K) (hx : x < 0) :
    exec F (.setLr x) s = (s, false) ∧ exec F (.setL2 x) s = (s, false) ∧ exec F (.setClip x) s = (s, false) := by
  simp [exec, withBase, Base.set_learning_rate_scaling, Base.set_weight_decay, Base.set_gradient_clipping, hx]

theorem Opt.nonneg_settings_accepted (F : Fns K) (s : State K) (x : K) (hx : 0 ≤ x) :
    let b := s.o.base
    exec F (.setLr x) s = withBase s (some { b with lr_scale_ := x }) ∧
    exec F (.setL2 x) s = withBase s (some { b with l2_strength_ := x }) ∧
    exec F (.setClip x) s = withBase s (some { b with clip_threshold_ := x }) := by
  have h : ¬ x < 0 := not_lt.mpr hx
  simp [exec, withBase, Base.set_learning_rate_scaling, Base.set_weight_decay, Base.set_gradient_clipping, h]

example : (-1 : ℚ) < 0 ∧ (0 : ℚ) ≤ 0 := by norm_num

/-! ### arbitrary histories -/

/-- Over every history of {set gradient, update, reset, change settings
(setters and `set_configs`), add}: the model of the code (generated rules +
hand-written `update`/`add`/setters) and the specification produce the same
states and the same outcome (ok / exception) for every call. -/
theorem Opt.history_refines_spec (F : Fns K) (h : List (Op K)) (s : State K) (hI : Inv1 s) :
    run (exec F) h s = run (Spec.exec F) h s := run_eq_spec F h s hI

/-- the hypothesis is an invariant of every history -/
theorem Opt.history_invariant (F : Fns K) (h : List (Op K)) (s : State K) (hI : Inv1 s) :
    Inv1 (run (exec F) h s).1 := Inv1_run F h s hI

example : Inv1 (
    { o := { kind := .SGD, fields := [1 / 2], base := Base.init, reg := [] },
      ps := [{ valid := true, value := [1], grad := [0], stats := [] }] } : State ℚ) := by
  refine ⟨by decide, Or.inr ?_⟩
  simp [valids]

end ordered

/-- over ℝ with the true square root: after `update()` with a positive
threshold the joint L2 norm of all registered gradients is at most the threshold -/
theorem Opt.clip_norm (F : Fns ℝ) (hF : F.sqrt = Real.sqrt) (s : State ℝ) (hc : 0 < s.o.base.clip_threshold_) :
    Real.sqrt (sqNorm (regGrads s.o.reg (updateCore F s).ps)) ≤ s.o.base.clip_threshold_ := by
  rw [Real.sqrt_le_left hc.le, sq]
  exact sqNorm_after_update_le F hF s hc

example : ∃ F : Fns ℝ, F.sqrt = Real.sqrt := ⟨⟨Real.sqrt, fun b n => b ^ n, fun _ => 0⟩, rfl⟩

/-! ### the generated table -/

/-- everything was inside the translated subset; `update_parameter` reads
exactly the statistics `configure_parameter` creates, every creation is
guarded by `has_stats`, and the names and arities are the documented ones -/
theorem Opt.table_consistent :
    (∀ k ∈ Kind.all, (table k).unsupported = [] ∧ statsUsed k = statNames k ∧ statGuarded k = true ∧
      statNames k = Spec.statNames k ∧ arity k = Spec.arity k ∧ (table k).getKeys.map (·.1) = Spec.keys k) ∧
    baseUnsupported = [] := by
  decide

end Primitiv.C12
