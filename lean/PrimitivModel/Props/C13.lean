import PrimitivModel.Lemmas.MsgpackSpec
import PrimitivModel.Lemmas.Files
/-
C13 — save/load round trip is lossless, files obey the documented format, the
Reader returns what the Writer was given.

Models: Model/Msgpack.lean (Writer `<<` / Reader `>>`), Model/Files.lean
(Parameter / Model / Optimizer save and load).  Proofs: Lemmas/Msgpack.lean,
Lemmas/MsgpackSpec.lean, Lemmas/Files.lean.  Every definition mentioned here is
the one the drivers `drv_msgpack` / `drv_files` execute.
-/
namespace Primitiv.C13
open Primitiv Primitiv.Msgpack Primitiv.Files

/-! ## MessagePack: `decode (encode v ++ rest) = ok v rest` -/

/-- nil, bool, the eight integer types (as two's complement words), float and double (as bit
patterns: every NaN payload, both zeros, denormals, infinities), for all values -/
theorem decode_encode_scalars :
    (∀ v rest, nil.dec (nil.enc v ++ rest) = .ok v rest) ∧ (∀ v rest, bool.dec (bool.enc v ++ rest) = .ok v rest) ∧
    (∀ v rest, u8.dec (u8.enc v ++ rest) = .ok v rest) ∧ (∀ v rest, u16.dec (u16.enc v ++ rest) = .ok v rest) ∧
    (∀ v rest, u32.dec (u32.enc v ++ rest) = .ok v rest) ∧ (∀ v rest, u64.dec (u64.enc v ++ rest) = .ok v rest) ∧
    (∀ v rest, i8.dec (i8.enc v ++ rest) = .ok v rest) ∧ (∀ v rest, i16.dec (i16.enc v ++ rest) = .ok v rest) ∧
    (∀ v rest, i32.dec (i32.enc v ++ rest) = .ok v rest) ∧ (∀ v rest, i64.dec (i64.enc v ++ rest) = .ok v rest) ∧
    (∀ v rest, f32.dec (f32.enc v ++ rest) = .ok v rest) ∧ (∀ v rest, f64.dec (f64.enc v ++ rest) = .ok v rest) :=
  ⟨fun v r => lawful_nil.roundtrip v r trivial, fun v r => lawful_bool.roundtrip v r trivial,
   fun v r => (lawful_scalar8 _).roundtrip v r trivial, fun v r => (lawful_scalar16 _).roundtrip v r trivial,
   fun v r => (lawful_scalar32 _).roundtrip v r trivial, fun v r => (lawful_scalar64 _).roundtrip v r trivial,
   fun v r => (lawful_scalar8 _).roundtrip v r trivial, fun v r => (lawful_scalar16 _).roundtrip v r trivial,
   fun v r => (lawful_scalar32 _).roundtrip v r trivial, fun v r => (lawful_scalar64 _).roundtrip v r trivial,
   fun v r => (lawful_scalar32 _).roundtrip v r trivial, fun v r => (lawful_scalar64 _).roundtrip v r trivial⟩

/-- the signed C++ value and the word the model carries determine each other -/
theorem signed_word_roundtrip :
    (∀ i : Int, -128 ≤ i ∧ i < 128 → toSigned 8 (ofSigned 8 i) = i) ∧
    (∀ i : Int, -32768 ≤ i ∧ i < 32768 → toSigned 16 (ofSigned 16 i) = i) ∧
    (∀ i : Int, -2147483648 ≤ i ∧ i < 2147483648 → toSigned 32 (ofSigned 32 i) = i) ∧
    (∀ i : Int, -9223372036854775808 ≤ i ∧ i < 9223372036854775808 → toSigned 64 (ofSigned 64 i) = i) :=
  ⟨toSigned_ofSigned8, toSigned_ofSigned16, toSigned_ofSigned32, toSigned_ofSigned64⟩

/-- str, bin, ext with any payload bytes of any length below 2^32 (all four / three / eight prefix classes) -/
theorem decode_encode_str (s rest : Bytes) (h : s.length < 4294967296) : str.dec (str.enc s ++ rest) = .ok s rest :=
  lawful_str.roundtrip s rest h
theorem decode_encode_bin (s rest : Bytes) (h : s.length < 4294967296) : bin.dec (bin.enc s ++ rest) = .ok s rest :=
  lawful_bin.roundtrip s rest h
theorem decode_encode_ext (ty : UInt8) (s rest : Bytes) (h : s.length < 4294967296) :
    ext.dec (ext.enc (ty, s) ++ rest) = .ok (ty, s) rest :=
  lawful_ext.roundtrip (ty, s) rest h

example : (List.replicate 65536 7 : Bytes).length < 4294967296 := by rw [List.length_replicate]; omega

/-- `std::vector<T>` for any element type whose codec round-trips, any length below 2^32 -/
theorem decode_encode_arr {α : Type} (c : Codec α) (P : α → Prop) (hc : Lawful c P) (l : List α) (rest : Bytes)
    (hl : l.length < 4294967296) (hP : ∀ x ∈ l, P x) : (arr c).dec ((arr c).enc l ++ rest) = .ok l rest :=
  (lawful_arr hc).roundtrip l rest ⟨hl, hP⟩

/-- `std::unordered_map<K, V>` in any iteration order (the entry list), keys distinct -/
theorem decode_encode_map {κ ν : Type} [DecidableEq κ] (k : Codec κ) (v : Codec ν) (Pk : κ → Prop) (Pv : ν → Prop)
    (hk : Lawful k Pk) (hv : Lawful v Pv) (l : List (κ × ν)) (rest : Bytes) (hl : l.length < 4294967296)
    (hP : ∀ x ∈ l, Pk x.1 ∧ Pv x.2) (hnd : (l.map Prod.fst).Nodup) :
    (map k v).dec ((map k v).enc l ++ rest) = .ok l rest :=
  (lawful_map hk hv).roundtrip l rest ⟨hl, hP, hnd⟩

/-- the instances used by the file format and nested containers, as corollaries -/
theorem decode_encode_instances :
    (∀ (l : List UInt32) rest, l.length < 4294967296 → (arr u32).dec ((arr u32).enc l ++ rest) = .ok l rest) ∧
    (∀ (l : List Bytes) rest, ArrOk (fun s : Bytes => s.length < 4294967296) l →
      (arr str).dec ((arr str).enc l ++ rest) = .ok l rest) ∧
    (∀ (l : List (List (List UInt8))) rest, ArrOk (ArrOk (ArrOk fun _ => True)) l →
      (arr (arr (arr u8))).dec ((arr (arr (arr u8))).enc l ++ rest) = .ok l rest) ∧
    (∀ (l : List (Bytes × List UInt32)) rest,
      MapOk (fun s : Bytes => s.length < 4294967296) (ArrOk fun _ => True) l →
      (map str (arr u32)).dec ((map str (arr u32)).enc l ++ rest) = .ok l rest) :=
  ⟨fun l r h => (lawful_arr (lawful_scalar32 _)).roundtrip l r ⟨h, fun _ _ => trivial⟩,
   fun l r h => (lawful_arr lawful_str).roundtrip l r h,
   fun l r h => (lawful_arr (lawful_arr (lawful_arr (lawful_scalar8 _)))).roundtrip l r h,
   fun l r h => (lawful_map lawful_str (lawful_arr (lawful_scalar32 _))).roundtrip l r h⟩

example : ArrOk (ArrOk (ArrOk fun _ : UInt8 => True)) [[[1, 2], []], []] := by
  simp [ArrOk]

/-! ## the bytes are MessagePack: admissible, shortest length prefixes -/

/-- for every payload size below 2^32 the Writer's prefix is one the specification admits for that
size, and no admissible prefix is shorter (fixstr/str8/str16/str32, bin8/16/32, fixarray/array16/32,
fixmap/map16/32, fixext1..16/ext8/16/32) -/
theorem encode_valid_shortest (n ty : Nat) (h : n < 4294967296) :
    Spec.Shortest (strHeader n) (Spec.strHeaders n) ∧ Spec.Shortest (binHeader n) (Spec.binHeaders n) ∧
    Spec.Shortest (arrHeader n) (Spec.arrHeaders n) ∧ Spec.Shortest (mapHeader n) (Spec.mapHeaders n) ∧
    Spec.Shortest (extHeader n ty) (Spec.extHeaders n ty) :=
  ⟨strHeader_shortest n h, binHeader_shortest n h, arrHeader_shortest n h, mapHeader_shortest n h,
   extHeader_shortest n ty h⟩

/-- scalars use the fixed-width format of their C++ type: tag byte of the specification, big-endian word -/
theorem scalar_formats :
    nil.enc () = [0xc0] ∧ bool.enc false = [0xc2] ∧ bool.enc true = [0xc3] ∧
    (∀ x, u8.enc x = [0xcc, x.toNat]) ∧ (∀ x, u16.enc x = 0xcd :: be16 x.toNat) ∧
    (∀ x, u32.enc x = 0xce :: be32 x.toNat) ∧ (∀ x, u64.enc x = 0xcf :: be64 x.toNat) ∧
    (∀ x, i8.enc x = [0xd0, x.toNat]) ∧ (∀ x, i16.enc x = 0xd1 :: be16 x.toNat) ∧
    (∀ x, i32.enc x = 0xd2 :: be32 x.toNat) ∧ (∀ x, i64.enc x = 0xd3 :: be64 x.toNat) ∧
    (∀ x, f32.enc x = 0xca :: be32 x.toNat) ∧ (∀ x, f64.enc x = 0xcb :: be64 x.toNat) :=
  ⟨rfl, rfl, rfl, fun _ => rfl, fun _ => rfl, fun _ => rfl, fun _ => rfl, fun _ => rfl, fun _ => rfl,
   fun _ => rfl, fun _ => rfl, fun _ => rfl, fun _ => rfl⟩

/-- observed quirk of the code, not part of the property: 2^32 or more elements → no prefix at all -/
theorem container_overlong_has_no_prefix (n : Nat) (h : 4294967296 ≤ n) : arrHeader n = [] ∧ mapHeader n = [] :=
  container_overlong n h

/-! ## files -/

example : ParamOk exampleParam := exampleParamOk
example : (Param.save (some exampleParam) true).isSome = true := by decide
example : ModelOk [([[97], [98]], some exampleParam), ([[97], []], some exampleParam)] :=
  ⟨by simp, by decide, fun k p h => by
    simp only [List.mem_cons, Prod.mk.injEq, Option.some.injEq, List.mem_nil_iff, or_false] at h
    rcases h with ⟨rfl, rfl⟩ | ⟨rfl, rfl⟩ <;> exact ⟨⟨by simp, by simp⟩, exampleParamOk⟩⟩

/-- Saving a parameter and loading the file (whatever follows it) into any Parameter object, on
either device, in all four `with_stats` combinations: value bit-for-bit, shape, zero gradient,
statistics with their names iff saved and asked for. -/
theorem param_roundtrip (old : PState) (p : Param) (wsSave wsLoad : Bool) (dev : Dev) (file trailing : Bytes)
    (hp : ParamOk p) (hs : Param.save (some p) wsSave = some file) :
    Param.load old (file ++ trailing) wsLoad dev =
      (none, some ⟨p.value.shape, dev, p.value, Tensor.zeros p.value.shape,
                   if wsSave && wsLoad then p.stats else []⟩) :=
  Param.load_save old p wsSave wsLoad dev file trailing hp hs

/-- Saving a model (any tree: the map full name ↦ parameter) and loading the file into a model
that has parameters of the same names: every parameter is found under its full hierarchical name
and becomes the saved one; the result does not depend on the order of the description. -/
theorem model_roundtrip (m target : MState) (wsSave wsLoad : Bool) (dev : Dev) (file trailing : Bytes)
    (hm : ModelOk m) (hs : Model.save m wsSave = some file)
    (ht : ∀ k ∈ m.map Prod.fst, hasKey target k = true) :
    ∃ post, Model.load target (file ++ trailing) wsLoad dev = (none, post) ∧
      post.map Prod.fst = target.map Prod.fst ∧
      (∀ k p, (k, some p) ∈ m → (k, some (loaded p (wsSave && wsLoad) dev)) ∈ post) ∧
      (∀ x ∈ target, x.1 ∉ m.map Prod.fst → x ∈ post) :=
  Model.load_save m target wsSave wsLoad dev file trailing hm hs ht

/-- every setting of every algorithm survives save + load into an optimizer of the same algorithm -/
theorem optimizer_roundtrip (old o : Opt) (trailing : Bytes) (hk : old.kind = o.kind)
    (ho : o.hyper.length = o.kind.keys.length) (hold : old.hyper.length = old.kind.keys.length) :
    Opt.load old (o.save ++ trailing) = (none, o) :=
  Opt.load_save old o trailing hk ho hold

/-- every Shape the constructors accept (32-bit arguments) is in the form the file round trip preserves -/
theorem shapes_are_roundtrippable (dims : List Nat) (batch : Nat) (s : Shape) (hd : ∀ d ∈ dims, d < 4294967296)
    (hb : batch < 4294967296) (h : Shape.new dims batch = .ok s) (rest : Bytes) :
    readShape (writeShape s ++ rest) = .ok s rest :=
  lawful_shapeC.roundtrip s rest (shapeOk_of_new dims batch s hd hb h)

/-- the float words are stored little-endian, in memory order -/
theorem tensor_payload_little_endian (w : UInt32) (ws : List UInt32) :
    wordsToBytes (w :: ws) =
      [w.toNat % 256, w.toNat / 256 % 256, w.toNat / 65536 % 256, w.toNat / 16777216 % 256] ++ wordsToBytes ws ∧
    bytesToWords (wordsToBytes (w :: ws)) = w :: ws :=
  ⟨rfl, bytesToWords_wordsToBytes _⟩

/-- docs/source/reference/file_format.rst: version 0.1, data types 0x0/0x100/0x200/0x300/0x400,
header = three uint32, Shape = array<uint32> dims + uint32 batch, Tensor = Shape + bin,
Parameter = Tensor + uint32 N + N × (str + Tensor), Model = uint32 N + N × (array<str> + Parameter),
Optimizer = map<str, uint32> + map<str, float> -/
theorem layout_is_documented :
    versionMajor = 0 ∧ versionMinor = 1 ∧
    DataType.shape.tag = 0x0 ∧ DataType.tensor.tag = 0x100 ∧ DataType.parameter.tag = 0x200 ∧
    DataType.model.tag = 0x300 ∧ DataType.optimizer.tag = 0x400 ∧
    (∀ dt, writeHeader dt = nat32.enc 0 ++ nat32.enc 1 ++ nat32.enc dt.tag) ∧
    (∀ s, writeShape s = (arr nat32).enc s.dims ++ nat32.enc s.batch) ∧
    (∀ t, writeTensor t = writeShape t.shape ++ bin.enc (wordsToBytes t.data)) ∧
    (∀ p, saveInner p true = writeTensor p.value ++ nat32.enc p.stats.length ++
            p.stats.flatMap (fun kv => str.enc kv.1 ++ writeTensor kv.2)) ∧
    (∀ p, saveInner p false = writeTensor p.value ++ nat32.enc 0) ∧
    (∀ es ws, modelBody es ws = nat32.enc es.length ++ es.flatMap (fun e => (arr str).enc e.1 ++ saveInner e.2 ws)) ∧
    (∀ o : Opt, o.save = writeHeader .optimizer ++ (map str u32).enc o.uintConfigs ++ (map str f32).enc o.floatConfigs) := by
  refine ⟨rfl, rfl, rfl, rfl, rfl, rfl, rfl, fun _ => rfl, fun _ => rfl, fun _ => rfl, fun p => ?_, fun _ => rfl,
    fun _ _ => rfl, fun _ => rfl⟩
  simp [saveInner, encList, statC, pair, tensorC]

end Primitiv.C13
