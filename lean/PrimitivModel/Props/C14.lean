import PrimitivModel.Lemmas.Msgpack
import PrimitivModel.Lemmas.Files
/-
C14 — damaged or partial files are rejected cleanly; failed saves are reported.

Models and proofs as for C13.  `Param.load` / `Model.load` / `Opt.load` return
the error (if any) together with the state of the object(s) after the call.
-/
namespace Primitiv.C14
open Primitiv Primitiv.Msgpack Primitiv.Files

/-! ## MessagePack: every proper prefix of an encoding is rejected with EOF -/

/-- `p` is a proper prefix of `whole` -/
def ProperPrefix (p whole : Bytes) : Prop := ∃ q, q ≠ [] ∧ p ++ q = whole

example : ProperPrefix [0xce, 0, 0] (u32.enc 7) := ⟨[0, 7], by simp, rfl⟩

theorem prefix_rejected_scalars :
    (∀ v p, ProperPrefix p (nil.enc v) → nil.dec p = .error .eof) ∧
    (∀ v p, ProperPrefix p (bool.enc v) → bool.dec p = .error .eof) ∧
    (∀ v p, ProperPrefix p (u8.enc v) → u8.dec p = .error .eof) ∧
    (∀ v p, ProperPrefix p (u16.enc v) → u16.dec p = .error .eof) ∧
    (∀ v p, ProperPrefix p (u32.enc v) → u32.dec p = .error .eof) ∧
    (∀ v p, ProperPrefix p (u64.enc v) → u64.dec p = .error .eof) ∧
    (∀ v p, ProperPrefix p (i8.enc v) → i8.dec p = .error .eof) ∧
    (∀ v p, ProperPrefix p (i16.enc v) → i16.dec p = .error .eof) ∧
    (∀ v p, ProperPrefix p (i32.enc v) → i32.dec p = .error .eof) ∧
    (∀ v p, ProperPrefix p (i64.enc v) → i64.dec p = .error .eof) ∧
    (∀ v p, ProperPrefix p (f32.enc v) → f32.dec p = .error .eof) ∧
    (∀ v p, ProperPrefix p (f64.enc v) → f64.dec p = .error .eof) :=
  ⟨fun v p ⟨q, hq, h⟩ => lawful_nil.prefixFree v p q trivial h hq,
   fun v p ⟨q, hq, h⟩ => lawful_bool.prefixFree v p q trivial h hq,
   fun v p ⟨q, hq, h⟩ => (lawful_scalar8 _).prefixFree v p q trivial h hq,
   fun v p ⟨q, hq, h⟩ => (lawful_scalar16 _).prefixFree v p q trivial h hq,
   fun v p ⟨q, hq, h⟩ => (lawful_scalar32 _).prefixFree v p q trivial h hq,
   fun v p ⟨q, hq, h⟩ => (lawful_scalar64 _).prefixFree v p q trivial h hq,
   fun v p ⟨q, hq, h⟩ => (lawful_scalar8 _).prefixFree v p q trivial h hq,
   fun v p ⟨q, hq, h⟩ => (lawful_scalar16 _).prefixFree v p q trivial h hq,
   fun v p ⟨q, hq, h⟩ => (lawful_scalar32 _).prefixFree v p q trivial h hq,
   fun v p ⟨q, hq, h⟩ => (lawful_scalar64 _).prefixFree v p q trivial h hq,
   fun v p ⟨q, hq, h⟩ => (lawful_scalar32 _).prefixFree v p q trivial h hq,
   fun v p ⟨q, hq, h⟩ => (lawful_scalar64 _).prefixFree v p q trivial h hq⟩

theorem prefix_rejected_str (s p : Bytes) (h : s.length < 4294967296) (hp : ProperPrefix p (str.enc s)) :
    str.dec p = .error .eof := by obtain ⟨q, hq, he⟩ := hp; exact lawful_str.prefixFree s p q h he hq
theorem prefix_rejected_bin (s p : Bytes) (h : s.length < 4294967296) (hp : ProperPrefix p (bin.enc s)) :
    bin.dec p = .error .eof := by obtain ⟨q, hq, he⟩ := hp; exact lawful_bin.prefixFree s p q h he hq
theorem prefix_rejected_ext (ty : UInt8) (s p : Bytes) (h : s.length < 4294967296)
    (hp : ProperPrefix p (ext.enc (ty, s))) : ext.dec p = .error .eof := by
  obtain ⟨q, hq, he⟩ := hp; exact lawful_ext.prefixFree (ty, s) p q h he hq

/-- containers, by induction on the structure: for any element codec that round-trips and is prefix-free -/
theorem prefix_rejected_arr {α : Type} (c : Codec α) (P : α → Prop) (hc : Lawful c P) (l : List α) (p : Bytes)
    (hl : l.length < 4294967296) (hP : ∀ x ∈ l, P x) (hp : ProperPrefix p ((arr c).enc l)) :
    (arr c).dec p = .error .eof := by
  obtain ⟨q, hq, he⟩ := hp; exact (lawful_arr hc).prefixFree l p q ⟨hl, hP⟩ he hq

theorem prefix_rejected_map {κ ν : Type} [DecidableEq κ] (k : Codec κ) (v : Codec ν) (Pk : κ → Prop) (Pv : ν → Prop)
    (hk : Lawful k Pk) (hv : Lawful v Pv) (l : List (κ × ν)) (p : Bytes) (hl : l.length < 4294967296)
    (hP : ∀ x ∈ l, Pk x.1 ∧ Pv x.2) (hnd : (l.map Prod.fst).Nodup) (hp : ProperPrefix p ((map k v).enc l)) :
    (map k v).dec p = .error .eof := by
  obtain ⟨q, hq, he⟩ := hp; exact (lawful_map hk hv).prefixFree l p q ⟨hl, hP, hnd⟩ he hq

/-! ## files: truncation -/

example : ParamOk exampleParam := exampleParamOk

/-- every proper prefix of a valid Parameter file: EOF, the Parameter is exactly as it was -/
theorem truncation_rejected_param (old : PState) (p : Param) (wsSave wsLoad : Bool) (dev : Dev) (file pre : Bytes)
    (hp : ParamOk p) (hs : Param.save (some p) wsSave = some file) (hpre : ProperPrefix pre file) :
    Param.load old pre wsLoad dev = (some .eof, old) := by
  obtain ⟨q, hq, he⟩ := hpre; exact Param.load_truncated old p wsSave wsLoad dev file pre q hp hs he hq

/-- every proper prefix of a valid Model file: EOF; the parameters whose records lie completely
before the cut (the first `j` in file order) hold exactly those records, all others are untouched -/
theorem truncation_rejected_model (m target : MState) (wsSave wsLoad : Bool) (dev : Dev) (file pre : Bytes)
    (hm : ModelOk m) (hs : Model.save m wsSave = some file)
    (ht : ∀ k ∈ m.map Prod.fst, hasKey target k = true) (hpre : ProperPrefix pre file) :
    ∃ (es : List (Path × Param)) (j : Nat), sortEntries m = es.map (fun e => (e.1, some e.2)) ∧ j ≤ es.length ∧
      Model.load target pre wsLoad dev = (some .eof, applyEntries (wsSave && wsLoad) dev (es.take j) target) := by
  obtain ⟨q, hq, he⟩ := hpre; exact Model.load_truncated m target wsSave wsLoad dev file pre q hm hs ht he hq

/-- every proper prefix of a valid Optimizer file: EOF, no setting changed -/
theorem truncation_rejected_optimizer (old o : Opt) (pre : Bytes) (ho : o.hyper.length = o.kind.keys.length)
    (hpre : ProperPrefix pre o.save) : Opt.load old pre = (some .eof, old) := by
  obtain ⟨q, hq, he⟩ := hpre; exact Opt.load_truncated old o pre q ho he hq

/-! ## files: wrong header, inconsistent contents -/

/-- any version other than 0.1 and any other data type is rejected by all three loaders, whatever follows,
and nothing changes -/
theorem bad_header_rejected (major minor tag : Nat) (rest : Bytes)
    (hM : major < 4294967296) (hm : minor < 4294967296) (ht : tag < 4294967296) :
    (∀ old ws dev, (major ≠ 0 ∨ minor ≠ 1 ∨ tag ≠ 0x200) →
      Param.load old (nat32.enc major ++ nat32.enc minor ++ nat32.enc tag ++ rest) ws dev = (some .invalid, old)) ∧
    (∀ old ws dev, (major ≠ 0 ∨ minor ≠ 1 ∨ tag ≠ 0x300) →
      Model.load old (nat32.enc major ++ nat32.enc minor ++ nat32.enc tag ++ rest) ws dev = (some .invalid, old)) ∧
    (∀ old, (major ≠ 0 ∨ minor ≠ 1 ∨ tag ≠ 0x400) →
      Opt.load old (nat32.enc major ++ nat32.enc minor ++ nat32.enc tag ++ rest) = (some .invalid, old)) :=
  ⟨fun old ws dev h => Param.load_bad_header old major minor tag rest ws dev hM hm ht h,
   fun old ws dev h => Model.load_bad_header old major minor tag rest ws dev hM hm ht h,
   fun old h => Opt.load_bad_header old major minor tag rest hM hm ht h⟩

/-- a `bin` whose length is not `shape.size() * 4` -/
theorem length_mismatch_rejected (s : Shape) (data rest : Bytes) (hs : ShapeOk s)
    (hd : data.length < 4294967296) (hne : data.length ≠ s.size * 4) :
    readTensor (writeShape s ++ bin.enc data ++ rest) = .error .invalid :=
  readTensor_length_mismatch s data rest hs hd hne

example : ShapeOk ⟨[2, 3], 1, 6⟩ ∧ ([1, 2, 3] : Bytes).length ≠ (⟨[2, 3], 1, 6⟩ : Shape).size * 4 :=
  ⟨exampleShapeOk, by decide⟩

/-- a record named after a parameter the model does not have -/
theorem unknown_name_rejected (ws : Bool) (dev : Dev) (n : Nat) (k : Path) (rest : Bytes) (st : MState)
    (hk : PathOk k) (hno : hasKey st k = false) :
    loadEntries ws dev (n + 1) (pathC.enc k ++ rest) st = (some .invalid, st) :=
  loadEntries_unknown_name ws dev n k rest st hk hno

/-- a complete, otherwise well-formed record whose value has batch size ≠ 1 -/
theorem batch_rejected (p : Param) (wsSave wsLoad : Bool) (dev : Dev) (rest : Bytes)
    (hv : TensorOk p.value) (hb : p.value.shape.batch > 1) (hn : p.stats.length < 4294967296)
    (hst : ∀ x ∈ p.stats, StatOk x) :
    loadInner (saveInner p wsSave ++ rest) wsLoad dev = .error .invalid :=
  loadInner_batch p wsSave wsLoad dev rest hv (by simp [Shape.hasBatch, hb]) hn hst

/-! ## what a failing load leaves behind, for arbitrary bytes -/

/-- `Parameter::load`: shape, device, value, gradient and statistics change together or not at all -/
theorem param_atomic (old : PState) (file : Bytes) (ws : Bool) (dev : Dev) (e : DErr) (post : PState)
    (h : Param.load old file ws dev = (some e, post)) : post = old :=
  Param.load_atomic old file ws dev e post h

/-- `Model::load`, failing or not: the set of names is unchanged and every Parameter is either exactly as
it was or exactly a record that `load_inner` parsed to its end -/
theorem model_atomic (old : MState) (file : Bytes) (ws : Bool) (dev : Dev) (r : Option DErr) (post : MState)
    (h : Model.load old file ws dev = (r, post)) :
    post.map Prod.fst = old.map Prod.fst ∧
      ∀ x ∈ post, x ∈ old ∨ ∃ bs' p rest, loadInner bs' ws dev = .ok p rest ∧ x.2 = some p :=
  Model.load_atomic old file ws dev r post h

theorem optimizer_unchanged_on_failure (old : Opt) (file : Bytes) (e : DErr) (post : Opt)
    (h : Opt.load old file = (some e, post)) : post = old :=
  Opt.load_atomic old file e post h

/-! ## save -/

/-- `save` returns normally only if every byte was produced and taken by the file: an unopenable
path, a device that is full from the start (`capacity 0`) or after any number of bytes, an invalid
parameter — all end in an Error.  (This is the repaired code, patches/fix-save-stream; the pinned
tree returns normally when the stream fails after `open`, which the correspondence run reports.) -/
theorem save_failure_reported (bytes : Option Bytes) (sink : Sink) (h : saveTo bytes sink = true) :
    ∃ bs n, bytes = some bs ∧ sink = .capacity n ∧ bs.length ≤ n := by
  cases bytes with
  | none => simp [saveTo] at h
  | some bs =>
    cases sink with
    | unopenable => simp [saveTo, Sink.accepts] at h
    | capacity n => exact ⟨bs, n, rfl, rfl, by simpa [saveTo, Sink.accepts] using h⟩

example : saveTo (Param.save (some exampleParam) true) (.capacity 0) = false := by decide

end Primitiv.C14
