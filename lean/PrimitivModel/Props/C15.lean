import PrimitivModel.Lemmas.Resume
/-
C15 — checkpoint and resume is equivalent to uninterrupted training.

`checkpoint` saves exactly the `get_configs` maps and, per parameter, value
and all named statistics (what `Optimizer::save` and `Model::save(path, true)`
write); `restore` builds fresh objects (constructor defaults, `set_configs`,
parameters from the file with zero gradient, `add`).  That the *bytes* written
and read back carry these data unchanged is property C13 and is assumed here.
Statements are over an ordered field; bit-identity of the float32 runs is
observed by the correspondence run (props/C15.py).
-/
set_option linter.unusedSectionVars false
namespace Primitiv.C15
open Primitiv.Opt Primitiv.Gen.Opt

/-- decided over the generated table: every hyper-parameter that
`update_parameter` reads — in fact every data member — is written by
`get_configs` and read back by `set_configs` under the same key, with keys
that are pairwise distinct and distinct from the base-class keys; the same for
the base-class settings (epoch, lr_scale, l2_strength, clip_threshold).  An
omitted key breaks this. -/
theorem Resume.fields_read_saved :
    (∀ k ∈ Kind.all,
      (∀ f ∈ (table k).fieldsRead, f ∈ (table k).getKeys.map (·.2)) ∧
      (∀ f ∈ (table k).fields, f ∈ (table k).getKeys.map (·.2)) ∧
      (table k).getKeys = (table k).setKeys ∧
      ((table k).getKeys.map (·.1) ++ baseGetKeys.map (·.1)).Nodup) ∧
    (∀ f ∈ baseFieldNames, f ∈ baseGetKeys.map (·.2)) ∧ baseGetKeys = baseSetKeys := by
  decide

/-- decided over the generated table: every statistic `update_parameter`
uses is created by `configure_parameter` (hence present, hence saved by
`save(path, with_stats = true)`), and `configure_parameter` keeps a statistic
that already exists (the `has_stats` guard), so loaded statistics survive the
registration of the restored parameter.  An omitted statistic or a dropped
guard breaks this. -/
theorem Resume.stats_used_saved :
    ∀ k ∈ Kind.all, (∀ n ∈ statsUsed k, n ∈ statNames k) ∧ (∀ n ∈ (table k).statsWritten, n ∈ statNames k) ∧
      statGuarded k = true := by
  decide

section
variable {K : Type} [Field K] [LinearOrder K] [IsStrictOrderedRing K]

/-- `load(save(o))` into a freshly constructed optimizer of the same algorithm
reproduces every setting and hyper-parameter -/
theorem Resume.configs_roundtrip (F : Fns K) (o : Opt K) (hf : o.fields.length = arity o.kind) :
    loadConfigs o.base.getU (allF o) (fresh F o.kind) = { o with reg := [] } :=
  Primitiv.Opt.configs_roundtrip F o hf

example : ([1, 2, 3, 4] : List ℚ).length = arity .Adam := by decide

/-- (1) frame lemma: a training step depends only on the optimizer object
(algorithm, hyper-parameters, epoch, settings, registration), and on validity,
values and named statistics of the parameters — not on the gradients left over
from before, nor on anything else -/
theorem Resume.step_reads_only (F : Fns K) (G : Nat → List (List K) → List (List K)) (t : Nat) (s s' : State K)
    (h : obs s = obs s') : trainStep F G t s = trainStep F G t s' := trainStep_frame F G t s s' h

example : ∃ s s' : State ℚ, s ≠ s' ∧ obs s = obs s' :=
  ⟨{ o := { kind := .SGD, fields := [1], base := Base.init, reg := [0] }, ps := [⟨true, [1], [5], []⟩] },
   { o := { kind := .SGD, fields := [1], base := Base.init, reg := [0] }, ps := [⟨true, [1], [0], []⟩] },
   by simp, rfl⟩

/-- (2) on every state training can reach, restoring a checkpoint into fresh
objects gives back the state up to the gradients -/
theorem Resume.restore_checkpoint (F : Fns K) (k : Kind) (s : State K) (h : Good k s) :
    obs (restore F k (checkpoint s)) = obs s := Primitiv.Opt.restore_checkpoint F k s h

/-- the hypothesis `Good` holds for the initial state of any training program
(any algorithm, hyper-parameters, settings, parameter values) … -/
theorem Resume.init_good (k : Kind) (fields : List K) (b : Base K) (vals : List (List K))
    (hf : fields.length = arity k) : Good k (initState k fields b vals) := Primitiv.Opt.init_good k fields b vals hf

/-- … and is kept by training -/
theorem Resume.train_good (F : Fns K) (G : Nat → List (List K) → List (List K)) (k : Kind) (n t : Nat) (s : State K)
    (h : Good k s) : Good k (train F G t n s) := Good_train F G k n t s h

/-- (3) **Checkpoint and resume is equivalent to uninterrupted training.**
For every algorithm `k`, hyper-parameters, settings (`b`: epoch, learning-rate
scaling, weight decay, clipping), initial parameter values, deterministic
gradient source `G`, interruption point `m` and continuation length `n`:
training `m + n` steps gives the same optimizer state, parameter values and
statistics as training `m` steps, checkpointing, restoring into fresh objects
and training `n` more steps. -/
theorem Resume.equiv (F : Fns K) (G : Nat → List (List K) → List (List K)) (k : Kind) (fields : List K)
    (b : Base K) (vals : List (List K)) (hf : fields.length = arity k) (m n : Nat) :
    let s₀ := initState k fields b vals
    obs (train F G 0 (m + n) s₀) =
      obs (train F G m n (restore F k (checkpoint (train F G 0 m s₀)))) := by
  intro s₀
  have hg : Good k (train F G 0 m s₀) := Good_train F G k m 0 s₀ (Primitiv.Opt.init_good k fields b vals hf)
  rw [train_add, Nat.zero_add]
  exact (train_frame F G n m _ _ (Primitiv.Opt.restore_checkpoint F k _ hg)).symm

/-- the same from any reachable (`Good`) state, e.g. after settings were
changed or the epoch was set by hand before the checkpoint -/
theorem Resume.equiv_from (F : Fns K) (G : Nat → List (List K) → List (List K)) (k : Kind) (s : State K)
    (h : Good k s) (t m n : Nat) :
    obs (train F G t (m + n) s) = obs (train F G (t + m) n (restore F k (checkpoint (train F G t m s)))) := by
  have hg : Good k (train F G t m s) := Good_train F G k m t s h
  rw [train_add]
  exact (train_frame F G n (t + m) _ _ (Primitiv.Opt.restore_checkpoint F k _ hg)).symm

example : Good .MomentumSGD (initState .MomentumSGD [(1 : ℚ) / 4, 1 / 2] Base.init [[1, 2], [3]]) :=
  Primitiv.Opt.init_good _ _ _ _ (by decide)

/-- (3′) **any number of interruptions.**  Training in segments of lengths
`ns` — the process is stopped after every segment, the state goes through a
checkpoint file and fresh objects — ends in the same optimizer state,
parameter values and statistics as one uninterrupted run of `ns.sum` steps,
from every reachable state, for every list of segment lengths (empty
segments included: a checkpoint that is restored and saved again at once). -/
theorem Resume.equiv_chain (F : Fns K) (G : Nat → List (List K) → List (List K)) (k : Kind) (s : State K)
    (h : Good k s) (t : Nat) (ns : List Nat) :
    obs (trainResumed F G k t ns s) = obs (train F G t ns.sum s) :=
  (trainResumed_obs F G k ns t s h).1

/-- the same from the start of a training program -/
theorem Resume.equiv_chain_init (F : Fns K) (G : Nat → List (List K) → List (List K)) (k : Kind) (fields : List K)
    (b : Base K) (vals : List (List K)) (hf : fields.length = arity k) (ns : List Nat) :
    obs (trainResumed F G k 0 ns (initState k fields b vals)) = obs (train F G 0 ns.sum (initState k fields b vals)) :=
  (trainResumed_obs F G k ns 0 _ (Primitiv.Opt.init_good k fields b vals hf)).1

/-- a restored state is again one from which training (and checkpointing) runs -/
theorem Resume.restore_good (F : Fns K) (k : Kind) (s : State K) (h : Good k s) :
    Good k (restore F k (checkpoint s)) :=
  Good_of_obs k _ _ (Primitiv.Opt.restore_checkpoint F k s h).symm h

/-- saving what was just restored writes the same checkpoint again: nothing
is lost or invented by a save / load / save cycle -/
theorem Resume.checkpoint_idempotent (F : Fns K) (k : Kind) (s : State K) (h : Good k s) :
    checkpoint (restore F k (checkpoint s)) = checkpoint s :=
  checkpoint_of_obs _ _ (Primitiv.Opt.restore_checkpoint F k s h)

example : ([2, 0, 3] : List Nat).sum = 5 := by decide

end
end Primitiv.C15
