import PrimitivModel.Model.Registry
namespace Primitiv.Registry

theorem placeholder : Reg.empty.size = 0 := rfl

end Primitiv.Registry
