import PrimitivModel.Model.Registry
import PrimitivModel.Spec.Registry
import PrimitivModel.Lemmas.Registry
/-
C16 — Model registry: unique names, acyclic hierarchy, exact enumeration.

Every theorem is about the executable model Model/Registry.lean (the
definitions the driver `drv_registry` runs), for all heaps, names, paths and
histories; vocabulary (`Reg.inv`, `ResolvesP`, `ResolvesM`, `Reg.Reach`,
`NameUsed`, `Op`, `Reg.run`) is in Spec/Registry.lean, helper lemmas in
Lemmas/Registry.lean.
-/
namespace Primitiv.Registry
open Std

/-! ### a concrete registry used by the examples: a diamond

models 0..3, parameters 0 (valid), 1 (valid), 2 (invalid);
`0 -a-> 1`, `0 -b-> 2`, `1 -s-> 3`, `2 -s-> 3`, parameter 0 is `w` of model 3,
parameter 1 is `""` (the empty name) of model 0. -/
def nA : Name := [97]
def nB : Name := [98]
def nS : Name := [115]
def nW : Name := [119]

def diamondOps : List Op :=
  [.newModel, .newModel, .newModel, .newModel, .newParam true, .newParam true, .newParam false,
   .addSub 0 nA 1, .addSub 0 nB 2, .addSub 1 nS 3, .addSub 2 nS 3, .addParam 3 nW 0, .addParam 0 [] 1,
   -- rejected: cycle of length 3, self, duplicate name, duplicate object
   .addSub 3 nA 0, .addSub 1 nA 1, .addParam 0 nA 0, .addSub 0 nS 1]

def diamond : Reg := Reg.run diamondOps

/-! ### the invariant holds after every history -/

/-- `Reg.inv` (containers mutually consistent, names unique across parameters
and submodels, submodels live, hierarchy acyclic) holds initially and is
preserved by every operation, accepted or rejected: it holds after every
history. -/
theorem Reg.inv_history (ops : List Op) : (Reg.run ops).inv :=
  Reg.inv_foldl Reg.inv_empty ops

/-- single steps, for callers that have an invariant state at hand -/
theorem Reg.inv_addParam_step {r r' : Reg} (hi : r.inv) {m : MId} (hm : m < r.size) {n : Name} {p : PId}
    (h : r.addParam m n p = .ok r') : r'.inv := Reg.inv_addParam hi hm h

theorem Reg.inv_addSub_step {r r' : Reg} (hi : r.inv) {m : MId} (hm : m < r.size) {n : Name} {c : MId} (hc : c < r.size)
    (h : r.addSub m n c = .ok r') : r'.inv := Reg.inv_addSub hi hm hc h

example : diamond.inv := Reg.inv_history _
example : diamond.size = 4 := by decide
-- an accepted add that changes the registry
example : (match diamond.addSub 1 nB 2 with | .ok r' => decide (r' ≠ diamond) | _ => false) = true := by decide

/-- A model never contains itself, directly or transitively. -/
theorem Reg.never_contains_itself {r : Reg} (hi : r.inv) (m : MId) : ¬ r.Reach m m :=
  Reg.not_reach_self hi m

/-! ### termination: the fuel is enough -/

/-- Under the invariant the traversals return within the fuel `number of
models`: termination is a consequence of acyclicity (a descending chain of
models cannot be longer than the heap), not an assumption. -/
theorem Reg.fuel_suffices {r : Reg} (hi : r.inv) {m : MId} (hm : m < r.size) (t : MId) :
    (∃ b, Reg.hasSub r t r.size m = .ok b) ∧ (∃ l, r.allParameters m = .ok l) :=
  ⟨Reg.hasSub_total hi t hm, Reg.getAll_total hi hm⟩

example : Reg.hasSub diamond 3 diamond.size 0 = .ok true := by decide
/-- with less fuel than the depth the model reports the unbounded recursion -/
example : Reg.hasSub diamond 3 1 0 = .crash := by decide

/-- No operation of any history crashes (the only crash of `add` would be an
unbounded `has_submodel`). -/
theorem Reg.add_never_crashes (ops : List Op) (m : MId) (n : Name) :
    (∀ p, (Reg.run ops).addParam m n p ≠ .crash) ∧
    (∀ c, c < (Reg.run ops).size → (Reg.run ops).addSub m n c ≠ .crash) :=
  ⟨fun p => Reg.addParam_ne_crash _ m n p, fun _ hc => Reg.addSub_ne_crash (Reg.inv_history ops) n hc⟩

/-! ### re-adding is a no-op, every other duplicate is rejected, rejection changes nothing -/

/-- Adding the identical object under the identical name again returns
normally and leaves the registry as it is. -/
theorem Reg.readd_noop {r : Reg} (m : MId) (n : Name) :
    (∀ p, ResolvesP r m [n] p → r.addParam m n p = .ok r) ∧
    (∀ c, ResolvesM r m [n] c → r.addSub m n c = .ok r) := by
  refine ⟨fun p h => ?_, fun c h => ?_⟩
  · have h := resolvesP_single.1 h
    rcases Reg.addParam_cases r m n p with ⟨_, h'⟩ | ⟨hne, _⟩ | ⟨hne, _⟩
    · exact h'
    · exact absurd h hne
    · exact absurd h hne
  · have h := resolvesM_single.1 h
    rcases Reg.addSub_cases r m n c with ⟨_, h'⟩ | ⟨hne, _⟩ | ⟨hne, _⟩ | ⟨hne, _⟩
    · exact h'
    · exact absurd h hne
    · exact absurd h hne
    · exact absurd h hne

/-- … in particular right after the add that registered it. -/
theorem Reg.readd_after_add {r r' : Reg} (hi : r.inv) {m : MId} (hm : m < r.size) (n : Name) :
    (∀ p, r.addParam m n p = .ok r' → r'.addParam m n p = .ok r') ∧
    (∀ c, r.addSub m n c = .ok r' → r'.addSub m n c = .ok r') :=
  ⟨fun p h => (Reg.readd_noop m n).1 p (resolvesP_single.2 (Reg.addParam_ok_find hi hm h)),
   fun c h => (Reg.readd_noop m n).2 c (resolvesM_single.2 (Reg.addSub_ok_find hi hm h))⟩

example : diamond.addSub 0 nA 1 = .ok diamond := by decide
example : diamond.addParam 3 nW 0 = .ok diamond := by decide

/-- Every rejected add leaves the registry unchanged (the error outcome of the
model carries the state the call leaves behind). -/
theorem Reg.reject_unchanged {r r' : Reg} (m : MId) (n : Name) :
    (∀ p, r.addParam m n p = .error r' → r' = r) ∧ (∀ c, r.addSub m n c = .error r' → r' = r) :=
  ⟨fun _ h => Reg.addParam_error h, fun _ h => Reg.addSub_error h⟩

example : diamond.addSub 3 nA 0 = .error diamond := by decide

/-- Which parameter adds are rejected: exactly those that are not a re-add and
whose name is taken (by a parameter or a submodel) or whose object is already
registered in this model under another name. -/
theorem Reg.add_param_decision {r : Reg} (hi : r.inv) (m : MId) (n : Name) (p : PId) :
    (r.addParam m n p = .error r ↔ ¬ ResolvesP r m [n] p ∧ (NameUsed r m n ∨ ∃ n', ResolvesP r m [n'] p)) ∧
    ((∃ r', r.addParam m n p = .ok r') ↔ ResolvesP r m [n] p ∨ (¬ NameUsed r m n ∧ ¬ ∃ n', ResolvesP r m [n'] p)) := by
  have hwf := hi.wf m
  rw [nameUsed_iff hwf, paramRegistered_iff hwf, resolvesP_single]
  rcases Reg.addParam_cases r m n p with ⟨h1, h'⟩ | ⟨h1, h2, h'⟩ | ⟨h1, h2, h3, h'⟩ <;> rw [h']
  · simp [h1]
  · refine ⟨⟨fun _ => ⟨h1, h2⟩, fun _ => rfl⟩, ⟨fun ⟨_, h⟩ => (by cases h), fun h => ?_⟩⟩
    rcases h with h | ⟨a, b⟩
    · exact absurd h h1
    · rcases h2 with h2 | h2
      · exact absurd h2 a
      · exact absurd h2 b
  · simp [h1, h2, h3]

/-- Which submodel adds are rejected: exactly those that are not a re-add and
that add the model to itself, add an ancestor (a cycle of any length), reuse a
name, or add a model already registered in this model. -/
theorem Reg.add_sub_decision {r : Reg} (hi : r.inv) (m : MId) (n : Name) {c : MId} (hc : c < r.size) :
    (r.addSub m n c = .error r ↔
      ¬ ResolvesM r m [n] c ∧ (c = m ∨ r.Reach c m ∨ NameUsed r m n ∨ ∃ n', ResolvesM r m [n'] c)) ∧
    ((∃ r', r.addSub m n c = .ok r') ↔
      ResolvesM r m [n] c ∨ (c ≠ m ∧ ¬ r.Reach c m ∧ ¬ NameUsed r m n ∧ ¬ ∃ n', ResolvesM r m [n'] c)) := by
  have hwf := hi.wf m
  rw [nameUsed_iff hwf, subRegistered_iff hwf, resolvesM_single]
  obtain ⟨b, hb⟩ := Reg.hasSub_total hi m hc
  have hreach : r.Reach c m ↔ b = true := by
    cases b
    · simp [Reg.hasSub_false hb]
    · simp [Reg.hasSub_true hb]
  rcases Reg.addSub_cases r m n c with ⟨h1, h'⟩ | ⟨_, _, hcr, _⟩ | ⟨h1, h2, h'⟩ | ⟨h1, h2, h3, h4, h5, h'⟩
  · rw [h']; simp [h1]
  · rw [hb] at hcr; cases hcr
  · rw [h']
    have : c = m ∨ r.Reach c m ∨ n ∈ (r.get m).nameSet ∨ c ∈ (r.get m).subSet := by
      rcases h2 with h2 | h2 | h2 | ⟨_, h2⟩
      · exact Or.inl h2
      · rw [hb] at h2; cases h2
      · rw [hb] at h2; cases h2; exact Or.inr (Or.inl (hreach.2 rfl))
      · exact Or.inr (Or.inr h2)
    refine ⟨⟨fun _ => ⟨h1, this⟩, fun _ => rfl⟩, ⟨fun ⟨_, h⟩ => (by cases h), fun h => ?_⟩⟩
    rcases h with h | ⟨a, b, c', d⟩
    · exact absurd h h1
    · rcases this with h | h | h | h
      · exact absurd h a
      · exact absurd h b
      · exact absurd h c'
      · exact absurd h d
  · rw [h']
    have h3' : ¬ r.Reach c m := Reg.hasSub_false h3
    simp [h1, h2, h3', h4, h5]

-- rejected: cycle 3 → 0 (0 is an ancestor of 3), self, name taken, object already a submodel
example : diamond.Reach 0 3 := Reg.hasSub_true (f := diamond.size) (by decide)
example : diamond.addSub 3 nA 0 = .error diamond ∧ diamond.addSub 1 nA 1 = .error diamond ∧
    diamond.addParam 0 nA 0 = .error diamond ∧ diamond.addSub 0 nS 1 = .error diamond := by decide

/-! ### exact enumeration -/

/-- `get_all_parameters()` (and `get_trainable_parameters()`, which is the same
function) returns, as a map with strictly increasing keys, exactly the
(path, parameter) pairs that resolve from the model — a parameter reachable
along two paths (a diamond) is listed under each of them. -/
theorem Reg.all_parameters_exact {r : Reg} (hi : r.inv) {m : MId} (hm : m < r.size) :
    ∃ l, r.allParameters m = .ok l ∧ r.trainableParameters m = .ok l ∧ Sorted l ∧
      ∀ path p, (path, p) ∈ l ↔ ResolvesP r m path p := by
  obtain ⟨l, hl⟩ := Reg.getAll_total hi hm
  exact ⟨l, hl, hl, Reg.getAll_sorted hl, Reg.getAll_spec hi.wf hl⟩

example : diamond.allParameters 0 = .ok [([[]], 1), ([nA, nS, nW], 0), ([nB, nS, nW], 0)] := by decide

/-! ### lookups -/

/-- `get_parameter(names)` returns `p` exactly when the path resolves to `p`,
and raises an Error (never crashes) for every other list — wrong, partial,
overlong, and the empty one. -/
theorem Reg.lookup_iff (r : Reg) (m : MId) (path : Path) :
    (∀ p, r.getParameter m path = .ok p ↔ ResolvesP r m path p) ∧
    (r.getParameter m path = .error ↔ ¬ ∃ p, ResolvesP r m path p) ∧
    (∀ c, r.getSubmodel m path = .ok c ↔ ResolvesM r m path c) ∧
    (r.getSubmodel m path = .error ↔ ¬ ∃ c, ResolvesM r m path c) := by
  refine ⟨Reg.getParameter_ok_iff r m path, ?_, Reg.getSubmodel_ok_iff r m path, ?_⟩
  · rcases h : r.getParameter m path with p | _ | _
    · constructor
      · intro h'; cases h'
      · intro hne; exact absurd ⟨p, (Reg.getParameter_ok_iff r m path p).1 h⟩ hne
    · simp only [true_iff]
      rintro ⟨p, hp⟩
      rw [(Reg.getParameter_ok_iff r m path p).2 hp] at h
      cases h
    · exact absurd h (Reg.getParameter_ne_crash r m path)
  · rcases h : r.getSubmodel m path with c | _ | _
    · constructor
      · intro h'; cases h'
      · intro hne; exact absurd ⟨c, (Reg.getSubmodel_ok_iff r m path c).1 h⟩ hne
    · simp only [true_iff]
      rintro ⟨c, hc⟩
      rw [(Reg.getSubmodel_ok_iff r m path c).2 hc] at h
      cases h
    · exact absurd h (Reg.getSubmodel_ne_crash r m path)

/-- the empty path is rejected with an Error -/
theorem Reg.lookup_empty_path (r : Reg) (m : MId) :
    r.getParameter m [] = .error ∧ r.getSubmodel m [] = .error :=
  ⟨Reg.getParameter_nil r m, Reg.getSubmodel_nil r m⟩

/-- `get_parameter` resolves exactly the paths that `get_all_parameters` lists. -/
theorem Reg.lookup_matches_enumeration {r : Reg} (hi : r.inv) {m : MId} {l : PMap} (h : r.allParameters m = .ok l)
    (path : Path) (p : PId) : r.getParameter m path = .ok p ↔ (path, p) ∈ l := by
  rw [Reg.getParameter_ok_iff, Reg.getAll_spec hi.wf h]

example : diamond.getParameter 0 [nB, nS, nW] = .ok 0 ∧ diamond.getSubmodel 0 [nA, nS] = .ok 3 := by decide
example : diamond.getParameter 0 [nB, nS] = .error ∧ diamond.getParameter 0 [nB, nS, nW, nW] = .error ∧
    diamond.getSubmodel 0 [nW] = .error ∧ diamond.getParameter 0 [[]] = .ok 1 := by decide

/-! ### Optimizer::add -/

/-- `Optimizer::add(model)`, when it returns normally, has registered exactly
the parameters reachable through the hierarchy in addition to those registered
before, each once (also when one is reachable along several paths or was
registered already). -/
theorem Reg.optimizer_adds_once {r : Reg} (hi : r.inv) {m : MId} {o o' : Opt} (hn : o.params.Nodup)
    (h : o.addModel r m = .ok o') :
    o'.params.Nodup ∧ ∀ q, q ∈ o'.params ↔ q ∈ o.params ∨ ∃ path, ResolvesP r m path q := by
  unfold Opt.addModel at h
  split at h
  · rename_i ps hps
    obtain ⟨h1, _, h3⟩ := Opt.addList_ok hn h
    refine ⟨h1, fun q => ?_⟩
    rw [h3 q]
    have hspec := Reg.getAll_spec hi.wf hps
    constructor
    · rintro (hq | hq)
      · exact Or.inl hq
      · obtain ⟨e, he, rfl⟩ := List.mem_map.1 hq
        exact Or.inr ⟨e.1, (hspec e.1 e.2).1 he⟩
    · rintro (hq | ⟨path, hq⟩)
      · exact Or.inl hq
      · exact Or.inr (List.mem_map.2 ⟨(path, q), (hspec path q).2 hq, rfl⟩)
  · cases h
  · cases h

/-- `Optimizer::add(parameter)`: registered once, a repeated add is a no-op,
and a rejected add (a parameter the optimizer cannot configure) leaves the
registered set unchanged. -/
theorem Reg.optimizer_add_param {valid : PId → Bool} {o o' : Opt} (p : PId) (hn : o.params.Nodup) :
    (o.addParam valid p = .ok o' → o'.params.Nodup ∧ ∀ q, q ∈ o'.params ↔ q ∈ o.params ∨ q = p) ∧
    (o.addParam valid p = .error o' → o'.params = o.params ∧ o'.needsStats = o.needsStats) ∧
    (p ∈ o.params → o.addParam valid p = .ok o) ∧
    o.addParam valid p ≠ .crash := by
  refine ⟨fun h => ?_, fun h => ?_, fun h => by simp [Opt.addParam, h], Opt.addParam_ne_crash valid o p⟩
  · obtain ⟨a, _, b⟩ := Opt.addParam_ok hn h
    exact ⟨a, b⟩
  · obtain ⟨a, b, _⟩ := Opt.addParam_error h
    exact ⟨a, b⟩

/-- A fresh optimizer meets `Opt.wf`, and every `add` — of a parameter or of a
model, accepted or rejected, in any order and with any overlap between the
models and parameters added — keeps it: no parameter is registered twice and
`configure_parameter` has run exactly once for every registered parameter,
also when the same Parameter object is reachable along several paths (a diamond
through a shared submodel, or one Parameter added to two sibling models). -/
theorem Reg.optimizer_configures_once (r : Reg) (needsStats : Bool) {o o' : Opt} :
    ({ needsStats := needsStats } : Opt).wf r.valid ∧
    (o.wf r.valid → ∀ p, (o.addParam r.valid p = .ok o' ∨ o.addParam r.valid p = .error o') → o'.wf r.valid) ∧
    (o.wf r.valid → ∀ m, (o.addModel r m = .ok o' ∨ o.addModel r m = .error o') → o'.wf r.valid) := by
  refine ⟨⟨by simp, by simp, by simp⟩, fun hw p h => Opt.addParam_wf hw h, fun hw m h => ?_⟩
  unfold Opt.addModel at h
  split at h
  · exact Opt.addList_wf hw h
  · simp only [reduceCtorEq, Out.error.injEq, false_or] at h; subst h; exact hw
  · simp at h

/-- `Optimizer::add(model)` never crashes on a registry built through the API,
returns normally when the optimizer keeps no statistics or every reachable
parameter is valid, and otherwise fails only because of an invalid parameter
below the model. -/
theorem Reg.optimizer_add_model_outcome {r : Reg} (hi : r.inv) {m : MId} (hm : m < r.size) (o : Opt) :
    o.addModel r m ≠ .crash ∧
    ((o.needsStats = false ∨ ∀ path p, ResolvesP r m path p → r.valid p = true) → ∃ o', o.addModel r m = .ok o') ∧
    (∀ o', o.addModel r m = .error o' → o.needsStats = true ∧ ∃ path p, ResolvesP r m path p ∧ r.valid p = false) := by
  obtain ⟨l, hl⟩ := Reg.getAll_total hi hm
  have hspec := Reg.getAll_spec hi.wf hl
  have hl' : r.trainableParameters m = .ok l := hl
  refine ⟨?_, fun hv => ?_, fun o' h => ?_⟩
  · simp only [Opt.addModel, hl']
    exact Opt.addList_ne_crash _ _ _
  · simp only [Opt.addModel, hl']
    apply Opt.addList_all_valid
    rcases hv with hv | hv
    · exact Or.inl hv
    · refine Or.inr (fun p hp => ?_)
      obtain ⟨e, he, rfl⟩ := List.mem_map.1 hp
      exact hv e.1 e.2 ((hspec e.1 e.2).1 he)
  · simp only [Opt.addModel, hl'] at h
    obtain ⟨a, p, hp, hv⟩ := Opt.addList_error h
    obtain ⟨e, he, rfl⟩ := List.mem_map.1 hp
    exact ⟨a, e.1, e.2, (hspec e.1 e.2).1 he, hv⟩

-- the diamond's parameter 0 is reachable along two paths and is registered once;
-- parameter 1 was registered before and is not registered again
example : (Opt.addModel diamond { needsStats := true, params := [1], configs := [1] } 0) =
    .ok { needsStats := true, params := [1, 0], configs := [1, 0] } := by
  decide
-- an invalid parameter (2) under an optimizer that keeps statistics: rejected, set unchanged
example : (Opt.addParam diamond.valid { needsStats := true, params := [1], configs := [1] } 2) =
    .error { needsStats := true, params := [1], configs := [1, 2] } := by
  decide
-- parameter 0 sits below both siblings 1 and 2: adding both models, then the root, then the parameter configures it once
example : (match Opt.addModel diamond { needsStats := true } 1 with
    | .ok o1 => match Opt.addModel diamond o1 2 with
      | .ok o2 => match Opt.addModel diamond o2 0 with
        | .ok o3 => match Opt.addParam diamond.valid o3 0 with
          | .ok o4 => decide (o4.configCount 0 = 1 ∧ o4.configCount 1 = 1 ∧ o4.params = [0, 1])
          | _ => false
        | _ => false
      | _ => false
    | _ => false) = true := by decide

end Primitiv.Registry
