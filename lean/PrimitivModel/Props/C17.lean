import PrimitivModel.Lemmas.Rng
import Mathlib.Data.Int.SuccPred
import Mathlib.Algebra.Order.Field.Rat
import Mathlib.Tactic.NormNum
/-
Property C17 — random sources and initializers honour their contracts,
reproducibly.  PARTIAL by design: that `std::mt19937` and the libstdc++
distribution objects at their standard parameters produce U[0,1) resp. N(0,1)
is trusted (see `Model/Rng.lean`, `stdDraw`).  What is proved here, over the
definitions generated from the C++ text (`Gen/Rng.lean`) and the model on top
of them (`Model/Rng.lean`, the definitions the driver `drv_rng` runs):

* which parameters `Device::random_*` rejects (`Rng.guard_iff_*`, and
  `Rng.guard_rejects_nan`: an unordered parameter is rejected),
* the `(lower, upper]` fix-up of `fill_uniform` (`Rng.uniform_fixup*`),
* Bernoulli masks are 0/1 (`Rng.bernoulli_01`, `Rng.bernoulli_tensor_01`),
* the algebra of `dropout` (`Drop.*`),
* the initializer formulas (`Init.*`),
* one stream per device, consumed in call order; a rejected request draws
  nothing (`Rng.step_error_iff`, `Rng.rejected_keeps_stream`, `Rng.stream_order`),
* both backends hand their parameters to the matching `fill_*` in order and the
  `fill_*` build the named libstdc++ objects from them (`Rng.backends_forward_params`,
  `Rng.dist_objects`).

The scalar type is abstract: each theorem fixes the meaning of the operations
of `Sc α` it needs through `IeeeCmp`, `SuccNext` or `ExactArith`
(`Lemmas/Rng.lean`); float rounding is outside every theorem.  The `example`s
show that these hypotheses have concrete instances.
-/
set_option linter.unusedSimpArgs false
set_option linter.unusedSectionVars false
set_option linter.unusedVariables false
namespace Primitiv.C17
open Primitiv Primitiv.Rng Primitiv.Gen.Rng

/-! ### Instances of the hypotheses -/

/-- IEEE-like comparisons over `Option Int` (`none` = NaN); the arithmetic fields are irrelevant here. -/
def exIeee : Sc (Option Int) where
  lt a b := match a, b with | some x, some y => decide (x < y) | _, _ => false
  le a b := match a, b with | some x, some y => decide (x ≤ y) | _, _ => false
  eq a b := match a, b with | some x, some y => decide (x = y) | _, _ => false
  add a _ := a
  sub a _ := a
  mul a _ := a
  div a _ := a
  neg a := a
  sqrt a := a
  nextafter a _ := a
  exp a := a
  ofNat n := some n
  narrow a := a

/-- The integers as a discrete order: `nextafter` steps by one. -/
def exInt : Sc Int where
  lt a b := decide (a < b)
  le a b := decide (a ≤ b)
  eq a b := decide (a = b)
  add a b := a + b
  sub a b := a - b
  mul a b := a * b
  div a b := a / b
  neg a := -a
  sqrt a := a
  nextafter a b := if a < b then a + 1 else if b < a then a - 1 else b
  exp a := a
  ofNat n := n
  narrow a := a

/-- The rationals with exact arithmetic (`sqrt` is not needed to be a square root for the formulas). -/
def exRat : Sc Rat where
  lt a b := decide (a < b)
  le a b := decide (a ≤ b)
  eq a b := decide (a = b)
  add a b := a + b
  sub a b := a - b
  mul a b := a * b
  div a b := a / b
  neg a := -a
  sqrt a := a
  nextafter a _ := a
  exp a := a
  ofNat n := n
  narrow a := a

/-! ### Parameter validation -/

section guards
variable {α : Type} [LinearOrder α] {S : Sc (Option α)} {lit : Nat → α}

theorem Rng.guard_iff_bernoulli (h : IeeeCmp S lit) (p : α) :
    guard_random_bernoulli S (some p) = true ↔ p < lit 0 ∨ lit 1 < p := by
  simp [guard_random_bernoulli, h.lt_some, h.le_some, h.ofNat, not_and_or, not_le]

theorem Rng.guard_iff_uniform (h : IeeeCmp S lit) (lower upper : α) :
    guard_random_uniform S (some lower) (some upper) = true ↔ upper < lower := by
  simp [guard_random_uniform, h.lt_some, h.le_some, not_le]

theorem Rng.guard_iff_normal (h : IeeeCmp S lit) (mean : Option α) (sd : α) :
    guard_random_normal S mean (some sd) = true ↔ sd ≤ lit 0 := by
  simp [guard_random_normal, h.lt_some, h.le_some, h.ofNat, not_lt]

theorem Rng.guard_iff_log_normal (h : IeeeCmp S lit) (mean : Option α) (sd : α) :
    guard_random_log_normal S mean (some sd) = true ↔ sd ≤ lit 0 := by
  simp [guard_random_log_normal, h.lt_some, h.le_some, h.ofNat, not_lt]

theorem Rng.guard_rejects_nan (h : IeeeCmp S lit) :
    guard_random_bernoulli S none = true ∧
    (∀ b, guard_random_uniform S none b = true) ∧ (∀ a, guard_random_uniform S a none = true) ∧
    (∀ m, guard_random_normal S m none = true) ∧ (∀ m, guard_random_log_normal S m none = true) := by
  simp [guard_random_bernoulli, guard_random_uniform, guard_random_normal, guard_random_log_normal,
    h.lt_nan_left, h.lt_nan_right, h.le_nan_left, h.le_nan_right]

/-- `Device::random_*` reject exactly: p ∉ [0,1]; upper < lower; sd ≤ 0 (on ordered parameters). -/
theorem Rng.guard_iff (h : IeeeCmp S lit) (x y : α) :
    (guard_random_bernoulli S (some x) = true ↔ ¬ (lit 0 ≤ x ∧ x ≤ lit 1)) ∧
    (guard_random_uniform S (some x) (some y) = true ↔ y < x) ∧
    (guard_random_normal S (some x) (some y) = true ↔ y ≤ lit 0) ∧
    (guard_random_log_normal S (some x) (some y) = true ↔ y ≤ lit 0) := by
  refine ⟨?_, Rng.guard_iff_uniform h x y, Rng.guard_iff_normal h _ y, Rng.guard_iff_log_normal h _ y⟩
  rw [Rng.guard_iff_bernoulli h x, not_and_or, not_le, not_le]

end guards

/-! ### fix-up, masks, stream -/

section fixup
variable {α : Type} [LinearOrder α] [SuccOrder α] {S : Sc α}

theorem Rng.uniform_fixup_value (h : SuccNext S) {lower upper raw : α} (hlu : lower < upper) (hr : lower ≤ raw) :
    fill_uniform_elem S lower upper raw = if raw = lower then upper else raw := by
  have hmax : ¬ IsMax lower := not_isMax_of_lt hlu
  simp only [fill_uniform_elem, h.lt, h.next_lt _ _ hlu, decide_eq_true_eq,
    Order.lt_succ_iff_of_not_isMax hmax]
  by_cases e : raw = lower
  · simp [e]
  · have : ¬ raw ≤ lower := fun hle => e (le_antisymm hle hr)
    simp [e, this]

theorem Rng.uniform_fixup (h : SuccNext S) {lower upper raw : α} (hlu : lower < upper)
    (hr : lower ≤ raw ∧ raw ≤ upper) :
    lower < fill_uniform_elem S lower upper raw ∧ fill_uniform_elem S lower upper raw ≤ upper := by
  rw [Rng.uniform_fixup_value h hlu hr.1]
  by_cases e : raw = lower
  · simp [e, hlu]
  · simp only [e, if_false]
    exact ⟨lt_of_le_of_ne hr.1 (Ne.symm e), hr.2⟩

theorem Rng.uniform_fixup_degenerate (h : SuccNext S) (a : α) :
    fill_uniform_elem S a a a = a := by
  simp [fill_uniform_elem, h.lt, h.next_eq]
end fixup

section bern
variable {α : Type} (S : Sc α)

theorem Rng.bernoulli_01 (p u : α) :
    sample S .bernoulli p p u = S.ofNat 0 ∨ sample S .bernoulli p p u = S.ofNat 1 := by
  simp only [sample, fillElem, fill_bernoulli_elem, stdDraw]
  by_cases c : S.lt u p = true <;> simp [c]

theorem Rng.bernoulli_tensor_01 (raws : List α) (sh : Shape) (p : α) (t : Tensor α)
    (ht : deviceRandom S raws .bernoulli sh p p = .ok t) :
    t.shape = sh ∧ ∀ v ∈ t.data, v = S.ofNat 0 ∨ v = S.ofNat 1 := by
  simp only [deviceRandom, Device_random_bernoulli] at ht
  split at ht
  · cases ht
  · cases ht
    refine ⟨rfl, ?_⟩
    intro v hv
    simp only [fill, List.mem_map] at hv
    obtain ⟨u, _, rfl⟩ := hv
    exact Rng.bernoulli_01 S p u
end bern

section stream
variable {σ α : Type} (S : Sc α) (G : Source σ α)

theorem Rng.step_error_iff (st : σ) (r : Req α) :
    (step S G st r).2 = .error .error ↔ rejects S r.kind r.a r.b = true := by
  unfold step
  by_cases c : rejects S r.kind r.a r.b = true
  · simp [c, Primitiv.throwError]
  · simp only [c, if_false]
    cases hk : r.kind <;>
      simp_all [rejects, deviceRandom, Device_random_bernoulli, Device_random_uniform, Device_random_normal,
        Device_random_log_normal, pure, Except.pure]

theorem Rng.rejected_keeps_stream (st : σ) (r : Req α) (h : rejects S r.kind r.a r.b = true) :
    step S G st r = (st, .error .error) := by
  simp [step, h, Primitiv.throwError]

theorem Rng.stream_order (st : σ) (rs1 rs2 : List (Req α)) :
    run S G st (rs1 ++ rs2) =
      ((run S G (run S G st rs1).1 rs2).1, (run S G st rs1).2 ++ (run S G (run S G st rs1).1 rs2).2) := by
  induction rs1 generalizing st with
  | nil => simp [run]
  | cons r rs ih => simp [run, ih]
end stream

/-! ### dropout and initializers -/

section drop
variable {α : Type}

theorem Drop.disabled_id (S : Sc α) (raws : List α) (x : Tensor α) (rate : α) :
    dropoutTensor S raws x rate false = .ok x := by
  simp [dropoutTensor, dropout, pure, Except.pure]

variable [Field α] [LinearOrder α] {S : Sc α}

theorem Drop.rate_one_zero (h : ExactArith S) (raws : List α) (x : Tensor α) :
    dropoutTensor S raws x 1 true = .ok ⟨x.shape, x.data.map (fun _ => 0)⟩ := by
  simp [dropoutTensor, dropout, tensorVar, h.eq, h.ofNat, h.narrow, h.mul, pure, Except.pure]

theorem Drop.scaling (h : ExactArith S) (raws : List α) (x y : Tensor α) (rate : α) (hr : rate ≠ 1)
    (hy : dropoutTensor S raws x rate true = .ok y) :
    y.shape = x.shape ∧
    y.data = List.zipWith (fun v u => if u < 1 - rate then v / (1 - rate) else 0) x.data (raws.take x.shape.size) := by
  simp only [dropoutTensor, dropout, tensorVar, h.eq, h.ofNat, h.narrow, h.mul, h.sub, h.div, Nat.cast_one,
    decide_eq_true_eq, hr, if_false, Bool.not_true, Bool.false_eq_true, deviceRandom, Device_random_bernoulli] at hy
  split at hy
  · cases hy
  · simp only [pure, Except.pure, bind, Except.bind, fill, sample, fillElem, fill_bernoulli_elem, stdDraw, h.lt,
      h.ofNat, decide_eq_true_eq] at hy
    cases hy
    refine ⟨rfl, ?_⟩
    simp only [List.zipWith_map_left, List.zipWith_map_right]
    congr 1
    funext v u
    simp only [sample, fillElem, fill_bernoulli_elem, stdDraw, h.lt, h.ofNat, decide_eq_true_eq]
    by_cases c : u < 1 - rate <;> simp [c, div_eq_mul_inv, mul_comm]
end drop

section init
variable {α : Type} [Field α] [LinearOrder α] {S : Sc α}

theorem Init.constant_formula (S : Sc α) (raws : List α) (k : α) (s : Shape) :
    init_Constant S k s = .ok (.reset k) ∧
    runInit S raws (init_Constant S k s) s = .ok ⟨s, List.replicate s.size k⟩ := by
  simp [init_Constant, runInit, applyInit, pure, Except.pure, bind, Except.bind]

theorem Init.uniform_normal_formula (S : Sc α) (a b : α) (s : Shape) :
    init_Uniform S a b s = .ok (.uniform s a b) ∧ init_Normal S a b s = .ok (.normal s a b) := by
  simp [init_Uniform, init_Normal, pure, Except.pure]

theorem Init.identity_formula (S : Sc α) (s : Shape) :
    init_Identity S s = (if s.isMatrix = true ∧ s.get 0 = s.get 1 then .ok (.identity (s.get 0)) else .error .error) := by
  by_cases hm : s.isMatrix = true <;> by_cases he : s.get 0 = s.get 1 <;>
    simp [init_Identity, hm, he, Primitiv.throwError, pure, Except.pure]

theorem Init.xavier_uniform_formula (h : ExactArith S) (scale : α) (s : Shape) (hm : s.isMatrix = true)
    (hw : s.get 0 + s.get 1 < W) :
    init_XavierUniform S scale s =
      .ok (.uniform s (-(scale * S.sqrt (6 / ((s.get 0 + s.get 1 : Nat) : α))))
                      (scale * S.sqrt (6 / ((s.get 0 + s.get 1 : Nat) : α)))) := by
  simp [init_XavierUniform, hm, add32_of_lt hw, h.narrow, h.mul, h.div, h.ofNat, h.neg, pure, Except.pure]

theorem Init.xavier_normal_formula (h : ExactArith S) (scale : α) (s : Shape) (hm : s.isMatrix = true)
    (hw : s.get 0 + s.get 1 < W) :
    init_XavierNormal S scale s =
      .ok (.normal s 0 (scale * S.sqrt (2 / ((s.get 0 + s.get 1 : Nat) : α)))) := by
  simp [init_XavierNormal, hm, add32_of_lt hw, h.narrow, h.mul, h.div, h.ofNat, h.neg, pure, Except.pure]

theorem Init.xavier_requires_matrix (S : Sc α) (scale : α) (s : Shape) (hm : s.isMatrix = false) :
    init_XavierUniform S scale s = .error .error ∧ init_XavierNormal S scale s = .error .error := by
  simp [init_XavierUniform, init_XavierNormal, hm, Primitiv.throwError]

theorem Init.xavier_uniform_conv2d_formula (h : ExactArith S) (scale : α) (s : Shape) (hd : s.depth ≤ 4)
    (hw : convFanIn s + convFanOut s < W) :
    init_XavierUniformConv2D S scale s =
      .ok (.uniform s (-(scale * S.sqrt (6 / ((convFanIn s + convFanOut s : Nat) : α))))
                      (scale * S.sqrt (6 / ((convFanIn s + convFanOut s : Nat) : α)))) := by
  have hd' : ¬ s.depth > 4 := by omega
  simp [init_XavierUniformConv2D, hd', conv_fans hw, h.narrow, h.mul, h.div, h.ofNat, h.neg, pure, Except.pure]

theorem Init.xavier_normal_conv2d_formula (h : ExactArith S) (scale : α) (s : Shape) (hd : s.depth ≤ 4)
    (hw : convFanIn s + convFanOut s < W) :
    init_XavierNormalConv2D S scale s =
      .ok (.normal s 0 (scale * S.sqrt (2 / ((convFanIn s + convFanOut s : Nat) : α)))) := by
  have hd' : ¬ s.depth > 4 := by omega
  simp [init_XavierNormalConv2D, hd', conv_fans hw, h.narrow, h.mul, h.div, h.ofNat, h.neg, pure, Except.pure]

theorem Init.xavier_conv2d_requires_depth4 (S : Sc α) (scale : α) (s : Shape) (hd : 4 < s.depth) :
    init_XavierUniformConv2D S scale s = .error .error ∧ init_XavierNormalConv2D S scale s = .error .error := by
  simp [init_XavierUniformConv2D, init_XavierNormalConv2D, hd, Primitiv.throwError]

end init

/-- `Identity` ends in `Device::identity(n)`, which produces the n×n identity matrix. -/
theorem Init.identity_matrix {α : Type} (S : Sc α) (n : Nat) (t : Tensor α) (ht : deviceIdentity S n = .ok t) :
    0 < n ∧ Shape.new [n, n] 1 = .ok t.shape ∧ t.data.length = n * n ∧
    ∀ i j, i < n → j < n → t.data[i + n * j]? = some (if i = j then S.ofNat 1 else S.ofNat 0) :=
  deviceIdentity_spec S n t ht

/-! ### The backends and the distribution objects (tables generated from the sources) -/

theorem Rng.backends_forward_params :
    backend_calls.map (fun r => (r.1, r.2.1)) =
      [("naive", "bernoulli"), ("naive", "uniform"), ("naive", "normal"), ("naive", "log_normal"),
       ("eigen", "bernoulli"), ("eigen", "uniform"), ("eigen", "normal"), ("eigen", "log_normal")] ∧
    backend_calls.all (fun r => r.2.2.1 == "fill_" ++ r.2.1 && r.2.2.2.1 == r.2.2.2.2) = true := by
  decide

theorem Rng.dist_objects :
    fill_bernoulli_dist = ("std::bernoulli_distribution", ["p"]) ∧
    fill_uniform_dist = ("std::uniform_real_distribution<float>", ["lower", "upper"]) ∧
    fill_normal_dist = ("std::normal_distribution<float>", ["mean", "sd"]) ∧
    fill_log_normal_dist = ("std::lognormal_distribution<float>", ["mean", "sd"]) := by
  decide

/-- `fill_normal` / `fill_log_normal` / `fill_bernoulli` store the draw of the distribution object unchanged. -/
theorem Rng.fill_stores_draw {α : Type} (S : Sc α) (a b d : α) :
    fill_bernoulli_elem S a d = d ∧ fill_normal_elem S a b d = d ∧ fill_log_normal_elem S a b d = d := by
  simp [fill_bernoulli_elem, fill_normal_elem, fill_log_normal_elem]

/-! ### Concrete instances of the hypotheses and of the statements

(at the end of the file, so that an instance that stops evaluating after a change of the
sources is not attributed to the theorems) -/

example : IeeeCmp exIeee (fun n => (n : Int)) := by
  constructor <;> intros <;> (try rename_i a; cases a) <;> rfl

example : SuccNext exInt := by
  constructor
  · intros; rfl
  · intro a b h; simp [exInt, h, Order.succ_eq_add_one]
  · intro a; simp [exInt]

example : fill_uniform_elem exInt 0 3 0 = 3 ∧ fill_uniform_elem exInt 0 3 2 = 2 := by decide

example : ExactArith exRat := by constructor <;> intros <;> rfl

example : guard_random_bernoulli exIeee (some 2) = true ∧ guard_random_bernoulli exIeee (some 1) = false ∧
    guard_random_uniform exIeee (some 3) (some 3) = false ∧ guard_random_normal exIeee (some 0) (some 0) = true := by
  decide

example : (deviceIdentity exInt 2).toOption.map (·.data) = some [1, 0, 0, 1] := by decide

/-- `Drop.scaling` at rate 1/2 over ℚ: the kept element is doubled, the dropped one is 0 (draws 1/4 < 1/2 ≤ 3/4). -/
example : ∃ y, dropoutTensor exRat [1/4, 3/4] ⟨⟨[2], 1, 2⟩, [3, 5]⟩ (1/2) true = .ok y ∧ y.data = [6, 0] := by
  refine ⟨⟨⟨[2], 1, 2⟩, [6, 0]⟩, ?_, rfl⟩
  norm_num [dropoutTensor, dropout, tensorVar, exRat, deviceRandom, Device_random_bernoulli, guard_random_bernoulli,
    fill, sample, fillElem, fill_bernoulli_elem, stdDraw, Shape.size, mul32, pure, Except.pure, bind, Except.bind]

/-- the Conv2D fans of a 3×3 kernel with 2 input and 4 output channels: 18 and 36 -/
example : convFanIn ⟨[3, 3, 2, 4], 1, 72⟩ = 18 ∧ convFanOut ⟨[3, 3, 2, 4], 1, 72⟩ = 36 := by decide

end Primitiv.C17
