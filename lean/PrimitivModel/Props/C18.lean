import PrimitivModel.Model.Pool
import PrimitivModel.Lemmas.Pool
/-
C18 — MemoryPool never double-supplies, never leaks, tolerates outliving handles.

Every theorem is about the executable model `Model/Pool.lean` (the definitions
the driver `drv_pool` runs) and holds for **all histories** of client calls
(create / alloc / drop / destroy over any number of pools, any sizes) and
**all allocators** that never return a pointer which is still outstanding
(`Oracle.Fresh`): in particular the allocator may fail at any of its calls and
may hand a deleted address out again.  `run h` is the state after the history
`h`; the invariant `WInv` behind the theorems is in `Lemmas/Pool.lean`.
-/
namespace Primitiv.C18
open Primitiv.Pool

/-! ### calculate_shifts -/

/-- `calculate_shifts(x)` is `⌈log2 x⌉` for every 64-bit `x ≠ 0`: the least `s` with `x ≤ 2^s`
(and 64 for `x = 0`, as documented). -/
theorem calculate_shifts_spec (x : Nat) (hx : x < 2 ^ 64) :
    (x = 0 → calculateShifts x = 64) ∧
    (x ≠ 0 → x ≤ 2 ^ calculateShifts x ∧ ∀ t, x ≤ 2 ^ t → calculateShifts x ≤ t) := by
  refine ⟨fun h => by simp [calculateShifts, h], fun h0 => ?_⟩
  obtain ⟨h1, h2⟩ := calculateShifts_bounds x h0 hx
  refine ⟨h1, fun t ht => ?_⟩
  rcases h2 with h2 | h2
  · omega
  · apply Classical.byContradiction
    intro hn
    have : 2 ^ t ≤ 2 ^ (calculateShifts x - 1) := Nat.pow_le_pow_right (by decide) (by omega)
    omega

example : calculateShifts 1 = 0 ∧ calculateShifts 1025 = 11 ∧ calculateShifts (2 ^ 63) = 63 ∧
    calculateShifts (2 ^ 63 + 1) = 64 := by decide

/-! ### size classes -/

/-- size 0: a null handle, `*allocated_size == 0`, nothing changes, no callback is called -/
theorem Pool.size_zero_null (ora : Oracle) (P : MPool) (log : Log) :
    P.allocate ora log 0 = (P, log, .null) := allocate_null ora P log

/-- sizes (after raising to the minimum size) above 2^63: Error, nothing changes, no callback -/
theorem Pool.size_above_2_63_error (ora : Oracle) (P : MPool) (log : Log) (size : Nat) (h0 : size ≠ 0)
    (hs : size < 2 ^ 64) (hm : P.minSize < 2 ^ 64) (hbig : max size P.minSize > 2 ^ 63) :
    P.allocate ora log size = (P, log, .error) := by
  apply allocate_tooBig ora P log size h0
  rw [effSize_eq_max]
  exact (calculateShifts_gt_63 _ (by omega) (by omega)).2 hbig

example : ((MPool.new 0 0).allocate (fun _ _ => some 7) [] (2 ^ 63 + 1)).2.2 = .error := by decide

/-- every block handed out has the smallest power-of-two size not below max(requested, minimum
size), and that size is what `*allocated_size` reports (`m`); sizes up to 2^63 are never rejected
by the size check -/
theorem Pool.size_class (ora : Oracle) (P : MPool) (log : Log) (size : Nat) (hs : size < 2 ^ 64)
    (hm : P.minSize < 2 ^ 64) (ptr : Ptr) (m : Nat) (hr : (P.allocate ora log size).2.2 = .block ptr m) :
    ∃ s, s ≤ 63 ∧ m = 2 ^ s ∧ max size P.minSize ≤ m ∧ ∀ t, max size P.minSize ≤ 2 ^ t → m ≤ 2 ^ t := by
  obtain ⟨h0, h63, hmeq⟩ := allocate_block_size ora P log size ptr m hr
  rw [effSize_eq_max] at h63 hmeq
  obtain ⟨h1, h2⟩ := (calculate_shifts_spec (max size P.minSize) (by omega)).2 (by omega)
  exact ⟨_, by omega, hmeq, hmeq ▸ h1, fun t ht => hmeq ▸ Nat.pow_le_pow_right (by decide) (h2 t ht)⟩

example : ((MPool.new 0 10).allocate (fun _ _ => some 7) [] 3).2.2 = .block 7 16 := by decide

/-- the size check is the only reason for a size in range to yield no block: either a block is
handed out or the allocator failed twice -/
theorem Pool.size_in_range_served (ora : Oracle) (P : MPool) (log : Log) (size : Nat) (h0 : size ≠ 0)
    (hs : size < 2 ^ 64) (hm : P.minSize < 2 ^ 64) (hle : max size P.minSize ≤ 2 ^ 63) :
    (∃ ptr m, (P.allocate ora log size).2.2 = .block ptr m) ∨
    ((P.allocate ora log size).2.2 = .error ∧
      (((P.allocate ora log size).2.1.take 1).filter Event.isAlloc = [.alloc (2 ^ calculateShifts (max size P.minSize)) none])) := by
  have h63 : ¬ calculateShifts (effSize P size) > 63 := by
    rw [effSize_eq_max]
    exact fun h => absurd ((calculateShifts_gt_63 _ (by omega) (by omega)).1 h) (by omega)
  have hk : (⟨calculateShifts (effSize P size), by omega⟩ : Fin 64).val = calculateShifts (effSize P size) := rfl
  rw [allocate_eq ora P log size h0 _ hk, ← effSize_eq_max]
  split
  · exact Or.inl ⟨_, _, rfl⟩
  · split
    · exact Or.inl ⟨_, _, rfl⟩
    · split
      · exact Or.inl ⟨_, _, rfl⟩
      · exact Or.inr ⟨rfl, rfl⟩

/-- over all histories: the block behind a returned handle was obtained from the allocator with
exactly the reported `allocated_size` -/
theorem Pool.allocated_size_is_capacity (h : History) (hf : h.Fresh) (ora : Oracle) (hfo : ora.Fresh)
    (pid name size : Nat) (ptr : Ptr) (as : Nat)
    (hr : ((run h).step ora (.alloc pid name size)).2 = .handle (some ptr) as) :
    allocSize ((run h).step ora (.alloc pid name size)).1.log ptr = some as := by
  have hi := WInv.run h hf
  cases hfind : (run h).findPool pid with
  | none => simp [World.step, hfind] at hr
  | some P =>
    cases hname : (run h).handles.any (·.1 == name) with
    | true => simp [World.step, hfind, hname] at hr
    | false =>
      rw [step_alloc_res hfind hname] at hr
      rw [step_alloc_log hfind hname]
      cases hres : (P.allocate ora (run h).log size).2.2 with
      | null => rw [hres] at hr; simp [allocRes] at hr
      | error => rw [hres] at hr; simp [allocRes] at hr
      | block p m =>
        rw [hres] at hr
        simp only [allocRes, Res.handle.injEq, Option.some.injEq] at hr
        obtain ⟨rfl, rfl⟩ := hr
        exact (hi.alloc_block_facts hfo hfind hres).1

/-! ### no block is supplied twice -/

/-- over all histories: all blocks owned by live pools (supplied or in a free list) are pairwise
distinct; in particular live blocks are pairwise distinct and never in a free list -/
theorem Pool.disjoint (h : History) (hf : h.Fresh) : (ownedAll (run h)).Nodup :=
  (WInv.run h hf).nodup_owned

/-- … spelled out: a block supplied by a live pool is in no free list of any live pool -/
theorem Pool.supplied_not_in_free_list (h : History) (hf : h.Fresh) (P Q : MPool) (hP : P ∈ (run h).pools)
    (hQ : Q ∈ (run h).pools) (x : Ptr) (k : Fin 64) (hx : x ∈ P.keys) : x ∉ Q.reserved k :=
  fun hq => (WInv.run h hf).supplied_not_reserved hP hQ hx (mem_flat.2 ⟨k, hq⟩)

/-- … and is supplied by one pool only, under one key -/
theorem Pool.supplied_once (h : History) (hf : h.Fresh) (P Q : MPool) (hP : P ∈ (run h).pools)
    (hQ : Q ∈ (run h).pools) (x : Ptr) (hx : x ∈ P.keys) (hxq : x ∈ Q.keys) : P = Q ∧ P.keys.Nodup :=
  ⟨(WInv.run h hf).supplied_unique hP hQ hx hxq,
   (List.nodup_append.1 ((WInv.run h hf).pool_nodup hP)).2.1⟩

/-- over all histories: the block handed out by `alloc` is not supplied by any live pool at that
moment (a pointer is never supplied twice while live) -/
theorem Pool.never_double_supplies (h : History) (hf : h.Fresh) (ora : Oracle) (hfo : ora.Fresh)
    (pid name size : Nat) (ptr : Ptr) (as : Nat)
    (hr : ((run h).step ora (.alloc pid name size)).2 = .handle (some ptr) as) :
    ∀ Q ∈ (run h).pools, ptr ∉ Q.keys := by
  have hi := WInv.run h hf
  cases hfind : (run h).findPool pid with
  | none => simp [World.step, hfind] at hr
  | some P =>
    cases hname : (run h).handles.any (·.1 == name) with
    | true => simp [World.step, hfind, hname] at hr
    | false =>
      rw [step_alloc_res hfind hname] at hr
      cases hres : (P.allocate ora (run h).log size).2.2 with
      | null => rw [hres] at hr; simp [allocRes] at hr
      | error => rw [hres] at hr; simp [allocRes] at hr
      | block p m =>
        rw [hres] at hr
        simp only [allocRes, Res.handle.injEq, Option.some.injEq] at hr
        obtain ⟨rfl, rfl⟩ := hr
        exact (hi.alloc_block_facts hfo hfind hres).2

/-- the supplied blocks of a live pool are exactly the blocks its live handles refer to -/
theorem Pool.supplied_iff_referenced (h : History) (hf : h.Fresh) (P : MPool) (hP : P ∈ (run h).pools) :
    (hptrs (run h).handles P.id).Perm P.keys := (WInv.run h hf).hperm P hP

/-! ### reuse before the allocator, one retry -/

/-- a released block of the class is reused — the most recently released one — and neither the
allocator nor the deleter is called -/
theorem Pool.reuse_before_alloc (ora : Oracle) (P : MPool) (log : Log) (size : Nat) (h0 : size ≠ 0) (k : Fin 64)
    (hk : k.val = calculateShifts (max size P.minSize)) (ptr : Ptr) (rest : List Ptr)
    (hr : P.reserved k = ptr :: rest) :
    P.allocate ora log size =
      ({ P with reserved := setClass P.reserved k rest, supplied := MPool.emplace P.supplied ptr k }, log,
        .block ptr (2 ^ k.val)) := by
  rw [allocate_eq ora P log size h0 k (by rw [effSize_eq_max]; exact hk), hr]

/-- `free` puts the block at the back of the free list of its class, where `allocate` looks first -/
theorem Pool.free_then_reuse (P P' : MPool) (ptr : Ptr) (hfree : P.free ptr = some P') :
    ∃ k, (ptr, k) ∈ P.supplied ∧ P'.reserved k = ptr :: P.reserved k := by
  have hmem : ptr ∈ P.keys := by
    apply Classical.byContradiction
    intro hn
    rw [free_of_not_mem hn] at hfree
    cases hfree
  obtain ⟨k, hk, he⟩ := free_of_mem hmem
  rw [he] at hfree
  cases hfree
  exact ⟨k, hk, setClass_same _ _ _⟩

example : ((⟨0, 0, fun k => if k = 2 then [5, 6] else [], []⟩ : MPool).allocate (fun _ _ => none) [] 3).2
    = ([], .block 5 4) := by decide

/-- the class has no free block and the allocator answers: exactly one allocator call, no deleter call -/
theorem Pool.alloc_when_class_empty (ora : Oracle) (P : MPool) (log : Log) (size : Nat) (h0 : size ≠ 0)
    (k : Fin 64) (hk : k.val = calculateShifts (max size P.minSize)) (hr : P.reserved k = []) (ptr : Ptr)
    (ho : ora log (2 ^ k.val) = some ptr) :
    P.allocate ora log size =
      ({ P with supplied := MPool.emplace P.supplied ptr k }, .alloc (2 ^ k.val) (some ptr) :: log,
        .block ptr (2 ^ k.val)) := by
  rw [allocate_eq ora P log size h0 k (by rw [effSize_eq_max]; exact hk), hr]
  simp only [ho]

/-- the allocator fails: every cached block of the pool is passed to the deleter, then the
allocator is called exactly once more with the same size; its answer decides (block or Error) -/
theorem Pool.retry_once (ora : Oracle) (P : MPool) (log : Log) (size : Nat) (h0 : size ≠ 0)
    (k : Fin 64) (hk : k.val = calculateShifts (max size P.minSize)) (hr : P.reserved k = [])
    (ho : ora log (2 ^ k.val) = none) :
    let log1 := relLog (flat P.reserved) (.alloc (2 ^ k.val) none :: log)
    (P.allocate ora log size).2.1 = .alloc (2 ^ k.val) (ora log1 (2 ^ k.val)) :: log1 ∧
    (P.allocate ora log size).1.reserved = (fun _ => []) ∧
    (P.allocate ora log size).2.2 =
      (match ora log1 (2 ^ k.val) with
        | some ptr => .block ptr (2 ^ k.val)
        | none => .error) := by
  rw [allocate_eq ora P log size h0 k (by rw [effSize_eq_max]; exact hk), hr]
  simp only [ho]
  cases ora (relLog (flat P.reserved) (.alloc (2 ^ k.val) none :: log)) (2 ^ k.val) <;> exact ⟨rfl, rfl, rfl⟩

example : ((⟨0, 0, fun k => if k = 2 then [5, 6] else [], []⟩ : MPool).allocate
      (fun log _ => if log.length < 1 then none else some 9) [] 100).2
    = ([.alloc 128 (some 9), .del 6, .del 5, .alloc 128 none], .block 9 128) := by decide

/-- in every case `allocate` calls the allocator at most twice and the deleter only for blocks in
this pool's free lists -/
theorem Pool.at_most_two_allocator_calls (ora : Oracle) (P : MPool) (log : Log) (size : Nat) :
    ∃ evs, (P.allocate ora log size).2.1 = evs ++ log ∧ (∀ x ∈ dels evs, x ∈ flat P.reserved) ∧
      (evs.filter Event.isAlloc).length ≤ 2 := allocate_events ora P log size

/-! ### every block goes to the deleter exactly once -/

/-- over all histories: the call log is well formed — the deleter is only ever called for a pointer
that is outstanding (so never twice for one allocation, never for an unknown pointer) -/
theorem Pool.deleter_only_outstanding (h : History) (hf : h.Fresh) : Log.wf (run h).log := (WInv.run h hf).wf

/-- over all histories and all pointers: deletions = allocations, minus one while the block is
still owned by a live pool; a block is owned at most once -/
theorem Pool.deleter_count (h : History) (hf : h.Fresh) (p : Ptr) :
    allocCount p (run h).log = delCount p (run h).log + (ownedAll (run h)).count p ∧
    (ownedAll (run h)).count p ≤ 1 := by
  have hi := WInv.run h hf
  rw [hi.perm.count_eq]
  refine ⟨wf_count p hi.wf, ?_⟩
  rw [(wf_nodup hi.wf).count]
  split <;> omega

/-- over all histories that end with every pool destroyed: every pointer was passed to the deleter
exactly as often as the allocator returned it (nothing leaks, nothing is deleted twice) -/
theorem Pool.deleter_exactly_once (h : History) (hf : h.Fresh) (hend : (run h).pools = []) (p : Ptr) :
    delCount p (run h).log = allocCount p (run h).log := by
  have := (Pool.deleter_count h hf p).1
  simp [ownedAll, hend] at this
  exact this.symm

/-- … in particular, with an allocator that never hands the same address out twice, every pointer
obtained from the allocator is passed to the deleter exactly once -/
theorem Pool.deleter_exactly_once_injective (h : History) (hf : h.Fresh) (hend : (run h).pools = [])
    (hinj : ∀ p, allocCount p (run h).log ≤ 1) (p : Ptr) (hp : 0 < allocCount p (run h).log) :
    delCount p (run h).log = 1 := by
  have := Pool.deleter_exactly_once h hf hend p
  have := hinj p
  omega

/-- the destructor passes exactly the blocks the pool still owns (supplied and cached) to the
deleter, each once, and no block of another live pool -/
theorem Pool.destroy_deletes_owned (h : History) (hf : h.Fresh) (ora : Oracle) (pid : Nat) (P : MPool)
    (hfind : (run h).findPool pid = some P) :
    ∃ evs, ((run h).step ora (.destroy pid)).1.log = evs ++ (run h).log ∧ (dels evs).Perm P.owned ∧
      (dels evs).Nodup ∧ evs.filter Event.isAlloc = [] ∧
      ∀ Q ∈ (run h).pools, Q ≠ P → ∀ x ∈ dels evs, x ∉ Q.owned := by
  have hi := WInv.run h hf
  obtain ⟨evs, h1, h2, h3⟩ := step_events_destroy ora (run h) pid P hfind
  refine ⟨evs, h1, h2, h2.symm.nodup (hi.pool_nodup (findPool_mem hfind)), h3, fun Q hQ hne x hx => ?_⟩
  rcases hi.pools_disjoint (findPool_mem hfind) hQ with e | e
  · exact absurd e.symm hne
  · exact e.2 x (h2.subset hx)

/-- before its pool is destroyed a block is never passed to the deleter while it is supplied
(referenced): `alloc` deletes only blocks from free lists, `create` and `drop` delete nothing -/
theorem Pool.deleter_never_while_supplied (h : History) (hf : h.Fresh) (ora : Oracle) (op : Op)
    (hop : ∀ pid, op ≠ .destroy pid) :
    ∃ evs, ((run h).step ora op).1.log = evs ++ (run h).log ∧
      ∀ x ∈ dels evs, ∀ Q ∈ (run h).pools, x ∉ Q.keys := by
  have hi := WInv.run h hf
  cases op with
  | create m => exact ⟨[], rfl, fun _ hx => (nomatch hx)⟩
  | drop name => exact ⟨[], step_log_drop ora (run h) name, fun _ hx => (nomatch hx)⟩
  | destroy pid => exact absurd rfl (hop pid)
  | alloc pid name size =>
    obtain ⟨evs, h1, h2, _⟩ := step_events_alloc ora (run h) pid name size
    refine ⟨evs, h1, fun x hx Q hQ hq => ?_⟩
    obtain ⟨P, hfind, hxr⟩ := h2 x hx
    exact hi.supplied_not_reserved hQ (findPool_mem hfind) hq hxr

/-! ### handles that outlive their pool -/

/-- releasing a handle never raises an error and never calls a callback, in any state -/
theorem Pool.drop_is_silent (ora : Oracle) (w : World) (name : Nat) :
    (w.step ora (.drop name)).1.log = w.log ∧
    (w.step ora (.drop name)).2 = if (w.findHandle name).isSome then .unit else .invalid :=
  ⟨step_log_drop ora w name, step_res_drop ora w name⟩

/-- over all histories: releasing a handle whose pool is gone changes nothing but the set of
handles; and the id of that pool is never the id of a live pool again, whatever happens later, so
the handle stays safe to release -/
theorem Pool.outliving_handles_safe (h : History) (hf : h.Fresh) (ora : Oracle) (name : Nat) (hd : Handle)
    (hfh : (run h).findHandle name = some hd) (hgone : (run h).findPool hd.pool = none) :
    (run h).step ora (.drop name) =
      ({ run h with handles := (run h).handles.filter (·.1 != name) }, .unit) ∧
    ∀ h2 : History, (runFrom (run h) h2).findPool hd.pool = none := by
  have hi := WInv.run h hf
  refine ⟨by simp [World.step, hfh, hgone], fun h2 => ?_⟩
  have hmem := List.mem_of_find?_eq_some (findHandle_mem hfh)
  have hlt : hd.pool < (run h).nextId := hi.hlt _ hmem
  have hne : ∀ Q ∈ (run h).pools, Q.id ≠ hd.pool := by
    intro Q hQ e
    have := List.find?_eq_none.1 hgone Q hQ
    simp [e] at this
  obtain ⟨_, h3⟩ := dead_stays_dead hd.pool h2 (run h) hlt hne
  apply List.find?_eq_none.2
  intro Q hQ
  simpa using h3 Q hQ

/-- over all histories: releasing a handle of a live pool finds its block in `supplied_` (the
swallowed "unknown handle" Error never occurs) and puts it back on the free list of its class -/
theorem Pool.release_returns_block (h : History) (hf : h.Fresh) (ora : Oracle) (name : Nat) (hd : Handle)
    (P : MPool) (hfh : (run h).findHandle name = some hd) (hlive : (run h).findPool hd.pool = some P) :
    ∃ k, (hd.ptr, k) ∈ P.supplied ∧
      ((run h).step ora (.drop name)).1.pools =
        { P with reserved := setClass P.reserved k (hd.ptr :: P.reserved k),
                 supplied := P.supplied.eraseP (·.1 == hd.ptr) } :: (run h).others hd.pool := by
  have hi := WInv.run h hf
  obtain ⟨k, hk, he⟩ := free_of_mem (hi.handle_supplied hfh hlive)
  exact ⟨k, hk, by simp [World.step, hfh, hlive, he]⟩

/-! ### pool ids -/

/-- over all histories: the ids returned by the `create` calls are strictly increasing, hence
pairwise distinct — an id is never reused (up to the 2^64 wrap of the counter) -/
theorem Pool.ids_never_reused (h : History) : (createdIds (results World.init h)).Pairwise (· < ·) :=
  (createdIds_results h World.init).1

theorem Pool.ids_unique (h : History) (hf : h.Fresh) :
    ((run h).pools.map (·.id)).Nodup ∧ (∀ P ∈ (run h).pools, P.id < (run h).nextId) ∧
    (∀ e ∈ (run h).handles, e.2.pool < (run h).nextId) ∧
    ∀ ora m, ((run h).step ora (.create m)).2 = .created (run h).nextId :=
  ⟨(WInv.run h hf).ids, (WInv.run h hf).idlt, (WInv.run h hf).hlt, fun _ _ => rfl⟩

end Primitiv.C18
