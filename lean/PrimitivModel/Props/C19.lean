import PrimitivModel.Lemmas.Spinlock
import PrimitivModel.Lemmas.SpinMixins
import PrimitivModel.Gen.SpinlockDecls
/-
C19 — spinlocks give mutual exclusion and re-entrancy under every interleaving.

All statements are over the per-access state machines of Model/Spinlock.lean:
any number of threads (`Nat → Thread`), any programs, any schedule, unbounded
length (`Reach` = reachable by sequentially consistent steps; for the
recursive lock: in which the 32-bit nesting counter never wraps).
`hold` of a thread = acquisitions that have returned successfully minus
unlock() calls that have returned.
-/
namespace Primitiv.C19
open Primitiv.Lock

/-! ## Spinlock -/

/-- At most one thread is between a successful lock()/try_lock() and its unlock(). -/
theorem Spin.mutex {progs : Nat → List Op} {s : Spin.Sys} (h : Spin.Reach progs s) (t u : Nat)
    (ht : (s.thr t).hold = true) (hu : (s.thr u).hold = true) : t = u :=
  (Spin.good_of_reach h).uniq t u ht hu

example : ∃ s, Spin.Reach (fun _ => [.lock, .unlock]) s ∧ (s.thr 1).hold = true ∧ (s.thr 0).pc = .tas true :=
  ⟨_, .step 0 (.step 1 .init), by decide, by decide⟩

/-- A thread waiting in lock() (or calling try_lock()) acquires the lock by its
next step whenever the flag is clear: the acquiring step is never disabled. -/
theorem Spin.enabled_when_free (s : Spin.Sys) (t : Nat) (b : Bool)
    (hpc : (s.thr t).pc = .tas b) (hfree : s.flag = false) :
    ((Spin.step s t).1.thr t).hold = true ∧ (Spin.step s t).1.flag = true ∧
      (Spin.step s t).2.ret = (if b then "void" else "true") := by
  simp [Spin.step, Spin.trans, hpc, hfree]

/-- The same for the recursive lock: with the flag clear the test_and_set of a
waiting thread wins the flag. -/
theorem RSpin.enabled_when_free (s : RSpin.Sys) (t : Nat) (b : Bool)
    (hpc : (s.thr t).pc = .tTas b) (hfree : s.sh.flag = false) :
    ((RSpin.step s t).1.thr t).pc = .tWr b ∧ (RSpin.step s t).1.sh.flag = true := by
  simp [RSpin.step, RSpin.trans, hpc, hfree]

/-- The translated memory orders: every acquisition is an acquire (or stronger)
read-modify-write of `ready_`, every release a release (or stronger) store to
it, in both classes; these are the synchronisation edges between successive
owners. -/
theorem Spin.sync_orders :
    (∀ d ∈ [Gen.SpinlockDecls.spin, Gen.SpinlockDecls.rspin],
      d.atomic .ready = true ∧
      (∀ a ∈ d.tryLock, a.field = .ready → a.kind = .rmw ∧ a.order.isAcquire = true) ∧
      (∀ a ∈ d.unlock, a.field = .ready → a.kind = .write ∧ a.order.isRelease = true)) := by
  decide

/-- The accesses the model performs, in order, are the accesses the translator
finds in the bodies of try_lock() / unlock() of the two classes. -/
theorem Spin.model_follows_source :
    Gen.SpinlockDecls.spin.tryLock.map (·.access) = Spin.tryLockSeq ∧
    Gen.SpinlockDecls.spin.unlock.map (·.access) = Spin.unlockSeq ∧
    Gen.SpinlockDecls.rspin.tryLock.map (·.access) = RSpin.tryLockSeq ∧
    Gen.SpinlockDecls.rspin.unlock.map (·.access) = RSpin.unlockSeq := by
  decide

/-! ## RecursiveSpinlock -/

/-- At most one thread is between a successful acquisition and the matching release. -/
theorem RSpin.mutex {progs : Nat → List Op} {s : RSpin.Sys} (h : RSpin.Reach progs s) (t u : Nat)
    (ht : 0 < (s.thr t).hold) (hu : 0 < (s.thr u).hold) : t = u :=
  (RSpin.good_of_reach h).uniq t u (Or.inl ht) (Or.inl hu)

example : ∃ s, RSpin.Reach (fun _ => [.lock, .lock, .unlock, .unlock]) s ∧ (s.thr 0).hold = 2 ∧ (s.thr 1).pc = .tRd true :=
  ⟨_, RSpin.reach_run (sched := [0, 0, 0, 1, 0, 0, 0]) (by decide), by decide, by decide⟩

/-- Re-entrancy: a thread that holds the lock and calls lock()/try_lock() again
succeeds by its own three steps, whatever the others do in between: the
test_and_set finds the flag set, the owner check finds the thread itself, the
count goes up by one and the call returns success. -/
theorem RSpin.reentrant {progs : Nat → List Op} {s : RSpin.Sys} (h : RSpin.Reach progs s) (t : Nat) (b : Bool)
    (hh : 0 < (s.thr t).hold) :
    ((s.thr t).pc = .tTas b → ((RSpin.step s t).1.thr t).pc = .tRd b ∧ (RSpin.step s t).1.sh = s.sh) ∧
    ((s.thr t).pc = .tRd b → ((RSpin.step s t).1.thr t).pc = .tInc b ∧ (RSpin.step s t).1.sh = s.sh) ∧
    ((s.thr t).pc = .tInc b → RSpin.NoWrap s t →
        ((RSpin.step s t).1.thr t).hold = (s.thr t).hold + 1 ∧
        (RSpin.step s t).1.sh.count = (s.thr t).hold + 1 ∧
        (RSpin.step s t).1.sh.owner = some t ∧
        (RSpin.step s t).2.ret = (if b then "void" else "true")) := by
  have g := RSpin.good_of_reach h
  refine ⟨?_, ?_, ?_⟩
  · intro hpc
    have := RSpin.hold_owner (g.ok t) hh (by rw [hpc]; simp)
    simp [RSpin.step, RSpin.trans, hpc, this.2]
  · intro hpc
    have := RSpin.hold_owner (g.ok t) hh (by rw [hpc]; simp)
    simp [RSpin.step, RSpin.trans, hpc, this.1]
  · intro hpc hnw
    have hok := g.ok t
    have hlt := hnw b hpc
    simp only [RSpin.Ok, hpc] at hok
    simp only [RSpin.step, RSpin.trans, hpc, upd_same, RSpin.finish_hold, inc32_of_lt _ hlt]
    simp [hok.2.1, hok.2.2]

/-- The lock is released exactly when the unlock count matches: the decrement in
unlock() goes on to reset the owner and clear the flag iff this is the
outermost unlock (`hold = 1`); otherwise the call returns with the thread still
the owner and the flag still set.  The clear leaves the lock at rest, and a
step clears the flag only in this way. -/
theorem RSpin.release_at_zero {progs : Nat → List Op} {s : RSpin.Sys} (h : RSpin.Reach progs s) (t : Nat) :
    ((s.thr t).pc = .uDec →
        ((s.thr t).hold = 1 → ((RSpin.step s t).1.thr t).pc = .uWr) ∧
        ((s.thr t).hold ≠ 1 →
          ((RSpin.step s t).1.thr t).hold = (s.thr t).hold - 1 ∧ 0 < ((RSpin.step s t).1.thr t).hold ∧
          (RSpin.step s t).1.sh.flag = true ∧ (RSpin.step s t).1.sh.owner = some t ∧
          (RSpin.step s t).2.ret = "void")) ∧
    ((s.thr t).pc = .uClr →
        (RSpin.step s t).1.sh = ⟨false, none, 0⟩ ∧ ((RSpin.step s t).1.thr t).hold = 0) ∧
    (s.sh.flag = true → (RSpin.step s t).1.sh.flag = false → (s.thr t).pc = .uClr ∧ (s.thr t).hold = 1) := by
  have g := RSpin.good_of_reach h
  have hok := g.ok t
  refine ⟨?_, ?_, ?_⟩
  · intro hpc
    simp only [RSpin.Ok, hpc] at hok
    obtain ⟨hpos, hf, ho, hc⟩ := hok
    have hd : dec32 s.sh.count = s.sh.count - 1 := dec32_of_pos _ (by omega)
    constructor
    · intro h1
      have : s.sh.count - 1 = 0 := by omega
      simp [RSpin.step, RSpin.trans, hpc, hd, this]
    · intro h1
      have : s.sh.count - 1 ≠ 0 := by omega
      simp only [RSpin.step, RSpin.trans, hpc, hd, this, if_false, upd_same, RSpin.finish_hold]
      refine ⟨by trivial, by omega, hf, ho, by trivial⟩
  · intro hpc
    simp only [RSpin.Ok, hpc] at hok
    obtain ⟨h1, hf, ho, hc⟩ := hok
    simp only [RSpin.step, RSpin.trans, hpc, upd_same, RSpin.finish_hold]
    refine ⟨?_, by omega⟩
    cases hs : s.sh; simp_all
  · intro hf hf'
    cases hpc : (s.thr t).pc <;> simp only [RSpin.step, RSpin.trans, hpc] at hf' <;>
      (try split at hf') <;> (try split at hf') <;> simp_all [RSpin.Ok]

/-- unlock() by a thread that does not hold the lock has no effect. -/
theorem RSpin.unlock_nonowner_noop {progs : Nat → List Op} {s : RSpin.Sys} (h : RSpin.Reach progs s) (t : Nat)
    (hh : (s.thr t).hold = 0) (hpc : (s.thr t).pc = .uRd) :
    (RSpin.step s t).1.sh = s.sh ∧ ((RSpin.step s t).1.thr t).hold = 0 ∧
      (RSpin.step s t).1.thr t = RSpin.finish 0 (s.thr t).rest ∧ (RSpin.step s t).2.ret = "void" := by
  have g := RSpin.good_of_reach h
  have hok := g.ok t
  simp only [RSpin.Ok, hpc, RSpin.Idle] at hok
  have hno : s.sh.owner ≠ some t := hok.2 hh
  simp [RSpin.step, RSpin.trans, hpc, hno, hh]

example : ∃ s, RSpin.Reach (fun t => if t = 0 then [.lock] else [.unlock]) s ∧ (s.thr 1).hold = 0 ∧ (s.thr 1).pc = .uRd ∧
    s.sh = ⟨true, some 0, 1⟩ :=
  ⟨_, RSpin.reach_run (sched := [0, 0, 0]) (by decide), by decide, by decide, by decide⟩

/-- try_lock() fails without side effects while another thread owns the lock:
both of its steps (the test_and_set that finds the flag set, the owner check
that finds somebody else) leave the shared state as it is, and the call
returns false with the caller's own state unchanged. -/
theorem RSpin.try_lock_fail_pure {progs : Nat → List Op} {s : RSpin.Sys} (h : RSpin.Reach progs s) (t u : Nat)
    (htu : u ≠ t) (hu : 0 < (s.thr u).hold) :
    (∀ b, (s.thr t).pc = .tTas b → (RSpin.step s t).1.sh = s.sh ∧ ((RSpin.step s t).1.thr t).pc = .tRd b) ∧
    ((s.thr t).pc = .tRd false →
        (RSpin.step s t).1.sh = s.sh ∧ (RSpin.step s t).2.ret = "false" ∧
        (RSpin.step s t).1.thr t = RSpin.finish (s.thr t).hold (s.thr t).rest ∧ (s.thr t).hold = 0) := by
  have g := RSpin.good_of_reach h
  have hflag : s.sh.flag = true := RSpin.inside_flag (g.ok u) (Or.inl hu)
  have hout : ¬ RSpin.inside (s.thr t) := fun hin => htu (g.uniq u t (Or.inl hu) hin)
  have hno : s.sh.owner ≠ some t := fun ho => hout (RSpin.owner_inside (g.ok t) ho)
  refine ⟨?_, ?_⟩
  · intro b hpc
    simp [RSpin.step, RSpin.trans, hpc, hflag]
  · intro hpc
    have hh : (s.thr t).hold = 0 := by
      have : ¬ 0 < (s.thr t).hold := fun h0 => hout (Or.inl h0)
      omega
    simp [RSpin.step, RSpin.trans, hpc, hno, hh]

example : ∃ s, RSpin.Reach (fun t => if t = 0 then [.lock] else [.tryLock]) s ∧ 0 < (s.thr 0).hold ∧ (s.thr 1).pc = .tRd false :=
  ⟨_, RSpin.reach_run (sched := [0, 0, 0, 1]) (by decide), by decide, by decide⟩

/-- The side condition of `RSpin.Reach` (the 32-bit nesting counter never wraps)
is no restriction for threads whose programs are shorter than 2^32 calls: in
every reachable state their next step does not wrap. -/
theorem RSpin.nowrap_of_short_programs {progs : Nat → List Op} {s : RSpin.Sys} (h : RSpin.Reach progs s) (t : Nat)
    (hlen : (progs t).length < W) : RSpin.NoWrap s t :=
  RSpin.nowrap_of_short h t hlen

/-- The counter of the model wraps at 2^32; the declaration table (regenerated
from the source on every run) shows that `lock_count_` is an unsigned integer
at least that wide, so the model's counter is faithful to the code for every
nesting depth below 2^32, and for threads that make fewer than 2^32 calls
neither counter wraps: the count stays below the declared range. -/
theorem RSpin.nowrap {progs : Nat → List Op} {s : RSpin.Sys} (h : RSpin.Reach progs s) (t : Nat)
    (hlen : (progs t).length < W) :
    W ≤ 2 ^ bitsOf Gen.SpinlockDecls.members .recursiveSpinlock .count ∧
    RSpin.NoWrap s t ∧
    (0 < (s.thr t).hold → s.sh.count < 2 ^ bitsOf Gen.SpinlockDecls.members .recursiveSpinlock .count) := by
  have hw : W ≤ 2 ^ bitsOf Gen.SpinlockDecls.members .recursiveSpinlock .count := by decide
  exact ⟨hw, RSpin.nowrap_of_short h t hlen, fun _ => Nat.lt_of_lt_of_le (RSpin.good_of_reach h).free.2 hw⟩

/-- No data race on the lock's own fields: in no reachable state are two
different threads about to access the same non-atomic field with at least one
of them writing.  Which fields are atomic is read off the source
(`Gen.SpinlockDecls.rspin`, regenerated on every run): the proof needs
`ready_` and `locked_thread_id_` to be declared atomic; `lock_count_` is plain
and is shown to be touched only by the thread that has the flag. -/
theorem RSpin.drf (progs : Nat → List Op) : RSpin.DRF Gen.SpinlockDecls.rspin progs :=
  RSpin.drf_of_atomic _ progs rfl rfl

/-- The same for Spinlock: its only field is the atomic flag. -/
theorem Spin.drf {progs : Nat → List Op} {s : Spin.Sys} (_ : Spin.Reach progs s) (t u : Nat) :
    ¬ Conflict Gen.SpinlockDecls.spin (Spin.nextAccess (s.thr t).pc) (Spin.nextAccess (s.thr u).pc) := by
  have hr : Gen.SpinlockDecls.spin.atomic .ready = true := rfl
  cases (s.thr t).pc <;> cases (s.thr u).pc <;> simp [Conflict, Spin.nextAccess, hr]

/-! ## The mixins -/

/-- Identifiable: while objects are created and destroyed (any history shorter
than 2^64 commands), every live object is found under its id, two live objects
never share an id, no id is ever handed out twice, and the id of a destroyed
object resolves to nothing. -/
theorem Ident.unique_resolvable (h : List Ident.Cmd) (hl : h.length < W64) :
    (∀ a i, (Ident.run h).live a = some i → (Ident.run h).objs i = some a) ∧
    (∀ a b i, (Ident.run h).live a = some i → (Ident.run h).live b = some i → a = b) ∧
    (Ident.run h).issued.Nodup ∧
    (∀ i, (∀ a, (Ident.run h).live a ≠ some i) → (Ident.run h).objs i = none) := by
  have g := Ident.good_run h hl
  refine ⟨fun a i hl => (g.bij i a).2 hl, ?_, g.nodup, ?_⟩
  · intro a b i ha hb
    have h1 := (g.bij i a).2 ha
    have h2 := (g.bij i b).2 hb
    rw [h1] at h2; exact Option.some.inj h2
  · intro i hno
    cases ho : (Ident.run h).objs i with
    | none => rfl
    | some a => exact absurd ((g.bij i a).1 ho) (hno a)

example : (Ident.run [.new 3, .new 5, .del 3, .new 3]).live 3 = some 2 ∧ (Ident.run [.new 3, .new 5, .del 3, .new 3]).objs 0 = none := by
  decide

/-- What the sequential models of the mixins assume about the declarations, read
off the source: the registry of Identifiable (`next_id_`, `objects_`) and its
`mutex_`, and the default slot of DefaultSettable, are `static` and not
`thread_local` (one per process, shared by all threads); the object's own
`id_` is per object; `next_id_` is a 64-bit unsigned integer; and the
constructor, the destructor and get_object() each take the lock_guard on
`mutex_` before they touch the registry (nothing else touches it), so that
concurrent executions are sequential histories of the modelled commands. -/
theorem Mixins.process_wide_and_guarded :
    (∀ m ∈ [Member.nextId, Member.objects, Member.mutex],
      storageOf Gen.SpinlockDecls.members .identifiable m = some (true, false)) ∧
    storageOf Gen.SpinlockDecls.members .defaultSettable .defaultObj = some (true, false) ∧
    storageOf Gen.SpinlockDecls.members .identifiable .objId = some (false, false) ∧
    bitsOf Gen.SpinlockDecls.members .identifiable .nextId = 64 ∧
    Gen.SpinlockDecls.identGuarded = [(.ctor, true), (.dtor, true), (.getObject, true)] := by
  decide

/-- DefaultSettable: after any history the default slot is empty or points to a
live object (destroying the current default clears it). -/
theorem Default.never_dangles (h : List Default.Cmd) (a : Nat) (hs : (Default.run h).slot = some a) :
    (Default.run h).live a = true :=
  Default.good_foldl h Default.init (by intro a h; cases h) a hs

example : (Default.run [.new 1, .set 1, .del 1]).slot = none ∧ (Default.run [.new 1, .new 2, .set 1, .del 2]).slot = some 1 := by
  decide

/-- Cross-thread lifetime of the default slot (one slot shared by all threads:
the commands of the history may come from any thread): once the object that is
the current default has been destroyed, get_default() throws. -/
theorem Default.destroyed_default_throws (h : List Default.Cmd) (a : Nat) (hs : (Default.run h).slot = some a) :
    (Default.run (h ++ [.del a])).slot = none ∧
    (Default.exec (Default.run (h ++ [.del a])) .get).2 = "err" := by
  have hl := Default.never_dangles h a hs
  have hrun : Default.run (h ++ [.del a]) = (Default.exec (Default.run h) (.del a)).1 := by
    simp [Default.run, List.foldl_append]
  have hslot : (Default.exec (Default.run h) (.del a)).1.slot = none := by
    simp [Default.exec, hl, hs]
  rw [hrun]
  generalize (Default.exec (Default.run h) (.del a)).1 = s' at hslot
  exact ⟨hslot, by simp only [Default.exec, hslot]⟩

example : (Default.run [.new 2, .set 2]).slot = some 2 := by decide

end Primitiv.C19
