/-
C20 — C API: status-code protocol and equivalence with the C++ API.

Table theorems: `decide` over the WHOLE table that /verif/translate/capi.py
regenerates from /repo's primitiv/c/**/*.cc on every run (`Gen/CApi.lean`).
Protocol theorems: for every history of calls / every buffer, over the model of
`Model/CApi.lean` instantiated with the facts the translator read off
`ErrorHandler` and the three helpers of internal.h.

The equivalence of the forwarded call with the C++ API on valid arguments is
not a theorem: it is checked by the correspondence harness (see props/C20.py,
`chk.trusted`).
-/
import PrimitivModel.Gen.CApi
import PrimitivModel.Lemmas.CApi

namespace Primitiv.C20
open Primitiv.CApi Primitiv.Gen.CApi

/-! ## the table -/

/-- Every definition, every parameter use, every handler, the ErrorHandler
members and the three helpers were inside the translator's subset; every
`extern "C"` declaration of the headers has a definition with the same
parameter types and vice versa. -/
theorem CApi.no_unsupported :
    (∀ w ∈ table, w.supported = true) ∧ undefinedDecls = [] ∧ (∀ h ∈ helperSpecs, h.supported = true)
      ∧ handlerSpec.notes = [] := by
  decide +kernel

/-- Every entry point is a function-try-block whose only handler is
`catch (const std::exception &e) { return ErrorHandler::get_instance().handle(e); }`
and whose block ends in its only `return PRIMITIV_C_OK;`. -/
theorem CApi.all_try_blocks : ∀ w ∈ table, w.tryBlockOk = true := by
  decide +kernel

/-- The handler of every entry point catches `const std::exception &`: every
standard exception (std::out_of_range from a map lookup, std::logic_error,
std::bad_alloc, …), not only primitiv::Error, becomes PRIMITIV_C_ERROR with
its `what()` as the message. -/
theorem CApi.handler_catches_std_exception : ∀ w ∈ table, w.hasTry = true ∧ w.handler = .stdException := by
  decide +kernel

/-- Every dereferenced pointer parameter, and every dereferenced element of a
pointer array, is null-checked first. -/
theorem CApi.deref_implies_checked : ∀ w ∈ table, w.derefChecked = true := by
  decide +kernel

/-- Null checks are applied to pointers only: no by-value argument is rejected
for being 0. -/
theorem CApi.only_pointers_checked : ∀ w ∈ table, w.onlyPointersChecked = true := by
  decide +kernel

/-- The null checks precede every other use of the parameters, so a call
rejected for a NULL has had no effect. -/
theorem CApi.checks_first : ∀ w ∈ table, w.checksFirst = true := by
  decide +kernel

/-- Within each statement of a wrapper the parameters are used in the order of
the parameter list: the arguments are passed on in order. -/
theorem CApi.forwarding_in_order : ∀ w ∈ table, w.forwardedInOrder = true := by
  decide +kernel

/-- the table is not empty (distinctness of the names is checked by the
translator: a second definition of a name is an `unsupported` entry) -/
theorem CApi.table_nontrivial : 250 ≤ table.length := by
  decide +kernel

/-! ## consequences for every argument pattern -/

/-- No pattern of NULL pointers / NULL elements / zeros makes any wrapper
dereference NULL (nor rely on `std::string(nullptr)` throwing). -/
theorem CApi.null_never_crashes :
    ∀ w ∈ table, ∀ pat : List ArgPat, w.predict pat ≠ .crash ∧ w.predict pat ≠ .errOther :=
  fun w hw pat => Wrapper.predict_safe w (CApi.deref_implies_checked w hw) pat

/-- A call without NULL pointers is never rejected by the wrapper itself,
whatever the by-value arguments are (0 included): the C++ API decides. -/
theorem CApi.zero_never_rejected :
    ∀ w ∈ table, ∀ pat : List ArgPat,
      (∀ i, pat.getD i .valid = .zero → w.ptrDepthOf i = 0) →
      (∀ i, pat.getD i .valid ≠ .null ∧ pat.getD i .valid ≠ .nullElem) →
      w.predict pat = .pass :=
  fun w hw pat hz hn => Wrapper.predict_pass w (CApi.only_pointers_checked w hw) pat hz hn

/-! ## the status protocol -/

theorem CStatus.handler_sound : handlerSpec.sound = true := by decide +kernel

/-- For every history of calls of one thread, starting from a fresh thread: a
failing call returns PRIMITIV_C_ERROR and sets the message to the exception's
`what()`; the message stays until primitivResetStatus (which sets "OK");
succeeding calls return PRIMITIV_C_OK and do not change it; primitivGetMessage
returns the current message. -/
theorem CStatus.protocol (ops : List CStatus.Op) :
    CStatus.run handlerSpec (CStatus.init handlerSpec) ops
      = (⟨CStatus.specMsg ops "OK"⟩, CStatus.specRes ops "OK") := by
  have h := CStatus.run_spec handlerSpec CStatus.handler_sound ops "OK"
  have hi : CStatus.init handlerSpec = ⟨"OK"⟩ := by decide +kernel
  rw [hi]; exact h

example : CStatus.specRes [.call (some "a"), .call none, .getMessage, .reset, .getMessage] "OK"
    = [.error, .ok, .message "a", .ok, .message "OK"] := by decide

/-- Threads are independent: in every interleaving of the calls of several
threads, each thread's message and each thread's results are those of its own
calls run alone. -/
theorem CStatus.threads_independent (ops : List (Nat × CStatus.Op)) (σ : CStatus.Sts) (t : Nat) :
    (CStatus.runT handlerSpec σ ops).1 t = (CStatus.run handlerSpec (σ t) (CStatus.proj t ops)).1
    ∧ CStatus.resultsOf t ops (CStatus.runT handlerSpec σ ops).2
        = (CStatus.run handlerSpec (σ t) (CStatus.proj t ops)).2 :=
  have ht : handlerSpec.threadLocal = true := by decide +kernel
  ⟨CStatus.runT_state handlerSpec ht t ops σ, CStatus.runT_results handlerSpec ht t ops σ⟩

/-! ## the size-query convention -/

theorem CApi.helpers_sound : ∀ h ∈ helperSpecs, h.sound = true := by decide +kernel

/-- For each of copy_vector_to_array, copy_string_to_array and
move_vector_to_array_of_c_ptrs, for every source, buffer and size: a NULL
buffer yields the required size; a buffer shorter than that is rejected and
left untouched (and `*size` unchanged); a sufficient buffer receives the
contents (followed by the terminator for strings) and the rest of it is
untouched. `term` is what the copy appends (`['\0']` for strcpy, nothing
otherwise). -/
theorem CApi.size_query {α : Type} :
    ∀ h ∈ helperSpecs, ∀ (src term b : List α) (size : Nat),
      term.length = h.writeExtra → b.length = size →
      sizeQuery h src term none size = .ok none (src.length + h.reportExtra)
      ∧ (size < src.length + h.reportExtra → sizeQuery h src term (some b) size = .err (some b) size)
      ∧ (src.length + h.reportExtra ≤ size →
          sizeQuery h src term (some b) size
            = .ok (some (src ++ term ++ b.drop (src.length + h.reportExtra))) size) :=
  fun h hh src term b size ht hb => sizeQuery_contract h (CApi.helpers_sound h hh) src term b size ht hb

example : sizeQuery helper_copy_string_to_array "OK".toList [Char.ofNat 0] (some ['x', 'x', 'x', 'x']) 4
    = .ok (some ['O', 'K', Char.ofNat 0, 'x']) 4 := by decide +kernel
example : sizeQuery helper_copy_string_to_array "OK".toList [Char.ofNat 0] (some ['x', 'x']) 2
    = .err (some ['x', 'x']) 2 := by decide +kernel

/-! ## non-trivial instances of the hypotheses above (kept last: they name rows of the table) -/

-- primitivSetOptimizerIntConfig(optimizer, key, 0): no NULL, a zero by-value argument
example : w_primitivSetOptimizerIntConfig.predict [.valid, .valid, .zero] = .pass := by decide +kernel
-- a NULL in a checked position is reported by name
example : w_primitivAddModelsToOptimizer.predict [.null, .valid, .valid] = .errNull "optimizer" := by decide +kernel
example : w_primitivAddParametersToOptimizer.predict [.valid, .nullElem, .valid] = .errNull "params[i]" := by
  decide +kernel
-- NULL in a position that is nullable by contract is passed on
example : w_primitivApplyNodeInput.predict [.valid, .valid, .valid, .null, .null, .valid] = .pass := by decide +kernel

end Primitiv.C20
