import PrimitivModel.Props.C06
/-!
Finding (C06, DESIGN section 4 #15, known finding `blocked-path-zero-add`):
`blocked_paths_untouched_full` is false for the code as it stands.

Witness: `y = stop_gradient(p0) + p1`, `backward(y)`.  The tensor type is `Nat` with an `add`
that counts the `+=` executed on an accumulator (`TCount`: `add g _ = g + 1`), so "the stored
gradient is unchanged" says "no `+=` was executed on it".  The sweep zero-fills the gradient of the
argument of `stop_gradient` (graph.cc:210-212), which enables the Parameter operator of `p0`, whose
backward then executes `param.gradient() += 0`: one write.  On the real library the same history
turns a gradient `-0.0` of `p0` into `+0.0` (see the bit probes of `./check C06`).
-/
namespace Primitiv.C06
open Primitiv.Graph

theorem blocked_paths_written_witness : ¬ blocked_paths_untouched_full := by
  intro h
  have := h Nat TCount (fun b => b = ⟨0, 0⟩) (exBlocked TCount 0 0) ⟨3, 0⟩ 0
    (allGradsInvalid_of_B (by decide)) (argsBelow_of_B (by decide)) (by decide)
    (exBlocked_blockedSet _ _ _) (fun i hi => by rw [exBlocked_kindAt _ _ _ i hi])
  revert this
  decide

/-- the concrete numbers: one write on `p0` (blocked), one on `p1` (not blocked) -/
theorem blocked_paths_written_count :
    (backward TCount (exBlocked TCount 0 0) ⟨3, 0⟩).1.params.grad 0 = 1 ∧
    (backward TCount (exBlocked TCount 0 0) ⟨3, 0⟩).1.params.grad 1 = 1 := by decide

end Primitiv.C06
