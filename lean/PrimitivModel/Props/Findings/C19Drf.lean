import PrimitivModel.Lemmas.Spinlock
/-
Finding (defect #10 of DESIGN.md section 4): on the pinned tree
`RecursiveSpinlock::locked_thread_id_` is a plain `std::thread::id`.  A thread
that loses the test_and_set reads it (spinlock.h:55) while the thread that won
the flag writes it (:59, and :78 on release), so `RSpin.DRF` is FALSE for the
pinned declarations.  This module is not an obligation of the check; it records
the negation with its concrete reachable witness (two threads calling lock():
schedule `step 0, step 1`), and the general form the check uses when the
translated table again says "plain".  Repair: patches/fix-spinlock-owner-atomic.diff.
-/
namespace Primitiv.C19
open Primitiv.Lock

/-- The declarations of RecursiveSpinlock on the pinned tree (snapshot 562ab3b),
as the translator emitted them. -/
def pinnedRspin : Decls where
  atomic := fun f => match f with
    | .ready => true
    | .owner => false
    | .count => false
  tryLock := [⟨.ready, .rmw, .acquire⟩, ⟨.owner, .read, .plain⟩, ⟨.owner, .write, .plain⟩, ⟨.count, .rmw, .plain⟩]
  unlock := [⟨.owner, .read, .plain⟩, ⟨.count, .rmw, .plain⟩, ⟨.owner, .write, .plain⟩, ⟨.ready, .write, .release⟩]

/-- Whenever the owner field is not atomic there is a data race on it. -/
theorem RSpin.drf_violated_of_plain_owner (d : Decls) (ho : d.atomic .owner = false) :
    ¬ RSpin.DRF d RSpin.witnessProgs :=
  RSpin.not_drf_of_plain_owner d ho

/-- The witness: after `step 0, step 1` of two threads calling lock(), thread 0
is about to write `locked_thread_id_` and thread 1 is about to read it. -/
theorem RSpin.drf_violated_witness :
    RSpin.Reach RSpin.witnessProgs RSpin.witness ∧
    (RSpin.witness.thr 0).pc = .tWr true ∧ (RSpin.witness.thr 1).pc = .tRd true ∧
    Conflict pinnedRspin (RSpin.nextAccess (RSpin.witness.thr 0).pc) (RSpin.nextAccess (RSpin.witness.thr 1).pc) ∧
    ¬ RSpin.DRF pinnedRspin RSpin.witnessProgs := by
  refine ⟨RSpin.witness_reach, RSpin.witness_pcs.1, RSpin.witness_pcs.2, ?_, RSpin.not_drf_of_plain_owner _ rfl⟩
  rw [RSpin.witness_pcs.1, RSpin.witness_pcs.2]
  decide

end Primitiv.C19
