import PrimitivModel.Model.Cow
/-
Specification of the `cow` protocol: pure value semantics.  The abstract pool
maps an object slot to `none` (no object), `some none` (an invalid tensor) or
`some (some (shape, values))`; there is no heap and no sharing: every operation
rewrites the slot of its target (`setSlot`) and nothing else.
-/
namespace Primitiv.Cow

structure AState where
  pool : List (Option AVal)
  pvalid : List Bool
deriving Repr, DecidableEq, Inhabited

namespace Spec

def init : AState := ⟨[], []⟩

def setT (a : AState) (h : Nat) (v : Option AVal) : AState := { a with pool := setSlot a.pool h v }

def withShape (a : AState) (dims : List Nat) (batch : Nat) (k : Shape → AState × Out) : AState × Out :=
  match Shape.new dims batch with
  | .error .crash => (a, .crash)
  | .error .error => (a, .err)
  | .ok sh => k sh

def copyOp (a : AState) (h g : Nat) : AState × Out :=
  match getSlot a.pool h with
  | none => (a, .noobj)
  | some v => (setT a g (some v), .ok)

def viewOp (a : AState) (h g : Nat) (rule : Shape → R Shape) : AState × Out :=
  match getSlot a.pool h with
  | none => (a, .noobj)
  | some none => (a, .err)
  | some (some (sh, vs)) =>
    match rule sh with
    | .error .crash => (a, .crash)
    | .error .error => (a, .err)
    | .ok rsh => (setT a g (some (some (rsh, vs))), .ok)

def inplace1 (a : AState) (h : Nat) (f : Nat → List Int → List Int) : AState × Out :=
  match getSlot a.pool h with
  | none => (a, .noobj)
  | some none => (a, .err)
  | some (some (sh, vs)) => (setT a h (some (some (sh, f sh.size vs))), .ok)

def inplace2 (f : Int → Int → Int) (a : AState) (h g : Nat) : AState × Out :=
  match getSlot a.pool h, getSlot a.pool g with
  | some vy, some vx =>
    match vy, vx with
    | some (sy, Y), some (sx, X) =>
      if !sx.hasSameDims sy || !sx.hasCompatibleBatch sy then (a, .err)
      else (setT a h (some (some (sy, arith f sy sx Y (some X)))), .ok)
    | _, _ => (a, .err)
  | _, _ => (a, .noobj)

/-- the target accumulates a function of its own value and of the source's value -/
def accum (a : AState) (dst src : Nat) (K : List Int → List Int → List Int) : AState × Out :=
  match getSlot a.pool dst, getSlot a.pool src with
  | some (some (sd, Y)), some (some (_, X)) => (setT a dst (some (some (sd, K Y X))), .ok)
  | _, _ => (a, .err)

def bwOp (a : AState) (gy gx : Nat) (ok : Shape → Shape → R Bool)
    (K : Shape → Shape → List Int → List Int → List Int) : AState × Out :=
  match getSlot a.pool gy, getSlot a.pool gx with
  | some vy, some vx =>
    if gy = gx then (a, .alias) else
    match vy, vx with
    | some (sy, _), some (sx, _) =>
      match ok sy sx with
      | .error .crash => (a, .crash)
      | .error .error => (a, .err)
      | .ok false => (a, .err)
      | .ok true => accum a gx gy (K sy sx)
    | _, _ => (a, .err)
  | _, _ => (a, .noobj)

def abBwOp (g : Int → Int → Int) (a : AState) (gy ga gb : Nat) : AState × Out :=
  match getSlot a.pool gy, getSlot a.pool ga, getSlot a.pool gb with
  | some vy, some va, some vb =>
    if gy = ga ∨ gy = gb ∨ ga = gb then (a, .alias) else
    match vy, va, vb with
    | some (sy, _), some (sa, _), some (sb, _) =>
      match abBwOk sy sa sb with
      | .error .crash => (a, .crash)
      | .error .error => (a, .err)
      | .ok false => (a, .err)
      | .ok true =>
        let r1 := accum a ga gy (fun D S => arith (· + ·) sa sy D (some S))
        match r1.2 with
        | .ok => accum r1.1 gb gy (fun D S => arith g sb sy D (some S))
        | _ => r1
    | _, _, _ => (a, .err)
  | _, _, _ => (a, .noobj)

/-- `g = F(h)`: a new tensor with the contents of `h` and the shape `rule (shape h)` -/
def freshOp (a : AState) (h g : Nat) (rule : Shape → R Shape) : AState × Out :=
  match getSlot a.pool h with
  | none => (a, .noobj)
  | some none => (a, .err)
  | some (some (sh, vs)) =>
    match rule sh with
    | .error .crash => (a, .crash)
    | .error .error => (a, .err)
    | .ok rsh => (setT a g (some (some (rsh, fitTo rsh.size vs))), .ok)

def readAllFrom : Nat → List (Option AVal) → List (Nat × AVal)
  | _, [] => []
  | i, none :: rest => readAllFrom (i + 1) rest
  | i, some v :: rest => (i, v) :: readAllFrom (i + 1) rest

def step (a : AState) : Op → AState × Out
  | .new h dims batch vals =>
    withShape a dims batch fun sh =>
      if vals.length ≠ sh.size then (a, .err) else (setT a h (some (some (sh, vals))), .ok)
  | .copy h g => copyOp a h g
  | .copyctor h g => copyOp a h g
  | .move h g =>
    match getSlot a.pool h with
    | none => (a, .noobj)
    | some v => if h = g then (a, .ok) else (setT (setT a g (some v)) h (some none), .ok)
  | .reshape h g dims batch =>
    match getSlot a.pool h with
    | none => (a, .noobj)
    | some _ => withShape a dims batch fun nsh => viewOp a h g (fun sh => ShapeOps.reshape sh nsh)
  | .flatten h g => viewOp a h g ShapeOps.flatten
  | .reset h k => inplace1 a h (fun n D => fill n k D)
  | .resetv h vals =>
    match getSlot a.pool h with
    | none => (a, .noobj)
    | some none => (a, .err)
    | some (some (sh, _)) =>
      if vals.length ≠ sh.size then (a, .err) else inplace1 a h (fun n D => overwrite n vals D)
  | .iadd h g => inplace2 (· + ·) a h g
  | .isub h g => inplace2 (· - ·) a h g
  | .imul h k => inplace1 a h (fun n D => scale n k D)
  | .invalidate h =>
    match getSlot a.pool h with
    | none => (a, .noobj)
    | some _ => (setT a h (some none), .ok)
  | .drop h =>
    match getSlot a.pool h with
    | none => (a, .noobj)
    | some _ => (setT a h none, .ok)
  | .read h =>
    match getSlot a.pool h with
    | none => (a, .noobj)
    | some none => (a, .err)
    | some (some (sh, vs)) => (a, .vals sh vs)
  | .shape h =>
    match getSlot a.pool h with
    | none => (a, .noobj)
    | some none => (a, .err)
    | some (some (sh, _)) => (a, .shape sh)
  | .valid h =>
    match getSlot a.pool h with
    | none => (a, .noobj)
    | some none => (a, .bool false)
    | some (some _) => (a, .bool true)
  | .device h =>
    match getSlot a.pool h with
    | none => (a, .noobj)
    | some none => (a, .err)
    | some (some _) => (a, .ok)
  | .param p dims batch vals =>
    withShape a dims batch fun sh =>
      if vals.length ≠ sh.size then (a, .err)
      else if sh.hasBatch then (a, .err)
      else
        let a2 := setT (setT a (vslot p) (some (some (sh, vals)))) (gslot p) (some (some (sh, List.replicate sh.size 0)))
        ({ a2 with pvalid := setFlag a2.pvalid p true }, .ok)
  | .pvalue p g => if a.pvalid.getD p false then copyOp a (vslot p) g else (a, .err)
  | .pgrad p g => if a.pvalid.getD p false then copyOp a (gslot p) g else (a, .err)
  | .ptensor p g => if a.pvalid.getD p false then copyOp a (vslot p) g else (a, .err)
  | .piaddValue p g =>
    match getSlot a.pool g with
    | none => (a, .noobj)
    | some _ => if a.pvalid.getD p false then inplace2 (· + ·) a (vslot p) g else (a, .err)
  | .pdrop p =>
    let a1 := setT (setT a (vslot p) none) (gslot p) none
    ({ a1 with pvalid := setFlag a1.pvalid p false }, .ok)
  | .diadd h g => inplace2 (· + ·) a h g
  | .disub h g => inplace2 (· - ·) a h g
  | .dimul h k => inplace1 a h (fun n D => scale n k D)
  | .dsliceBw gy dim off gx => bwOp a gy gx (sliceBwOk dim off) (sliceBwK dim off)
  | .dpickBw gy dim ids gx =>
    bwOp a gy gx (pickBwOk dim ids) (fun sy sx D S => scatter (· + ·) (pickIdx sy sx dim ids) D S)
  | .dflipBw gy dim gx => bwOp a gy gx flipBwOk (fun _ sx D S => scatter (· + ·) (flipIdx sx dim) D S)
  | .dtransposeBw gy gx =>
    bwOp a gy gx transposeBwOk (fun sy sx D S => arith (· + ·) sx sx D (some (transposeData sy S)))
  | .daddBw gy ga gb => abBwOp (· + ·) a gy ga gb
  | .dsubBw gy ga gb => abBwOp (· - ·) a gy ga gb
  | .piaddGrad p g =>
    match getSlot a.pool g with
    | none => (a, .noobj)
    | some _ => if a.pvalid.getD p false then inplace2 (· + ·) a (gslot p) g else (a, .err)
  | .fcopy h g => freshOp a h g (fun sh => pure sh)
  | .fpositive h g =>
    match getSlot a.pool h with
    | none => (a, .noobj)
    | some none => (a, .err)
    | some (some v) => (setT a g (some (some v)), .ok)
  | .fconcat1 h g dim => freshOp a h g (fun sh => ShapeOps.concat [sh] dim)
  | .fbconcat1 h g => freshOp a h g (fun sh => ShapeOps.batchConcat [sh])
  | .probe fn h =>
    match getSlot a.pool h with
    | none => (a, .noobj)
    | some none => (a, .err)
    | some (some (sh, _)) => if probeOk fn sh then (a, .ok) else (a, .err)
  | .live => (a, .nat 0)            -- the abstract state has no buffers; see `Cow.no_leak`
  | .readall => (a, .all (readAllFrom 0 a.pool))

def run (a : AState) : List Op → AState × List Out
  | [] => (a, [])
  | op :: ops =>
    let r := step a op
    let r2 := run r.1 ops
    (r2.1, r.2 :: r2.2)

/-- the slots an operation is allowed to change (its targets); every other
slot must keep its value: the isolation statement of C07 -/
def targets : Op → List Nat
  | .new h _ _ _ => [h]
  | .copy _ g => [g]
  | .copyctor _ g => [g]
  | .move h g => [h, g]
  | .reshape _ g _ _ => [g]
  | .flatten _ g => [g]
  | .reset h _ => [h]
  | .resetv h _ => [h]
  | .iadd h _ => [h]
  | .isub h _ => [h]
  | .imul h _ => [h]
  | .invalidate h => [h]
  | .drop h => [h]
  | .param p _ _ _ => [vslot p, gslot p]
  | .pvalue _ g => [g]
  | .pgrad _ g => [g]
  | .ptensor _ g => [g]
  | .piaddValue p _ => [vslot p]
  | .pdrop p => [vslot p, gslot p]
  | .diadd h _ => [h]
  | .disub h _ => [h]
  | .dimul h _ => [h]
  | .dsliceBw _ _ _ gx => [gx]
  | .dpickBw _ _ _ gx => [gx]
  | .dflipBw _ _ gx => [gx]
  | .dtransposeBw _ gx => [gx]
  | .daddBw _ ga gb => [ga, gb]
  | .dsubBw _ ga gb => [ga, gb]
  | .piaddGrad p _ => [gslot p]
  | .fcopy _ g => [g]
  | .fpositive _ g => [g]
  | .fconcat1 _ g _ => [g]
  | .fbconcat1 _ g => [g]
  | .read _ | .shape _ | .valid _ | .device _ | .live | .readall | .probe _ _ => []

end Spec
end Primitiv.Cow
