import PrimitivModel.Model.Shape
/-
Documentation-level specification of the data-movement, reduction and selection
functions of primitiv::functions (doc comments of core/basic_functions.h), over
multi-indices.  Layout (Device::tensor_to_vector, file_format.rst): column-major,
"the batch size is assumed as the last dimension of the tensor".

A tensor seen from an axis `d` is a function of four coordinates
`(a, k, c, b)`: `a < L` runs over the axes below `d` (flattened, first axis
fastest), `k < n` is the position on axis `d`, `c < U` runs over the axes above
`d`, `b < B` is the sample of the minibatch.  An axis at or beyond the depth is
an axis of size 1 (`n = 1`).  An operand whose minibatch size is 1 is shared by
all samples ("minibatch broadcasting").  No index arithmetic of the kernels
appears here.
-/
namespace Primitiv.Spec.Move

/-- a tensor seen from an axis: below, on, above, sample -/
abbrev V4 (α : Type) := Nat → Nat → Nat → Nat → α
/-- a minibatch of flat samples: position in the sample, sample -/
abbrev V2 (α : Type) := Nat → Nat → α
/-- a minibatch of matrices: row, column, sample -/
abbrev M3 (α : Type) := Nat → Nat → Nat → α

/-- How a flat buffer is read as a `V4`: column-major, minibatch last.  This is
the only place where the layout is mentioned. -/
def at4 {α} (L n U : Nat) (x : Nat → α) : V4 α := fun a k c b => x (a + L * (k + n * (c + U * b)))

def at2 {α} (V : Nat) (x : Nat → α) : V2 α := fun v b => x (v + V * b)

def atM {α} (rows cols : Nat) (x : Nat → α) : M3 α := fun i j b => x (i + rows * (j + cols * b))

/-- the sample an operand with minibatch size `B` contributes to sample `b` -/
def share (B b : Nat) : Nat := if B = 1 then 0 else b

/-- `slice(x, dim, lower, upper)`: positions `lower .. upper-1` of the axis -/
def slice {α} (X : V4 α) (lower : Nat) : V4 α := fun a k c b => X a (k + lower) c b

/-- `pick(x, ids, dim)`: sample `b` of the result is the subplane `ids[b]` (or
`ids[0]` when there is only one id) of sample `b` of `x` (of the only sample
when `x` has no minibatch); the result has size 1 along the axis. -/
def pick {α} (X : V4 α) (Bx : Nat) (ids : List Nat) : V4 α :=
  fun a _ c b => X a (ids.getD (if ids.length = 1 then 0 else b) 0) c (share Bx b)

/-- An operand of `concat`: its view, its extent along the axis, its minibatch size. -/
structure Part (α : Type) where
  view : V4 α
  extent : Nat
  batch : Nat

/-- where the `m`-th operand starts along the axis -/
def startOf {α} (ps : List (Part α)) (m : Nat) : Nat := ((ps.take m).map (·.extent)).sum

/-- `concat(xs, dim)`: the operands one after the other along the axis
(`L`, `U`, `B`: extents below / above the axis and number of samples of the result) -/
def IsConcat {α} (L U B : Nat) (ps : List (Part α)) (Y : V4 α) : Prop :=
  ∀ m (h : m < ps.length) a k c b, a < L → k < ps[m].extent → c < U → b < B →
    Y a (startOf ps m + k) c b = ps[m].view a k c (share ps[m].batch b)

/-- `flip(x, dim)`: the axis reversed -/
def flip {α} (X : V4 α) (n : Nat) : V4 α := fun a k c b => X a (n - 1 - k) c b

/-- `broadcast(x, dim, size)`: the single position of the axis repeated -/
def broadcast {α} (X : V4 α) : V4 α := fun a _ c b => X a 0 c b

/-- `Σ_{k<n} f k`, added up from `k = 0` -/
def sumN {α} [Add α] [Zero α] (f : Nat → α) : Nat → α
  | 0 => 0
  | n + 1 => sumN f n + f n

/-- `sum(x, dim)` -/
def sum {α} [Add α] [Zero α] (X : V4 α) (n : Nat) : V4 α := fun a _ c b => sumN (fun k => X a k c b) n

/-- `v` is the maximum of `f 0 … f (n-1)` -/
def IsMax {α} [LE α] (f : Nat → α) (n : Nat) (v : α) : Prop := (∃ k, k < n ∧ f k = v) ∧ ∀ k, k < n → f k ≤ v
def IsMin {α} [LE α] (f : Nat → α) (n : Nat) (v : α) : Prop := (∃ k, k < n ∧ f k = v) ∧ ∀ k, k < n → v ≤ f k

/-- `max(x, dim)` / `min(x, dim)` -/
def IsMaxAlong {α} [LE α] (X Y : V4 α) (n : Nat) : Prop := ∀ a c b, IsMax (fun k => X a k c b) n (Y a 0 c b)
def IsMinAlong {α} [LE α] (X Y : V4 α) (n : Nat) : Prop := ∀ a c b, IsMin (fun k => X a k c b) n (Y a 0 c b)

/-- `Tensor::argmax(dim)`: the position of the maximum; the code breaks ties
towards the *first* position (strict comparison while scanning upwards). -/
def IsArgmax {α} [LE α] [LT α] (f : Nat → α) (n k : Nat) : Prop :=
  k < n ∧ (∀ j, j < n → f j ≤ f k) ∧ ∀ j, j < k → f j < f k
def IsArgmin {α} [LE α] [LT α] (f : Nat → α) (n k : Nat) : Prop :=
  k < n ∧ (∀ j, j < n → f k ≤ f j) ∧ ∀ j, j < k → f k < f j

/-- `transpose(x)` -/
def transpose {α} (X : M3 α) : M3 α := fun i j b => X j i b

/-- `batch::pick(x, ids)` -/
def batchPick {α} (X : V2 α) (ids : List Nat) : V2 α := fun v b => X v (ids.getD b 0)

/-- `batch::slice(x, lower, upper)` -/
def batchSlice {α} (X : V2 α) (lower : Nat) : V2 α := fun v b => X v (b + lower)

/-- `batch::sum(x)` -/
def batchSum {α} [Add α] [Zero α] (X : V2 α) (B : Nat) : V2 α := fun v _ => sumN (fun b => X v b) B

/-- An operand of `batch::concat`: its samples and their number. -/
structure BPart (α : Type) where
  view : V2 α
  batch : Nat

def bstartOf {α} (ps : List (BPart α)) (m : Nat) : Nat := ((ps.take m).map (·.batch)).sum

/-- `batch::concat(xs)`: the samples of the operands one after the other
(`V`: elements per sample) -/
def IsBatchConcat {α} (V : Nat) (ps : List (BPart α)) (Y : V2 α) : Prop :=
  ∀ m (h : m < ps.length) v b, v < V → b < ps[m].batch → Y v (bstartOf ps m + b) = ps[m].view v b

/-- `identity(size)` -/
def identity {α} (zero one : α) : Nat → Nat → α := fun i j => if i = j then one else zero

/-! ### permute_dims: general multi-indices -/

/-- flat position of the multi-index `idx` in a tensor with extents `dims`
(first axis fastest) -/
def flat : List Nat → List Nat → Nat
  | d :: ds, i :: is => i + d * flat ds is
  | _, _ => 0

/-- `idx` is a valid multi-index for `dims` -/
def Valid : List Nat → List Nat → Prop
  | d :: ds, i :: is => i < d ∧ Valid ds is
  | [], [] => True
  | _, _ => False

/-- `permute_dims(x, perm)`: axis `k` of the result is axis `perm[k]` of `x`:
`y[j_0, …, j_{n-1}] = x[i]` with `i[perm[k]] = j[k]`, i.e. `j = perm.map i` -/
def IsPermuted {α} (xdims : List Nat) (perm : List Nat) (x y : Nat → α) (V B : Nat) : Prop :=
  ∀ (i : List Nat) (b : Nat), Valid xdims i → b < B →
    y (flat (perm.map fun p => xdims.getD p 1) (perm.map fun p => i.getD p 0) + V * b) = x (flat xdims i + V * b)

end Primitiv.Spec.Move
