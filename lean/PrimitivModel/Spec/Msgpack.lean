import PrimitivModel.Model.Msgpack
/-
The length-prefix formats of the MessagePack specification
(https://github.com/msgpack/msgpack/blob/master/spec.md), written from the
specification's format table, not from the code: for a payload of `n` bytes (or
`n` elements) *every* prefix the specification admits.  `Props/C13.lean` proves
that the Writer model always emits one of them, and a shortest one.
Core Lean only.
-/
namespace Primitiv.Msgpack.Spec

def opt (c : Bool) (x : Bytes) : List Bytes := if c then [x] else []

/-- fixstr 101XXXXX | str 8 0xd9 | str 16 0xda | str 32 0xdb -/
def strHeaders (n : Nat) : List Bytes :=
  opt (n < 32) [0xa0 + n] ++ opt (n < 256) [0xd9, n] ++ opt (n < 65536) [0xda, n / 256, n % 256] ++
    opt (n < 4294967296) [0xdb, n / 16777216, n / 65536 % 256, n / 256 % 256, n % 256]

/-- bin 8 0xc4 | bin 16 0xc5 | bin 32 0xc6 -/
def binHeaders (n : Nat) : List Bytes :=
  opt (n < 256) [0xc4, n] ++ opt (n < 65536) [0xc5, n / 256, n % 256] ++
    opt (n < 4294967296) [0xc6, n / 16777216, n / 65536 % 256, n / 256 % 256, n % 256]

/-- fixarray 1001XXXX | array 16 0xdc | array 32 0xdd -/
def arrHeaders (n : Nat) : List Bytes :=
  opt (n < 16) [0x90 + n] ++ opt (n < 65536) [0xdc, n / 256, n % 256] ++
    opt (n < 4294967296) [0xdd, n / 16777216, n / 65536 % 256, n / 256 % 256, n % 256]

/-- fixmap 1000XXXX | map 16 0xde | map 32 0xdf -/
def mapHeaders (n : Nat) : List Bytes :=
  opt (n < 16) [0x80 + n] ++ opt (n < 65536) [0xde, n / 256, n % 256] ++
    opt (n < 4294967296) [0xdf, n / 16777216, n / 65536 % 256, n / 256 % 256, n % 256]

/-- fixext 1/2/4/8/16 0xd4..0xd8 | ext 8 0xc7 | ext 16 0xc8 | ext 32 0xc9 (type byte last) -/
def extHeaders (n ty : Nat) : List Bytes :=
  opt (n = 1) [0xd4, ty] ++ opt (n = 2) [0xd5, ty] ++ opt (n = 4) [0xd6, ty] ++ opt (n = 8) [0xd7, ty] ++
    opt (n = 16) [0xd8, ty] ++ opt (n < 256) [0xc7, n, ty] ++ opt (n < 65536) [0xc8, n / 256, n % 256, ty] ++
    opt (n < 4294967296) [0xc9, n / 16777216, n / 65536 % 256, n / 256 % 256, n % 256, ty]

/-- `h` is an admissible prefix and no admissible prefix is shorter -/
def Shortest (h : Bytes) (admissible : List Bytes) : Prop :=
  h ∈ admissible ∧ ∀ h' ∈ admissible, h.length ≤ h'.length

end Primitiv.Msgpack.Spec
