import PrimitivModel.Model.Optimizer
/-
Documentation-level specification of the optimizers (property C12), written
by hand from the algorithms' papers / the property text, independent of the
generated update rules.  Core Lean only (it is also executed by the driver in
`spec` mode and used as the oracle of the check).

Per element, with gradient `g`, value `θ`, learning-rate scaling `s`:

  SGD          θ' = θ − (s·η)·g
  MomentumSGD  m' = μ·m − (s·η)·g ;  θ' = θ + m'
  AdaGrad      m' = m + g² ;  θ' = θ − (s·η)·( g / (√m' + ε) )
  RMSProp      m' = α·m + (1−α)·g² ;  θ' = θ − (s·η)·( g / (√m' + ε) )
  AdaDelta     m₂' = ρ·m₂ + (1−ρ)·g² ;  Δ = √((m₁+ε)/(m₂'+ε))·g ;
               m₁' = ρ·m₁ + (1−ρ)·Δ² ;  θ' = θ − s·Δ
  Adam         t = epoch+1 ;  m₁' = β₁·m₁ + (1−β₁)·g ;  m₂' = β₂·m₂ + (1−β₂)·g² ;
               m̂₁ = m₁'/(1−β₁^t) ;  m̂₂ = m₂'/(1−β₂^t) ;  θ' = θ − (s·α)·( m̂₁ / (√m̂₂ + ε) )

`update()`: g ← g + λ·θ for every registered parameter when λ > 0; then, when
the threshold c > 0 and the joint squared norm N² of all registered gradients
exceeds c², g ← (c/√N²)·g; then the rule above; then epoch ← epoch + 1
(a 32-bit counter).
-/
namespace Primitiv.Opt.Spec
open Primitiv.Gen.Opt Primitiv.Opt

section
variable {α : Type} [Add α] [Sub α] [Mul α] [Div α] [OfNat α 0] [OfNat α 1]
variable [LT α] [LE α] [DecidableLT α] [DecidableLE α]

def sgd (η s g θ : α) : α := θ - (s * η) * g

def momentum (η μ s g θ m : α) : α × α :=
  let m' := μ * m - (s * η) * g
  (θ + m', m')

def adagrad (F : Fns α) (η ε s g θ m : α) : α × α :=
  let m' := m + g * g
  (θ - (s * η) * (g / (F.sqrt m' + ε)), m')

def rmsprop (F : Fns α) (η a ε s g θ m : α) : α × α :=
  let m' := a * m + (1 - a) * (g * g)
  (θ - (s * η) * (g / (F.sqrt m' + ε)), m')

def adadelta (F : Fns α) (ρ ε s g θ m1 m2 : α) : α × α × α :=
  let m2' := ρ * m2 + (1 - ρ) * (g * g)
  let dx := F.sqrt ((m1 + ε) / (m2' + ε)) * g
  let m1' := ρ * m1 + (1 - ρ) * (dx * dx)
  (θ - s * dx, m1', m2')

/-- `t` is the number of the update being made (epoch + 1) -/
def adam (F : Fns α) (a β1 β2 ε s : α) (t : Nat) (g θ m1 m2 : α) : α × α × α :=
  let m1' := β1 * m1 + (1 - β1) * g
  let m2' := β2 * m2 + (1 - β2) * (g * g)
  let mh1 := m1' / (1 - F.pow β1 t)
  let mh2 := m2' / (1 - F.pow β2 t)
  (θ - (s * a) * (mh1 / (F.sqrt mh2 + ε)), m1', m2')

/-- statistics each algorithm keeps per parameter -/
def statNames : Kind → List String
  | .SGD => []
  | .MomentumSGD => ["MomentumSGD.m"]
  | .AdaGrad => ["AdaGrad.m"]
  | .RMSProp => ["RMSProp.m"]
  | .AdaDelta => ["AdaDelta.m1", "AdaDelta.m2"]
  | .Adam => ["Adam.m1", "Adam.m2"]

/-- number of hyper-parameters -/
def arity : Kind → Nat
  | .SGD => 1 | .MomentumSGD => 2 | .AdaGrad => 2 | .RMSProp => 3 | .AdaDelta => 2 | .Adam => 4

/-- the elementwise rule of algorithm `k`; hyper-parameters in constructor
order, `epoch` = number of updates made so far -/
def elem (F : Fns α) (k : Kind) (h : List α) (s : α) (epoch : Nat) (g θ : α) (st : List α) : α × List α :=
  match k, h, st with
  | .SGD, [η], [] => (sgd η s g θ, [])
  | .MomentumSGD, [η, μ], [m] => let r := momentum η μ s g θ m; (r.1, [r.2])
  | .AdaGrad, [η, ε], [m] => let r := adagrad F η ε s g θ m; (r.1, [r.2])
  | .RMSProp, [η, a, ε], [m] => let r := rmsprop F η a ε s g θ m; (r.1, [r.2])
  | .AdaDelta, [ρ, ε], [m1, m2] => let r := adadelta F ρ ε s g θ m1 m2; (r.1, [r.2.1, r.2.2])
  | .Adam, [a, β1, β2, ε], [m1, m2] =>
    let r := adam F a β1 β2 ε s ((epoch + 1) % 4294967296) g θ m1 m2; (r.1, [r.2.1, r.2.2])
  | _, _, _ => (θ, st)

/-- gradient after weight decay -/
def decayed (l2 : α) (p : Param α) : List α :=
  if 0 < l2 then List.zipWith (fun g v => g + l2 * v) p.grad p.value else p.grad

/-- factor applied to all gradients by global-norm clipping -/
def clipFactor (F : Fns α) (c sq : α) : α :=
  if 0 < c ∧ c * c < sq then c / F.sqrt sq else 1

/-- what `update()` must do -/
def updateCore (F : Fns α) (s : State α) : State α :=
  let b := s.o.base
  let ps1 := mapReg s.o.reg (fun p => { p with grad := decayed b.l2_strength_ p }) s.ps
  let c := clipFactor F b.clip_threshold_ (sqNorm (regGrads s.o.reg ps1))
  let ps2 := mapReg s.o.reg (fun p => { p with grad := p.grad.map (fun g => c * g) }) ps1
  let ps3 := mapReg s.o.reg
    (Param.updateWith (elem F s.o.kind s.o.fields b.lr_scale_ b.epoch_) (statNames s.o.kind)) ps2
  { o := { s.o with base := { b with epoch_ := (b.epoch_ + 1) % 4294967296 } }, ps := ps3 }

/-- registering: no effect when already registered; an invalid parameter is
rejected and nothing changes; otherwise the missing statistics are created as
zeros and existing ones are kept -/
def add (s : State α) (i : Nat) : State α × Bool :=
  if i ∈ s.o.reg then (s, true) else
  match s.ps[i]? with
  | none => (s, false)
  | some p =>
    if !p.valid then (s, false) else
    let missing := (statNames s.o.kind).filter (fun n => !p.hasStat n)
    ({ o := { s.o with reg := s.o.reg ++ [i] },
       ps := s.ps.set i { p with stats := p.stats ++ missing.map (fun n => (n, zeros p.value.length)) } }, true)

/-- a non-negative setting is stored, a negative one is rejected -/
def setNonneg (x : α) (store : α → Base α) (s : State α) : State α × Bool :=
  if x < 0 then (s, false) else ({ s with o := { s.o with base := store x } }, true)

/-- configuration keys of the hyper-parameters, constructor order -/
def keys : Kind → List String
  | .SGD => ["SGD.eta"]
  | .MomentumSGD => ["MomentumSGD.eta", "MomentumSGD.momentum"]
  | .AdaGrad => ["AdaGrad.eta", "AdaGrad.eps"]
  | .RMSProp => ["RMSProp.eta", "RMSProp.alpha", "RMSProp.eps"]
  | .AdaDelta => ["AdaDelta.rho", "AdaDelta.eps"]
  | .Adam => ["Adam.alpha", "Adam.beta1", "Adam.beta2", "Adam.eps"]

def exec (F : Fns α) (op : Op α) (s : State α) : State α × Bool :=
  let b := s.o.base
  match op with
  | .setGrad i g => setGrad s i g
  | .update => if ready s then (updateCore F s, true) else (s, false)
  | .reset => reset s
  | .setLr x => setNonneg x (fun x => { b with lr_scale_ := x }) s
  | .setL2 x => setNonneg x (fun x => { b with l2_strength_ := x }) s
  | .setClip x => setNonneg x (fun x => { b with clip_threshold_ := x }) s
  | .setEpoch n => ({ s with o := { s.o with base := { b with epoch_ := n % 4294967296 } } }, true)
  | .cfgF key x =>
    let b' : Base α :=
      if key == "Optimizer.lr_scale" then { b with lr_scale_ := x }
      else if key == "Optimizer.l2_strength" then { b with l2_strength_ := x }
      else if key == "Optimizer.clip_threshold" then { b with clip_threshold_ := x }
      else b
    let fs := (List.range s.o.fields.length).map
      (fun j => if (keys s.o.kind).getD j "" == key then x else s.o.fields.getD j 0)
    ({ s with o := { s.o with base := b', fields := fs } }, true)
  | .cfgU key n =>
    ({ s with o := { s.o with base := if key == "Optimizer.epoch" then { b with epoch_ := n % 4294967296 } else b } }, true)
  | .add i => add s i

end
end Primitiv.Opt.Spec
