import PrimitivModel.Model.Registry
/-
Specification-level vocabulary of the `registry` family (C16): what it means
for a path to name a parameter / submodel, reachability in the hierarchy, the
invariant of the registry, and histories of operations.  Core Lean only.
-/
namespace Primitiv.Registry

/-- `path` names parameter `p` seen from model `m`: follow submodel names, the
last name is a parameter of the model reached.  (`kvFind` is `unordered_map::find`.) -/
inductive ResolvesP (r : Reg) : MId → Path → PId → Prop
  | here {m n p} : kvFind (r.get m).paramKv n = some p → ResolvesP r m [n] p
  | sub {m n c path p} : kvFind (r.get m).subKv n = some c → ResolvesP r c path p → ResolvesP r m (n :: path) p

/-- `path` names submodel `c` seen from model `m`. -/
inductive ResolvesM (r : Reg) : MId → Path → MId → Prop
  | here {m n c} : kvFind (r.get m).subKv n = some c → ResolvesM r m [n] c
  | sub {m n c' path c} : kvFind (r.get m).subKv n = some c' → ResolvesM r c' path c → ResolvesM r m (n :: path) c

/-- the name is taken in model `m`, by a parameter or by a submodel -/
def NameUsed (r : Reg) (m : MId) (n : Name) : Prop := (∃ q, ResolvesP r m [n] q) ∨ (∃ c, ResolvesM r m [n] c)

namespace Reg

/-- `c` is a direct submodel of `m`. -/
def child (r : Reg) (m c : MId) : Prop := c ∈ (r.get m).subSet

/-- `b` is a direct or transitive submodel of `a` (one or more steps). -/
inductive Reach (r : Reg) : MId → MId → Prop
  | single {a b} : r.child a b → Reach r a b
  | step {a b c} : r.child a b → Reach r b c → Reach r a c

end Reg

/-- The five containers of one model are mutually consistent. -/
structure MState.wf (st : MState) : Prop where
  /-- `param_kv_`, `submodel_kv_` are maps: one entry per name -/
  pkeys_nodup : (st.paramKv.map (·.1)).Nodup
  skeys_nodup : (st.subKv.map (·.1)).Nodup
  /-- no object is registered under two names of the same model -/
  pvals_nodup : (st.paramKv.map (·.2)).Nodup
  svals_nodup : (st.subKv.map (·.2)).Nodup
  /-- the three sets have no repeated element -/
  names_nodup : st.nameSet.Nodup
  pset_nodup : st.paramSet.Nodup
  sset_nodup : st.subSet.Nodup
  /-- `name_set_` = names of parameters ∪ names of submodels -/
  names_iff : ∀ n, n ∈ st.nameSet ↔ n ∈ st.paramKv.map (·.1) ∨ n ∈ st.subKv.map (·.1)
  /-- names are unique across parameters and submodels -/
  names_disjoint : ∀ n, n ∈ st.paramKv.map (·.1) → n ∉ st.subKv.map (·.1)
  /-- `param_set_` = values of `param_kv_`, `submodel_set_` = values of `submodel_kv_` -/
  pset_iff : ∀ p, p ∈ st.paramSet ↔ p ∈ st.paramKv.map (·.2)
  sset_iff : ∀ c, c ∈ st.subSet ↔ c ∈ st.subKv.map (·.2)

/-- The invariant of the registry: every model's containers are consistent,
submodels are models of the heap, and the hierarchy is acyclic (there is a rank
that strictly decreases along every model → submodel edge). -/
structure Reg.inv (r : Reg) : Prop where
  wf : ∀ m, (r.get m).wf
  closed : ∀ m c, r.child m c → c < r.size
  acyclic : ∃ rk : MId → Nat, ∀ m c, r.child m c → rk c < rk m

/-- The operations that build a registry. -/
inductive Op where
  | newModel
  | newParam (valid : Bool)
  | addParam (m : MId) (name : Name) (p : PId)
  | addSub (m : MId) (name : Name) (c : MId)
deriving DecidableEq, Repr

/-- The state an `Out` leaves behind (`crash` has no successor state; the
history theorems show it does not occur). -/
def Out.state {σ} (dflt : σ) : Out σ → σ
  | .ok s => s
  | .error s => s
  | .crash => dflt

/-- One operation of a history.  Objects can only be named once they exist:
an operation that mentions an id not yet created is not expressible through
the API and is skipped. -/
def Reg.step (r : Reg) : Op → Reg
  | .newModel => r.newModel
  | .newParam v => r.newParam v
  | .addParam m n p => if m < r.size then (r.addParam m n p).state r else r
  | .addSub m n c => if m < r.size ∧ c < r.size then (r.addSub m n c).state r else r

/-- The registry after a history, starting from nothing. -/
def Reg.run (ops : List Op) : Reg := ops.foldl Reg.step Reg.empty

/-- What is to hold of an optimizer's registration state: no parameter is
registered twice, `configure_parameter` ran exactly once for every registered
parameter, and a parameter that was configured without being registered is one
the optimizer cannot configure (the call threw). -/
structure Opt.wf (valid : PId → Bool) (o : Opt) : Prop where
  nodup : o.params.Nodup
  once : ∀ p ∈ o.params, o.configCount p = 1
  failed : ∀ p ∈ o.configs, p ∉ o.params → o.needsStats = true ∧ valid p = false

end Primitiv.Registry
