import PrimitivModel.Model.Shape
/-
Documentation-level specification of shapes and shape rules (shape.h doc
comments, docs/, basic_functions.h) over unbounded naturals.  A shape is its
canonical list of dimensions (no trailing 1) and its batch size; `none` means
"the call is rejected with an Error".  A result whose element count does not
fit the library's 32-bit size type is *not representable*, and the only
admissible behaviour for such a call is an Error (property C09: "without ever
producing a shape whose element count silently wrapped").
-/
namespace Primitiv.Spec

structure SShape where
  dims : List Nat
  batch : Nat
deriving DecidableEq, Repr, Inhabited

def prod (l : List Nat) : Nat := l.foldl (· * ·) 1

namespace SShape
def depth (s : SShape) : Nat := s.dims.length
def dimAt (s : SShape) (i : Nat) : Nat := s.dims.getD i 1
def volume (s : SShape) : Nat := prod s.dims
def size (s : SShape) : Nat := s.batch * s.volume
def lowerVolume (s : SShape) (d : Nat) : Nat := prod (s.dims.take d)
def toStr (s : SShape) : String :=
  "[" ++ ",".intercalate (s.dims.map toString) ++ "]x" ++ toString s.batch
end SShape

/-- `Shape(dims, batch)`: at most 8 axes, no zero axis, no zero batch, and the
element count must be representable. -/
def mk (dims : List Nat) (batch : Nat) : Option SShape :=
  if dims.length > 8 ∨ dims.any (· == 0) ∨ batch = 0 ∨ prod dims * batch ≥ W then none
  else some ⟨trim dims, batch⟩

def setBatch (s : SShape) (b : Nat) : Option SShape := mk s.dims b

/-- replace axis `d` (possibly beyond the depth) by `m` -/
def setDim (s : SShape) (d m : Nat) : Option SShape :=
  if d ≥ 8 then none
  else
    let padded := if d ≥ s.depth then s.dims ++ List.replicate (d + 1 - s.depth) 1 else s.dims
    mk (padded.set d m) s.batch

def compatibleBatch (a b : SShape) : Bool := a.batch == b.batch || a.batch == 1 || b.batch == 1

/-- equal on every axis except `d` -/
def sameLoo (a b : SShape) (d : Nat) : Bool :=
  (List.range (max a.depth b.depth)).all fun i => i == d || a.dimAt i == b.dimAt i

def reshape (before after : SShape) : Option SShape :=
  if before.volume ≠ after.volume ∨ (after.batch > 1 ∧ after.batch ≠ before.batch) then none
  else setBatch after before.batch

def flatten (x : SShape) : Option SShape := mk [x.volume] x.batch

def scalarOp (x k : SShape) : Option SShape :=
  if k.depth ≠ 0 ∨ !compatibleBatch x k then none else setBatch x (max x.batch k.batch)

def elementwise (a b : SShape) : Option SShape :=
  if a.dims ≠ b.dims ∨ !compatibleBatch a b then none else setBatch a (max a.batch b.batch)

def slice (x : SShape) (d lo up : Nat) : Option SShape :=
  if lo ≥ up ∨ up > x.dimAt d then none
  else if d ≥ x.depth then some x else setDim x d (up - lo)

/-- all batches are 1 or one common value; returns that value -/
def commonBatch : List SShape → Option Nat
  | [] => some 1
  | s :: rest => do
    let b ← commonBatch rest
    if s.batch = b ∨ s.batch = 1 then some b
    else if b = 1 then some s.batch else none

def concat (xs : List SShape) (d : Nat) : Option SShape :=
  match xs with
  | [] => none
  | x0 :: rest =>
    if !(rest.all fun s => sameLoo x0 s d) then none
    else do
      let b ← commonBatch xs
      let s ← setDim x0 d ((xs.map (·.dimAt d)).foldl (· + ·) 0)
      setBatch s b

def broadcast (x : SShape) (d n : Nat) : Option SShape :=
  if x.dimAt d ≠ 1 ∨ n = 0 then none else setDim x d n

def pick (x : SShape) (ids : List Nat) (d : Nat) : Option SShape :=
  let n := x.dimAt d
  if ids.length = 0 ∨ (x.batch ≠ ids.length ∧ x.batch > 1 ∧ ids.length > 1) then none
  else if ids.any (fun i => decide (i ≥ n)) then none
  else do
    let r ← setDim x d 1
    setBatch r (max x.batch ids.length)

def transpose (x : SShape) : Option SShape :=
  if x.depth > 2 then none else mk [x.dimAt 1, x.dimAt 0] x.batch

def permuteDims (x : SShape) (perm : List Nat) : Option SShape :=
  if perm.length < x.depth then none
  else if perm.any (fun p => decide (p ≥ perm.length)) then none
  else if !perm.Nodup then none
  else mk (perm.map x.dimAt) x.batch

def matmul (l r : SShape) : Option SShape :=
  if l.depth > 2 ∨ r.depth > 2 ∨ l.dimAt 1 ≠ r.dimAt 0 ∨ !compatibleBatch l r then none
  else mk [l.dimAt 0, r.dimAt 1] (max l.batch r.batch)

def conv2d (x w : SShape) (p0 p1 s0 s1 d0 d1 : Nat) : Option SShape :=
  let x0 := x.dimAt 0 + 2 * p0
  let x1 := x.dimAt 1 + 2 * p1
  let w0 := (w.dimAt 0 - 1) * d0 + 1
  let w1 := (w.dimAt 1 - 1) * d1 + 1
  if x.depth > 3 ∨ w.depth > 4 ∨ x0 < w0 ∨ x1 < w1 ∨ x.dimAt 2 ≠ w.dimAt 2 ∨
      !compatibleBatch x w ∨ s0 = 0 ∨ s1 = 0 ∨ d0 = 0 ∨ d1 = 0 then none
  else
    let o0 := (x0 - w0) / s0 + 1
    let o1 := (x1 - w1) / s1 + 1
    if o0 ≥ W ∨ o1 ≥ W then none else mk [o0, o1, w.dimAt 3] (max x.batch w.batch)

def pool2d (x : SShape) (w0 w1 p0 p1 s0 s1 : Nat) : Option SShape :=
  let x0 := x.dimAt 0 + 2 * p0
  let x1 := x.dimAt 1 + 2 * p1
  if x.depth > 3 ∨ x0 < w0 ∨ x1 < w1 ∨ w0 = 0 ∨ w1 = 0 ∨ s0 = 0 ∨ s1 = 0 then none
  else
    let o0 := (x0 - w0) / s0 + 1
    let o1 := (x1 - w1) / s1 + 1
    if o0 ≥ W ∨ o1 ≥ W then none else mk [o0, o1, x.dimAt 2] x.batch

def batchPick (x : SShape) (ids : List Nat) : Option SShape :=
  if ids.length = 0 ∨ ids.any (fun i => decide (i ≥ x.batch)) then none else setBatch x ids.length

def batchSlice (x : SShape) (lo up : Nat) : Option SShape :=
  if lo ≥ up ∨ up > x.batch then none else setBatch x (up - lo)

def batchConcat (xs : List SShape) : Option SShape :=
  match xs with
  | [] => none
  | x0 :: rest =>
    if !(rest.all fun s => s.dims == x0.dims) then none
    else setBatch x0 ((xs.map (·.batch)).foldl (· + ·) 0)

def split (x : SShape) (d n : Nat) : Option SShape :=
  if n = 0 ∨ x.dimAt d % n ≠ 0 then none else setDim x d (x.dimAt d / n)

def batchSplit (x : SShape) (n : Nat) : Option SShape :=
  if n = 0 ∨ x.batch % n ≠ 0 then none else setBatch x (x.batch / n)

/-- dense softmax cross entropy: logits and targets have the same dimensions (batches broadcast),
the result drops axis `dim` to size 1 -/
def softmaxCrossEntropy (x t : SShape) (dim : Nat) : Option SShape := do
  let y ← elementwise x t
  setDim y dim 1

end Primitiv.Spec
