"""C01 — backward() yields the true derivative for every graph, shape and batch pattern."""
import importlib, os
from props import _graph
from props._gradcases import CASES
from props.C05 import finish_obligations
from vlib import run as vrun, build, lean

CANDIDATE_MODS = ["PrimitivModel.Props.C01.Sweep", "PrimitivModel.Props.C01.Move", "PrimitivModel.Props.C01.Arith",
                  "PrimitivModel.Props.C01.Rules", "PrimitivModel.Props.C01.Chain", "PrimitivModel.Props.C01.ChainOps",
                  "PrimitivModel.Props.C01.ChainSoftmax"]


def existing(mods):
    return [m for m in mods if os.path.exists(lean.mod_path(m))]


def grad_oracle(chk, n_seeds):
    """Implementation leg: Node::backward() against central finite differences
    of the same program (h_grad.cc), both backends."""
    exe = build.build_harness("h_grad")
    base = chk.rng.randrange(1, 10**6)
    lines = ["%s %s %d" % (d, c, base + s) for c in CASES for s in range(n_seeds) for d in ("naive", "eigen")]
    outs, reports = vrun.run_impl(exe, lines, timeout=1200)
    chk.traces += 1
    for l, o in zip(lines, outs):
        chk.count(l, o, o.startswith("ok pass"))
        if o.startswith("ok pass"):
            continue
        case = l.split()[1]
        cls = "crash" if o.startswith("crash") else ("error" if o.startswith("err") else "wrong-gradient")
        chk.report("grad:%s:%s" % (case, cls),
                   "gradient check of `%s`: %s" % (l, o),
                   {"family": "grad", "harness": "h_grad", "lines": [l], "observed": o, "model_family": None,
                    "how": "Node::backward() vs central finite differences (h=1/64) of sum(y*W) over fresh forward evaluations"})
    if len(chk.samples) < 8:
        chk.samples.append({"family": "grad", "op": lines[0], "impl": outs[0]})


def run(chk):
    quick = chk.tier == "quick"
    from props._funcs import table_obligation_setup
    table_obligation_setup(chk)   # Gen/OpTable.lean for Props/C01/Rules.lean, pinned for this run
    chk.rule = ("(1) graph family: stateful histories on the real Graph and on the Lean model (see C05) — exact integer gradients through "
                "user-defined operators, compared after every backward; (2) gradient oracle on the implementation: for every differentiable "
                "function of primitiv::functions (%d case families: unary, constant, binary in all batch patterns and scalar dispatches, matmul, "
                "axis-wise, broadcast/pick/slice/split/concat/permute/reshape, conv2d, max_pool2d, batch::*, both cross entropies, random DAGs "
                "with fan-out) x random shapes (depth 0..3, axes up to depth+1) x seeds x {Naive, Eigen}: Parameter gradients after backward() "
                "vs central finite differences with a non-uniform upstream weight; (3) kernel-level backward correspondence of the kernel "
                "families. Non-trivial = accepted/passed case; distinct = distinct operation lines." % len(CASES))
    mods = existing(CANDIDATE_MODS)
    libs = []
    for name in ("_kmove", "_karith"):
        try:
            libs.append(importlib.import_module("props." + name))
        except ImportError:
            chk.notes.append("kernel library props/%s.py not available in this tree" % name)
    drivers = list(_graph.DRIVERS)
    for lib in libs:
        if hasattr(lib, "translators"):
            lib.translators()
        drivers += getattr(lib, "DRIVERS", [])
        mods += [m for m in getattr(lib, "MODS", {}).get("C01", []) if m not in mods and os.path.exists(lean.mod_path(m))]
    if not mods:
        mods = ["PrimitivModel.Props.C06"]
    chk.obligations(mods, drivers=drivers)
    _graph.run_family(chk, {"C01"}, tier="quick" if quick else "thorough")
    grad_oracle(chk, 4 if quick else 60)
    for lib in libs:
        if "C01" in getattr(lib, "MODS", {}):
            lib.run_family(chk, "C01")
    finish_obligations(chk)
    # The chain rule over the DAG is proved (Props/C01/Chain.lean: Graph.tangent_isDeriv, Graph.backward_is_gradient,
    # Graph.backward_is_gradient_of_forward) in curve / directional-derivative form over the reals, and the two per-operator
    # hypotheses (CurveLawAt, AdjointLawAt) are proved for the operator semantics of Props/C01/ChainOps.lean.  What remains:
    chk.stated_not_proved += [
        "Graph.backward_is_gradient takes the per-operator curve law (CurveLawAt) and adjoint law (AdjointLawAt) as hypotheses. "
        "INSTANTIATED as OpSem (Vec R) semantics with both laws (Props/C01/ChainOps.lean): every elementwise unary operator of a "
        "scalar pair with IsBackwardOf (unary_laws), with one instance per generated kernel pair, Naive and Eigen, on its smooth "
        "domain: tanh, sigmoid, softplus, exp, sin, cos (everywhere), log, abs, k/x, prelu, elu, pown (x != 0), sqrt, x^k (x > 0), "
        "tan (cos x != 0), x+k, x-k, k-x, x*k, x/k, k^x (k > 0); elementwise binary add, subtract, multiply, divide (b != 0), "
        "pow (a > 0) on operands of the same size (generated forward formula, backward formula transcribed from the kernel model "
        "addBw..powBw at equal strides); every linear operator given by a finite matrix with any number of arguments and return "
        "values (lin_curveLaw/lin_adjointLaw: covers copy, reshape, flatten, negate, slice, split, concat, pick with fixed ids, "
        "broadcast, sum, mean, flip, permute_dims, transpose, batch::sum/concat/slice/split/pick, add/subtract with batch "
        "broadcasting); every bilinear operator (bilin_curveLaw/bilin_adjointLaw: matmul, conv2d, multiply with batch broadcasting, "
        "multiplication by a random mask as in dropout); constant operators without arguments (const_laws: Input, Constant, "
        "zeros, ones, identity). "
        "Props/C01/ChainSoftmax.lean, over a whole vector of n > 0 entries, at every argument value: logsumexp (lse_laws), "
        "softmax (softmax_laws), log_softmax (logSoftmax_laws), dense softmax_cross_entropy with a constant target (sce_laws); "
        "max and min over a whole vector at a point where the extremum is attained exactly once (max_laws, min_laws; the "
        "backward rule routes gy to the entries equal to the extremum). "
        "NOT INSTANTIATED: max / min at a tie (not differentiable there, see Arith.max_not_differentiable_at_tie), max_pool2d, "
        "the softmax family and max / min along ONE axis of a higher-rank tensor (row-wise application; the laws are proved for "
        "the whole-vector form only), softmax_cross_entropy with a non-constant (differentiated) target, "
        "sparse_softmax_cross_entropy (integer labels), divide and pow with batch broadcasting, pown at x = 0 (known finding "
        "pown-bw-zero). "
        "NOT PROVED: that the literal move/matmul/conv kernels of Model/KernelsMove.lean and Model/KernelsArith.lean are "
        "linOp ns ms A / bilinOp na nb m B for a specific matrix (their kernel-level adjoint theorems in Props/C01/Move.lean and "
        "Arith.lean stand beside the generic laws; sumMat, sliceMat, bcastMat, matmulCoef are given with sanity examples only)",
        "Frechet (norm) formulation not stated: the derivative of the summed target is stated along every differentiable curve of "
        "parameter values (HasDerivAt in the curve parameter, all directions), which needs no norm on tensors"]
    chk.trusted += ["float32 rounding of gradients is outside every theorem (theorems are over a commutative ring / the reals)",
                    "the finite-difference oracle is a test of the implementation (tolerance 2e-2 relative), not a proof"]
