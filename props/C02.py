"""C02 — forward values equal the documented function (layout and stability included)."""
from props import _compose


def run(chk):
    chk.rule = ("kernel-call lines of the two kernel families (data movement / reductions, arithmetic) on devices Naive and Eigen: every "
                "forward kernel x shapes of depth 0..8 with size-1 axes anywhere x axes {0..depth+1,7,8,9,2^32-1} x batch patterns {1,B} per "
                "operand x boundary indices; integer/dyadic data compared exactly with the Lean model and with an independent specification "
                "(multi-index semantics from the documentation), transcendental kernels within tolerance against the model at double precision, "
                "large-magnitude inputs for the stabilised functions; composite helpers (mean, batch::mean, batch::normalize, selu, dropout 0/1/"
                "disabled, softmax family) against the documented formulas on both APIs. Non-trivial = accepted call; distinct = distinct lines.")
    libs = _compose.load(_compose.KERNEL_LIBS, chk)
    _compose.obligations(chk, "C02", libs, own_drivers=["funcs"])
    for lib in libs:
        _compose.run_lib(lib, chk, "C02")
    for f in _compose.load(["_funcs"], chk):
        if hasattr(f, "run_composites"):
            f.run_composites(chk)
        if hasattr(f, "table_obligation_setup"):
            f.table_obligation_setup(chk)      # the function table of THIS working tree (the programs are generated against the model driver)
        if hasattr(f, "pown_program"):
            # values through both APIs (lazy Node path / eager Tensor path) and the function table: attribute values at the
            # integer-width boundaries (pown), the result batch of a binary function with one shared operand (dense cross entropy)
            n = 3 if chk.tier == "quick" else 40
            progs = [f.pown_program(chk.rng) for _ in range(n)] + [f.sce_program(chk.rng, B) for B in (2, 3) for _ in range(n)]
            progs += [f.conv_program(chk.rng) for _ in range(n)]      # anisotropic padding / stride / dilation, each also swapped
            found, dis = f.run_programs(chk, progs)
            f.report_found(chk, found, dis, prop="C02", keyprefix="funcs")
    _compose.finish(chk)
    from props import C20 as _c20
    _c20.run_eq_leg(chk, lambda name: "ApplyNode" in name or "ApplyTensor" in name)    # the C wrappers of every function (Node and Tensor forms)
    chk.trusted += ["'within a few float32 ulps' is measured by the correspondence run, not proved: theorems are over exact fields (why the stabilised forms cannot overflow, and that they equal the definitions over the reals)",
                    "loop kernels are hand-modelled (Model/KernelsMove.lean, Model/KernelsArith.lean) and tied to both backends by the correspondence run; elementwise formulas are translated from the sources (translate/elementwise.py)"]
