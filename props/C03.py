"""C03 — minibatch law: a batch is its samples; batch-1 operands are shared."""
from props import _compose


def run(chk):
    chk.rule = ("metamorphic runs on the real library: each kernel call with batch size B is compared with the B per-sample calls (batch-1 "
                "operands shared), gradients reaching batch-1 operands with the sum of the per-sample gradients; whole programs: "
                "program(batch) == batch::concat_b(program(sample_b)), program(x with batch 1) == program(B copies of x); incompatible batch "
                "sizes must be rejected; exact on integer data; both backends. Non-trivial = accepted call; distinct = distinct lines.")
    libs = _compose.load(_compose.KERNEL_LIBS, chk)
    _compose.obligations(chk, "C03", libs, own_drivers=["shape", "shapespec", "funcs"])
    for lib in libs:
        _compose.run_lib(lib, chk, "C03")
    from props import C09 as _c09
    _c09.run_batch_rules(chk)
    for f in _compose.load(["_funcs"], chk):
        if hasattr(f, "table_obligation_setup"):
            f.table_obligation_setup(chk)      # the function table of THIS working tree (the programs are generated against the model driver)
        if hasattr(f, "run_metamorphic"):
            f.run_metamorphic(chk)
        if hasattr(f, "sce_program"):
            # result batch of a binary function with one shared (batch-1) operand: the announced shape, the computed
            # tensor and the consumers that read the batch (batch::mean, batch::split) must agree on both APIs
            progs = [f.sce_program(chk.rng, B) for B in (2, 3) for _ in range(2 if chk.tier == "quick" else 12)]
            found, dis = f.run_programs(chk, progs)
            f.report_found(chk, found, dis, prop="C03", keyprefix="funcs")
    from props import _state
    _state.run_param_batch(chk)      # a Parameter never carries a minibatch: init / load with a batched shape is rejected, object unchanged
    _compose.finish(chk)
    chk.trusted += ["kernel models are hand-written and tied to the code by the correspondence run"]
