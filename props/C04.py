"""C04 — the lazy Node API and the eager Tensor API agree; static shapes are sound."""
import os
from vlib import build, lean
from translate import operators
from props import _funcs as F

MODS = ["PrimitivModel.Props.C04", "PrimitivModel.Props.C04.Split"]


def table_diagnostics():
    """Which entries make the table-level theorems false (evaluated by the Lean model itself)."""
    import subprocess, tempfile
    src = ("import PrimitivModel.Gen.OpTable\nopen Primitiv.OpTable Primitiv.Gen.OpTable\n"
           "#eval IO.println s!\"arity {table.arityOffenders} {tableCache.arityOffenders}\"\n"
           "#eval IO.println s!\"same_kernel {table.sameKernelOffenders} {tableCache.sameKernelOffenders}\"\n"
           "#eval IO.println s!\"shape_rule {table.shapeRuleOffenders} {tableCache.shapeRuleOffenders}\"\n"
           "#eval IO.println s!\"unsupported {table.noUnsupported} {tableCache.noUnsupported}\"\n")
    d = os.path.join(lean.LEAN_DIR, ".audit")
    os.makedirs(d, exist_ok=True)
    f = os.path.join(d, "C04diag_%d.lean" % os.getpid())
    with open(f, "w") as fh:
        fh.write(src)
    try:
        with build.Lock("lake"):
            r = subprocess.run(["lake", "env", "lean", f], cwd=lean.LEAN_DIR, capture_output=True, text=True, timeout=600)
        return (r.stdout + r.stderr)[-1500:]
    except Exception as e:
        return "diagnostics failed: %r" % (e,)
    finally:
        os.remove(f)


def run(chk):
    operators.pin()
    try:
        run_pinned(chk)
    finally:
        operators.unpin()


def run_pinned(chk):
    quick = chk.tier == "quick"
    chk.rule = ("programs of `let v = f args…` lines over the full public function set of primitiv::functions, generated from one PRNG "
                "with a live model driver supplying the static shape of every variable: valid programs (shapes of depth 0..3 with size-1 "
                "axes, batch 1..3, all overloads incl. the three-way scalar dispatch of add/subtract/multiply/divide/pow and the operators, "
                "axes up to depth+1, every function followed by force / backward / grad), invalid programs (axes >= depth and >= 8 and near 2^32, "
                "wrong shapes, ids and ranges out of bounds, empty argument lists, bad reshape / permutation / convolution arguments, invalid "
                "distribution parameters, nodes of another graph, tensors of another device); thorough adds the small-scope enumeration "
                "(every function x 9 fixed operands x small argument ranges). Each line runs on the Node API and on the Tensor API of the "
                "real library in lock-step (ASan/UBSan build, both PRIMITIV_USE_CACHE settings) and on the table-driven Lean model. "
                "Non-trivial = the implementation accepted the call / produced values (output starts with ok); distinct = distinct lines.")
    unsup = []
    ob = None
    for attempt in range(3):
        try:
            txt = operators.generate()
            unsup = operators.unsupported_entries()
        except Exception as e:
            chk.report("translator-failure", "translate/operators.py failed on the working tree: %r" % (e,), {"error": repr(e)}, found_input=False)
            return
        # the driver is needed by the generators even when a theorem fails
        lean.lake(["build", "drv_funcs"], timeout=3000)
        chk.oblig = None
        ob = chk.obligations(MODS, drivers=["funcs"])
        # Gen/OpTable.lean is shared: a concurrent check of another working tree may have rewritten it meanwhile
        if open(operators.OUT).read() == txt:
            break
    if not os.path.exists(os.path.join(lean.LEAN_DIR, ".lake", "build", "bin", "drv_funcs")):
        chk.report("build-failure:drv_funcs", "the model driver does not build: " + ob["log_tail"][-800:], {"log": ob["log_tail"]}, found_input=False)
        return
    ncalls = 500 if quick else 4000
    streams_valid, streams_invalid = [], []
    corpus = os.path.join(build.VERIF, "corpus", "funcs.ops")
    if os.path.exists(corpus):
        cur = []
        for l in open(corpus):
            l = l.strip()
            if l == "---":
                if cur:
                    streams_invalid.append(cur)
                cur = []
            elif l and not l.startswith("#"):
                cur.append(l)
        if cur:
            streams_invalid.append(cur)
    ncorpus = len(streams_invalid)
    made = 0
    while made < ncalls:
        n = chk.rng.choice([15, 25, 40])
        devs = chk.rng.choice([("naive",), ("naive",), ("eigen",), ("naive", "eigen", "naive2")])
        streams_valid.append(F.valid_program(chk.rng, n, devs))
        made += n
    made = 0
    while made < ncalls:
        n = chk.rng.choice([15, 25])
        streams_invalid.append(F.invalid_program(chk.rng, n))
        made += n
    # low-rate special programs (systematic in the thorough enumeration): dense SCE batch patterns, devices, anisotropic conv
    for _ in range(2 if quick else 6):
        streams_valid.append(F.sce_program(chk.rng))
        streams_invalid.append(F.device_program(chk.rng))
        streams_valid.append(F.conv_program(chk.rng))
    enum = [] if quick else F.enum_programs(chk.tier)
    found, dis = F.run_programs(chk, streams_valid + streams_invalid + enum, variant="asan")
    # the other build setting: a sample in quick, everything in thorough
    cstreams = (streams_valid[:4] + streams_invalid[:ncorpus + 3]) if quick else (streams_valid + streams_invalid + enum)
    f2, d2 = F.run_programs(chk, cstreams, variant="asan_cache")
    found += f2
    dis += d2
    chk.extra_cov["programs"] = len(streams_valid) + len(streams_invalid) + len(enum) + len(cstreams)
    chk.extra_cov["program_breakdown"] = {"valid": len(streams_valid), "invalid": len(streams_invalid), "enumerated": len(enum),
                                          "cache_build": len(cstreams)}
    F.report_found(chk, found, dis)
    for (w, s) in unsup[:5]:
        chk.report("translator-unsupported:" + w, "the translator does not understand `%s` in %s; the table-level theorems cannot cover it" % (s[:200], w),
                   {"where": w, "source": s}, found_input=False)
    broken = chk.broken_obligations()
    if broken and not any(v["found_input"] for v in chk.violations):
        diag = table_diagnostics()
        for name, why in broken.items():
            chk.report("obligation:" + name, "theorem %s no longer checks: %s | table diagnostics: %s" % (name, why, diag.replace("\n", " ; ")),
                       {"theorem": name, "reason": why, "diagnostics": diag, "log": (chk.oblig or {}).get("log_tail", "")[-1500:]}, found_input=False)
    elif broken:
        chk.notes.append("theorems that do not check on this tree: %s (a failing input was found, see the violations / known findings)" % sorted(broken))
    from props import C20 as _c20
    _c20.run_eq_leg(chk, lambda name: "ApplyNode" in name or "ApplyTensor" in name)    # the C wrappers of the Node and Tensor forms of every function
    chk.trusted += [
        "modelled, not verified: Graph::add_operator (order: argument count, CHECK_NODE of every argument, device, forward_shape, commit), the meaning of the helper functions get_device / Device::get_reference_or_default / Graph::get_reference_or_default / ptr_to_obj / obj_to_ptr, and the line protocol's argument syntax are written by hand in Driver/FuncsDrv.lean and Model/OpTable.lean and tied to the code by the correspondence run",
        "Api.same_kernel treats add_scalar_fw(x, k) and multiply_scalar_fw(x, k) as symmetric in (x, k) when both are scalars (x+k = k+x, x*k = k*x in IEEE arithmetic); the device of a kernel call is compared only when it is chosen by a device parameter",
        "values are compared Node-vs-Tensor inside the harness (both computed by the real library), not against the model",
    ]
    chk.stated_not_proved += [
        "Api.shape_sound_full: for every function and all argument shapes FWD_SHAPE(op_f) = ok s <-> the Tensor path returns shape s (proved: equality of shape-rule expressions for the single-kernel operators — Api.shape_rule_consistent —, and for all canonical shapes the composite operators Split and BatchSplit — Api.split_shape_sound_partial, Api.split_rejects_iff, Api.batch_split_shape_sound_partial; SoftmaxCrossEntropy, SparseSoftmaxCrossEntropy and the composite functions are covered by the correspondence run only)",
    ]
    chk.notes.append("Graph.lazy_eq_eager (values): not stated in Lean — values are not modelled; Api.same_kernel shows that every FORWARD rule runs "
                     "the kernels of the Tensor function on the same arguments, the harness compares the values of both APIs bit for bit on every generated program")
    chk.assumptions += ["devices: Naive and Eigen CPU backends; CUDA / OpenCL are not built in this environment"]
