"""C05 — nodes are evaluated on demand, at most once, and their values never change."""
from props import _graph

MODS = ["PrimitivModel.Props.C05"]


def run(chk):
    chk.rule = ("stateful histories of the graph family from one PRNG: 1-3 parameters, 1-2 graphs, 13-80 steps interleaving node creation "
                "(library Parameter/StopGradient operators and user-defined operators with 1-3 arguments and 1-3 return values registered "
                "through Graph::add_operator, random sources, the same node passed twice), value requests, repeated requests, backward passes with "
                "gradient probes, in-place parameter updates, injected operator failures, nodes of another graph. Every line runs on the real "
                "Graph (ASan/UBSan build of /repo; devices Naive and Eigen) and on the Lean model. Non-trivial = accepted creation / force / "
                "backward / gradient read; distinct = distinct operation lines.")
    chk.obligations(MODS, drivers=_graph.DRIVERS)
    _graph.run_family(chk, {"C05"})
    # creating nodes computes nothing, for the built-in functions: every function program of the gradient-case table is built
    # on a device that counts its allocations — none may happen before the first value is requested
    from props import _alloc
    _alloc.run_alloc(chk, 1 if chk.tier == "quick" else 10, props=("C05",), mode="lazy")
    finish_obligations(chk)
    chk.trusted += ["modelled, not verified: Graph::add_operator/forward/backward are hand-modelled in Lean (Model/Graph.lean, generic in the tensor type) and tied to graph.cc by the correspondence run; user-defined operators stand in for the built-in ones in this family",
                    "that cached values are not mutated through aliases is property C07 (copy-on-write), used here as a lemma"]


def finish_obligations(chk):
    broken = chk.broken_obligations()
    if broken and not chk.violations:
        for name, why in broken.items():
            chk.report("obligation:" + name, "theorem %s no longer checks: %s" % (name, why),
                       {"theorem": name, "reason": why, "log": (chk.oblig or {}).get("log_tail", "")[-1500:]}, found_input=False)
