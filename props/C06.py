"""C06 — gradient accumulation and isolation protocol of backward()."""
from props import _graph
from props.C05 import finish_obligations
from vlib import run as vrun, build

MODS = ["PrimitivModel.Props.C06", "PrimitivModel.Props.Findings.C06Blocked"]

BITS = ["80000000", "7fc00001", "00000001", "ffc12345", "40a00000", "00000000", "80000001", "7f800000"]


def bit_probes(rng, n):
    """Histories executed on the implementation only: a parameter that is not an
    ancestor of the target, or reachable only through a gradient blocker, must
    keep its gradient bit-for-bit."""
    out = []
    for _ in range(n):
        D = rng.choice([1, 2, 3])
        bits = [rng.choice(BITS) for _ in range(D)]
        kind = rng.choice(["non-ancestor", "non-ancestor-evaluated", "stop_gradient", "user-nop", "stop_gradient-deep"])
        lines = ["D %d" % D, "param " + _graph.vec(rng, D), "param " + _graph.vec(rng, D), "graph", "P 0 0", "P 0 1"]
        # n0 = p0 (the protected parameter), n1 = p1
        if kind == "non-ancestor":
            lines += ["L 0 1,2 ; n1 n1", "I 0 " + _graph.vec(rng, D), "M 0 n2 n3"]        # n4, p0 unused
            target = 4
        elif kind == "non-ancestor-evaluated":
            # p0 has consumers, created before the target and already evaluated, but none is an ancestor of the target
            lines += ["L 0 1;2 ; n0", "M 0 n2 n3", "L 0 1,2 ; n1 n1", "force n4", "force n3"]      # n2,n3,n4 from p0; n5 from p1
            target = 5
        elif kind == "stop_gradient":
            lines += ["S 0 n0", "M 0 n2 n1"]                                                 # n3 = sg(p0) * p1
            target = 3
        elif kind == "user-nop":
            lines += ["N 0 n0", "L 0 1,1 ; n2 n1"]
            target = 3
        else:
            lines += ["L 0 2 ; n0", "M 0 n2 n2", "S 0 n3", "L 0 1,-1 ; n4 n1"]           # n5
            target = 5
        lines += ["pgradbits 0 " + ",".join(bits), "backward n%d" % target, "gradbits 0"]
        out.append((kind, bits, lines))
    return out


def optimizer_reset_probe(chk):
    """Optimizer::reset_gradients() returns EVERY registered parameter to zero, however the parameters were registered:
    one by one, through a model, through a model that was registered again after it grew (new parameters, new submodels),
    through two optimizers.  Implementation alone (harness h_optim): gradients are preset, reset_gradients() is called and
    every gradient is read back; then the usual accumulate-twice pattern (preset g, reset, preset again) is checked."""
    from props.optimlib import xs
    exe = build.build_harness("h_optim")
    rng = chk.rng
    for _ in range(6 if chk.tier == "quick" else 80):
        n = rng.randint(2, 5)
        lines = ["mode exact", "device naive", "opt 0 %s" % rng.choice(["SGD", "MomentumSGD", "Adam"])]
        for p in range(n):
            lines.append("param %d 2 %s" % (p, xs([float(rng.randint(-3, 3)), float(rng.randint(-3, 3))])))
        lines += ["model 0", "model 1", "msub 0 sub 1"]
        order = list(range(n))
        rng.shuffle(order)
        registered = set()
        for k, p in enumerate(order):
            how = rng.choice(["direct", "root", "sub"])
            if how == "direct":
                lines.append("add 0 %d" % p)
            else:
                lines.append("madd %d w%d %d" % (0 if how == "root" else 1, p, p))
                # the model is registered again after every growth
                lines.append("oaddm 0 0")
            registered.add(p)
            if rng.random() < 0.5:
                for q in sorted(registered):
                    lines.append("grad %d %s" % (q, xs([float(rng.randint(1, 5)), float(rng.randint(-5, -1))])))
                lines.append("reset 0")
                for q in sorted(registered):
                    lines.append("pstate %d" % q)
        for q in range(n):
            lines.append("grad %d %s" % (q, xs([3.0, -7.0])))
        lines.append("reset 0")
        for q in range(n):
            lines.append("pstate %d" % q)
        impl, reports = vrun.run_impl(exe, lines, stateful=True, timeout=120)
        chk.traces += 1
        after_reset = False
        for i, (l, o) in enumerate(zip(lines, impl)):
            chk.count(l, o, o.startswith("ok"))
            w = l.split()
            if w[0] == "reset":
                after_reset = True
            elif w[0] != "pstate":
                after_reset = False
            bad = None
            if o.startswith("crash") or o.startswith("err"):
                bad = "`%s` answers `%s`" % (l, o[:200])
            elif w[0] == "pstate" and after_reset:
                g = [t for t in o.split() if t.startswith("g=")]
                if not g or any(x not in ("x00000000",) for x in g[0][2:].split(",")):
                    bad = "after reset_gradients() the gradient of registered parameter %s is `%s`" % (w[1], g[0] if g else o[:100])
            if bad:
                chk.report("optimizer:reset-gradients:%s" % ("not-zero" if "after reset" in bad else "error"),
                           "%s (a parameter registered with the optimizer through `%s`)" % (bad, "; ".join(x for x in lines[:i] if x.split()[0] in ("add", "madd", "oaddm", "msub"))[:300]),
                           {"family": "optim", "harness": "h_optim", "stateful": True, "lines": lines[: i + 1], "model_family": None, "observed": o[:600]})
                break


def run(chk):
    chk.rule = ("as C05 (stateful histories of the graph family on the real Graph and on the Lean model), with gradient probe blocks "
                "(gradients of all parameters before and after each backward, repeated backward on the same node, reset_gradient, arbitrary "
                "initial gradients) judged by ancestry computed from the operation lines; plus bit-level probes on the implementation alone: "
                "gradients preset to -0.0 / NaN payloads / denormals / inf of a parameter that is not an ancestor of the target or reachable "
                "only through stop_gradient or a no-gradient operator must come back bit-identical. Non-trivial = accepted creation / force / "
                "backward / gradient read; distinct = distinct operation lines.")
    chk.obligations(MODS, drivers=_graph.DRIVERS)
    _graph.run_family(chk, {"C06"})
    exe = build.build_harness("h_graph")
    n = 40 if chk.tier == "quick" else 600
    for kind, bits, lines in bit_probes(chk.rng, n):
        for dev in ("naive", "eigen"):
            impl, reports = vrun.run_impl(exe, lines, stateful=True, args=[dev], timeout=60)
            chk.traces += 1
            for l, o in zip(lines, impl):
                chk.count(l, o, o.startswith("ok"))
            got = impl[-1]
            want = "ok " + ",".join(bits)
            if got != want:
                cls = "non-ancestor" if kind.startswith("non-ancestor") else "blocked-path"
                chk.report("graph:gradient-bits-changed:%s:%s" % (cls, kind),
                           "gradient of a parameter that is %s was preset to bits %s and is %s after backward()" % (
                               "not an ancestor of the target" if kind.startswith("non-ancestor") else "reachable only through a gradient blocker (%s)" % kind,
                               ",".join(bits), got),
                           {"family": "graph", "harness": "h_graph", "harness_args": [dev], "stateful": True, "lines": lines,
                            "expected_last_line": want, "observed": got, "model_family": "graph"})
    # accumulation through the built-in backward rules (each operand has a second, later-created consumer)
    from props.C01 import grad_oracle
    grad_oracle(chk, 2 if chk.tier == "quick" else 20)
    # reset_gradient() returns exactly to zero from ANY gradient state (inf, NaN, negative values, -0.0)
    for _ in range(6 if chk.tier == "quick" else 100):
        D = chk.rng.choice([1, 2, 3])
        bits = [chk.rng.choice(BITS + ["ff800000", "7f800000", "c0a00000", "7fc12345"]) for _ in range(D)]
        lines = ["D %d" % D, "param " + _graph.vec(chk.rng, D), "graph", "P 0 0", "pgradbits 0 " + ",".join(bits), "reset 0", "gradbits 0",
                 "backward n0", "gradbits 0"]
        for dev in ("naive", "eigen"):
            impl, reports = vrun.run_impl(exe, lines, stateful=True, args=[dev], timeout=60)
            chk.traces += 1
            for l, o in zip(lines, impl):
                chk.count(l, o, o.startswith("ok"))
            zero = "ok " + ",".join(["00000000"] * D)
            one = "ok " + ",".join(["3f800000"] * D)
            if impl[6] != zero or impl[8] != one:
                chk.report("graph:reset-gradient-not-zero", "gradient preset to bits %s: after reset_gradient() it is `%s` (want all zero bits), after reset + backward on the parameter node `%s` (want ones)" % (",".join(bits), impl[6], impl[8]),
                           {"family": "graph", "harness": "h_graph", "harness_args": [dev], "stateful": True, "lines": lines, "observed": impl[-3:]})
    optimizer_reset_probe(chk)
    finish_obligations(chk)
    chk.stated_not_proved += ["Primitiv.C06.blocked_paths_untouched_full (false on this tree: its negation is proved with a witness in Props/Findings/C06Blocked.lean; known finding blocked-path-zero-add)"]
    chk.trusted += ["modelled, not verified: Graph::backward is hand-modelled in Lean (Model/Graph.lean) and tied to graph.cc by the correspondence run",
                    "bit-level effects of adding an exact zero (-0.0 + 0.0, NaN) are outside the theorems (a ring has no signed zero); they are observed only by the bit probes on the implementation"]
