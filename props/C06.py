"""C06 — gradient accumulation and isolation protocol of backward()."""
from props import _graph
from props.C05 import finish_obligations
from vlib import run as vrun, build

MODS = ["PrimitivModel.Props.C06", "PrimitivModel.Props.Findings.C06Blocked"]

BITS = ["80000000", "7fc00001", "00000001", "ffc12345", "40a00000", "00000000", "80000001", "7f800000"]


def bit_probes(rng, n):
    """Histories executed on the implementation only: a parameter that is not an
    ancestor of the target, or reachable only through a gradient blocker, must
    keep its gradient bit-for-bit."""
    out = []
    for _ in range(n):
        D = rng.choice([1, 2, 3])
        bits = [rng.choice(BITS) for _ in range(D)]
        kind = rng.choice(["non-ancestor", "non-ancestor-evaluated", "stop_gradient", "user-nop", "stop_gradient-deep"])
        lines = ["D %d" % D, "param " + _graph.vec(rng, D), "param " + _graph.vec(rng, D), "graph", "P 0 0", "P 0 1"]
        # n0 = p0 (the protected parameter), n1 = p1
        if kind == "non-ancestor":
            lines += ["L 0 1,2 ; n1 n1", "I 0 " + _graph.vec(rng, D), "M 0 n2 n3"]        # n4, p0 unused
            target = 4
        elif kind == "non-ancestor-evaluated":
            # p0 has consumers, created before the target and already evaluated, but none is an ancestor of the target
            lines += ["L 0 1;2 ; n0", "M 0 n2 n3", "L 0 1,2 ; n1 n1", "force n4", "force n3"]      # n2,n3,n4 from p0; n5 from p1
            target = 5
        elif kind == "stop_gradient":
            lines += ["S 0 n0", "M 0 n2 n1"]                                                 # n3 = sg(p0) * p1
            target = 3
        elif kind == "user-nop":
            lines += ["N 0 n0", "L 0 1,1 ; n2 n1"]
            target = 3
        else:
            lines += ["L 0 2 ; n0", "M 0 n2 n2", "S 0 n3", "L 0 1,-1 ; n4 n1"]           # n5
            target = 5
        lines += ["pgradbits 0 " + ",".join(bits), "backward n%d" % target, "gradbits 0"]
        out.append((kind, bits, lines))
    return out


def run(chk):
    chk.rule = ("as C05 (stateful histories of the graph family on the real Graph and on the Lean model), with gradient probe blocks "
                "(gradients of all parameters before and after each backward, repeated backward on the same node, reset_gradient, arbitrary "
                "initial gradients) judged by ancestry computed from the operation lines; plus bit-level probes on the implementation alone: "
                "gradients preset to -0.0 / NaN payloads / denormals / inf of a parameter that is not an ancestor of the target or reachable "
                "only through stop_gradient or a no-gradient operator must come back bit-identical. Non-trivial = accepted creation / force / "
                "backward / gradient read; distinct = distinct operation lines.")
    chk.obligations(MODS, drivers=_graph.DRIVERS)
    _graph.run_family(chk, {"C06"})
    exe = build.build_harness("h_graph")
    n = 40 if chk.tier == "quick" else 600
    for kind, bits, lines in bit_probes(chk.rng, n):
        for dev in ("naive", "eigen"):
            impl, reports = vrun.run_impl(exe, lines, stateful=True, args=[dev], timeout=60)
            chk.traces += 1
            for l, o in zip(lines, impl):
                chk.count(l, o, o.startswith("ok"))
            got = impl[-1]
            want = "ok " + ",".join(bits)
            if got != want:
                cls = "non-ancestor" if kind.startswith("non-ancestor") else "blocked-path"
                chk.report("graph:gradient-bits-changed:%s:%s" % (cls, kind),
                           "gradient of a parameter that is %s was preset to bits %s and is %s after backward()" % (
                               "not an ancestor of the target" if kind.startswith("non-ancestor") else "reachable only through a gradient blocker (%s)" % kind,
                               ",".join(bits), got),
                           {"family": "graph", "harness": "h_graph", "harness_args": [dev], "stateful": True, "lines": lines,
                            "expected_last_line": want, "observed": got, "model_family": "graph"})
    # accumulation through the built-in backward rules (each operand has a second, later-created consumer)
    from props.C01 import grad_oracle
    grad_oracle(chk, 2 if chk.tier == "quick" else 20)
    # reset_gradient() returns exactly to zero from ANY gradient state (inf, NaN, negative values, -0.0)
    for _ in range(6 if chk.tier == "quick" else 100):
        D = chk.rng.choice([1, 2, 3])
        bits = [chk.rng.choice(BITS + ["ff800000", "7f800000", "c0a00000", "7fc12345"]) for _ in range(D)]
        lines = ["D %d" % D, "param " + _graph.vec(chk.rng, D), "graph", "P 0 0", "pgradbits 0 " + ",".join(bits), "reset 0", "gradbits 0",
                 "backward n0", "gradbits 0"]
        for dev in ("naive", "eigen"):
            impl, reports = vrun.run_impl(exe, lines, stateful=True, args=[dev], timeout=60)
            chk.traces += 1
            for l, o in zip(lines, impl):
                chk.count(l, o, o.startswith("ok"))
            zero = "ok " + ",".join(["00000000"] * D)
            one = "ok " + ",".join(["3f800000"] * D)
            if impl[6] != zero or impl[8] != one:
                chk.report("graph:reset-gradient-not-zero", "gradient preset to bits %s: after reset_gradient() it is `%s` (want all zero bits), after reset + backward on the parameter node `%s` (want ones)" % (",".join(bits), impl[6], impl[8]),
                           {"family": "graph", "harness": "h_graph", "harness_args": [dev], "stateful": True, "lines": lines, "observed": impl[-3:]})
    finish_obligations(chk)
    chk.stated_not_proved += ["Primitiv.C06.blocked_paths_untouched_full (false on this tree: its negation is proved with a witness in Props/Findings/C06Blocked.lean; known finding blocked-path-zero-add)"]
    chk.trusted += ["modelled, not verified: Graph::backward is hand-modelled in Lean (Model/Graph.lean) and tied to graph.cc by the correspondence run",
                    "bit-level effects of adding an exact zero (-0.0 + 0.0, NaN) are outside the theorems (a ring has no signed zero); they are observed only by the bit probes on the implementation"]
