"""C07 — tensors have value semantics: copies and views never alias observably,
moves invalidate the source, invalid tensors reject every access with an Error.

Decision on the implementation alone: an oracle written here (a plain map
object -> value, no sharing at all) predicts the answer of every line; the real
library (ASan/UBSan build of the working tree, devices::Naive and
devices::Eigen) must give exactly that answer.  The Lean model (copy-on-write
heap with use counts, lean/PrimitivModel/Model/Cow.lean) is run on the same
lines; the theorems of Props/C07.lean are about that model."""
import itertools, os
from vlib import run as vrun, build, check as vcheck

MODS = ["PrimitivModel.Props.C07"]
FAMILY, HARNESS = "cow", "h_cow"
NH, NP = 6, 2
LIMIT = 1 << 20            # |value| bound that keeps float32 arithmetic exact
MAXU = (1 << 32) - 1

# ----------------------------------------------------------------- the oracle

def canon_dims(dims):
    d = list(dims)
    while d and d[-1] == 1:
        d.pop()
    return tuple(d)


def mk_shape(dims, batch):
    """Shape(dims, batch) or None when the constructor throws."""
    if len(dims) > 8 or batch == 0:
        return None
    vol = 1
    for d in dims:
        vol *= d
        if vol > MAXU:
            return None
    if vol == 0 or vol * batch > MAXU:
        return None
    return (canon_dims(dims), batch)


def volume(sh):
    v = 1
    for d in sh[0]:
        v *= d
    return v


def size(sh):
    return volume(sh) * sh[1]


def shape_str(sh):
    return "[%s]x%d" % (",".join(map(str, sh[0])), sh[1])


def show(val):
    if val is None:
        return "inv"
    sh, vs = val
    return "%s:%s" % (shape_str(sh), ",".join(map(str, vs)))


def parse_shape(tok):
    assert tok.startswith("S:")
    ds, b = tok[2:].split("/")
    return ([int(x) for x in ds.split(",")] if ds else []), int(b)


def parse_vals(tok):
    assert tok.startswith("V:")
    return tuple(int(x) for x in tok[2:].split(",")) if tok[2:] else ()


def arith(sign, y, x):
    """value of `y (+/-)= x` or None when the shapes are not admissible."""
    (sy, vy), (sx, vx) = y, x
    if sy[0] != sx[0] or not (sy[1] == sx[1] or sy[1] == 1 or sx[1] == 1):
        return None
    vol = volume(sy)
    out = list(vy)
    if sx[1] == sy[1]:
        for j in range(len(out)):
            out[j] += sign * vx[j]
    elif sx[1] == 1:
        for j in range(len(out)):
            out[j] += sign * vx[j % vol]
    else:  # y is not batched: it accumulates every sample of x
        for j in range(len(vx)):
            out[j % vol] += sign * vx[j]
    return (sy, tuple(out))


def axis(sh, d):
    return sh[0][d] if d < len(sh[0]) else 1


def unravel(i, dims):
    c = []
    for d in dims:
        c.append(i % d)
        i //= d
    return c


def ravel(c, dims):
    i, m = 0, 1
    for x, d in zip(c, dims):
        i += x * m
        m *= d
    return i


def padded(sh, n):
    return list(sh[0]) + [1] * (n - len(sh[0]))


def scatter_add(gx, gy, n, place):
    """gx[bx][place(c)] += gy[by][c] for every sample and every coordinate c of gy
    (n axes); a non-batched operand is shared by all samples."""
    (sx, vx), (sy, vy) = gx, gy
    dx, dy = padded(sx, n), padded(sy, n)
    volx, voly = volume(sx), volume(sy)
    out = list(vx)
    for b in range(max(sx[1], sy[1])):
        ox = b * volx if sx[1] > 1 else 0
        oy = b * voly if sy[1] > 1 else 0
        for i in range(voly):
            c = unravel(i, dy)
            out[ox + ravel(place(c), dx)] += vy[oy + i]
    return (sx, tuple(out))


def slice_bw(gy, dim, off, gx):
    sy, sx = gy[0], gx[0]
    n = max(len(sy[0]), len(sx[0]), dim + 1 if dim < 16 else 0)
    if dim < 16:
        same = all(a == b for i, (a, b) in enumerate(zip(padded(sy, n), padded(sx, n))) if i != dim)
    else:
        same = sy[0] == sx[0]
    if not same or not (sy[1] == sx[1] or 1 in (sy[1], sx[1])) or off > axis(sx, dim) or axis(sy, dim) > axis(sx, dim) - off:
        return None
    if dim >= 16:
        return arith(1, gx, gy)

    def place(c):
        c = list(c); c[dim] += off
        return c
    return scatter_add(gx, gy, n, place)


def pick_shape(sx, ids, dim):
    n = axis(sx, dim)
    bi = len(ids)
    if bi == 0 or (sx[1] != bi and sx[1] > 1 and bi > 1) or any(i >= n for i in ids) or dim >= 8:
        return None
    d = padded(sx, max(len(sx[0]), dim + 1))
    d[dim] = 1
    return (canon_dims(d), max(sx[1], bi))


def pick_bw(gy, dim, ids, gx):
    sy, sx = gy[0], gx[0]
    if pick_shape(sx, ids, dim) != sy:
        return None
    n = max(len(sx[0]), dim + 1)
    dx, dy = padded(sx, n), padded(sy, n)
    volx, voly = volume(sx), volume(sy)
    out = list(gx[1])
    for b in range(sy[1]):
        ox = b * volx if sx[1] > 1 else 0
        k = ids[b] if len(ids) > 1 else ids[0]
        for i in range(voly):
            c = unravel(i, dy)
            c[dim] = k
            out[ox + ravel(c, dx)] += gy[1][b * voly + i]
    return (sx, tuple(out))


def flip_bw(gy, dim, gx):
    sy, sx = gy[0], gx[0]
    if sy != sx:
        return None
    if dim >= len(sx[0]):
        return arith(1, gx, gy)
    n = len(sx[0])
    m = sx[0][dim]

    def place(c):
        c = list(c); c[dim] = m - 1 - c[dim]
        return c
    return scatter_add(gx, gy, n, place)


def transpose_bw(gy, gx):
    sy, sx = gy[0], gx[0]
    if len(sx[0]) > 2 or sy != (canon_dims([axis(sx, 1), axis(sx, 0)]), sx[1]):
        return None
    return scatter_add(gx, gy, 2, lambda c: [c[1], c[0]])


def probe_ok(fn, sh):
    if fn == "matmul":
        return len(sh[0]) <= 2 and axis(sh, 0) == axis(sh, 1)
    if fn == "tofloat":
        return size(sh) == 1
    return True


class Oracle:
    """Pure value semantics. T: object id -> None (invalid tensor) | (shape, values);
    P: parameter id -> [value, gradient]."""

    def __init__(self):
        self.T, self.P = {}, {}

    def clone(self):
        o = Oracle()
        o.T = dict(self.T)
        o.P = {k: list(v) for k, v in self.P.items()}
        return o

    def biggest(self):
        m = 0
        for v in list(self.T.values()) + [x for pv in self.P.values() for x in pv]:
            if v is not None and v[1]:
                m = max(m, max(abs(a) for a in v[1]))
        return m

    def step(self, line):
        """Expected answer of one line. For `live` a pair (lo, hi) of admissible counts."""
        w = line.split()
        op = w[0]
        T, P = self.T, self.P
        if op in ("reset", "dev") and len(w) <= 2 and (op == "dev" or len(w) == 1):
            T.clear(); P.clear()
            return "ok"
        if op == "live":
            n = sum(1 for v in T.values() if v is not None) + 2 * len(P)
            return (1 if n else 0, n)
        if op == "readall":
            items = []
            for i in sorted(set(T) | set(P)):
                if i in T:
                    items.append("t%d=%s" % (i, show(T[i])))
                if i in P:
                    items.append("v%d=%s" % (i, show(P[i][0])))
                    items.append("g%d=%s" % (i, show(P[i][1])))
            return "ok " + (";".join(items) if items else "-")
        if op == "new":
            h = int(w[1]); sh = mk_shape(*parse_shape(w[2])); vs = parse_vals(w[3])
            if sh is None or len(vs) != size(sh):
                return "err"
            T[h] = (sh, vs)
            return "ok"
        if op in ("copy", "copyctor"):
            h, g = int(w[1]), int(w[2])
            if h not in T:
                return "noobj"
            T[g] = T[h]
            return "ok"
        if op == "move":
            h, g = int(w[1]), int(w[2])
            if h not in T:
                return "noobj"
            if h != g:
                T[g] = T[h]
                T[h] = None
            return "ok"
        if op in ("reshape", "flatten"):
            h, g = int(w[1]), int(w[2])
            if h not in T:
                return "noobj"
            if op == "reshape":
                ns = mk_shape(*parse_shape(w[3]))
                if ns is None:
                    return "err"
            if T[h] is None:
                return "err"
            sh, vs = T[h]
            if op == "flatten":
                rs = (canon_dims([volume(sh)]), sh[1])
            else:
                if volume(ns) != volume(sh) or (ns[1] > 1 and ns[1] != sh[1]):
                    return "err"
                rs = (ns[0], sh[1])
            T[g] = (rs, vs)
            return "ok"
        if op in ("reset", "imul", "resetv"):
            h = int(w[1])
            if h not in T:
                return "noobj"
            if T[h] is None:
                return "err"
            sh, vs = T[h]
            if op == "reset":
                T[h] = (sh, (int(w[2]),) * len(vs))
            elif op == "imul":
                T[h] = (sh, tuple(a * int(w[2]) for a in vs))
            else:
                nv = parse_vals(w[2])
                if len(nv) != size(sh):
                    return "err"
                T[h] = (sh, nv)
            return "ok"
        if op in ("iadd", "isub"):
            h, g = int(w[1]), int(w[2])
            if h not in T or g not in T:
                return "noobj"
            if T[h] is None or T[g] is None:
                return "err"
            r = arith(1 if op == "iadd" else -1, T[h], T[g])
            if r is None:
                return "err"
            T[h] = r
            return "ok"
        if op == "invalidate":
            h = int(w[1])
            if h not in T:
                return "noobj"
            T[h] = None
            return "ok"
        if op == "drop":
            h = int(w[1])
            if h not in T:
                return "noobj"
            del T[h]
            return "ok"
        if op in ("read", "shape", "valid", "device"):
            h = int(w[1])
            if h not in T:
                return "noobj"
            if op == "valid":
                return "ok true" if T[h] is not None else "ok false"
            if T[h] is None:
                return "err"
            if op == "read":
                return "ok " + show(T[h])
            if op == "shape":
                return "ok " + shape_str(T[h][0])
            return "ok"
        if op == "param":
            p = int(w[1]); sh = mk_shape(*parse_shape(w[2])); vs = parse_vals(w[3])
            if sh is None or len(vs) != size(sh) or sh[1] > 1:
                return "err"
            P[p] = [(sh, vs), (sh, (0,) * len(vs))]
            return "ok"
        if op in ("pvalue", "pgrad", "ptensor"):
            p, g = int(w[1]), int(w[2])
            if p not in P:
                return "err"
            T[g] = P[p][1 if op == "pgrad" else 0]
            return "ok"
        if op == "piadd_value":
            p, g = int(w[1]), int(w[2])
            if g not in T:
                return "noobj"
            if p not in P or T[g] is None:
                return "err"
            r = arith(1, P[p][0], T[g])
            if r is None:
                return "err"
            P[p][0] = r
            return "ok"
        if op == "pdrop":
            P.pop(int(w[1]), None)
            return "ok"
        if op in ("diadd", "disub"):
            return self.step(("iadd" if op == "diadd" else "isub") + line[5:])
        if op == "dimul":
            return self.step("imul" + line[5:])
        if op in ("dslice_bw", "dpick_bw", "dflip_bw", "dtranspose_bw"):
            gy, gx = int(w[1]), int(w[-1])
            if gy not in T or gx not in T:
                return "noobj"
            if gy == gx:
                return "alias"
            if T[gy] is None or T[gx] is None:
                return "err"
            if op == "dslice_bw":
                r = slice_bw(T[gy], int(w[2]), int(w[3]), T[gx])
            elif op == "dpick_bw":
                r = pick_bw(T[gy], int(w[2]), [int(x) for x in w[3][2:].split(",")] if w[3][2:] else [], T[gx])
            elif op == "dflip_bw":
                r = flip_bw(T[gy], int(w[2]), T[gx])
            else:
                r = transpose_bw(T[gy], T[gx])
            if r is None:
                return "err"
            T[gx] = r
            return "ok"
        if op in ("dadd_bw", "dsub_bw"):
            gy, ga, gb = int(w[1]), int(w[2]), int(w[3])
            if gy not in T or ga not in T or gb not in T:
                return "noobj"
            if gy == ga or gy == gb or ga == gb:
                return "alias"
            if T[gy] is None or T[ga] is None or T[gb] is None:
                return "err"
            sy, sa, sb = T[gy][0], T[ga][0], T[gb][0]
            if sa[0] != sb[0] or not (sa[1] == sb[1] or 1 in (sa[1], sb[1])) or sy != (sa[0], max(sa[1], sb[1])):
                return "err"
            T[ga] = arith(1, T[ga], T[gy])
            T[gb] = arith(1 if op == "dadd_bw" else -1, T[gb], T[gy])
            return "ok"
        if op == "piadd_grad":
            p, g = int(w[1]), int(w[2])
            if g not in T:
                return "noobj"
            if p not in P or T[g] is None:
                return "err"
            r = arith(1, P[p][1], T[g])
            if r is None:
                return "err"
            P[p][1] = r
            return "ok"
        if op in ("fcopy", "fpositive", "fconcat1", "fbconcat1"):
            h, g = int(w[1]), int(w[2])
            if h not in T:
                return "noobj"
            if T[h] is None or (op == "fconcat1" and int(w[3]) >= 8):
                return "err"
            T[g] = T[h]
            return "ok"
        if op == "probe":
            h = int(w[2])
            if h not in T:
                return "noobj"
            if T[h] is None or not probe_ok(w[1], T[h][0]):
                return "err"
            return "ok"
        return "bad-op"


def expected(lines):
    o = Oracle()
    return [o.step(l) for l in lines]


def agrees(exp, out):
    if isinstance(exp, tuple):
        if not out.startswith("ok "):
            return False
        try:
            n = int(out[3:])
        except ValueError:
            return False
        return exp[0] <= n <= exp[1]
    return exp == out


def first_violation(lines, outs):
    """(index, expected, observed) of the first line where the implementation
    leaves the value semantics, or None."""
    exp = expected(lines)
    for i, (e, o) in enumerate(zip(exp, outs)):
        if o == "skipped":
            return None
        if not agrees(e, o):
            return (i, e, o)
    return None


# --------------------------------------------------------------- the generator

DIMS = [[], [2], [3], [4], [6], [2, 2], [2, 3], [3, 2], [1, 2], [2, 1, 2], [2, 1, 3], [1, 1, 4], [12], [2, 2, 3]]


def stok(dims, b):
    return "S:%s/%d" % (",".join(map(str, dims)), b)


def vtok(vs):
    return "V:" + ",".join(map(str, vs))


def rand_vals(rng, n):
    return [rng.randint(-9, 9) for _ in range(n)]


def same_volume_dims(rng, vol):
    c = [d for d in DIMS if volume((canon_dims(d), 1)) == vol]
    extra = [[vol], [1, vol], [vol, 1, 1]]
    return rng.choice(c + extra)


MUTATING = {"new", "copy", "copyctor", "move", "reshape", "flatten", "reset", "resetv", "iadd", "isub", "imul",
            "invalidate", "drop", "param", "pvalue", "pgrad", "ptensor", "piadd_value", "pdrop",
            "diadd", "disub", "dimul", "dslice_bw", "dpick_bw", "dflip_bw", "dtranspose_bw", "dadd_bw", "dsub_bw",
            "piadd_grad", "fcopy", "fpositive", "fconcat1", "fbconcat1"}
PROBES = ["sum0", "add", "matmul", "bsum", "tofloat", "argmax0"]


def gen_line(rng, o, bad):
    """One operation line; with probability 1-bad its arguments are chosen admissible
    for the current abstract state `o`."""
    T, P = o.T, o.P
    valid = [h for h in T if T[h] is not None]
    invalid = [h for h in T if T[h] is None]
    wild = rng.random() < bad

    def anyh():
        return rng.randrange(NH)

    def src():
        if wild and invalid and rng.random() < 0.5:
            return rng.choice(invalid)
        if wild or not valid:
            return anyh()
        return rng.choice(valid)

    def dst():
        return anyh()

    ops = ["new"] * 6 + ["copy"] * 6 + ["copyctor"] * 3 + ["move"] * 5 + ["reshape"] * 6 + ["flatten"] * 3 + \
          ["reset"] * 3 + ["resetv"] * 3 + ["iadd"] * 8 + ["isub"] * 5 + ["imul"] * 5 + ["invalidate"] * 2 + ["drop"] * 2 + \
          ["read", "shape", "valid", "device"] * 2 + ["param"] * 3 + ["pvalue"] * 3 + ["pgrad"] * 2 + ["ptensor"] * 3 + \
          ["piadd_value"] * 4 + ["pdrop", "live"]
    op = rng.choice(ops)
    if not wild:
        # keep the pool populated: operations that need an operand are replaced by a creation when there is none
        if (len(valid) == 0 or (len(valid) < 3 and rng.random() < 0.35)) and op not in ("param", "pdrop", "live"):
            op = "new"
        if op in ("pvalue", "pgrad", "ptensor", "piadd_value") and not P:
            op = "param"
    if op == "new" or op == "param":
        d = rng.choice(DIMS)
        b = rng.choice([1, 1, 1, 2, 3]) if op == "new" else 1
        if wild:
            r = rng.random()
            if r < 0.25:
                d = d + [0]
            elif r < 0.4:
                d = [1] * 9
            elif r < 0.55:
                b = 0
            elif r < 0.7 and op == "param":
                b = 2
        sh = mk_shape(d, b)
        n = size(sh) if sh else 2
        if wild and rng.random() < 0.4:
            n = max(0, n + rng.choice([-1, 1, 2]))
        who = anyh() if op == "new" else rng.randrange(NP)
        return "%s %d %s %s" % (op, who, stok(d, b), vtok(rand_vals(rng, n)))
    if op in ("copy", "copyctor", "move"):
        h = src()
        g = dst() if rng.random() < 0.9 else h
        return "%s %d %d" % (op, h, g)
    if op == "reshape":
        h = src()
        g = dst() if rng.random() < 0.8 else h
        if h in T and T[h] is not None and not wild:
            sh = T[h][0]
            d = same_volume_dims(rng, volume(sh))
            b = rng.choice([1, sh[1]])
        else:
            d = rng.choice(DIMS); b = rng.choice([1, 1, 2, 3])
        return "reshape %d %d %s" % (h, g, stok(d, b))
    if op == "flatten":
        h = src()
        return "flatten %d %d" % (h, dst() if rng.random() < 0.8 else h)
    if op == "reset":
        return "reset %d %d" % (src(), rng.randint(-9, 9))
    if op == "imul":
        return "imul %d %d" % (src(), rng.choice([-2, -1, 0, 2, 2, 3]))
    if op == "resetv":
        h = src()
        n = len(T[h][1]) if h in T and T[h] is not None else 2
        if rng.random() < (0.5 if wild else 0.25):
            n = max(0, n + rng.choice([-1, 1]))      # wrong length: rejected, and the target (shared or not) keeps its value
        return "resetv %d %s" % (h, vtok(rand_vals(rng, n)))
    if op in ("iadd", "isub", "piadd_value"):
        if op == "piadd_value":
            p = rng.choice(list(P)) if P and not wild else rng.randrange(NP)
            tgt = P[p][0] if p in P else None
        else:
            h = src()
            tgt = T.get(h)
        cands = []
        if tgt is not None and not wild:
            cands = [g for g in valid if T[g][0][0] == tgt[0][0] and (T[g][0][1] == tgt[0][1] or 1 in (T[g][0][1], tgt[0][1]))]
        g = rng.choice(cands) if cands and rng.random() < 0.9 else src()
        if op == "piadd_value" and not cands and not wild and p in P:
            return "ptensor %d %d" % (p, dst())
        if op == "piadd_value":
            return "piadd_value %d %d" % (p, g)
        if rng.random() < 0.12:
            g = h
        return "%s %d %d" % (op, h, g)
    if op in ("invalidate", "drop", "read", "shape", "valid", "device"):
        return "%s %d" % (op, src())
    if op in ("pvalue", "pgrad", "ptensor"):
        ps = list(P)
        p = rng.choice(ps) if ps and not wild else rng.randrange(NP)
        return "%s %d %d" % (op, p, dst())
    if op == "pdrop":
        return "pdrop %d" % rng.randrange(NP)
    return "live"


def gen_extra(rng, o, bad):
    """Lines (one or a short scripted pattern) of the second group of operations:
    Device entry points called directly (in-place and backward kernels), functions of one
    operand, and move-assignment between objects that share one buffer."""
    T, P = o.T, o.P
    valid = [h for h in T if T[h] is not None]
    invalid = [h for h in T if T[h] is None]
    wild = rng.random() < bad
    free = [h for h in range(NH) if h not in T] or list(range(NH))

    def anyh():
        return rng.randrange(NH)

    def src():
        if wild and invalid and rng.random() < 0.6:
            return rng.choice(invalid)
        if wild or not valid:
            return anyh()
        return rng.choice(valid)

    def other(*used):
        c = [h for h in range(NH) if h not in used]
        f = [h for h in c if h not in T]
        return rng.choice(f) if f and rng.random() < 0.6 else rng.choice(c)

    def fresh(sh, near=None):
        """`new` of a tensor of shape sh in a slot that is not `near`."""
        h = other(*(near or ()))
        return h, "new %d %s %s" % (h, stok(list(sh[0]), sh[1]), vtok(rand_vals(rng, size(sh))))

    kinds = ["mv"] * 10 + ["diadd"] * 4 + ["disub"] * 3 + ["dimul"] * 3 + ["dslice_bw"] * 5 + ["dpick_bw"] * 4 + \
            ["dflip_bw"] * 4 + ["dtranspose_bw"] * 3 + ["dadd_bw"] * 4 + ["dsub_bw"] * 4 + ["piadd_grad"] * 3 + \
            ["fcopy"] * 2 + ["fpositive"] * 2 + ["fconcat1"] * 2 + ["fbconcat1"] * 2 + ["probe"] * 4 + ["finv"] * 3
    k = rng.choice(kinds)
    if not valid and not wild:
        return [gen_line(rng, o, 0.0)]
    if k == "mv":
        a = src()
        pat = rng.randrange(6)
        if pat == 0:      # c = copy(a); a = move(c)
            c = other(a)
            return ["copy %d %d" % (a, c), "move %d %d" % (c, a)]
        if pat == 1:      # v = flatten(a); a = move(v)
            v = other(a)
            return ["flatten %d %d" % (a, v), "move %d %d" % (v, a)]
        if pat == 2:      # moved -> reshape view -> copy -> move back
            m = other(a); v = other(a, m); c = other(a, m, v)
            d = same_volume_dims(rng, volume(T[a][0])) if a in T and T[a] is not None else [2]
            return ["move %d %d" % (a, m), "reshape %d %d %s" % (m, v, stok(d, 1)), "copy %d %d" % (v, c), "move %d %d" % (c, a)]
        if pat == 3:      # move onto a sharer
            c = other(a)
            return ["copy %d %d" % (a, c), "move %d %d" % (a, c)]
        if pat == 4:      # view moved over the object it views, then written
            v = other(a)
            d = same_volume_dims(rng, volume(T[a][0])) if a in T and T[a] is not None else [2]
            return ["reshape %d %d %s" % (a, v, stok(d, 1)), "copy %d %d" % (a, other(a, v)), "move %d %d" % (v, a), "imul %d 2" % a]
        c = other(a)      # copy, move back, write through the moved-to object
        return ["fpositive %d %d" % (a, c), "move %d %d" % (c, a), "dimul %d -1" % a]
    if k in ("diadd", "disub"):
        l = gen_line(rng, o, bad)
        for _ in range(6):
            if l.startswith(("iadd", "isub")):
                break
            l = gen_line(rng, o, bad)
        else:
            return [l]
        return [("diadd" if k == "diadd" else "disub") + l[4:]]
    if k == "dimul":
        return ["dimul %d %d" % (src(), rng.choice([-2, -1, 0, 2, 3]))]
    if k == "piadd_grad":
        if not P:
            return ["param %d %s %s" % (rng.randrange(NP), stok([2], 1), vtok(rand_vals(rng, 2)))]
        p = rng.choice(list(P))
        c = [g for g in valid if T[g][0][0] == P[p][1][0][0]]
        if not c and not wild:
            return ["pgrad %d %d" % (p, other())]
        return ["piadd_grad %d %d" % (p, rng.choice(c) if c and not wild else src())]
    if k in ("fcopy", "fpositive", "fbconcat1"):
        return ["%s %d %d" % (k, src(), anyh())]
    if k == "fconcat1":
        return ["fconcat1 %d %d %d" % (src(), anyh(), rng.choice([0, 0, 1, 2, 3, 7, 8]))]
    if k == "probe":
        return ["probe %s %d" % (rng.choice(PROBES), src())]
    if k == "finv":
        # every function-level use of one invalid object
        h = rng.choice(invalid) if invalid else src()
        g = other(h)
        ls = ["fcopy %d %d" % (h, g), "fpositive %d %d" % (h, g), "fconcat1 %d %d 0" % (h, g), "fbconcat1 %d %d" % (h, g),
              "reshape %d %d S:2/1" % (h, g), "flatten %d %d" % (h, g), "read %d" % h, "shape %d" % h, "device %d" % h,
              "iadd %d %d" % (h, h), "diadd %d %d" % (h, h), "dimul %d 2" % h] + ["probe %s %d" % (f, h) for f in PROBES]
        rng.shuffle(ls)
        return ls[:rng.choice([3, 6, 18])]
    # backward kernels: gx is a valid object, preferably one that shares its buffer
    gx = src()
    if gx not in T or T[gx] is None:
        return ["%s %d %s%d" % (k, src(), "0 " if k in ("dflip_bw",) else ("0 0 " if k == "dslice_bw" else ("0 I:0 " if k == "dpick_bw" else ("%d " % anyh() if k in ("dadd_bw", "dsub_bw") else ""))), gx)]
    sx = T[gx][0]
    share = ["copy %d %d" % (gx, other(gx))] if rng.random() < 0.5 else []
    if k == "dflip_bw":
        want = sx
        dim = rng.choice([0, 0, 1, 2, len(sx[0])])
    elif k == "dtranspose_bw":
        want = (canon_dims([axis(sx, 1), axis(sx, 0)]), sx[1])
        dim = 0
        if len(sx[0]) > 2 and not wild:
            h, l = fresh((rng.choice([(2, 3), (3, 2), (2,), (2, 2)]), rng.choice([1, 2])))
            return [l]
    elif k == "dslice_bw":
        dim = rng.choice([0, 0, 1, 1, 2, len(sx[0])])
        n = axis(sx, dim)
        w = rng.randint(1, n)
        off = rng.randint(0, n - w)
        d = padded(sx, max(len(sx[0]), dim + 1)); d[dim] = w
        want = (canon_dims(d), rng.choice([sx[1], sx[1], 1, 2 if sx[1] == 1 else sx[1]]))
        if wild:
            off += rng.choice([0, 1, n])
    elif k == "dpick_bw":
        dim = rng.choice([0, 0, 1, 2])
        n = axis(sx, dim)
        bi = rng.choice([1, sx[1]] if sx[1] > 1 else [1, 1, 2])
        ids = [rng.randrange(n) for _ in range(bi)]
        if wild and rng.random() < 0.5:
            ids[0] = n
        want = pick_shape(sx, [0] * bi, dim)
    else:   # dadd_bw / dsub_bw: gx plays ga; gb is a sharer or another tensor of the same dims
        bb = rng.choice([sx[1], sx[1], 1])
        want = (sx[0], max(sx[1], bb))
        pre = []
        if rng.random() < 0.6 or wild:
            gb = other(gx)
            pre.append("copy %d %d" % (gx, gb))       # ga and gb start as one buffer
            want = sx
        else:
            c = [h for h in valid if h != gx and T[h][0] == (sx[0], bb)]
            if c:
                gb = rng.choice(c)
            else:
                gb, l = fresh((sx[0], bb), near=(gx,))
                pre.append(l)
        c = [h for h in valid if h not in (gx, gb) and T[h][0] == want]
        if c and rng.random() < 0.8:
            gy = rng.choice(c)
        else:
            gy, l = fresh(want, near=(gx, gb))
            pre.append(l)
        if wild and rng.random() < 0.3:
            gy = rng.choice([gx, gb])
        return pre + ["%s %d %d %d" % (k, gy, gx, gb)]
    c = [h for h in valid if h != gx and T[h][0] == want]
    pre = []
    if c and rng.random() < 0.8:
        gy = rng.choice(c)
    elif want == sx and rng.random() < 0.5:
        gy = other(gx)
        pre.append("copy %d %d" % (gx, gy))           # gy and gx are one buffer
        share = []
    else:
        gy, l = fresh(want, near=(gx,))
        pre.append(l)
    if wild and rng.random() < 0.2:
        gy = gx
    if k == "dflip_bw":
        line = "dflip_bw %d %d %d" % (gy, dim, gx)
    elif k == "dtranspose_bw":
        line = "dtranspose_bw %d %d" % (gy, gx)
    elif k == "dslice_bw":
        line = "dslice_bw %d %d %d %d" % (gy, dim, off, gx)
    else:
        line = "dpick_bw %d %d I:%s %d" % (gy, dim, ",".join(map(str, ids)), gx)
    return pre + share + [line]


def gen_history(rng, steps, bad):
    """Lines of one history: every mutating step is followed by `readall`."""
    o = Oracle()
    lines = []
    n = 0
    while n < steps:
        for _try in range(8):
            ls = gen_extra(rng, o, bad) if rng.random() < 0.4 else [gen_line(rng, o, bad)]
            t = o.clone()
            for l in ls:
                t.step(l)
            if t.biggest() <= LIMIT:
                break
        else:
            ls = ["live"]
            t = o
        o = t
        for l in ls:
            n += 1
            lines.append(l)
            if l.split()[0] in MUTATING:
                lines.append("readall")
    lines.append("live")
    return lines


def small_alphabet():
    a = ["new %d S:2/1 V:1,2" % h for h in range(3)]
    a += ["copy %d %d" % (h, g) for h in range(3) for g in range(3) if h != g]
    a += ["move %d %d" % (h, g) for h in range(3) for g in range(3) if h != g] + ["move 0 0"]
    a += ["reshape %d %d S:1,2/1" % (h, g) for h in range(3) for g in range(3)]
    a += ["iadd %d %d" % (h, g) for h in range(3) for g in range(3)]
    a += ["diadd %d %d" % (h, g) for h in range(3) for g in range(3) if h != g]
    a += ["imul %d 2" % h for h in range(3)]
    a += ["invalidate %d" % h for h in range(3)] + ["drop %d" % h for h in range(3)]
    return a


def exhaustive_histories(maxlen=4):
    """All histories of at most `maxlen` operations over 3 objects and the small
    alphabet whose first operation creates object 0 (any other first operation on
    the empty pool answers `noobj` and changes nothing)."""
    a = small_alphabet()
    first = a[0]
    for n in range(0, maxlen):
        for rest in itertools.product(a, repeat=n):
            h = [first]
            for l in rest:
                h.append(l)
            h.append("readall")
            h.append("live")
            yield h


def read_corpus():
    p = os.path.join(build.VERIF, "corpus", "cow.ops")
    hs, cur = [], []
    if os.path.exists(p):
        for l in open(p):
            l = l.strip()
            if not l or l.startswith("#"):
                continue
            if l == "reset":
                if cur:
                    hs.append(cur)
                cur = []
            else:
                cur.append(l)
        if cur:
            hs.append(cur)
    return hs


# ------------------------------------------------------------------- the check

def classify(line, exp, out):
    if out.startswith("crash"):
        return "crash"
    if isinstance(exp, tuple):
        return "live-buffers"
    if exp == "err" and out.startswith("ok"):
        return "accepts-invalid"
    if exp.startswith("ok") and out == "err":
        return "rejects-valid"
    if line.startswith("readall") or line.startswith("read "):
        return "aliasing"
    return "wrong-answer"


def alloc_failure_probe(chk):
    """The copy-on-write duplication is an allocation: when the device cannot supply the block, the in-place operation on a
    SHARED tensor raises and nothing changes — it must not fall back to writing into the shared block.  Implementation
    alone (harness h_cow, op `failnext k`): share a tensor (copy / flatten / reshape view / parameter read), let the next
    allocation fail, operate in place on one side, read both sides."""
    exe = build.build_harness(HARNESS)
    rng = chk.rng
    for it in range(12 if chk.tier == "quick" else 150):
        dev = "naive" if it % 2 == 0 else "eigen"
        n = rng.choice([1, 2, 3, 4])
        vals = [rng.randint(1, 9) for _ in range(n)]
        share = rng.choice(["copy 0 1", "copyctor 0 1", "flatten 0 1"])
        side = rng.choice([0, 1])
        op, f = rng.choice([("imul %d 2", lambda v: [2 * x for x in v]), ("reset %d 7", lambda v: [7] * len(v)),
                            ("iadd %d 2", None), ("isub %d 2", None)])
        lines = ["dev " + dev, "new 0 S:%d/1 V:%s" % (n, ",".join(map(str, vals))), "new 2 S:%d/1 V:%s" % (n, ",".join(["1"] * n)),
                 share, "failnext 1", op % side, "failnext 0", "read 0", "read 1"]
        outs, reports = vrun.run_impl(exe, lines, stateful=True, timeout=60)
        chk.traces += 1
        for l, o in zip(lines, outs):
            chk.count(dev + " " + l, o, o.startswith("ok"))
        res, r0, r1 = outs[5], outs[7], outs[8]
        base = None
        def vs(o):
            try:
                return [int(float(x)) for x in o.split(":")[-1].split(",")]
            except Exception:
                return None
        v0, v1 = vs(r0), vs(r1)
        bad = None
        if any(o.startswith("crash") for o in outs):
            bad = "a line crashes: %s" % [o for o in outs if o.startswith("crash")][:1]
        elif res.startswith("err"):
            if v0 != vals or v1 != vals:
                bad = "the in-place operation raised, yet the values are t0=%s t1=%s (both were %s)" % (v0, v1, vals)
        elif res.startswith("ok"):
            other = v1 if side == 0 else v0
            if other != vals:
                bad = "the in-place operation on t%d succeeded while the allocation of its private copy failed, and the tensor it shared memory with changed to %s (was %s)" % (side, other, vals)
        if bad:
            chk.report("cow:allocation-failure-during-duplication", "device %s, `%s`: %s" % (dev, "; ".join(lines[1:7]), bad),
                       {"family": FAMILY, "harness": HARNESS, "stateful": True, "lines": lines, "model_family": None, "observed": outs[5:]})
            break


def run(chk):
    quick = chk.tier == "quick"
    chk.rule = ("histories of the cow protocol over <= 6 Tensor objects and <= 2 Parameters, <= 60 operations each, generated from one PRNG "
                "together with the abstract state (so that ~88% of the operations are admissible: existing valid operands, reshape targets of "
                "equal volume, operands of += / -= with equal dims and compatible batch, value lists of the right length, |values| <= 2^20 so that "
                "float32 arithmetic is exact); one history in five is the malformed stream (half of its operations use dropped / moved-from / "
                "invalidated objects, mismatched shapes, incompatible batches, wrong value counts, shapes the constructor rejects). "
                "40% of the steps come from the second group: the public Device entry points called directly (inplace_add/subtract/"
                "multiply_const, slice_bw, pick_bw, flip_bw, transpose_bw, add_bw/subtract_bw with ga and gb copies of one tensor, "
                "Parameter gradient +=) on targets that are preferably sharers of a buffer, primitiv::functions of one operand (copy, positive, "
                "concat({&h}), batch::concat({&h}), sum, h+h, matmul, batch::sum, to_float, argmax) on valid and on invalid objects, and scripted "
                "move-assignments between objects that share one buffer (c=copy(a);a=move(c) / v=flatten(a);a=move(v) / moved->reshape->copy->move back). "
                "Every mutating operation is followed by `readall` (shape and to_vector() of every live object, parameters included). "
                "Each history runs on devices::Naive and on devices::Eigen; the expected answer of every line comes from the pure-value oracle in "
                "props/C07.py. thorough adds all histories of <= 4 operations over 3 objects and a 49-letter alphabet (new/copy/move/reshape/+=/Device::inplace_add/*=/"
                "invalidate/drop). Non-trivial = the implementation accepted the operation (answer starts with ok); distinct = distinct lines.")
    chk.obligations(MODS, drivers=[FAMILY])
    exe = build.build_harness(HARNESS)
    rng = chk.rng
    hists = read_corpus()
    ncorpus = len(hists)
    nrand = 500 if quick else 20000
    for i in range(nrand):
        malformed = (i % 5 == 4)
        steps = rng.choice([6, 12, 20, 30, 45, 60])
        hists.append(gen_history(rng, steps, 0.5 if malformed else 0.06))
    nex = 0
    if not quick:
        for h in exhaustive_histories(4):
            hists.append(h); nex += 1
        chk.extra_cov["exhaustive_small_scope_histories"] = nex
    chk.extra_cov["histories"] = {"corpus": ncorpus, "random": nrand, "per_device": len(hists)}

    # chunks of histories, one process per chunk and device; `reset` ends a history
    CH = 250 if quick else 2000
    streams, index = [], []
    for dev in ("naive", "eigen"):
        for c in range(0, len(hists), CH):
            lines, spans = ["dev " + dev], []
            for h in hists[c:c + CH]:
                a = len(lines)
                lines += h
                lines.append("reset")
                spans.append((a, len(lines)))
            streams.append(lines)
            index.append((dev, spans))
    seen = []

    def post(lines, impl, model):
        seen.append((lines, impl, model))
        return impl, model

    nontriv = lambda line, out: out.startswith("ok") and not line.startswith(("readall", "live", "reset", "dev"))
    dis, _, crashes = chk.correspond(FAMILY, HARNESS, streams, stateful=True, post=post, nontrivial=nontriv, timeout=900)

    def impl_history(dev, h):
        out, _ = vrun.run_impl(exe, ["dev " + dev] + h, stateful=True, timeout=120)
        return out[1:]

    reported = 0
    kinds = set()
    for (lines, impl, model), (dev, spans) in zip(seen, index):
        for (a, b) in spans:
            h = lines[a:b]
            v = first_violation(h, impl[a:b])
            if v is None:
                continue
            i, e, o = v
            cls = classify(h[i], e, o)
            # one replay per kind of failure (class, operation, device), at most 6 in all
            last = [l for l in h[:i + 1] if l != "readall"] or [h[i]]
            kind = (cls, last[-1].split()[0], dev)
            if reported >= 6 or kind in kinds:
                continue
            kinds.add(kind)
            reported += 1
            hh = h[:i + 1]

            def still(c):
                out = impl_history(dev, c)
                w = first_violation(c, out)
                return w is not None and classify(c[w[0]], w[1], w[2]) == cls
            if still(hh):
                hh = vcheck.shrink(hh, still, max_runs=150)
                out = impl_history(dev, hh)
                w = first_violation(hh, out)
                i2, e2, o2 = w
                hh = hh[:i2 + 1]
            else:
                # not reproducible in isolation: keep the whole chunk prefix
                hh, out, e2, o2 = lines[:a + i + 1], impl[:a + i + 1], e, o
            key = "cow:%s:%s:%s" % (cls, hh[-1].split()[0], ";".join(l for l in hh if l != "readall"))
            chk.report(key, "device %s, history `%s`: line `%s` answers `%s`, value semantics requires `%s` (%s)" % (
                dev, "; ".join(hh[:-1]), hh[-1], o2, e2 if not isinstance(e2, tuple) else "ok n, %d<=n<=%d" % e2, cls),
                {"family": FAMILY, "harness": HARNESS, "stateful": True, "lines": ["dev " + dev] + hh,
                 "expected": [x if not isinstance(x, tuple) else "ok %d..%d" % x for x in ["ok"] + expected(hh)], "class": cls})
    # correspondence: model != implementation where the implementation keeps the value semantics
    for d in dis:
        lines = d["lines"]
        start = max([i for i, l in enumerate(lines[:-1]) if l == "reset" or l.startswith("dev ")] + [0])
        h = lines[start + 1:]
        dev = lines[0].split()[1]
        out = impl_history(dev, h)
        if first_violation(h, out) is not None or chk.violations:
            continue
        chk.report("correspondence:cow:" + d["line"].split(" ")[0],
                   "model and implementation disagree on `%s` after `%s` (impl `%s`, model `%s`) although the implementation keeps the value "
                   "semantics there; the Lean model no longer describes the code" % (d["line"], "; ".join(h[:-1][-12:]), d["impl"], d["model"]),
                   {"family": FAMILY, "harness": HARNESS, "stateful": True, "lines": ["dev " + dev] + h, "observed_impl": d["impl"],
                    "model": d["model"], "broken": "correspondence cow/h_cow"}, found_input=False)
    for r in crashes:
        if r.get("at_exit") and not chk.violations:
            chk.report("cow:at-exit:" + r["kind"], "the harness process failed at exit (%s)" % r["kind"],
                       {"stderr": r.get("stderr", "")[-1500:]}, found_input=False)
    broken = chk.broken_obligations()
    if broken and not chk.violations:
        for name, why in broken.items():
            chk.report("obligation:" + name, "theorem %s no longer checks: %s" % (name, why),
                       {"theorem": name, "reason": why, "log": (chk.oblig or {}).get("log_tail", "")[-1500:]}, found_input=False)
    alloc_failure_probe(chk)
    from props import C20 as _c20
    _c20.run_eq_leg(chk, lambda name: "Tensor" in name and "Apply" not in name)    # the C wrappers of the Tensor accessors and in-place operations (valid and invalid tensors)
    chk.trusted += [
        "modelled, not verified: Tensor / Device front / Naive in-place kernels / Parameter tensors are hand-modelled in Lean (Model/Cow.lean) and tied to the code by the correspondence run of this check on devices::Naive and devices::Eigen",
        "the harness devices override the private virtual new_handle (same malloc/free body plus a live-buffer counter)",
        "node values cached in a Graph and optimizer updates are not part of this family (C05/C06/C12 cover the graph and optimizer state)",
    ]
    chk.assumptions += [
        "the backward kernels (slice_bw, pick_bw, flip_bw, transpose_bw, add_bw, subtract_bw) are only issued with pairwise different objects "
        "as operands (the protocol answers `alias` otherwise): with one object as source and target the result of the C++ loop depends on "
        "whether the buffer happens to be shared, which no value semantics can specify",
        "concat / batch::concat of a single tensor keep the element count (shape algebra, C09); the model is total through `fitTo`","element values are integers of magnitude <= 2^20, so float32 addition, subtraction and multiplication are exact"]


def replay(path):
    """Re-run a recorded history on a fresh build of the working tree: implementation, Lean model and oracle side by side."""
    import json
    from vlib import lean as vlean
    obj = json.load(open(path))
    rp = obj.get("replay", {})
    print("replay of C07: %s" % obj.get("what", "")[:400])
    if "lines" not in rp:
        print(json.dumps(rp, indent=1)[:3000])
        return 0
    exe = build.build_harness(HARNESS)
    vlean.lake(["build", "drv_" + FAMILY])
    lines = rp["lines"]
    impl, reports = vrun.run_impl(exe, lines, stateful=True)
    model = vrun.run_model(FAMILY, lines)
    exp = expected(lines)
    bad = 0
    for l, i, m, e in zip(lines, impl, model, exp):
        ok = agrees(e, i)
        bad += 0 if ok else 1
        es = e if not isinstance(e, tuple) else "ok n, %d<=n<=%d" % e
        print("%s %s\n    impl  : %s\n    model : %s\n    oracle: %s" % (" " if ok else "!", l, i, m, es))
    for r in reports:
        print("crash report:", r["kind"], (r.get("stderr") or "")[-600:])
    return 1 if bad or reports else 0
