"""C08 — all CPU backends compute the same function."""
from props import _compose, _graph


def run(chk):
    chk.rule = ("every kernel-call line of both kernel families is executed on devices::Naive and devices::Eigen of the real library and the two "
                "outputs are compared with each other (data movement and exact-domain arithmetic bit-for-bit, transcendental within tolerance) and "
                "with the single Lean model; cross-device copy; whole graph histories (forward, backward) on either backend. Theorems: the shared "
                "Device front-end performs every check before the first *_impl call (table translated from device.cc/device.h), the translated "
                "elementwise formulas of the two backends denote the same real function. Non-trivial = accepted call; distinct = distinct lines.")
    libs = _compose.load(_compose.KERNEL_LIBS, chk)
    _compose.obligations(chk, "C08", libs, own_drivers=_graph.DRIVERS)
    for lib in libs:
        _compose.run_lib(lib, chk, "C08")
    _graph.run_family(chk, {"C08"}, tier="quick")
    # whole programs split across both backends with functions::copy (forward, backward): the gradient oracle's
    # cross-device and fan-out cases, and every function on both backends against the same finite differences
    from props.C01 import grad_oracle
    grad_oracle(chk, 2 if chk.tier == "quick" else 20)
    for lib in libs:
        if hasattr(lib, "run_special_values"):
            lib.run_special_values(chk)   # +-inf, NaN, subnormals, +-0, the largest floats through every elementwise kernel of both backends
    from props import C17 as _c17
    _c17.run_backend_parity(chk, 6 if chk.tier == "quick" else 80, 25)     # same seed, same random history, same answers
    from props import _state
    _state.run_alloc_refused(chk)    # a request the allocator refuses: the same primitiv::Error on both backends
    _compose.finish(chk)
    from props import C20 as _c20
    _c20.run_eq_leg(chk, lambda name: "Device" in name or "Random" in name)    # device construction (seeded) and random functions through the C API
    chk.trusted += ["agreement 'up to float32 rounding' on general float inputs is measured, not proved; CUDA/OpenCL backends cannot be built here"]
