"""C09 — shape algebra: canonical form and shape rules match the specification."""
import itertools, re
from vlib import run as vrun, lean, build

MODS = ["PrimitivModel.Props.C09"]
BOUND = [0, 1, 2, 3, 255, 65535, 65536, 65537, 2**31 - 1, 2**31, 2**31 + 1, 2**32 - 2, 2**32 - 1, 1431655765, 1431655766]
AXES = [0, 1, 2, 3, 4, 5, 6, 7, 8, 9, 2**32 - 1]


def tok(dims, b):
    return "S:%s/%d" % (",".join(map(str, dims)), b)


def rand_dims(rng, big=False, maxdepth=8):
    depth = rng.choice([0, 1, 1, 2, 2, 2, 3, 3, 4, 5, 6, 7, 8, 8] + ([9] if rng.random() < 0.1 else []))
    depth = min(depth, maxdepth) if maxdepth < 8 else depth
    dims = []
    for _ in range(depth):
        r = rng.random()
        if r < 0.3:
            dims.append(1)
        elif big and r < 0.45:
            dims.append(rng.choice(BOUND))
        else:
            dims.append(rng.choice([2, 2, 3, 3, 4, 5, 6, 7]))
    return dims


def rand_batch(rng, big=False):
    r = rng.random()
    if r < 0.5:
        return 1
    if big and r < 0.6:
        return rng.choice(BOUND)
    return rng.choice([2, 3, 4, 5])


def rand_axis(rng, depth):
    r = rng.random()
    if r < 0.6 and depth > 0:
        return rng.randrange(depth)
    if r < 0.8:
        return rng.randrange(0, depth + 2)
    return rng.choice(AXES)


def gen_line(rng, big):
    """One operation line, biased towards admissible arguments."""
    op = rng.choice(["new", "get", "lower", "eq", "same_dims", "loo", "resize_dim", "resize_batch", "reshape", "flatten",
                     "scalar_op", "elementwise", "slice", "concat", "broadcast", "pick", "transpose", "permute",
                     "matmul", "conv2d", "pool2d", "batch_pick", "batch_slice", "batch_concat", "split", "batch_split", "sce"])
    d = rand_dims(rng, big)
    b = rand_batch(rng, big)
    s = tok(d, b)
    ax = rand_axis(rng, len(d))
    def dim(i):
        return d[i] if i < len(d) else 1
    def num(n, near):
        r = rng.random()
        if r < 0.7:
            return rng.choice([x for x in near if 0 <= x < 2**32])
        if r < 0.85:
            return rng.randrange(0, 8)
        return rng.choice(BOUND) if big else rng.randrange(0, 12)
    if op == "new":
        return "new " + s
    if op == "get":
        return "get %s %d" % (s, ax)
    if op == "lower":
        return "lower %s %d" % (s, ax)
    if op in ("eq", "same_dims"):
        d2 = list(d)
        r = rng.random()
        b2 = b
        if r < 0.3 and d2:
            i = rng.randrange(len(d2)); d2[i] = rng.choice([1, 2, 3])
        elif r < 0.45:
            d2 = d2 + [rng.choice([1, 2])]
        elif r < 0.6:
            b2 = rand_batch(rng)
        return "%s %s %s" % (op, s, tok(d2, b2))
    if op == "loo":
        d2 = list(d)
        r = rng.random()
        if ax < len(d2) and r < 0.5:
            d2[ax] = rng.choice([1, 2, 3, 5])
        elif r < 0.7 and ax < 8:
            d2 = d2 + [1] * max(0, ax + 1 - len(d2)); d2[ax] = rng.choice([1, 2, 4])
        elif r < 0.85 and d2:
            i = rng.randrange(len(d2)); d2[i] = rng.choice([1, 2, 3])
        return "loo %s %s %d" % (s, tok(d2, rand_batch(rng)), ax)
    if op == "resize_dim":
        return "resize_dim %s %d %d" % (s, ax, num(0, [1, 2, 3, 5]))
    if op == "resize_batch":
        return "resize_batch %s %d" % (s, num(0, [1, 2, 3]))
    if op == "reshape":
        d2 = list(d)
        rng.shuffle(d2)
        r = rng.random()
        if r < 0.2 and len(d2) >= 2:
            d2 = [d2[0] * d2[1]] + d2[2:]
        elif r < 0.3:
            d2 = d2 + [2]
        b2 = rng.choice([1, b, b, 2])
        return "reshape %s %s" % (s, tok(d2, b2))
    if op == "flatten":
        return "flatten " + s
    if op == "scalar_op":
        k = tok([] if rng.random() < 0.8 else [2], rng.choice([1, b, b, 3]))
        return "scalar_op %s %s" % (s, k)
    if op == "elementwise":
        d2 = list(d)
        if rng.random() < 0.25 and d2:
            i = rng.randrange(len(d2)); d2[i] = rng.choice([1, 2, 3])
        return "elementwise %s %s" % (s, tok(d2, rng.choice([1, b, b, 3])))
    if op == "sce":
        d2 = list(d)
        r = rng.random()
        if r < 0.3 and ax < 8:
            d2 = d2 + [1] * max(0, ax + 1 - len(d2)); d2[ax] = rng.choice([1, 2, 3, 5])      # differ on exactly the reduced axis
        elif r < 0.4 and d2:
            d2[rng.randrange(len(d2))] = rng.choice([1, 2, 3])
        return "sce %s %s %d" % (s, tok(d2, rng.choice([1, b, b, 3])), ax)
    if op == "slice":
        n = dim(ax) if ax < 2**31 else 1
        lo = num(0, [0, 0, 1, n - 1, n // 2])
        up = num(0, [n, n, lo + 1, n + 1, lo])
        return "slice %s %d %d %d" % (s, ax, lo, up)
    if op == "concat":
        k = rng.choice([0, 1, 2, 2, 3, 4])
        shs = []
        B = rng.choice([1, 2, 3])
        for _ in range(k):
            d2 = list(d)
            if ax < 8:
                d2 = d2 + [1] * max(0, ax + 1 - len(d2))
                d2[ax] = rng.choice([1, 2, 3]) if not big or rng.random() < 0.7 else rng.choice(BOUND)
            if rng.random() < 0.1 and d2:
                i = rng.randrange(len(d2)); d2[i] = rng.choice([1, 2, 3])
            shs.append(tok(d2, rng.choice([1, B, B]) if rng.random() < 0.9 else rand_batch(rng, big)))
        return "concat %s %d" % (" ".join(shs), ax) if shs else "concat %d" % ax
    if op == "broadcast":
        d2 = list(d)
        if ax < len(d2) and rng.random() < 0.8:
            d2[ax] = 1
        return "broadcast %s %d %d" % (tok(d2, b), ax, num(0, [1, 2, 3, 4]))
    if op == "pick":
        n = dim(ax) if ax < 2**31 else 1
        k = min(rng.choice([0, 1, 1, b, b, 2, 3]), 6)
        ids = [num(0, [0, n - 1, n - 1, n // 2, n]) if rng.random() < 0.9 else n for _ in range(k)]
        return "pick %s %d %s" % (s, ax, " ".join(map(str, ids)))
    if op == "transpose":
        d2 = rand_dims(rng, big, maxdepth=rng.choice([2, 2, 2, 3]))
        return "transpose " + tok(d2, b)
    if op == "permute":
        n = rng.choice([len(d), len(d), len(d) + 1, max(0, len(d) - 1), 8])
        perm = list(range(n))
        rng.shuffle(perm)
        r = rng.random()
        if r < 0.1 and perm:
            perm[rng.randrange(len(perm))] = rng.choice([n, n + 1, 2**32 - 1])
        elif r < 0.2 and len(perm) >= 2:
            perm[0] = perm[1]
        return "permute %s %s" % (s, " ".join(map(str, perm)))
    if op == "matmul":
        l = rand_dims(rng, big, maxdepth=rng.choice([2, 2, 2, 3]))
        k = l[1] if len(l) > 1 else 1
        r = [k if rng.random() < 0.85 else rng.choice([1, 2, 3])] + ([rng.choice([1, 2, 3, 4])] if rng.random() < 0.7 else [])
        return "matmul %s %s" % (tok(l, rng.choice([1, b])), tok(r, rng.choice([1, b, b, 3])))
    if op in ("conv2d", "pool2d"):
        x = [rng.choice([1, 2, 3, 5, 6, 7]) for _ in range(rng.choice([0, 1, 2, 2, 3, 3, 4]))]
        if big and rng.random() < 0.2 and x:
            x[rng.randrange(min(2, len(x)))] = rng.choice(BOUND)
        c = x[2] if len(x) > 2 else 1
        w = [rng.choice([1, 2, 3]) for _ in range(2)] + [c if rng.random() < 0.9 else c + 1] + [rng.choice([1, 2, 3])]
        w = w[:rng.choice([2, 3, 4, 4, 4])]
        if rng.random() < 0.05:
            w = w + [1, 2]
        def small(zero_ok=True):
            r = rng.random()
            if r < 0.8:
                return rng.choice([0, 1, 2]) if zero_ok else rng.choice([1, 1, 2, 3])
            if r < 0.9:
                return 0
            return rng.choice(BOUND) if big else rng.randrange(0, 5)
        p0, p1 = small(), small()
        s0, s1 = small(False), small(False)
        if op == "conv2d":
            d0, d1 = small(False), small(False)
            return "conv2d %s %s %d %d %d %d %d %d" % (tok(x, b), tok(w, rng.choice([1, b, b, 2])), p0, p1, s0, s1, d0, d1)
        w0, w1 = small(False), small(False)
        return "pool2d %s %d %d %d %d %d %d" % (tok(x, b), w0, w1, p0, p1, s0, s1)
    if op == "batch_pick":
        k = min(rng.choice([0, 1, 2, 3, b]), 6)
        ids = [num(0, [0, b - 1, b - 1, b]) for _ in range(k)]
        return "batch_pick %s %s" % (s, " ".join(map(str, ids)))
    if op == "batch_slice":
        lo = num(0, [0, 0, 1, b - 1])
        up = num(0, [b, b, lo + 1, b + 1, lo])
        return "batch_slice %s %d %d" % (s, lo, up)
    if op == "batch_concat":
        k = rng.choice([0, 1, 2, 3])
        shs = []
        for _ in range(k):
            d2 = list(d)
            if rng.random() < 0.1 and d2:
                d2[rng.randrange(len(d2))] = rng.choice([1, 2, 3])
            shs.append(tok(d2, rand_batch(rng, big)))
        return "batch_concat " + " ".join(shs)
    if op == "split":
        n = dim(ax) if ax < 2**31 else 1
        k = rng.choice([0, 1, 2, 3, n, n, max(1, n // 2)])
        return "split %s %d %d" % (s, ax, min(k, 64))
    if op == "batch_split":
        k = rng.choice([0, 1, 2, 3, b, b])
        return "batch_split %s %d" % (s, min(k, 64))
    return "new " + s


def exhaustive_lines():
    """All shapes of depth <= 3 with dims in {1,2,3}, batch in {1,2,3} x axes 0..9 for the axis rules."""
    shapes = []
    for depth in range(0, 4):
        for dims in itertools.product([1, 2, 3], repeat=depth):
            for b in (1, 2, 3):
                shapes.append((list(dims), b))
    for d, b in shapes:
        s = tok(d, b)
        yield "new " + s
        yield "flatten " + s
        yield "transpose " + s
        for ax in range(0, 10):
            yield "get %s %d" % (s, ax)
            yield "lower %s %d" % (s, ax)
            for m in (0, 1, 2):
                yield "resize_dim %s %d %d" % (s, ax, m)
            for lo in range(0, 3):
                for up in range(0, 5):
                    yield "slice %s %d %d %d" % (s, ax, lo, up)
            for n in (0, 1, 2, 3):
                yield "split %s %d %d" % (s, ax, n)
                yield "broadcast %s %d %d" % (s, ax, n)
            for i in (0, 1, 2, 3):
                yield "pick %s %d %d" % (s, ax, i)
        for n in (0, 1, 2, 3):
            yield "batch_split %s %d" % (s, n)
            yield "resize_batch %s %d" % (s, n)
    small = [(d, b) for d, b in shapes if len(d) <= 2]
    for (d1, b1) in small:
        for (d2, b2) in small:
            a, b = tok(d1, b1), tok(d2, b2)
            yield "eq %s %s" % (a, b)
            yield "elementwise %s %s" % (a, b)
            yield "matmul %s %s" % (a, b)
            yield "reshape %s %s" % (a, b)
            yield "batch_concat %s %s" % (a, b)
            for ax in (0, 1, 2, 3, 8):
                yield "loo %s %s %d" % (a, b, ax)
                yield "concat %s %s %d" % (a, b, ax)


# dims lists whose exact product is k*2^64 + r with a small r: a 64-bit overflow check that
# is not applied after every multiplication lets them through with r elements
WRAP64 = [([3340214413, 2761311370, 2], 4), ([2471990109, 1066043567, 7], 5), ([2977518503, 3097670771, 2], 10),
          ([1197225396, 10827767, 1423], 20), ([1174891961, 19950191, 787], 21), ([521090446, 753197299, 47], 22),
          ([3062868337, 3011351133, 2], 26), ([2747424317, 3357097766, 2], 28), ([1604214285, 3832975899, 3], 29),
          ([927430618, 5607601, 3547], 30), ([3649452082, 2527330632, 2], 32), ([3160205690, 1167439457, 5], 34),
          ([3686175818, 2502151957, 2], 36), ([3567342126, 1723668343, 3], 38), ([2993719359, 3080907370, 2], 44),
          ([2327813863, 184290529, 43], 45), ([3660903952, 48920869, 103], 48), ([423617476, 12956191, 3361], 60),
          ([4093957483, 169667, 26557], 61), ([13801167, 1499567, 891329], 65)]


def wrap_lines():
    """Constructor / resize / reshape / flatten calls whose element count wraps modulo 2^64 or 2^32 to
    something small, and reshapes that re-cut the minibatch."""
    out = []
    import itertools as it
    for dims, r in WRAP64:
        for perm in (dims, dims[::-1], [dims[1], dims[0], dims[2]]):
            out.append("new " + tok(perm, 1))
            out.append("new " + tok(perm + [1], 1))
            out.append("new " + tok([1] + perm, 2))
        out.append("resize_dim %s 2 %d" % (tok(dims[:2] if dims[0] * dims[1] < 2 ** 32 else [dims[0]], 1), dims[2]))
        out.append("resize_dim %s 1 %d" % (tok([dims[0]], 1), dims[1]))
        out.append("broadcast %s 1 %d" % (tok([dims[0]], 1), dims[1]))
        out.append("resize_batch %s %d" % (tok([dims[0]], 1), dims[1]))
    for a, b in ((65536, 65536), (65536, 65537), (3, 1431655766), (2 ** 31, 2), (2 ** 16 + 1, 2 ** 16 - 1), (65535, 65537)):
        out.append("resize_dim %s 1 %d" % (tok([a], 1), b))
        out.append("resize_dim %s 2 %d" % (tok([3, a], 1), b))
        out.append("broadcast %s 1 %d" % (tok([a], 1), b))
        out.append("resize_batch %s %d" % (tok([a], 1), b))
        out.append("concat %s %s 1" % (tok([a, b // 2], 1), tok([a, b - b // 2], 1)))
    # reshape must keep the per-sample volume AND the batch: re-cuts with the same total are inadmissible
    for (d1, b1), (d2, b2) in (([6], 2), ([4], 3)), (([6], 2), ([3], 4)), (([12], 1), ([4], 3)), (([12], 1), ([3], 4)), (([2, 3], 4), ([4, 3], 2)), \
                              (([4], 3), ([12], 1)), (([4], 3), ([6], 2)), (([6], 2), ([6], 2)), (([6], 2), ([2, 3], 2)), (([6], 2), ([3, 2], 1)), (([6], 1), ([3, 2], 2)):
        out.append("reshape %s %s" % (tok(list(d1), b1), tok(list(d2), b2)))
    return out


def batch_rule_lines():
    """Every rule with several operands x every assignment of batch sizes in {1,2,3}
    (equal-or-1 is admissible, anything else must be rejected), 2-4 operands for the
    list rules; the first operand batch 1 followed by two different batches included."""
    out = []
    bs = (1, 2, 3)
    for b1 in bs:
        for b2 in bs:
            out.append("elementwise %s %s" % (tok([2, 3], b1), tok([2, 3], b2)))
            out.append("scalar_op %s %s" % (tok([2, 3], b1), tok([], b2)))
            out.append("matmul %s %s" % (tok([2, 3], b1), tok([3, 2], b2)))
            out.append("conv2d %s %s 0 0 1 1 1 1" % (tok([3, 3, 2], b1), tok([2, 2, 2, 3], b2)))
            out.append("reshape %s %s" % (tok([2, 3], b1), tok([3, 2], b2)))
            for dim in (0, 1, 2, 8):
                out.append("sce %s %s %d" % (tok([2, 3], b1), tok([2, 3], b2), dim))
                out.append("sce %s %s %d" % (tok([2, 3], b1), tok([2, 2], b2), dim))
                out.append("sce %s %s %d" % (tok([3, 3], b1), tok([1, 3], b2), dim))
            for ids in ((0,), (0, 1), (0, 1, 1)):
                out.append("pick %s 0 %s" % (tok([2, 3], b1), " ".join(map(str, ids))))
    for k in (2, 3, 4):
        for combo in itertools.product(bs, repeat=k):
            for dim in (0, 1, 2):
                out.append("concat %s %d" % (" ".join(tok([2, 2], b) for b in combo), dim))
            out.append("batch_concat " + " ".join(tok([2, 2], b) for b in combo))
    return out


def finding_key(line, impl):
    """Canonical identification of a failing call: the rule and the way it fails."""
    return "shape:%s" % line


def long_dims_lines(rng, n=40):
    """Shapes with far more than MAX_DEPTH dimensions (9 .. 600 entries; entry 8 — the first one that does not fit — small,
    large and huge): the constructor must reject them without writing anything outside the object."""
    out = []
    for _ in range(n):
        k = rng.choice([9, 10, 11, 12, 13, 16, 20, 40, 100, 600])
        dims = [rng.choice([1, 1, 2, 3]) for _ in range(k)]
        dims[8] = rng.choice([1, 2, 9, 11, 64, 1000, 65536, 4294967295])
        out.append("new S:%s/%d" % (",".join(map(str, dims)), rng.choice([1, 2])))
    return out


def run_long_dims(chk):
    """Implementation leg used by C11 (and C10): see long_dims_lines."""
    exe = build.build_harness("h_shape")
    lines = long_dims_lines(chk.rng)
    outs, reports = vrun.run_impl(exe, lines, timeout=120)
    chk.traces += 1
    for l, o in zip(lines, outs):
        chk.count(l[:80], o, o == "err")
        if o != "err":
            chk.report("shape:long-dims:%s" % ("crash" if o.startswith("crash") else "accepted"),
                       "`%s...` (%d dimensions) answers `%s`; a Shape has at most 8 dimensions, the call must raise an Error and touch nothing else" % (
                           l[:60], l.count(",") + 1, o[:200]),
                       {"family": "shape", "harness": "h_shape", "lines": [l], "model_family": "shape", "observed_impl": o[:600]})
            break


def run(chk):
    quick = chk.tier == "quick"
    chk.rule = ("operation lines of the shape family (constructor, accessors, every shape rule) generated from one PRNG: "
                "shapes of depth 0..9 with size-1 axes anywhere, axes in 0..depth+1 and {7,8,9,2^32-1}, arguments at both ends of "
                "their range and just outside, boundary values near 2^16/2^31/2^32; thorough adds the exhaustive small scope "
                "(depth<=3, dims/batch in {1,2,3}, axes 0..9). Each line is executed by the real library (ASan/UBSan build of /repo), by the "
                "Lean model and by the Lean specification. Non-trivial = the implementation accepted the call (output starts with ok); "
                "distinct = distinct operation lines.")
    ob = chk.obligations(MODS, drivers=["shape", "shapespec"])
    n = 6000 if quick else 120000
    lines = []
    seen = set()
    for i in range(n):
        l = gen_line(chk.rng, big=(i % 3 == 0))
        if l not in seen:
            seen.add(l); lines.append(l)
    corpus = [l.strip() for l in open(build.VERIF + "/corpus/shape.ops")] if __import__("os").path.exists(build.VERIF + "/corpus/shape.ops") else []
    lines = [l for l in corpus if l and not l.startswith("#")] + lines
    for l in batch_rule_lines() + wrap_lines() + long_dims_lines(chk.rng, 12 if quick else 200):
        if l not in seen:
            seen.add(l); lines.append(l)
    if not quick:
        for l in exhaustive_lines():
            if l not in seen:
                seen.add(l); lines.append(l)
        chk.extra_cov["exhaustive_small_scope_lines"] = len(lines) - n
    spec = dict(zip(lines, vrun.run_model("shapespec", lines)))

    def judge(line, impl, model):
        sp = spec[line]
        if impl.startswith("crash"):
            return "call crashes instead of raising primitiv::Error (%s)" % impl
        if impl == "ok inconsistent":
            return ("the harness's own consistency checks on the result fail: two public entry points of the same rule disagree, or the Shape is not canonical / "
                    "its volume(), size(), lower_volume() are not the products they name, or a copy / move (source and destination) is not that value, "
                    "or a rejected update_dim / update_batch changed the object")
        if impl != sp:
            return "implementation returns `%s`, the specification says `%s`" % (impl, sp)
        return None

    dis, judged, crashes = chk.correspond("shape", "h_shape", [lines], stateful=False, judge=judge)
    # the scalar_op / elementwise rules as reached through the public functions (Node and Tensor forms): the dispatch on
    # "has no dimensions" must not depend on the batch
    try:
        from props import _funcs as _f
        from vlib import lean as _lean
        _f.table_obligation_setup(chk)
        _lean.lake(["build", "drv_funcs"], timeout=3000)
        progs = [_f.scalar_dispatch_program(chk.rng) for _ in range(2 if quick else 30)]
        found, dis2 = _f.run_programs(chk, progs)
        _f.report_found(chk, found, dis2, prop="C09", keyprefix="funcs")
    except ImportError:
        chk.notes.append("function-level dispatch programs not available in this tree")
    broken = chk.broken_obligations()
    # 1. property violations seen on the implementation (independent of the model)
    for j in judged:
        chk.report(classify(j["line"], j["impl"], spec[j["line"]]), "%s: %s" % (j["line"], j["what"]),
                   {"family": "shape", "harness": "h_shape", "lines": [j["line"]], "expected_spec": spec[j["line"]],
                    "observed_impl": j["impl"], "model": j["model"]})
    # 2. correspondence: model != implementation where the implementation agrees with the spec
    judged_lines = {j["line"] for j in judged}
    for d in dis:
        if d["line"] in judged_lines:
            continue
        chk.report("correspondence:shape:" + d["line"].split(" ")[0],
                   "model and implementation disagree on `%s` (impl `%s`, model `%s`) although the implementation meets the specification there; "
                   "the Lean model no longer describes the code" % (d["line"], d["impl"], d["model"]),
                   {"family": "shape", "harness": "h_shape", "lines": [d["line"]], "observed_impl": d["impl"], "model": d["model"],
                    "broken": "correspondence shape/h_shape"}, found_input=False)
    # 3. broken proof obligations with no failing input found
    if broken and not chk.violations:
        for name, why in broken.items():
            chk.report("obligation:" + name, "theorem %s no longer checks: %s" % (name, why),
                       {"theorem": name, "reason": why, "log": (chk.oblig or {}).get("log_tail", "")[-1500:]}, found_input=False)
    chk.trusted += ["modelled, not verified: primitiv::Shape and shape_ops are hand-modelled in Lean (Model/Shape.lean) and tied to the code by the correspondence run of this check"]


def classify(line, impl, spec):
    """Key used to match known findings: rule name + failure class."""
    op = line.split(" ")[0]
    if impl.startswith("crash"):
        cls = "crash"
    elif impl.startswith("ok") and spec == "err":
        cls = "accepts-inadmissible"
    elif impl == "err" and spec.startswith("ok"):
        cls = "rejects-admissible"
    else:
        cls = "wrong-result"
    return "shape:%s:%s:%s" % (op, cls, line)


def run_batch_rules(chk, prefix="shape", extra_random=0):
    """Batch-compatibility of every multi-operand shape rule on the real library vs the
    specification (used by C03 and C10)."""
    lines = batch_rule_lines() + wrap_lines()
    if extra_random:
        seen = set(lines)
        for i in range(extra_random):
            l = gen_line(chk.rng, big=True)
            if l not in seen:
                seen.add(l); lines.append(l)
    spec = dict(zip(lines, vrun.run_model("shapespec", lines)))

    def judge(line, impl, model):
        if impl.startswith("crash"):
            return "call crashes (%s)" % impl
        if impl != spec[line]:
            return "implementation returns `%s`, the specification says `%s`" % (impl, spec[line])
        return None

    dis, judged, crashes = chk.correspond("shape", "h_shape", [lines], stateful=False, judge=judge)
    for j in judged:
        chk.report(classify(j["line"], j["impl"], spec[j["line"]]), "%s: %s" % (j["line"], j["what"]),
                   {"family": "shape", "harness": "h_shape", "lines": [j["line"]], "expected_spec": spec[j["line"]],
                    "observed_impl": j["impl"], "model": j["model"]})
