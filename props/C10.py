"""C10 — failures are reported as exceptions and change nothing."""
from props import _compose, _graph
from vlib import run as vrun, build


def retry_probe(chk, n):
    """Allocation/evaluation failure at the k-th operator forward, for every k:
    the failure must surface as an exception, and requesting the same values
    again must give exactly the results of a run that never failed."""
    exe = build.build_harness("h_graph")
    for _ in range(n):
        base = [l for l in _graph.history(chk.rng, maxlen=30) if not l.startswith("failin")]
        forces = [l for l in base if l.startswith(("force", "gforce"))]
        if not forces:
            continue
        target = chk.rng.choice(forces)
        prefix = []
        for l in base:
            if l.startswith(("force", "backward", "gforce", "gbackward", "grad", "pval", "counters", "rndpos")):
                continue
            prefix.append(l)
        clean = prefix + [target]
        out_clean, _ = vrun.run_impl(exe, clean, stateful=True, args=["naive"], timeout=60)
        want = out_clean[-1]
        if not want.startswith("ok"):
            continue
        nevals = len(want.split("|", 1)[1].split()) if "|" in want else 0
        for k in range(nevals):
            lines = prefix + ["failin %d" % k, target, target]
            outs, reports = vrun.run_impl(exe, lines, stateful=True, args=["naive"], timeout=60)
            chk.traces += 1
            for l, o in zip(lines, outs):
                chk.count(l, o, o.startswith(("ok", "err")))
            first, second = outs[-2], outs[-1]
            bad = None
            if not first.startswith("err"):
                bad = "a failure injected at evaluation %d did not surface as an exception (`%s`)" % (k, first)
            elif second.split("|")[0] != want.split("|")[0]:
                bad = "after a failure at evaluation %d the retried request returned `%s`, a run that never failed returns `%s`" % (k, second, want)
            else:
                ev = set(first.split("|", 1)[1].split()) & set(second.split("|", 1)[1].split())
                if ev:
                    bad = "operators %s were evaluated both before the failure and again on retry" % sorted(ev)
            if bad:
                chk.report("graph:failure-injection:%s" % ("no-exception" if "surface" in bad else "retry-differs"), bad,
                           {"family": "graph", "harness": "h_graph", "harness_args": ["naive"], "stateful": True, "lines": lines,
                            "clean_run_value": want, "observed": [first, second]})


def run(chk):
    chk.rule = ("malformed-call streams of every family on the real library under ASan/UBSan with state snapshots: kernel entry points with "
                "mismatched shapes, offsets/axes/ids near 2^32, tensors of the other device; graph histories with nodes of other graphs and "
                "operator failures injected at the k-th evaluation for every k (the retried request must equal a run that never failed, and no "
                "operator may be evaluated twice); function-level programs with rejected calls (graph and live values unchanged). A crash, "
                "abort or wrong acceptance is a violation. Non-trivial = a call that was rejected or that followed a rejection; distinct = "
                "distinct lines.")
    libs = _compose.load(_compose.KERNEL_LIBS, chk)
    _compose.obligations(chk, "C10", libs, own_mods=["PrimitivModel.Props.C10"], own_drivers=_graph.DRIVERS + ["shape", "shapespec", "funcs"])
    _graph.run_family(chk, {"C10"}, tier="quick")
    retry_probe(chk, 25 if chk.tier == "quick" else 400)
    for lib in libs:
        _compose.run_lib(lib, chk, "C10")
    from props import _alloc
    _alloc.run_alloc(chk, 2 if chk.tier == "quick" else 25, props=("C10",))
    from props import _state
    _state.run_state(chk)
    _state.run_length_wrap(chk)
    _state.run_alloc_refused(chk)
    _state.run_param_batch(chk)
    from props import C16 as _c16
    _c16.run_rejected_adds(chk, 150 if chk.tier == "quick" else 4000)   # rejected Model::add calls leave nothing behind
    from props import C20 as _c20
    _c20.run_eq_leg(chk, lambda name: "Optimizer" in name or "Model" in name)   # rejected C API calls leave optimizers / models unchanged
    from props import C09 as _c09
    _c09.run_batch_rules(chk, extra_random=2500 if chk.tier == "quick" else 40000)   # values near 2^32 must raise, not wrap
    for f in _compose.load(["_funcs"], chk):
        if hasattr(f, "table_obligation_setup"):
            f.table_obligation_setup(chk)      # the function table of THIS working tree (the programs are generated against the model driver)
        if hasattr(f, "run_malformed"):
            f.run_malformed(chk)
        if hasattr(f, "degenerate_list_program"):
            # an inadmissible call is rejected by EVERY form of the function (Node / Tensor, one-element lists included)
            progs = [f.degenerate_list_program(chk.rng) for _ in range(2 if chk.tier == "quick" else 30)]
            found, dis = f.run_programs(chk, progs)
            f.report_found(chk, found, dis, prop="C10", keyprefix="funcs")
    _compose.finish(chk)
    chk.trusted += ["the tensor, codec and C-API rejection paths are decided by C07, C14 and C20 respectively (the registry's by C16; here its rejected adds are replayed on the implementation against the dictionary specification of props/C16.py, without the Lean model); this check covers Shape/Device/functions/Graph entry points and allocation-failure atomicity of forward evaluation",
                    "allocation failure is injected twice: at operator granularity in the graph family (model-checked against the Lean model), and at the k-th device allocation for every k inside real function programs (h_grad alloc mode, implementation-side oracle)"]
