"""C11 — memory safety and no leaks for every call history."""
from props import _compose, _graph


def msgpack_objects(chk):
    """Ownership of msgpack::objects::Binary / Extension buffers (new[] / delete[]):
    move construction/assignment and repeated reads into one object, under ASan."""
    import os
    from vlib import run as vrun, build
    lines = []
    path = os.path.join(build.VERIF, "corpus", "msgpack_c11.ops")
    if os.path.exists(path):
        lines = [l.strip() for l in open(path) if l.strip() and not l.startswith("#")]
    rng = chk.rng
    def hx(n):
        return "".join("%02x" % rng.randrange(256) for _ in range(n)) or "-"
    for _ in range(20 if chk.tier == "quick" else 300):
        lines.append("mv bin %s %s" % (hx(rng.choice([0, 1, 2, 5])), hx(rng.choice([0, 1, 3, 8]))))
        lines.append("mv ext %d %s %d %s" % (rng.randrange(-128, 128), hx(rng.choice([0, 1, 2, 4])), rng.randrange(-128, 128), hx(rng.choice([0, 1, 4, 16]))))
    try:
        dis, judged, crashes = chk.correspond("msgpack", "h_msgpack", [lines], stateful=False,
                                              judge=lambda l, i, m: ("`%s` %s" % (l, i)) if i.startswith("crash") else None)
    except Exception as e:   # family not available in this tree
        chk.notes.append("msgpack objects run skipped: %r" % (e,))
        return
    for j in judged:
        chk.report("msgpack:objects:%s:%s" % (j["line"].split()[1] if len(j["line"].split()) > 1 else "?", j["impl"].split()[-1]),
                   "ownership of a msgpack object buffer: " + j["what"],
                   {"family": "msgpack", "harness": "h_msgpack", "lines": [j["line"]], "observed_impl": j["impl"], "model": j["model"]})
    for d in dis:
        if not d["impl"].startswith("crash"):
            chk.report("correspondence:msgpack:" + d["line"].split()[0], "model and implementation disagree on `%s` (impl `%s`, model `%s`)" % (d["line"], d["impl"], d["model"]),
                       {"family": "msgpack", "harness": "h_msgpack", "lines": [d["line"]], "broken": "correspondence msgpack/h_msgpack"}, found_input=False)


def run(chk):
    chk.rule = ("all correspondence runs of the kernel, graph and function families under AddressSanitizer + UBSan with leak detection at exit "
                "(detect_leaks=1, alloc_dealloc_mismatch=1) on both CPU backends; canary-filled raw tensors from a new_handle-overriding device "
                "(a forward kernel must overwrite every element); kernel calls at maximal depth, size-1 axes, offsets and indices at and beyond "
                "the ends of their ranges. Theorems: index bounds of every kernel model under the front-end guard, writes-all, ownership "
                "bookkeeping. Non-trivial = accepted call; distinct = distinct lines.")
    libs = _compose.load(_compose.KERNEL_LIBS, chk)
    _compose.obligations(chk, "C11", libs, own_mods=["PrimitivModel.Props.C11"], own_drivers=_graph.DRIVERS + ["msgpack"])
    for lib in libs:
        _compose.run_lib(lib, chk, "C11")
    _graph.run_family(chk, {"C11", "C10"}, tier="quick")
    msgpack_objects(chk)
    from props import _alloc
    _alloc.run_alloc(chk, 2 if chk.tier == "quick" else 25, props=("C11",))
    from props import _state
    _state.run_length_wrap(chk)
    _state.run_alloc_refused(chk)
    from props import C09 as _c09
    _c09.run_long_dims(chk)        # dimension lists far longer than MAX_DEPTH: rejected without a write outside the object
    _compose.finish(chk)
    from props import C20 as _c20
    _c20.run_eq_leg(chk, lambda name: "Input" in name or "Array" in name or "Shape" in name or "Parameter" in name)    # C entry points that take caller arrays
    chk.trusted += ["memory safety of C++ that is not index arithmetic or ownership bookkeeping (iterator invalidation, object lifetime, library internals) is observed only by the sanitizers on the generated histories",
                    "tensor handle ownership is C07's model; MessagePack object ownership is checked in C13/C14's harness runs"]
