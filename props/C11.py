"""C11 — memory safety and no leaks for every call history."""
from props import _compose, _graph


def run(chk):
    chk.rule = ("all correspondence runs of the kernel, graph and function families under AddressSanitizer + UBSan with leak detection at exit "
                "(detect_leaks=1, alloc_dealloc_mismatch=1) on both CPU backends; canary-filled raw tensors from a new_handle-overriding device "
                "(a forward kernel must overwrite every element); kernel calls at maximal depth, size-1 axes, offsets and indices at and beyond "
                "the ends of their ranges. Theorems: index bounds of every kernel model under the front-end guard, writes-all, ownership "
                "bookkeeping. Non-trivial = accepted call; distinct = distinct lines.")
    libs = _compose.load(_compose.KERNEL_LIBS, chk)
    _compose.obligations(chk, "C11", libs, own_mods=["PrimitivModel.Props.C11"], own_drivers=_graph.DRIVERS)
    for lib in libs:
        _compose.run_lib(lib, chk, "C11")
    _graph.run_family(chk, {"C11", "C10"}, tier="quick")
    _compose.finish(chk)
    chk.trusted += ["memory safety of C++ that is not index arithmetic or ownership bookkeeping (iterator invalidation, object lifetime, library internals) is observed only by the sanitizers on the generated histories",
                    "tensor handle ownership is C07's model; MessagePack object ownership is checked in C13/C14's harness runs"]
