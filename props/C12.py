"""C12 — optimizers implement their update rules over arbitrary training histories."""
import os
from translate import optimizers as tr
from vlib import build, check as vcheck
from props import optimlib as ol
from props.optimlib import f32, f2x, xs

MODS = ["PrimitivModel.Props.C12"]
SHAPES = [[], [1], [2], [3], [2, 2], [1, 3], [4], [2, 1, 2]]
CORPUS = os.path.join(build.VERIF, "corpus", "optim.ops")


def size(shape):
    n = 1
    for d in shape:
        n *= d
    return n


class Table:
    def __init__(self):
        base, algs = tr.table()
        self.base, self.algs = base, algs
        self.kinds = [a["name"] for a in algs]
        self.by = dict((a["name"], a) for a in algs)
        self.stat_names = sorted({n for a in algs for n, _ in a["stats"]} | {s for a in algs for s in a["update"]["slots"]})
        self.base_keys = [k for _, k, _ in base["get"]]

    def fields(self, kind):
        return [f for _, f in self.by[kind]["fields"]]

    def keys(self, kind):
        return [k for _, k, _ in self.by[kind]["get"]]

    def has_stats(self, kind):
        return bool(self.by[kind]["stats"])


LR_LIKE = {("SGD", "eta_"), ("MomentumSGD", "eta_"), ("AdaGrad", "eta_"), ("RMSProp", "eta_"), ("Adam", "alpha_")}


def rand_hyper(rng, kind, field):
    if (kind, field) in LR_LIKE:
        return f32(rng.choice([0.001, 0.01, 0.1, 0.5, 10 ** rng.uniform(-3, -0.3)]))
    if field == "eps_":
        return f32(rng.choice([1e-8, 1e-6, 1e-3, 1e-2, 0.25, 0.5]))
    return f32(rng.choice([0.0, 0.5, 0.9, 0.95, 0.999, rng.uniform(0.05, 0.99)]))


def exact_hyper(rng, kind, field):
    if field == "eta_":
        return rng.choice([1.0, 0.5, 0.25, 0.125, 2.0])
    return rng.choice([0.0, 0.5, 1.0, 0.25, 0.5])


class Hist:
    """Generator of one training history on optimizer 0."""

    def __init__(self, rng, T, max_steps, kind=None, allow_eigen=False, decay_clip=False):
        self.rng, self.T = rng, T
        self.kind = kind or rng.choice(T.kinds)
        self.decay_clip = decay_clip
        self.exact = self.kind in ("SGD", "MomentumSGD") and rng.random() < 0.55 and not decay_clip
        self.lines = ["mode exact" if self.exact else "mode float"]
        self.lines.append("device eigen" if (allow_eigen and rng.random() < 0.3) else "device naive")
        self.params = []      # (valid, size)
        self.reg = set()
        self.max_steps = max_steps
        self.clip_on = False

    def val(self, small=False):
        r = self.rng
        if self.exact:
            return float(r.choice([-4, -3, -2, -1, 0, 1, 2, 3, 4])) / r.choice([1, 1, 2])
        x = r.uniform(-2, 2)
        if self.decay_clip:
            return f32(x if abs(x) >= 0.5 else (1.0 if x >= 0 else -1.0))
        return f32(0.0 if r.random() < 0.05 else x)

    def new_param(self, valid=True):
        p = len(self.params)
        if not valid:
            self.lines.append("param %d invalid" % p)
            self.params.append((False, 0))
            return p
        sh = self.rng.choice(SHAPES)
        n = size(sh)
        self.lines.append("param %d %s %s" % (p, ",".join(map(str, sh)) or "-", xs([self.val() for _ in range(n)])))
        self.params.append((True, n))
        return p

    def observe(self, ps=None):
        for p in (range(len(self.params)) if ps is None else ps):
            if self.params[p][0]:
                self.lines.append("pstate %d %s" % (p, " ".join(self.T.stat_names)))
        self.lines.append("state 0")

    def setting(self):
        r = self.rng
        key = r.choice(["lr_scale", "l2_strength", "clip_threshold"])
        if r.random() < 0.2:
            v = r.choice([-1.0, -0.5, -1e-30, -0.0])
        elif self.exact:
            v = {"lr_scale": r.choice([1.0, 0.5, 2.0, 0.0, 0.25]), "l2_strength": r.choice([0.0, 0.5, 0.25, 0.125]),
                 "clip_threshold": 0.0}[key]
        else:
            v = {"lr_scale": f32(r.choice([1.0, 0.0, r.uniform(0, 2)])), "l2_strength": f32(r.choice([0.0, 0.01, 0.1, r.uniform(0, 0.5)])),
                 "clip_threshold": f32(r.choice([0.0, 0.5, 1.0, 5.0, r.uniform(0.1, 3)]))}[key]
        self.lines.append("set 0 %s %s" % (key, f2x(v)))

    def build(self):
        r, T, k = self.rng, self.T, self.kind
        fields = T.fields(k)
        if self.exact:
            h = [exact_hyper(r, k, f) for f in fields]
        elif r.random() < 0.25:
            h = []
        else:
            h = [rand_hyper(r, k, f) for f in fields]
        self.lines.append(("opt 0 %s %s" % (k, " ".join(f2x(v) for v in h))).strip())
        self.lines.append("state 0")
        nreg = r.choice([1, 1, 2, 2, 3])
        for _ in range(nreg):
            self.new_param()
        if r.random() < 0.4:
            self.new_param()           # a bystander that may never be registered
        if r.random() < 0.85:
            first = r.sample(range(nreg), r.randint(1, nreg))
            if len(first) > 1 and r.random() < 0.5:
                self.lines.append("addm 0 " + " ".join(map(str, first)))
            else:
                for p in first:
                    self.lines.append("add 0 %d" % p)
            self.reg |= set(first)
        for _ in range(r.randint(1, 3)):
            if r.random() < 0.5:
                self.setting()
        if self.decay_clip:
            # weight decay and clipping active on the same update(), decayed joint norm above the threshold
            self.lines.append("set 0 l2_strength %s" % f2x(f32(r.choice([0.05, 0.1, 0.5, 1.0]))))
            self.lines.append("set 0 clip_threshold %s" % f2x(f32(r.choice([0.25, 0.5, 1.0]))))
        steps = r.randint(max(1, self.max_steps // 3), self.max_steps)
        if self.exact:
            steps = min(steps, 14)
        for _ in range(steps):
            x = r.random()
            if x < 0.45:
                for p, (valid, n) in enumerate(self.params):
                    if valid and (p in self.reg or r.random() < 0.5):
                        z = r.random() < 0.05
                        self.lines.append("grad %d %s" % (p, xs([0.0 if z else self.val() for _ in range(n)])))
                self.lines.append("update 0")
                self.observe()
            elif x < 0.6:
                self.setting()
                if r.random() < 0.3:
                    self.lines.append("state 0")
            elif x < 0.65:
                y = r.random()
                e = r.choice([0, 1, 2, 5, 10, 100, 1000, r.randrange(0, 50)]) if y < 0.85 else r.choice(EPOCH_BOUNDS)
                if r.random() < 0.5:
                    self.lines.append("set 0 epoch u%d" % e)
                else:
                    self.lines.append("cfg 0 Optimizer.epoch u%d" % e)
            elif x < 0.72:
                keys = T.keys(k) + T.base_keys + ["Nonexistent.key", T.keys(r.choice(T.kinds))[0]]
                key = r.choice(keys)
                if key == "Optimizer.epoch":
                    self.lines.append("cfg 0 %s u%d" % (key, r.randrange(0, 30)))
                else:
                    f = dict((kk, ff) for _, kk, ff in T.by[k]["get"]).get(key)
                    if f is not None:
                        v = exact_hyper(r, k, f) if self.exact else rand_hyper(r, k, f)
                    elif self.exact:
                        v = r.choice([0.0, 0.5, 1.0]) if key != "Optimizer.clip_threshold" else 0.0
                    else:
                        v = f32(r.choice([0.0, 0.1, 1.0, 2.0]))
                    if key in ("Optimizer.l2_strength", "Optimizer.clip_threshold") and r.random() < 0.35:
                        # set_configs / load store what the file says, the setters' range checks do not apply: a negative
                        # strength or threshold means "off" (decay and clipping act only when positive)
                        v = -0.5 if self.exact else f32(-r.choice([0.5, 0.01, 2.0]))
                    self.lines.append("cfg 0 %s %s" % (key, f2x(v)))
                self.lines.append("state 0")
            elif x < 0.9:
                y = r.random()
                valid_ps = [p for p, (v, _) in enumerate(self.params) if v]
                if y < 0.3 and self.reg:
                    self.lines.append("add 0 %d" % r.choice(sorted(self.reg)))      # double add
                elif y < 0.5 and T.has_stats(k):
                    # SGD::configure_parameter is empty and accepts an invalid parameter (not generated)
                    bad = [p for p, (v, _) in enumerate(self.params) if not v]
                    p = r.choice(bad) if bad and r.random() < 0.5 else self.new_param(valid=False)
                    self.lines.append("add 0 %d" % p)
                elif y < 0.75:
                    p = self.new_param() if (len(self.params) < 5 and r.random() < 0.6) else r.choice(valid_ps)
                    self.lines.append("add 0 %d" % p)
                    self.reg.add(p)
                else:
                    ps = r.sample(valid_ps, r.randint(1, min(3, len(valid_ps))))
                    self.lines.append("addm 0 " + " ".join(map(str, ps)))
                    self.reg |= set(ps)
                if r.random() < 0.5:
                    self.observe()
            elif x < 0.95:
                self.lines.append("reset 0")
                self.observe()
            else:
                self.observe()
        self.observe()
        return self.lines


EPOCH_BOUNDS = [0x7ffffffe, 0x7fffffff, 0x80000000, 3000000000, 0xfffffffe, 0xffffffff]


def epoch_boundary_histories(T, rng, kinds):
    """epoch boundary values set through set_epoch / set_configs right before update()"""
    out = []
    for k in kinds:
        for e in EPOCH_BOUNDS:
            for how in ("set 0 epoch u%d", "cfg 0 Optimizer.epoch u%d"):
                h = ["mode float", "device naive", "opt 0 %s" % k, "param 0 3 %s" % xs([f32(rng.uniform(-2, 2)) for _ in range(3)]),
                     "add 0 0", how % e, "state 0"]
                for _ in range(2):
                    h += ["grad 0 %s" % xs([f32(rng.uniform(-2, 2)) for _ in range(3)]), "update 0",
                          "pstate 0 " + " ".join(T.stat_names), "state 0"]
                out.append(h)
    return out


def _norm(vs):
    return sum(x * x for v in vs for x in v) ** 0.5


def eps_histories(T, rng, reps):
    """(a) every algorithm that has an eps with a NON-default eps (0.25, 1e-2) and O(1) gradients;
    (b) constructor defaults with tiny gradients (|g| ~ 1e-6), parameters O(1) or tiny:
    `g / (sqrt(m) + eps)` and `g / sqrt(m + eps)` differ measurably in both."""
    out = []
    names = " ".join(T.stat_names)
    for k in T.kinds:
        fields = T.fields(k)
        if "eps_" not in fields:
            continue
        for rep in range(reps):
            for flavour in ("eps", "tiny", "tinyvals"):
                if flavour == "eps":
                    h = []
                    for f in fields:
                        if f == "eps_":
                            h.append(f32(rng.choice([0.25, 1e-2])))
                        elif (k, f) in LR_LIKE:
                            h.append(f32(rng.choice([0.1, 0.05, 0.5])))
                        else:
                            h.append(f32(rng.choice([0.5, 0.9, 0.95, 0.999])))
                    opt = "opt 0 %s %s" % (k, " ".join(f2x(v) for v in h))
                    gmag, vmag = 1.0, 1.0
                else:
                    opt = "opt 0 %s" % k
                    gmag, vmag = 1e-6, (1.0 if flavour == "tiny" else 1e-5)
                n = rng.choice([1, 3, 4])
                L = ["mode float", "device naive", opt, "state 0",
                     "param 0 %d %s" % (n, xs([f32(vmag * rng.uniform(0.5, 2) * rng.choice([-1, 1])) for _ in range(n)])), "add 0 0"]
                if flavour != "eps" and rng.random() < 0.5:
                    L.append("set 0 lr_scale %s" % f2x(f32(rng.choice([10.0, 100.0]))))
                for _ in range(rng.randint(4, 7)):
                    L += ["grad 0 %s" % xs([f32(gmag * rng.uniform(0.5, 2) * rng.choice([-1, 1])) for _ in range(n)]),
                          "update 0", "pstate 0 " + names]
                L.append("state 0")
                out.append(L)
    return out


def cfg_settings_histories(T, rng, reps):
    """clipping threshold / lr_scale / l2_strength changed through set_configs (not the setters) and
    through the load of a saved optimizer, each followed by update() with a joint gradient norm on
    either side of the threshold in force."""
    out = []
    names = " ".join(T.stat_names)
    for k in T.kinds:
        for rep in range(reps):
            sizes = [rng.choice([1, 2, 3]) for _ in range(rng.choice([1, 2]))]
            L = ["mode float", "device naive", "opt 0 %s" % k]
            for p, n in enumerate(sizes):
                L.append("param %d %d %s" % (p, n, xs([f32(rng.uniform(-2, 2)) for _ in range(n)])))
            L.append("addm 0 " + " ".join(str(p) for p in range(len(sizes))))
            if rng.random() < 0.5:
                L.append("set 0 clip_threshold %s" % f2x(f32(rng.choice([0.01, 100.0]))))    # a value the setter has seen

            def step(o, base, factor, L=L):
                """gradients of joint norm N, threshold = factor * N set through set_configs"""
                gs = [[f32(rng.uniform(-2, 2)) or 1.0 for _ in range(n)] for n in sizes]
                N = _norm(gs)
                L.append("cfg %d Optimizer.clip_threshold %s" % (o, f2x(f32(factor * N))))
                for p, g in enumerate(gs):
                    L.append("grad %d %s" % (base + p, xs(g)))
                L.append("update %d" % o)
                for p in range(len(sizes)):
                    L.append("pstate %d %s" % (base + p, names))
                L.append("state %d" % o)
            for factor in rng.sample([0.5, 2.0, 0.25, 4.0, 0.9, 1.1], 3):
                step(0, 0, factor)
            L.append("cfg 0 Optimizer.lr_scale %s" % f2x(f32(rng.choice([0.0, 0.5, 2.0, 3.0]))))
            L.append("cfg 0 Optimizer.l2_strength %s" % f2x(f32(rng.choice([0.05, 0.5, 1.0]))))
            step(0, 0, rng.choice([0.3, 3.0]))
            L.append("cfg 0 Optimizer.l2_strength %s" % f2x(0.0))
            # through the load of a saved optimizer: the threshold in the file is c; the first update of the
            # loaded optimizer has norm 2c (clipped), the second c/2 (not clipped)
            c = f32(rng.choice([0.5, 1.0, 2.0]))
            L.append("cfg 0 Optimizer.clip_threshold %s" % f2x(c))
            m = len(sizes)
            L.append("checkpoint 0 K %s" % " ".join("%d:w%d" % (p, p) for p in range(m)))
            L.append("restore K 1 %s naive %s" % (k, " ".join(str(m + p) for p in range(m))))
            L.append("state 1")
            for factor in (2.0, 0.5):
                gs = [[f32(rng.uniform(-2, 2)) or 1.0 for _ in range(n)] for n in sizes]
                N = _norm(gs)
                gs = [[f32(x * factor * c / N) for x in g] for g in gs]
                for p, g in enumerate(gs):
                    L.append("grad %d %s" % (m + p, xs(g)))
                L.append("update 1")
                for p in range(m):
                    L.append("pstate %d %s" % (m + p, names))
            step(1, m, rng.choice([0.5, 2.0]))
            out.append(L)
    return out


def late_init_histories(T, rng, reps):
    """add() of a still-invalid Parameter to a statistics-keeping optimizer throws; the parameter is
    initialised later and training continues: the epoch advances, only registered parameters are
    touched by update() and reset_gradients()."""
    out = []
    names = " ".join(T.stat_names)
    for k in T.kinds:
        if not T.has_stats(k):
            continue
        for rep in range(reps):
            v = lambda n: xs([f32(rng.uniform(-2, 2)) for _ in range(n)])
            first_invalid = rng.random() < 0.5
            L = ["mode float", "device naive", "opt 0 %s" % k, "param 0 2 %s" % v(2), "param 1 invalid"]
            L += (["add 0 1", "add 0 0"] if first_invalid else ["add 0 0", "add 0 1"])
            L += ["grad 0 %s" % v(2), "update 0", "pstate 0 " + names, "state 0",
                  "init 1 3 %s" % v(3), "pstate 1 " + names, "grad 1 %s" % v(3), "grad 0 %s" % v(2), "update 0",
                  "pstate 0 " + names, "pstate 1 " + names, "state 0", "reset 0", "pstate 0 " + names, "pstate 1 " + names]
            if rng.random() < 0.7:
                L += ["add 0 1", "grad 1 %s" % v(3), "grad 0 %s" % v(2), "update 0", "pstate 0 " + names, "pstate 1 " + names,
                      "state 0", "reset 0", "pstate 1 " + names]
            out.append(L)
    return out


def malformed(T):
    one = f2x(1.0)
    return ["mode float", "bogus", "opt 0", "opt 0 NoSuchOptimizer", "opt 1 SGD", "opt 0 Adam %s" % one, "opt 0 SGD %s" % one,
            "update 3", "set 0 lr_scale 1.0", "set 0 nothing %s" % one, "param 5 2 %s,%s" % (one, one), "param 0 2 %s" % one,
            "param 0 2 %s,%s" % (one, one), "grad 0 %s" % one, "grad 7 %s" % one, "add 0 4", "add 3 0", "pstate 9", "state 2",
            "update 0", "state 0", "pstate 0", "set 0 epoch 12", "cfg 0 Optimizer.epoch u99999999999", "mode other"]


def defect16(T):
    """history of defect #16: a failed add() must leave no trace"""
    out = []
    for k in T.kinds:
        if not T.has_stats(k):
            continue
        out.append(["mode exact" if k == "MomentumSGD" else "mode float", "opt 0 %s" % k if k != "MomentumSGD" else "opt 0 MomentumSGD %s %s" % (f2x(0.25), f2x(0.5)),
                    "param 0 2 %s" % xs([1.0, 2.0]), "param 1 invalid", "add 0 0", "add 0 1",
                    "grad 0 %s" % xs([1.0, -1.0]), "update 0", "pstate 0 " + " ".join(T.stat_names), "state 0", "reset 0", "pstate 0"])
    return out


def history_bounds(lines):
    """split a stream at `mode` lines"""
    starts = [i for i, l in enumerate(lines) if l.startswith("mode ")]
    return starts


def cut_history(lines):
    """the last history of a prefix (from its `mode` line)"""
    starts = history_bounds(lines)
    return lines[starts[-1]:] if starts else lines


def classify(line, impl, spec):
    op = line.split(" ")[0]
    if impl.startswith("crash"):
        cls = "crash"
    elif impl.startswith("err") and spec.startswith("ok"):
        cls = "throws"
    elif impl.startswith("ok") and spec.startswith("err"):
        cls = "accepts"
    else:
        cls = "wrong-result"
    return op, cls


def kind_of(lines):
    k = "?"
    for l in lines:
        w = l.split(" ")
        if w[0] == "opt" and len(w) >= 3 and w[1] == "0":
            k = w[2]
    return k


def count_decay_clip(streams_out):
    """updates of the real library on which weight decay and clipping were both
    active and the clipping triggered (joint gradient norm afterwards = threshold)"""
    n_both = n_clipped = 0
    for lines, impl in streams_out:
        l2 = clip = 0.0
        reg = set()
        for i, (l, o) in enumerate(zip(lines, impl)):
            w = l.split(" ")
            if w[0] == "mode":
                l2 = clip = 0.0; reg = set()
            if not o.startswith("ok"):
                continue
            if w[0] == "set" and w[2] in ("l2_strength", "clip_threshold"):
                v = ol.x2f(w[3])
                if w[2] == "l2_strength": l2 = v
                else: clip = v
            elif w[0] == "cfg" and w[2] in ("Optimizer.l2_strength", "Optimizer.clip_threshold") and w[3].startswith("x"):
                v = ol.x2f(w[3])
                if w[2].endswith("l2_strength"): l2 = v
                else: clip = v
            elif w[0] == "add":
                reg.add(w[2])
            elif w[0] == "addm":
                reg |= set(w[2:])
            elif w[0] == "update" and l2 > 0 and clip > 0 and reg:
                n_both += 1
                sq, seen = 0.0, set()
                for l2_, o2 in zip(lines[i + 1:i + 12], impl[i + 1:i + 12]):
                    w2 = l2_.split(" ")
                    if w2[0] != "pstate":
                        break
                    if w2[1] in reg and o2.startswith("ok"):
                        g = [t for t in o2.split(" ") if t.startswith("g=")][0][2:]
                        sq += sum(ol.x2f(t) ** 2 for t in g.split(",") if t.startswith("x"))
                        seen.add(w2[1])
                if seen == reg and abs(sq ** 0.5 - clip) <= 1e-3 * clip:
                    n_clipped += 1
    return n_both, n_clipped


def report_violations(chk, judged, quick, max_shrunk=3, max_reports=8, use_spec=True, judge_line=None,
                      expected="the equations / documented behaviour give", protect=()):
    """One report per (algorithm, operation, failure class); the first few are shrunk."""
    groups = {}
    for j in judged:
        hist = cut_history(j["lines"])
        op, cls = classify(j["line"], j["impl"], j.get("spec", ""))
        groups.setdefault((kind_of(hist), op, cls), (hist, j))
    for n, ((kind, op, cls), (hist, j)) in enumerate(sorted(groups.items(), key=lambda kv: kv[0])):
        if n >= max_reports:
            break
        small, im, sp, at = hist, j["impl"], (j.get("spec", "") if use_spec else j.get("what", "")), len(hist) - 1
        if n < max_shrunk:
            keep = [l for l in hist if l.split(" ")[0] in protect]

            def still(c, op=op, cls=cls, keep=keep):
                if [l for l in c if l.split(" ")[0] in protect] != keep:
                    return False      # structural lines of the history must survive shrinking
                f = ol.fails_on_impl(c, use_spec, judge_line)
                return f is not None and classify(c[f[0]], f[1], f[2]) == (op, cls)
            if still(hist):
                small = vcheck.shrink(hist, still, max_runs=30 if quick else 60)
                f = ol.fails_on_impl(small, use_spec, judge_line)
                if f is not None:
                    small, at, im, sp = small[: f[0] + 1], f[0], f[1], f[2]
        key = ("optim:%s:%s:%s:%s" % (kind, op, cls, " | ".join(small)))[:900]
        chk.report(key, "%s history: `%s` -> implementation `%s`, %s `%s`" % (
            kind, small[at], im[:200], expected, sp[:200]),
            {"family": "optim", "harness": "h_optim", "stateful": True, "lines": small, "expected_spec": sp, "observed_impl": im})


def run(chk):
    quick = chk.tier == "quick"
    T = None
    chk.rule = ("training histories on one optimizer generated from one PRNG: algorithm (six), hyper-parameters (constructor defaults, "
                "random, or dyadic), 1-3 parameters of shapes []..[2,1,2] plus an unregistered bystander, then up to %d steps drawn from "
                "{write gradients + update + observe, setters (also negative, -0, 0), set_epoch, set_configs with one key (own, base, "
                "foreign, unknown), add (new, double, invalid, as Model, mid-training), reset_gradients}; plus scripted families: epoch "
                "boundaries, non-default eps / tiny gradients, settings changed through set_configs and through a loaded optimizer "
                "with the joint norm on either side of the threshold, late Parameter::init after a failed add; every history is executed by the "
                "real library (ASan/UBSan build), by the Lean model (generated rules + Model/Optimizer.lean) and by the Lean "
                "specification (Spec/Optimizers.lean). SGD/MomentumSGD histories on dyadic data are compared exactly as rationals, the "
                "others in float32 within |a-b| <= 2^-18 S (model; 2^-11 S after the first last-bit difference of a history or on Eigen) / 2^-11 S (specification), S = largest magnitude the quantity has had in the history, both growing by 1 + updates/32. Non-trivial = the call succeeded; distinct = "
                "distinct operation lines.") % (30 if quick else 200)
    ol.obligations_with_gen(chk, MODS, tr.generate, tr.OUT)
    T = Table()
    try:
        tr.selftest()
    except Exception as e:
        chk.report("translator-selftest", "translate/optimizers.py self-test fails: %r" % (e,), {"error": repr(e)}, found_input=False)
    if tr.differs_from_golden():
        chk.notes.append("Gen/Optimizers.lean differs from translate/golden/Optimizers.lean (the optimizer sources changed since the golden copy was taken)")
    n_hist = 200 if quick else 5000
    max_steps = 30 if quick else 200
    per_stream = 5 if quick else 25
    hists = []
    if os.path.exists(CORPUS):
        cur = []
        for l in open(CORPUS):
            l = l.rstrip("\n")
            if not l.strip() or l.startswith("#"):
                continue
            if l.startswith("mode ") and cur:
                hists.append(cur); cur = []
            cur.append(l)
        if cur:
            hists.append(cur)
    hists += defect16(T)
    hists.append(malformed(T))
    hists += epoch_boundary_histories(T, chk.rng, ["Adam"] if quick else T.kinds)
    special = (eps_histories(T, chk.rng, 1 if quick else 12) + cfg_settings_histories(T, chk.rng, 1 if quick else 12) +
               late_init_histories(T, chk.rng, 1 if quick else 12))
    chk.extra_cov["eps_cfg_settings_late_init_histories"] = len(special)
    hists += special
    for i in range(n_hist):
        ms = max_steps if (quick or i % 10 == 0) else 40
        dc = (i % 8 == 3) if quick else (i % 4 == 3)
        hists.append(Hist(chk.rng, T, ms, kind=T.kinds[i % len(T.kinds)] if (i < 2 * len(T.kinds) or dc) else None,
                          allow_eigen=not quick, decay_clip=dc).build())
    streams, cur = [], []
    for j, h in enumerate(hists):
        cur += h
        if (j + 1) % per_stream == 0:
            streams.append(cur); cur = []
    if cur:
        streams.append(cur)
    R = ol.Runner(chk)
    dis, judged, crashes = R.correspond(streams, timeout=600)
    chk.extra_cov["histories"] = len(hists)
    both, clipped = count_decay_clip(R.streams_out)
    chk.extra_cov["updates_with_decay_and_clipping_active"] = both
    chk.extra_cov["of_those_clipping_triggered_on_the_decayed_norm"] = clipped
    chk.extra_cov["epoch_boundary_histories"] = len([h for h in hists if any(("u%d" % e) in l for l in h for e in EPOCH_BOUNDS)])
    chk.extra_cov["values_compared_exactly_as_rationals"] = R.model_cmp.exact_values
    chk.extra_cov["float32_representable_values_that_differed_from_the_rational_model_within_tolerance"] = R.model_cmp.exact_misses
    chk.extra_cov["max_deviation_impl_vs_model_float32_relative_to_quantity_scale"] = R.model_cmp.max_dev
    chk.extra_cov["max_deviation_impl_vs_spec_float32_relative_to_quantity_scale"] = R.spec_cmp.max_dev
    report_violations(chk, judged, quick)
    # 2. model != implementation although the implementation meets the specification
    if not chk.violations:
        for d in dis:
            hist = cut_history(d["lines"])
            kind = kind_of(hist)
            op = d["line"].split(" ")[0]
            chk.report("correspondence:optim:%s:%s" % (kind, op),
                       "model and implementation disagree on `%s` of a %s history (impl `%s`, model `%s`) although the implementation "
                       "agrees with the specification there; the Lean model no longer describes the code" % (d["line"], kind, d["impl"][:200], d["model"][:200]),
                       {"family": "optim", "harness": "h_optim", "stateful": True, "lines": hist, "observed_impl": d["impl"],
                        "model": d["model"], "broken": "correspondence optim/h_optim"}, found_input=False)
    for c in crashes:
        if c.get("at_exit"):
            chk.report("optim:crash-at-exit:" + c["kind"], "the harness process fails at exit (%s)" % c["kind"],
                       {"family": "optim", "stderr": c.get("stderr", "")[-1500:]}, found_input=True)
    ol.report_broken(chk)
    chk.trusted += [
        "modelled, not verified: Optimizer::update/add/reset_gradients/setters and the used part of Parameter are hand-modelled in Lean (Model/Optimizer.lean) and tied to the code by this correspondence run; update_parameter, configure_parameter, get/set_configs, the settings and their guards are translated from the sources on every run (translate/optimizers.py)",
        "not shown (measured by the correspondence only): float32 rounding of every update, and the evaluation of std::pow(beta, epoch) in double; theorems are over an ordered field / the reals",
        "tensors are modelled as lists of elements: that `*`, `/`, `+`, sqrt on Tensors are elementwise and that sum(flatten(g*g)) adds all elements is assumed here (properties C02/C08 cover the kernels)",
    ]
    chk.notes += [
        "the model describes the code with fix 93d7054 (configure_parameter before params_.insert); on a tree without it the defect-#16 history (add ok; add invalid -> err; update) is reported",
        "SGD::configure_parameter is empty, so SGD::add(invalid Parameter) succeeds and later update() calls throw after an order-dependent partial update; such histories are not generated (the model returns the error with the state unchanged) - reported as an observation, relevant to C10",
        "float mode: the model computes in emulated float32 (every operation rounded to binary32, std::pow in double), so model and Naive backend normally agree bit for bit",
    ]
