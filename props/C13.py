"""C13 — save/load round trip is lossless, files obey the documented format, the
MessagePack Reader returns what the Writer was given.

Two correspondence families:
  msgpack  h_msgpack  <->  drv_msgpack   (Writer <<, Reader >> over a stringstream)
  files    h_files    <->  drv_files     (Parameter/Model/Optimizer save and load on real files)
The model decoder is the independent reader of the property: every byte string
the implementation writes is decoded by the model, every byte string the model
writes is read by the implementation, and the values / object states are
compared bit for bit.  (props/C14.py reuses the generators of this module.)
"""
import os, struct
from vlib import run as vrun, build

MODS = ["PrimitivModel.Props.C13"]

# ---------------------------------------------------------------- msgpack values
SCALARS = ["nil", "bool", "u8", "u16", "u32", "u64", "i8", "i16", "i32", "i64", "f32", "f64", "str", "bin", "ext"]
# container instantiations compiled into harness/h_msgpack.cc
ARR_ELEMS = ["u8", "u16", "u32", "u64", "i8", "i16", "i32", "i64", "f32", "f64", "str", "bin", "ext",
             "arr:u32", "arr:str", "arr:arr:u8", "map:str:u32"]
MAPS = [("str", "u32"), ("str", "f32"), ("str", "str"), ("u32", "str"), ("u8", "u8"), ("i32", "u64"),
        ("u64", "f64"), ("str", "arr:u32"), ("str", "map:str:f32")]
F32_SPECIAL = [0x00000000, 0x80000000, 0x00000001, 0x807fffff, 0x00800000, 0x3f800000, 0xbf800000, 0x7f7fffff,
               0x7f800000, 0xff800000, 0x7fc00000, 0x7fc00001, 0x7fc12345, 0x7f800001, 0xffc12345, 0xffffffff, 0x7fffffff, 0x007fffff]
F64_SPECIAL = [0x0, 0x8000000000000000, 0x1, 0x800fffffffffffff, 0x0010000000000000, 0x3ff0000000000000,
               0x7fefffffffffffff, 0x7ff0000000000000, 0xfff0000000000000, 0x7ff8000000000000, 0x7ff8000000000001,
               0x7ff0000000000001, 0xfff8123456789abc, 0xffffffffffffffff]
LEN_BOUNDS = [0, 1, 15, 16, 17, 31, 32, 33, 255, 256, 257]
BIG_LENS = [65535, 65536]


def hexb(b):
    return b.hex() if b else "-"


def rand_bytes(rng, n):
    r = rng.random()
    if r < 0.15:
        return bytes([rng.choice([0, 0xff, 0x20, 0x2e, 0x80, 0xc0, 0xa0])]) * n
    return bytes(rng.getrandbits(8) for _ in range(n)) if n < 4096 else os_urandom(rng, n)


def os_urandom(rng, n):
    return rng.getrandbits(8 * n).to_bytes(n, "little") if n else b""


def unsigned_vals(rng, bits, k):
    m = (1 << bits) - 1
    base = [0, 1, 127, 128, 255, 256, 32767, 32768, 65535, 65536, 2**31 - 1, 2**31, 2**32 - 1, 2**32, 2**63, m - 1, m]
    vals = sorted({v for v in base if v <= m})
    return vals + [rng.getrandbits(bits) for _ in range(k)]


def signed_vals(rng, bits, k):
    lo, hi = -(1 << (bits - 1)), (1 << (bits - 1)) - 1
    base = [0, 1, -1, 127, 128, -128, -129, 255, 256, -256, 32767, -32768, 65535, 2**31 - 1, -2**31, 2**32, lo, lo + 1, hi - 1, hi]
    vals = sorted({v for v in base if lo <= v <= hi})
    return vals + [rng.randint(lo, hi) for _ in range(k)]


def gen_value(rng, ty, size_hint=None, depth=0):
    """words of one random value of type `ty` (maps: distinct keys, sorted by printed key)"""
    if ty == "nil":
        return ["nil"]
    if ty == "bool":
        return [rng.choice(["true", "false"])]
    if ty[0] == "u" and ty[1:].isdigit():
        return [str(rng.choice(unsigned_vals(rng, int(ty[1:]), 3)))]
    if ty[0] == "i" and ty[1:].isdigit():
        return [str(rng.choice(signed_vals(rng, int(ty[1:]), 3)))]
    if ty == "f32":
        return ["%08x" % rng.choice(F32_SPECIAL + [rng.getrandbits(32) for _ in range(4)])]
    if ty == "f64":
        return ["%016x" % rng.choice(F64_SPECIAL + [rng.getrandbits(64) for _ in range(4)])]
    if ty in ("str", "bin"):
        n = size_hint if size_hint is not None else rng.choice([0, 1, 2, 5, 31, 32, 40])
        return [hexb(rand_bytes(rng, n))]
    if ty == "ext":
        n = size_hint if size_hint is not None else rng.choice([0, 1, 2, 3, 4, 8, 16, 17])
        return [str(rng.randint(-128, 127)), hexb(rand_bytes(rng, n))]
    if ty.startswith("arr:"):
        et = ty[4:]
        n = size_hint if size_hint is not None else rng.choice([0, 1, 2, 3, 15, 16] if depth == 0 else [0, 1, 2, 3])
        out = [str(n)]
        for _ in range(n):
            out += gen_small(rng, et) if n > 300 else gen_value(rng, et, None, depth + 1)
        return out
    if ty.startswith("map:"):
        kt, vt = split_map(ty)
        n = size_hint if size_hint is not None else rng.choice([0, 1, 2, 3, 15, 16] if depth == 0 else [0, 1, 2])
        keys = {}
        guard = 0
        while len(keys) < n and guard < 20 * n + 50:
            guard += 1
            if kt == "u32" and n > 300:
                kw = [str(len(keys) * 7919 % (1 << 32))]
            elif kt == "str" and n > 40:
                kw = [hexb(struct.pack(">I", len(keys)) + rand_bytes(rng, rng.choice([0, 1, 3])))]
            else:
                kw = gen_value(rng, kt, None, depth + 1)
            keys.setdefault(" ".join(kw), kw)
        n = len(keys)
        out = [str(n)]
        big = n > 300
        for ks in sorted(keys):
            out += keys[ks] + (gen_small(rng, vt) if big else gen_value(rng, vt, None, depth + 1))
        return out
    raise ValueError(ty)


def gen_small(rng, ty):
    """a cheap value for the elements of very long containers"""
    if ty in ("str", "bin"):
        return ["-"] if rng.random() < 0.8 else [hexb(rand_bytes(rng, 1))]
    if ty == "ext":
        return [str(rng.randint(-128, 127)), "-"]
    if ty.startswith("arr:") or ty.startswith("map:"):
        return ["0"]
    return gen_value(rng, ty)


def split_map(ty):
    """'map:K:V' -> (K, V) where K is a scalar type name"""
    rest = ty[4:]
    k, v = rest.split(":", 1)
    return k, v


def msgpack_lines(rng, quick):
    """`w` lines: every scalar type at boundary values, every container/str/bin/ext at each
    length-prefix boundary +-1"""
    lines = []
    def add(ty, words):
        lines.append("w %s %s" % (ty, " ".join(words)))
    add("nil", ["nil"]); add("bool", ["true"]); add("bool", ["false"])
    k = 3 if quick else 40
    for bits in (8, 16, 32, 64):
        for v in unsigned_vals(rng, bits, k):
            add("u%d" % bits, [str(v)])
        for v in signed_vals(rng, bits, k):
            add("i%d" % bits, [str(v)])
    for w in F32_SPECIAL + [rng.getrandbits(32) for _ in range(4 * k)]:
        add("f32", ["%08x" % w])
    for w in F64_SPECIAL + [rng.getrandbits(64) for _ in range(4 * k)]:
        add("f64", ["%016x" % w])
    for n in LEN_BOUNDS + [65534] + BIG_LENS + [65537]:
        add("str", [hexb(rand_bytes(rng, n))])
        add("bin", [hexb(rand_bytes(rng, n))])
    for n in [0, 1, 2, 3, 4, 5, 7, 8, 9, 15, 16, 17, 255, 256, 65535, 65536]:
        add("ext", [str(rng.randint(-128, 127)), hexb(rand_bytes(rng, n))])
    for t in (-128, -1, 0, 1, 127):
        add("ext", [str(t), hexb(rand_bytes(rng, 3))])
    # embedded NUL and other non-printable bytes: the length is size(), not strlen()
    nul = [b"\x00", b"a\x00", b"\x00a", b"a\x00b", b"\x00\x00\x00", b"ab\x00" + b"c" * 40, b"\x00" * 32, b"\x01\x02\x7f\x80\xff\x1b"]
    for b in nul:
        add("str", [hexb(b)])
    add("arr:str", [str(len(nul))] + [hexb(b) for b in nul])
    ks = sorted(hexb(b) for b in nul)
    add("map:str:u32", [str(len(ks))] + [w for i, k in enumerate(ks) for w in (k, str(i))])
    add("map:str:str", [str(len(ks))] + [w for k in ks for w in (k, k)])
    add("map:u32:str", [str(len(nul))] + [w for i, b in enumerate(nul) for w in (str(i), hexb(b))])
    # arrays: each element type at the small boundaries; the 16-bit/32-bit boundary for a few cheap element types
    for et in ARR_ELEMS:
        for n in [0, 1, 15, 16, 17] + ([] if quick else [2, 14, 31, 32, 255, 256]):
            add("arr:" + et, gen_value(rng, "arr:" + et, n))
    big_arr = ["u8", "str"] if quick else ["u8", "u32", "str", "f32", "bin", "arr:u32"]
    for et in big_arr:
        for n in BIG_LENS:
            add("arr:" + et, gen_value(rng, "arr:" + et, n))
    add("arr:u8", gen_value(rng, "arr:u8", 65537))
    for (kt, vt) in MAPS:
        ty = "map:%s:%s" % (kt, vt)
        for n in [0, 1, 15, 16, 17] + ([] if quick else [2, 14, 31, 255, 256]):
            add(ty, gen_value(rng, ty, n))
    for ty in (["map:u32:str"] if quick else ["map:u32:str", "map:str:u32", "map:u64:f64"]):
        for n in BIG_LENS:
            add(ty, gen_value(rng, ty, n))
    add("arr:map:str:u32", gen_value(rng, "arr:map:str:u32", 3))
    if not quick:
        for _ in range(400):
            ty = rng.choice(["arr:" + e for e in ARR_ELEMS] + ["map:%s:%s" % m for m in MAPS] + ["str", "bin", "ext"])
            add(ty, gen_value(rng, ty))
    return lines


# ---------------------------------------------------------------- a tiny MessagePack encoder (for crafted files)
def mp_u32(n):
    return b"\xce" + struct.pack(">I", n & 0xffffffff)


def mp_f32w(w):
    return b"\xca" + struct.pack(">I", w)


def mp_str(b):
    n = len(b)
    if n < 32:
        return bytes([0xa0 | n]) + b
    if n < 256:
        return b"\xd9" + bytes([n]) + b
    if n < 65536:
        return b"\xda" + struct.pack(">H", n) + b
    return b"\xdb" + struct.pack(">I", n) + b


def mp_bin(b):
    n = len(b)
    if n < 256:
        return b"\xc4" + bytes([n]) + b
    if n < 65536:
        return b"\xc5" + struct.pack(">H", n) + b
    return b"\xc6" + struct.pack(">I", n) + b


def mp_arr_hdr(n):
    if n < 16:
        return bytes([0x90 | n])
    if n < 65536:
        return b"\xdc" + struct.pack(">H", n)
    return b"\xdd" + struct.pack(">I", n)


def mp_map_hdr(n):
    if n < 16:
        return bytes([0x80 | n])
    if n < 65536:
        return b"\xde" + struct.pack(">H", n)
    return b"\xdf" + struct.pack(">I", n)


def file_header(tag, major=0, minor=1):
    return mp_u32(major) + mp_u32(minor) + mp_u32(tag)


def enc_shape(dims, batch):
    return mp_arr_hdr(len(dims)) + b"".join(mp_u32(d) for d in dims) + mp_u32(batch)


def enc_tensor(dims, batch, words):
    return enc_shape(dims, batch) + mp_bin(b"".join(struct.pack("<I", w) for w in words))


def enc_param_record(t, stats):
    """t = (dims, batch, words); stats = [(name bytes, (dims, batch, words))]"""
    out = enc_tensor(*t) + mp_u32(len(stats))
    for name, st in stats:
        out += mp_str(name) + enc_tensor(*st)
    return out


# ---------------------------------------------------------------- objects of the files family
def canon_dims(dims):
    d = list(dims)
    while d and d[-1] == 1:
        d.pop()
    return d


def vol(dims):
    v = 1
    for d in dims:
        v *= d
    return v


class T:
    """tensor description: canonical dims, batch, float words"""
    def __init__(self, dims, batch, words):
        self.dims, self.batch, self.words = canon_dims(dims), batch, list(words)

    def tok(self):
        return "%s/%d:%s" % (",".join(map(str, self.dims)), self.batch, "".join("%08x" % w for w in self.words))


class P:
    """Parameter description (valid=False: default constructed)"""
    def __init__(self, valid=True, dev="n", value=None, grad=None, stats=None):
        self.valid, self.dev, self.value, self.grad = valid, dev, value, grad
        self.stats = dict(stats or {})  # name bytes -> T

    def tok(self):
        if not self.valid:
            return "I"
        s = "V;%s;%s;%s" % (self.dev, self.value.tok(), "".join("%08x" % w for w in self.grad))
        for name in sorted(self.stats):
            s += ";%s=%s" % (name.hex(), self.stats[name].tok())
        return s

    def loaded(self, dev, with_stats):
        """what a successful load of a file saved from this parameter must produce"""
        return P(True, dev, self.value, [0] * len(self.value.words), self.stats if with_stats else {})


def rand_words(rng, n):
    return [rng.choice(F32_SPECIAL) if rng.random() < 0.4 else rng.getrandbits(32) for _ in range(n)]


SHAPES = [[], [1], [3], [2, 3], [1, 2], [2, 1, 3], [1, 1, 1, 1, 1, 1, 1, 2], [2, 1, 1, 1, 1, 1, 1, 2], [2, 2, 2, 2, 2, 2, 2, 2],
          [63], [64], [5, 13]]
NAMES = [b"", b"m", b"MomentumSGD.m", b"Adam.m1", b"Adam.m2", b"a.b", b".", b" ", b"\x00", b"\xff\xfe", b"n\x00ul", "é世".encode(),
         b"\x00\x00", b"a\x00", b"\x00b", b"hist\x00ogram\x00", b"\x01\x7f\x1b\t\n\r",
         b"x" * 31, b"y" * 32, b"z" * 255, b"w" * 256]


def rand_tensor(rng, batch_ok, shapes=None):
    dims = rng.choice(shapes or SHAPES)
    b = rng.choice([1, 1, 2, 3]) if batch_ok else 1
    return T(dims, b, rand_words(rng, vol(dims) * b))


def rand_param(rng, shapes=None, max_stats=3, invalid_p=0.0):
    if rng.random() < invalid_p:
        return P(False)
    v = rand_tensor(rng, False, shapes)
    n = rng.choice([0, 0, 1, 2, max_stats])
    stats = {}
    for _ in range(n):
        stats[rng.choice(NAMES) if rng.random() < 0.8 else rand_bytes(rng, rng.randint(0, 40))] = rand_tensor(rng, True, shapes)
    return P(True, rng.choice("nem"), v, rand_words(rng, len(v.words)), stats)


def path_tok(path):
    return "".join("." + n.hex() for n in path)


def rand_paths(rng, n):
    """n distinct paths forming a tree (no path is a prefix of another); odd names, nesting up to 17"""
    paths = []
    guard = 0
    while len(paths) < n and guard < 200:
        guard += 1
        depth = rng.choice([1, 1, 2, 2, 3, 4, 16, 17] if rng.random() < 0.08 else [1, 1, 2, 2, 3, 4])
        base = rng.choice(paths)[:-1] if paths and rng.random() < 0.5 else []
        p = list(base[:depth - 1])
        while len(p) < depth:
            p.append(rng.choice(NAMES[:17]) if rng.random() < 0.85 else rand_bytes(rng, rng.randint(0, 6)))
        p = tuple(p)
        if any(q[:len(p)] == p or p[:len(q)] == q for q in paths):
            continue
        paths.append(p)
    return paths


def model_tok(entries):
    """entries: list of (path, P)"""
    return "%d%s" % (len(entries), "".join(" %s %s" % (path_tok(p), q.tok()) for p, q in entries))


OPT_ARITY = {"SGD": 1, "MomentumSGD": 2, "AdaGrad": 2, "RMSProp": 3, "AdaDelta": 2, "Adam": 4}
OPT_KEYS = {"SGD": ["SGD.eta"], "MomentumSGD": ["MomentumSGD.eta", "MomentumSGD.momentum"], "AdaGrad": ["AdaGrad.eta", "AdaGrad.eps"],
            "RMSProp": ["RMSProp.eta", "RMSProp.alpha", "RMSProp.eps"], "AdaDelta": ["AdaDelta.rho", "AdaDelta.eps"],
            "Adam": ["Adam.alpha", "Adam.beta1", "Adam.beta2", "Adam.eps"]}
BASE_FKEYS = ["Optimizer.lr_scale", "Optimizer.l2_strength", "Optimizer.clip_threshold"]


class O:
    def __init__(self, kind, epoch, words):
        self.kind, self.epoch, self.words = kind, epoch, list(words)  # words: lr, l2, clip, hyper...

    def tok(self):
        return ":".join([self.kind, str(self.epoch)] + ["%08x" % w for w in self.words])


def f32w(x):
    return struct.unpack("<I", struct.pack("<f", x))[0]


OPT_DEFAULTS = {"SGD": [0.1], "MomentumSGD": [0.01, 0.9], "AdaGrad": [0.001, 1e-8], "RMSProp": [0.01, 0.9, 1e-8],
                "AdaDelta": [0.95, 1e-6], "Adam": [0.001, 0.9, 0.999, 1e-8]}


def fresh_opt(kind):
    """a default-constructed optimizer: epoch 0, lr_scale 1, l2 0, clip 0, default hyper-parameters"""
    return O(kind, 0, [f32w(1.0), 0, 0] + [f32w(x) for x in OPT_DEFAULTS[kind]])


OPT_SPECIAL = [0x00000000, 0x80000000, 0x7fc00000, 0x7fc12345, 0x7f800000, 0xff800000, 0x00000001, 0x007fffff, 0x7f7fffff, 0xffc00001]


def special_opts(quick, rng):
    """every setting of every algorithm equal to one special value; epoch 0 and 0xffffffff"""
    out = []
    for kind in sorted(OPT_ARITY):
        n = 3 + OPT_ARITY[kind]
        for i, w in enumerate(OPT_SPECIAL):
            out.append(O(kind, [0, 0xffffffff, 1][i % 3], [w] * n))
        # one field special at a time, the others ordinary
        for j in range(n):
            ws = list(fresh_opt(kind).words)
            ws[j] = 0 if not quick else rng.choice([0, 0, 0x80000000, 0x7fc12345])
            out.append(O(kind, 0xffffffff if j % 2 else 0, ws))
            if not quick:
                for w in OPT_SPECIAL[1:]:
                    ws2 = list(fresh_opt(kind).words); ws2[j] = w
                    out.append(O(kind, rng.choice([0, 0xffffffff]), ws2))
    return out


def rand_opt(rng, kind=None):
    kind = kind or rng.choice(sorted(OPT_ARITY))
    return O(kind, rng.choice([0, 1, 5, 255, 65536, 2**31, 2**32 - 1, rng.getrandbits(32)]), rand_words(rng, 3 + OPT_ARITY[kind]))


def t_rec(t):
    return (t.dims, t.batch, t.words)


def expected_file(kind, o, ws):
    """Bytes the documented format prescribes for an object (maps in key order), built with the
    encoder of this module — independent of the Lean model and of the code.  None: save must fail."""
    if kind == "param":
        if not o.valid:
            return None
        st = [(n, t_rec(o.stats[n])) for n in sorted(o.stats)] if ws else []
        return file_header(0x200) + enc_param_record(t_rec(o.value), st)
    if kind == "model":
        if any(not q.valid for _, q in o):
            return None
        out = file_header(0x300) + mp_u32(len(o))
        for path, q in sorted(o, key=lambda e: e[0]):
            st = [(n, t_rec(q.stats[n])) for n in sorted(q.stats)] if ws else []
            out += mp_arr_hdr(len(path)) + b"".join(mp_str(x) for x in path) + enc_param_record(t_rec(q.value), st)
        return out
    fk = BASE_FKEYS + OPT_KEYS[o.kind]
    fe = sorted(zip(fk, o.words))
    return (file_header(0x400) + mp_map_hdr(1) + mp_str(b"Optimizer.epoch") + mp_u32(o.epoch) +
            mp_map_hdr(len(fe)) + b"".join(mp_str(k.encode()) + mp_f32w(v) for k, v in fe))


def corpus(name):
    p = os.path.join(build.VERIF, "corpus", name)
    if not os.path.exists(p):
        return []
    return [l.strip() for l in open(p) if l.strip() and not l.startswith("#")]


def hex_of_ok(out):
    """'ok <hex>' -> hex ('-' = empty), else None"""
    if out.startswith("ok ") and " " not in out[3:]:
        return out[3:]
    return None


def canon_files(saves):
    """saves: list of (kind, hex) -> canonical hex (or 'err') by the model decoder"""
    lines = ["canon %s %s" % (k, h) for k, h in saves]
    return vrun.run_model("files", lines) if lines else []


# ---------------------------------------------------------------- the check
def run(chk):
    quick = chk.tier == "quick"
    rng = chk.rng
    chk.rule = ("msgpack: `w <type> <value>` for every Reader/Writer type — scalars at all width boundaries, floats/doubles as bit patterns "
                "(NaN payloads, signalling NaNs, +-0, denormals, infinities), str/bin/ext at every length-prefix boundary +-1 (0,31,32,255,256,65535,65536; "
                "fixext 1/2/4/8/16), vectors and unordered_maps of 17 element / 9 key-value instantiations at 0,1,15,16,17 and (few) 65535,65536 elements, "
                "nested containers; each value is written by the real Writer and by the model, each byte string is read back by the real Reader and by the "
                "model (with trailing bytes). files: Parameters (12 shapes incl. depth 8 and payloads across the bin8/bin16/bin32 boundaries, special float "
                "words, 0-3 statistics with odd names incl. empty/NUL/non-UTF8/256-byte ones, minibatched statistics), model trees (nesting to depth 17, odd "
                "names), all six optimizers with arbitrary setting bits; saved by the real code and by the model, every file loaded by both into fresh "
                "objects on both devices with with_stats in all four save/load combinations. Non-trivial = the implementation returned a value / loaded "
                "the file; distinct = distinct operation lines.")
    import time
    t0 = time.time()
    def lap(what):
        chk.notes.append("phase %s: %.1fs" % (what, time.time() - t0))
        if os.environ.get("VERIF_PROF"):
            print("phase %s: %.1fs" % (what, time.time() - t0), flush=True)
    chk.obligations(MODS, drivers=["msgpack", "files"])
    lap("obligations")

    # ------------------------------------------------------------ msgpack
    wl = corpus("msgpack.ops") + msgpack_lines(rng, quick)
    seen = set()
    wl = [l for l in wl if not (l in seen or seen.add(l))]
    w_only = [l for l in wl if l.startswith("w ")]
    mhex = dict(zip(w_only, vrun.run_model("msgpack", w_only)))
    rl, expect_r = [], {}
    for l in w_only:
        h = hex_of_ok(mhex[l])
        if h is None:
            continue
        _, ty, val = l.split(" ", 2)
        trailing = rand_bytes(rng, rng.choice([0, 0, 1, 3]))
        r = "r %s %s" % (ty, (("" if h == "-" else h) + trailing.hex()) or "-")
        rl.append(r)
        expect_r[r] = "ok %s rest=%d" % (val, len(trailing))
    # type confusion: bytes of one type read as another (both sides must agree; mostly `err type`)
    conf = []
    small = [l for l in w_only if len(l) < 200]
    for _ in range(300 if quick else 3000):
        a = rng.choice(small)
        h = hex_of_ok(mhex[a])
        ty = rng.choice(SCALARS + ["arr:" + e for e in ARR_ELEMS] + ["map:%s:%s" % m for m in MAPS])
        if h:
            conf.append("r %s %s" % (ty, h))
    mp_lines = wl + rl + conf
    readback = {}

    def mp_post(lines, impl, model):
        # the bytes the implementation wrote, read by the model's Reader (the independent decoder)
        ty = lambda i: lines[i].split(" ", 2)[1]
        idx = [i for i, l in enumerate(lines) if l.startswith("w ") and hex_of_ok(impl[i])]
        rb = vrun.run_model("msgpack", ["r %s %s" % (ty(i), hex_of_ok(impl[i])) for i in idx])
        midx = [i for i in idx if "map:" in ty(i) and hex_of_ok(model[i])]
        mrb = dict(zip(midx, vrun.run_model("msgpack", ["r %s %s" % (ty(i), hex_of_ok(model[i])) for i in midx])))
        for i, o in zip(idx, rb):
            readback[lines[i]] = o
            if i in mrb:
                # iteration order of an unordered_map is unspecified: compare first byte, length and decoded value
                hi, hm = hex_of_ok(impl[i]), hex_of_ok(model[i])
                impl[i] = "ok hdr=%s len=%d value=%s" % (hi[:2], len(hi), o)
                model[i] = "ok hdr=%s len=%d value=%s" % (hm[:2], len(hm), mrb[i])
        return impl, model

    def mp_cmp(impl, model):
        # an allocation request above the harness cap is refused (bad_alloc) where the uncapped code would
        # allocate and then hit EOF: both are clean rejections of the same input
        return vrun.same(impl, model) or (impl == "err alloc" and model == "err eof")

    def mp_judge(line, impl, model):
        if impl.startswith("crash"):
            return "Reader/Writer call crashes (%s)" % impl
        if line.startswith("w "):
            val = line.split(" ", 2)[2]
            rb = readback.get(line)
            if rb is not None and rb != "ok %s rest=0" % val:
                return "bytes written by the Writer decode (independent decoder) to `%s`, not to the value written" % rb[:120]
        if line in expect_r and impl != expect_r[line]:
            return "Reader returns `%s` for an encoding of `%s`" % (impl[:120], expect_r[line][:120])
        return None

    dis, judged, crashes = chk.correspond("msgpack", "h_msgpack", [mp_lines], stateful=False, judge=mp_judge,
                                          post=mp_post, cmp=mp_cmp)
    report(chk, "msgpack", "h_msgpack", dis, judged)
    lap("msgpack")

    # ------------------------------------------------------------ files
    objs = []  # (kind, object, save token words)
    nP = 40 if quick else 400
    for i in range(nP):
        shapes = None
        if i == 0:
            shapes = [[16383]]
        elif i == 1:
            shapes = [[16384]]   # payload of 65536 bytes: bin32
        objs.append(("param", rand_param(rng, shapes, invalid_p=0.03)))
    for i in range(12 if quick else 120):
        n = rng.choice([0, 1, 2, 3, 5, 8, 16, 17]) if i else 17
        paths = rand_paths(rng, n)
        objs.append(("model", [(p, rand_param(rng, SHAPES[:8], 2, invalid_p=0.02)) for p in paths]))
    for kind in sorted(OPT_ARITY):
        for _ in range(2 if quick else 20):
            objs.append(("opt", rand_opt(rng, kind)))
    for o in special_opts(quick, rng):
        objs.append(("opt", o))
    # statistics with a minibatch (`add_stats("hist", Shape({2}, 3))`): payload is batch x volume floats
    for (sd, sb) in [([2], 3), ([], 2), ([2, 2], 2), ([3], 4)] + ([] if quick else [([2, 1, 3], 5), ([64], 2), ([], 255)]):
        v = rand_tensor(rng, False, SHAPES[:6])
        objs.append(("param", P(True, rng.choice("nem"), v, rand_words(rng, len(v.words)),
                               {b"hist": T(sd, sb, rand_words(rng, vol(sd) * sb)), rng.choice(NAMES): rand_tensor(rng, True, SHAPES[:6])})))
    # names with embedded NUL / non-printable bytes in statistics and model paths
    v = rand_tensor(rng, False, SHAPES[:6])
    objs.append(("param", P(True, "n", v, rand_words(rng, len(v.words)),
                           {n: rand_tensor(rng, True, SHAPES[:4]) for n in (b"\x00", b"a\x00", b"\x00b", b"a\x00b", b"\x00\x00")})))
    objs.append(("model", [(p, rand_param(rng, SHAPES[:4], 1)) for p in
                           [(b"a\x00",), (b"a",), (b"\x00", b"\x00\x00"), (b"\x00", b"w"), (b"x\x00y", b"", b"\x01")]]))

    # names that contain the separator of the printed path: different name lists that read the same when joined with '.'
    objs.append(("model", [(p, rand_param(rng, [sh], 1)) for p, sh in
                           [((b"a.b",), [2]), ((b"a", b"b"), [3]), ((b"", b"x"), [1, 2]), ((b".x",), [4]),
                            ((b"a", b"c.d", b"e"), [2, 2]), ((b"a", b"c", b"d.e"), [5])]]))

    def save_line(kind, o, ws):
        if kind == "param":
            return "save param %d %s" % (ws, o.tok())
        if kind == "model":
            return "save model %d %s" % (ws, model_tok(o))
        return "save opt %s" % o.tok()

    saves = []  # (line, kind, obj, ws)
    expect_s = {}
    for kind, o in objs:
        for ws in ((0, 1) if kind != "opt" else (1,)):
            saves.append((save_line(kind, o, ws), kind, o, ws))
            ef = expected_file(kind, o, ws)
            expect_s[saves[-1][0]] = "err" if ef is None else "ok " + ef.hex()
    inv = P(False)
    extra_saves = ["save param 1 I", "save param 0 I",
                   "save model 1 " + model_tok([((b"a",), rand_param(rng, SHAPES[:4])), ((b"b", b"c"), inv)]),
                   "save model 0 0", "save model 1 0"]
    save_lines = corpus("files.ops") + extra_saves + [s[0] for s in saves]
    exe = build.build_harness("h_files")
    impl_raw, _ = vrun.run_impl(exe, [s[0] for s in saves])
    model_hex = vrun.run_model("files", [s[0] for s in saves])
    lap("files-saves")

    # load lines: the implementation's own bytes and the model's bytes, into fresh objects
    loads, expect_l = [], {}
    for (line, kind, o, ws), ir, mr in zip(saves, impl_raw, model_hex):
        for src in (hex_of_ok(ir), hex_of_ok(mr)):
            if not src:
                continue
            for wl_ in (0, 1):
                dev = rng.choice("nem")
                if kind == "param":
                    tgt = rand_param(rng, SHAPES[:9], invalid_p=0.3)
                    r = rng.random()
                    if tgt.valid and o.stats and r < 0.5:
                        # the target already holds statistics of the same names (as after optimizer.add / add_stats)
                        for n in list(o.stats)[: rng.choice([1, len(o.stats)])]:
                            tgt.stats[n] = T(tgt.value.dims, 1, [0] * len(tgt.value.words)) if r < 0.25 else rand_tensor(rng, True, SHAPES[:6])
                        tgt.stats.setdefault(b"Adam.m1", T(tgt.value.dims, 1, [0] * len(tgt.value.words)))
                    l = "load param %d %s %s %s" % (wl_, dev, src, tgt.tok())
                    exp = "ok " + o.loaded(dev, bool(ws and wl_)).tok()
                elif kind == "model":
                    tgt = [(p, rand_param(rng, SHAPES[:6], 1, invalid_p=0.4)) for p, _ in o]
                    rng.shuffle(tgt)
                    byp = dict(o)
                    l = "load model %d %s %s %s" % (wl_, dev, src, model_tok(tgt))
                    exp = ("ok " + " ".join(byp[p].loaded(dev, bool(ws and wl_)).tok() for p, _ in tgt)).rstrip() if tgt else "ok "
                else:
                    # wl_ = 0: into a FRESH (default-constructed) optimizer; 1: into one with other settings
                    tgt = rand_opt(rng, o.kind) if wl_ else fresh_opt(o.kind)
                    l = "load opt %s %s" % (src, tgt.tok())
                    exp = "ok " + o.tok()
                if len(loads) < (2500 if quick else 10**9) or kind != "param":
                    loads.append(l)
                    expect_l[l] = exp
    # loading into an optimizer of another algorithm: only the shared keys are taken (both sides must agree)
    for (line, kind, o, ws), mr in zip(saves, model_hex):
        if kind == "opt" and hex_of_ok(mr):
            loads.append("load opt %s %s" % (hex_of_ok(mr), rand_opt(rng).tok()))
    loads.append("load param 1 n missing " + rand_param(rng).tok())

    def f_post(lines, impl, model):
        idx = [i for i, l in enumerate(lines) if l.startswith("save ") and hex_of_ok(impl[i])]
        can = canon_files([(lines[i].split(" ")[1], hex_of_ok(impl[i])) for i in idx])
        for i, c in zip(idx, can):
            impl[i] = c if c.startswith("ok") else "ok undecodable " + hex_of_ok(impl[i])[:200]
        return impl, model

    def f_judge(line, impl, model):
        if impl.startswith("crash"):
            return "save/load crashes (%s)" % impl
        if "MIXED" in impl:
            return "a Parameter whose shape, value, gradient or statistics disagree after the call"
        if impl.startswith("ok undecodable"):
            return "the file written is not decodable by the independent decoder as a file of this kind"
        if line in expect_s and impl != expect_s[line]:
            return ("the file written (decoded by the independent decoder, map entries sorted) is not the documented encoding of the object: "
                    "first difference at hex offset %d" % next((i for i, (a, b) in enumerate(zip(impl, expect_s[line])) if a != b), min(len(impl), len(expect_s[line]))))
        if line in expect_l and impl.rstrip() != expect_l[line].rstrip():
            return "load of a saved file does not reproduce the saved state: got `%s`, expected `%s`" % (impl[:160], expect_l[line][:160])
        return None

    f_lines = save_lines + loads
    dis, judged, crashes = chk.correspond("files", "h_files", [f_lines], stateful=False, judge=f_judge, post=f_post)
    report(chk, "files", "h_files", dis, judged)
    lap("files")

    broken = chk.broken_obligations()
    if broken and not chk.violations:
        for name, why in broken.items():
            chk.report("obligation:" + name, "theorem %s no longer checks: %s" % (name, why),
                       {"theorem": name, "reason": why, "log": (chk.oblig or {}).get("log_tail", "")[-1500:]}, found_input=False)
    from props import C20 as _c20
    _c20.run_eq_leg(chk, lambda name: "Save" in name or "Load" in name)    # save / load through the C API
    chk.trusted += [
        "modelled, not verified: msgpack::Writer/Reader (Model/Msgpack.lean) and Parameter/Model/Optimizer save+load (Model/Files.lean) are "
        "hand-written models tied to the code by the correspondence runs of this check; the Shape constructor is the C09 model (Model/Shape.lean)",
        "the harness reads Parameter::stats_ and writes the private fields of Optimizer through `#define private public` (layout and symbols unchanged)",
        "std::unordered_map iteration order is unspecified: the implementation's bytes are compared after the model decoder has sorted map entries by key",
        "float values are compared as bit patterns obtained with memcpy; x86-64 SSE moves preserve NaN payloads",
    ]
    chk.assumptions += ["PRIMITIV_WORDSIZE_64 branches of writer.h (the build defines it); little-endian host (file_format.rst prescribes little-endian payload, the code writes the host's memory image)"]
    chk.notes.append("Writer quirk (proved as container_overlong_has_no_prefix, not reachable in a test): a vector/map with 2^32 or more elements is written without a length prefix")


def short(line, n=70):
    return line if len(line) <= n else line[:n] + "…(%d chars)" % len(line)


def classify(family, line, impl):
    w = line.split(" ")
    op = " ".join(w[:3]) if family == "files" else " ".join(w[:2])
    if impl.startswith("crash"):
        cls = impl.replace(" ", "-")
    elif impl.startswith("ok"):
        cls = "wrong-result"
    else:
        cls = "rejected"
    return "%s:%s:%s:%s" % (family, op, cls, short(line, 120))


def report(chk, family, harness, dis, judged, pid_note=""):
    judged_lines = set()
    for j in judged[:10]:
        judged_lines.add(j["line"])
        chk.report(classify(family, j["line"], j["impl"]), "%s: %s" % (short(j["line"]), j["what"]),
                   {"family": family, "harness": harness, "lines": [j["line"]], "observed_impl": j["impl"][:2000],
                    "model": j["model"][:2000]})
    n = 0
    for d in dis:
        if d["line"] in judged_lines:
            continue
        n += 1
        if n > 20:
            break
        op = " ".join(d["line"].split(" ")[:3 if family == "files" else 2])
        chk.report("correspondence:%s:%s:%s" % (family, op, short(d["line"], 100)),
                   "model and implementation disagree on `%s` (impl `%s`, model `%s`); no violation of the property was observed on the "
                   "implementation for this line: the Lean model no longer describes the code" % (short(d["line"]), d["impl"][:200], d["model"][:200]),
                   {"family": family, "harness": harness, "lines": [d["line"]], "observed_impl": d["impl"][:2000], "model": d["model"][:2000],
                    "broken": "correspondence %s/%s" % (family, harness)}, found_input=False)
