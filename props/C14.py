"""C14 — damaged or partial files are rejected cleanly; failed saves are reported.

For every generated valid Parameter / Model / Optimizer file: every truncation
point, sampled single-byte substitutions at every position (thorough: all 255
at every position of some files), structured corruptions (lengths, tags,
version, data type, batch, names), loaded by the real code (ASan/UBSan build)
into objects with known contents and by the Lean model; accept/reject and the
bitwise state of every object after the call are compared.  The model decoder is
the independent reader: a substitution that yields another well-formed file is
accepted by both.  Judged on the implementation alone: a crash, a truncated file
that is accepted, a Parameter whose fields disagree, a Parameter/Optimizer
changed by a failing load, a save to a failing sink that returns normally.
"""
import os, struct
from vlib import run as vrun, build
from props import C13 as base
from props.C13 import P, T, O, hexb, hex_of_ok, model_tok, path_tok, rand_param, rand_opt, rand_paths, rand_words, short

MODS = ["PrimitivModel.Props.C14"]
INTERESTING = [0x00, 0x01, 0x7f, 0x80, 0x90, 0x91, 0x9f, 0xa0, 0xa1, 0xbf, 0xc0, 0xc4, 0xc5, 0xc6, 0xca, 0xcc, 0xcd, 0xce, 0xcf,
               0xd9, 0xda, 0xdb, 0xdc, 0xdd, 0xde, 0xdf, 0xff]


# (r, dims): prod(dims) = k * 2^64 + r or 2^32 + r, every dimension below 2^32 (computed once, by factoring)
WRAPS = [(4, [3340214413, 2761311370, 2]), (5, [2471990109, 1066043567, 7]), (10, [2977518503, 3097670771, 2]),
         (20, [1197225396, 10827767, 1423]), (21, [1174891961, 19950191, 787]), (22, [521090446, 753197299, 47]),
         (1, [2996173443, 1119412321, 11]), (3, [1056175639, 998034439, 35]), (8, [3340214413, 2761311370, 4]),
         (9, [405869537, 910939, 99787]), (13, [3384208571, 3633886365, 3]), (4, [3809879428, 1117342693, 13]),
         (1, [6700417, 641]), (2, [2147483649, 2]), (3, [613566757, 7]), (5, [1431655767, 3]), (7, [390451573, 11])]
assert all(base.vol(d) % 2**64 == r or base.vol(d) == 2**32 + r for r, d in WRAPS)


def small_param(rng, stats=None):
    shapes = [[], [2], [3], [2, 2], [1, 2], [2, 1, 1, 1, 1, 1, 1, 2]]
    p = rand_param(rng, shapes, 2)
    if stats is not None:
        while len(p.stats) != stats:
            p = rand_param(rng, shapes, 2)
    return p


def load_line(kind, ws, dev, hx, tgt):
    if kind == "param":
        return "load param %d %s %s %s" % (ws, dev, hx, tgt.tok())
    if kind == "model":
        return "load model %d %s %s %s" % (ws, dev, hx, model_tok(tgt))
    return "load opt %s %s" % (hx, tgt.tok())


def target_tokens(kind, tgt):
    if kind == "model":
        return [q.tok() for _, q in tgt]
    return [tgt.tok()]


def states_of(out):
    """'ok|err <state tokens>' -> (verdict, [tokens])"""
    w = out.split(" ")
    return w[0], [t for t in w[1:] if t]


def run(chk):
    quick = chk.tier == "quick"
    rng = chk.rng
    chk.rule = ("msgpack: every proper prefix of the encoding of sampled values of every type is read back (must be `err eof`). files: ~30 (quick) valid "
                "Parameter/Model/Optimizer files written by the model and by the real code; for each file EVERY truncation point and 3 (quick) / more "
                "(thorough; all 255 for some files) single-byte substitutions at EVERY position, loaded into objects with known, different contents on "
                "both devices with with_stats 0/1; structured corruptions built by an independent encoder: wrong version / data type / tag bytes, batch != 1, "
                "zero and overflowing dimensions, depth 9, payload length != shape, statistics count too large/small, duplicate and non-str keys, unknown / "
                "prefix / duplicate parameter names, missing / extra / duplicate / mistyped optimizer keys, non-shortest but well-formed prefixes, bin32/str32/"
                "array32 lengths up to 2^32-1 (allocation capped at 256 MiB in the harness: refusal = std::bad_alloc = clean rejection), trailing bytes; "
                "save to /dev/full, to a missing directory, to a directory, and to a file limited to n bytes (RLIMIT_FSIZE) for n below and at the file size. "
                "Non-trivial = a load that was rejected with the state printed, or accepted as another well-formed file; distinct = distinct lines.")
    import time
    t0 = time.time()
    def lap(what):
        chk.notes.append("phase %s: %.1fs" % (what, time.time() - t0))
        if os.environ.get("VERIF_PROF"):
            print("phase %s: %.1fs" % (what, time.time() - t0), flush=True)
    chk.obligations(MODS, drivers=["msgpack", "files"])
    lap("obligations")

    # ------------------------------------------------------------ msgpack: proper prefixes
    wl = []
    for ty in base.SCALARS:
        for _ in range(2 if quick else 10):
            wl.append("w %s %s" % (ty, " ".join(base.gen_value(rng, ty))))
    for ty in ["arr:" + e for e in base.ARR_ELEMS] + ["map:%s:%s" % m for m in base.MAPS]:
        for n in ([1, 3] if quick else [0, 1, 2, 3, 16]):
            wl.append("w %s %s" % (ty, " ".join(base.gen_value(rng, ty, n))))
    for n in (32, 256):
        wl.append("w str " + hexb(base.rand_bytes(rng, n)))
        wl.append("w bin " + hexb(base.rand_bytes(rng, n)))
        wl.append("w ext 7 " + hexb(base.rand_bytes(rng, n)))
    wl.append("w arr:u8 " + " ".join(base.gen_value(rng, "arr:u8", 16)))
    mh = vrun.run_model("msgpack", wl)
    pre_lines, must_eof = [], set()
    for l, o in zip(wl, mh):
        h = hex_of_ok(o)
        if not h or h == "-":
            continue
        ty = l.split(" ", 2)[1]
        n = len(h) // 2
        cuts = range(n) if n <= 80 or not quick else sorted(set(list(range(40)) + [rng.randrange(40, n) for _ in range(30)] + [n - 1]))
        for c in cuts:
            r = "r %s %s" % (ty, h[:2 * c] or "-")
            pre_lines.append(r)
            must_eof.add(r)

    def mp_judge(line, impl, model):
        if impl.startswith("crash"):
            return "Reader crashes on a truncated stream (%s)" % impl
        if line in must_eof and impl != "err eof":
            return "a proper prefix of a valid encoding is not rejected with EOF: `%s`" % impl[:120]
        return None

    dis, judged, _ = chk.correspond("msgpack", "h_msgpack", [base.corpus("msgpack_damaged.ops") + pre_lines], stateful=False, judge=mp_judge,
                                    cmp=lambda i, m: vrun.same(i, m) or (i == "err alloc" and m == "err eof"))
    base.report(chk, "msgpack", "h_msgpack", dis, judged)
    lap("msgpack")

    # ------------------------------------------------------------ valid files
    objs = []
    for i in range(14 if quick else 60):
        objs.append(("param", small_param(rng, stats=(i % 3))))
    for i in range(8 if quick else 30):
        n = [1, 2, 3, 2, 4, 1, 3, 2][i % 8]
        objs.append(("model", [(p, small_param(rng, stats=rng.choice([0, 0, 1]))) for p in rand_paths(rng, n)]))
    kinds = sorted(base.OPT_ARITY)
    for i in range(8 if quick else 24):
        objs.append(("opt", rand_opt(rng, kinds[i % 6])))
    save_lines, meta = [], []
    for kind, o in objs:
        ws = rng.choice([0, 1, 1])
        if kind == "param":
            save_lines.append("save param %d %s" % (ws, o.tok()))
        elif kind == "model":
            save_lines.append("save model %d %s" % (ws, model_tok(o)))
        else:
            save_lines.append("save opt %s" % o.tok())
        meta.append((kind, o, ws))
    exe = build.build_harness("h_files")
    model_files = [hex_of_ok(x) for x in vrun.run_model("files", save_lines)]
    impl_files = [hex_of_ok(x) for x in vrun.run_impl(exe, save_lines)[0]]
    lap("valid-files")

    lines = []
    info = {}   # line -> dict(kind, initial tokens, cls)
    def add(kind, ws, dev, hx, tgt, cls):
        l = load_line(kind, ws, dev, hx or "-", tgt)
        if l not in info:
            lines.append(l)
            info[l] = {"kind": kind, "init": target_tokens(kind, tgt), "cls": cls}

    def fresh_target(kind, o):
        if kind == "param":
            return small_param(rng) if rng.random() < 0.8 else P(False)
        if kind == "model":
            t = [(p, small_param(rng, stats=rng.choice([0, 1])) if rng.random() < 0.85 else P(False)) for p, _ in o]
            rng.shuffle(t)
            return t
        return rand_opt(rng, o.kind)

    nsub = 3 if quick else 8
    full_sub_budget = 0 if quick else 6
    for (kind, o, ws), mf, imf in zip(meta, model_files, impl_files):
        srcs = [h for h in (mf, imf if imf != mf else None) if h]
        for si, hx in enumerate(srcs):
            b = bytes.fromhex(hx)
            tgt = fresh_target(kind, o)
            wl_, dev = rng.choice([0, 1, 1]), rng.choice("nem")
            if si == 0:
                add(kind, wl_, dev, hx, tgt, "valid")
            # every truncation point
            for c in range(len(b)):
                add(kind, wl_, dev, b[:c].hex(), tgt, "truncation")
            if si > 0 and quick:
                continue
            # substitutions at every position
            allsub = full_sub_budget > 0 and len(b) < 120
            if allsub:
                full_sub_budget -= 1
            for pos in range(len(b)):
                if allsub:
                    vals = [v for v in range(256) if v != b[pos]]
                else:
                    vals = set()
                    vals.add(b[pos] ^ (1 << rng.randrange(8)))
                    vals.add(rng.choice(INTERESTING))
                    while len(vals) < nsub:
                        vals.add(rng.randrange(256))
                    vals.discard(b[pos])
                for v in vals:
                    add(kind, wl_, dev, (b[:pos] + bytes([v]) + b[pos + 1:]).hex(), tgt, "substitution")
            # trailing bytes (accepted), byte deletion / duplication
            add(kind, wl_, dev, (b + base.rand_bytes(rng, 3)).hex(), tgt, "trailing")
            for _ in range(3):
                pos = rng.randrange(len(b))
                add(kind, wl_, dev, (b[:pos] + b[pos + 1:]).hex(), tgt, "deletion")
                add(kind, wl_, dev, (b[:pos] + b[pos:pos + 1] + b[pos:]).hex(), tgt, "insertion")
    for kind in ("param", "model", "opt"):
        o = next(o for k, o, _ in meta if k == kind)
        add(kind, 1, "n", "missing", fresh_target(kind, o), "missing")

    # ------------------------------------------------------------ structured corruptions (independent encoder)
    must_reject = set()
    def crafted(kind, data, tgt, reject, ws=1, dev="n"):
        l = load_line(kind, ws, dev, data.hex() or "-", tgt)
        if l not in info:
            lines.append(l)
            info[l] = {"kind": kind, "init": target_tokens(kind, tgt), "cls": "crafted"}
            if reject:
                must_reject.add(l)
    H = base.file_header
    for rep in range(2 if quick else 10):
        tgt = small_param(rng)
        dims = rng.choice([[2], [2, 3], []])
        n = base.vol(dims)
        words = rand_words(rng, n)
        val = (dims, 1, words)
        st = [(b"m", ([2], 1, rand_words(rng, 2)))]
        good = base.enc_param_record(val, st)
        crafted("param", H(0x200) + good, tgt, False)
        for (ma, mi) in [(1, 1), (0, 0), (0, 2), (1, 0), (2**32 - 1, 1), (0, 257)]:
            crafted("param", H(0x200, ma, mi) + good, tgt, True)
        for tag in [0x0, 0x100, 0x300, 0x400, 0x201, 0x2, 0x20000, 2**32 - 1]:
            crafted("param", H(tag) + good, tgt, True)
        crafted("param", b"\xcd\x00\x00" + base.mp_u32(1) + base.mp_u32(0x200) + good, tgt, True)        # uint16 major
        crafted("param", b"\x00\x01" + base.mp_u32(0x200) + good, tgt, True)                             # positive fixint version
        for batch in (0, 2, 3, 2**32 - 1):
            w2 = rand_words(rng, n * batch) if batch < 10 else words
            crafted("param", H(0x200) + base.enc_param_record((dims, batch, w2), st), tgt, True)
        for bad_dims in ([0], [2, 0], [65536, 65536], [2**32 - 1, 2], [1] * 9, [2] * 9, [2**32 - 1] * 8):
            crafted("param", H(0x200) + base.enc_shape(bad_dims, 1) + base.mp_bin(b"\0" * 8) + base.mp_u32(0), tgt, True)
        for delta in (-4, -1, 1, 4):
            payload = b"".join(struct.pack("<I", w) for w in words)
            payload = payload[:len(payload) + delta] if delta < 0 else payload + b"\0" * delta
            crafted("param", H(0x200) + base.enc_shape(dims, 1) + base.mp_bin(payload) + base.mp_u32(0), tgt, True)
        # non-shortest but well-formed prefixes: accepted
        payload = b"".join(struct.pack("<I", w) for w in words)
        crafted("param", H(0x200) + base.enc_shape(dims, 1) + b"\xc5" + struct.pack(">H", len(payload)) + payload + base.mp_u32(0), tgt, False)
        crafted("param", H(0x200) + base.enc_shape(dims, 1) + b"\xc6" + struct.pack(">I", len(payload)) + payload + base.mp_u32(0), tgt, False)
        crafted("param", H(0x200) + b"\xdc" + struct.pack(">H", len(dims)) + b"".join(base.mp_u32(d) for d in dims) + base.mp_u32(1) + base.mp_bin(payload) + base.mp_u32(0), tgt, False)
        # dims as uint8 elements, payload as str: type errors
        crafted("param", H(0x200) + base.mp_arr_hdr(1) + b"\xcc\x01" + base.mp_u32(1) + base.mp_bin(b"\0" * 4) + base.mp_u32(0), tgt, True)
        crafted("param", H(0x200) + base.enc_shape(dims, 1) + base.mp_str(payload) + base.mp_u32(0), tgt, True)
        # statistics count too large / too small, duplicate keys, key not a str
        body = base.enc_tensor(*val)
        ent = base.mp_str(b"m") + base.enc_tensor(*st[0][1])
        crafted("param", H(0x200) + body + base.mp_u32(2) + ent, tgt, True)
        crafted("param", H(0x200) + body + base.mp_u32(2**32 - 1) + ent, tgt, True)
        crafted("param", H(0x200) + body + base.mp_u32(0) + ent, tgt, False)
        crafted("param", H(0x200) + body + base.mp_u32(2) + ent + base.mp_str(b"m") + base.enc_tensor([3], 1, rand_words(rng, 3)), tgt, False)
        crafted("param", H(0x200) + body + base.mp_u32(1) + base.mp_bin(b"m") + base.enc_tensor(*st[0][1]), tgt, True)
        crafted("param", H(0x200) + body + base.mp_u32(1) + base.mp_str(b"b") + base.enc_tensor([2], 3, rand_words(rng, 6)), tgt, False)
        # a minibatched statistics / value record that carries the payload of a single sample (and the converse)
        for b2 in (2, 3):
            sw = rand_words(rng, 2)
            crafted("param", H(0x200) + body + base.mp_u32(1) + base.mp_str(b"m") + base.enc_shape([2], b2) + base.mp_bin(b"".join(struct.pack("<I", w) for w in sw)), tgt, True)
            crafted("param", H(0x200) + base.enc_shape(dims, b2) + base.mp_bin(payload) + base.mp_u32(0), tgt, True)
            crafted("param", H(0x200) + body + base.mp_u32(1) + base.mp_str(b"m") + base.enc_shape([2], 1) + base.mp_bin(b"".join(struct.pack("<I", w) for w in sw * b2)), tgt, True)
        # dimensions whose product wraps modulo 2^64 (or 2^32) to a small number r, with a payload of r floats
        for (r, wd) in WRAPS if not quick or rep == 0 else rng.sample(WRAPS, 4):
            pl = b"".join(struct.pack("<I", w) for w in rand_words(rng, r))
            rec_w = base.enc_shape(wd, 1) + base.mp_bin(pl) + base.mp_u32(0)
            crafted("param", H(0x200) + rec_w, tgt, True)
            wd2 = list(wd); rng.shuffle(wd2)
            crafted("param", H(0x200) + base.enc_shape(wd2 + [1], 1) + base.mp_bin(pl) + base.mp_u32(0), tgt, True)
            crafted("param", H(0x200) + body + base.mp_u32(1) + base.mp_str(b"m") + rec_w[:-5], tgt, True)   # as a statistics record
        # gigantic lengths
        crafted("param", H(0x200) + base.enc_shape(dims, 1) + b"\xc6\xff\xff\xff\xff" + payload, tgt, True)
        crafted("param", H(0x200) + base.enc_shape(dims, 1) + b"\xc6\x7f\xff\xff\xff" + payload, tgt, True)
        crafted("param", H(0x200) + b"\xdd\xff\xff\xff\xff" + payload, tgt, True)
        crafted("param", H(0x200) + b"\xdd\x03\xff\xff\xff" + payload, tgt, True)
        crafted("param", H(0x200) + body + base.mp_u32(1) + b"\xdb\xff\xff\xff\xff" + payload, tgt, True)
        crafted("param", b"", tgt, True)
        # model files
        paths = rand_paths(rng, 3)
        mt = [(p, small_param(rng, stats=0)) for p in paths]
        rec = lambda: base.enc_param_record((dims, 1, rand_words(rng, n)), [])
        key = lambda p: base.mp_arr_hdr(len(p)) + b"".join(base.mp_str(x) for x in p)
        crafted("model", H(0x300) + base.mp_u32(2) + key(paths[0]) + rec() + key(paths[2]) + rec(), mt, False)
        crafted("model", H(0x300) + base.mp_u32(2) + key(paths[0]) + rec() + key(paths[0]) + rec(), mt, False)       # same name twice
        crafted("model", H(0x300) + base.mp_u32(2) + key(paths[1]) + rec() + key(paths[1] + (b"zz",)) + rec(), mt, True)  # unknown name
        crafted("model", H(0x300) + base.mp_u32(1) + key(paths[0][:-1]) + rec(), mt, True)                           # name of a submodel / empty
        crafted("model", H(0x300) + base.mp_u32(1) + key(()) + rec(), mt, True)
        crafted("model", H(0x300) + base.mp_u32(3) + key(paths[0]) + rec() + key(paths[1]) + rec(), mt, True)        # count too large
        crafted("model", H(0x300) + base.mp_u32(1) + base.mp_arr_hdr(1) + base.mp_bin(paths[0][0]) + rec(), mt, True)  # key element is bin
        crafted("model", H(0x300) + base.mp_u32(1) + b"\xdd\xff\xff\xff\xff" + rec(), mt, True)
        crafted("model", H(0x300) + base.mp_u32(2) + key(paths[0]) + rec() + key(paths[1]) + base.enc_param_record((dims, 2, rand_words(rng, 2 * n)), []), mt, True)
        for (r, wd) in rng.sample(WRAPS, 3 if quick else len(WRAPS)):
            pl = b"".join(struct.pack("<I", w) for w in rand_words(rng, r))
            crafted("model", H(0x300) + base.mp_u32(2) + key(paths[0]) + rec() + key(paths[1]) + base.enc_shape(wd, 1) + base.mp_bin(pl) + base.mp_u32(0), mt, True)
        crafted("model", H(0x200) + good, mt, True)
        crafted("model", H(0x300) + base.mp_u32(0), mt, False)
        # optimizer files
        o = rand_opt(rng)
        to = rand_opt(rng, o.kind)
        fk = base.BASE_FKEYS + base.OPT_KEYS[o.kind]
        um = lambda items: base.mp_map_hdr(len(items)) + b"".join(base.mp_str(k.encode()) + base.mp_u32(v) for k, v in items)
        fm = lambda items: base.mp_map_hdr(len(items)) + b"".join(base.mp_str(k.encode()) + base.mp_f32w(v) for k, v in items)
        ue = [("Optimizer.epoch", o.epoch)]
        fe = list(zip(fk, o.words))
        crafted("opt", H(0x400) + um(ue) + fm(fe), to, False)
        crafted("opt", H(0x400) + um([]) + fm(fe[1:3]), to, False)                                  # missing keys: only the present ones are taken
        crafted("opt", H(0x400) + um(ue + [("Unknown.key", 7)]) + fm(fe + [("X", 1), ("", 2)]), to, False)
        crafted("opt", H(0x400) + um(ue + [("Optimizer.epoch", 99)]) + fm(fe[:1] + [(fe[0][0], 0x12345678)] + fe[1:]), to, False)  # duplicate keys
        crafted("opt", H(0x400) + fm(fe) + um(ue), to, True)                                        # maps in the wrong order
        crafted("opt", H(0x400) + um(ue) + um(ue), to, True)
        crafted("opt", H(0x400) + um(ue), to, True)
        crafted("opt", H(0x400) + b"\xde\x00\x01" + base.mp_str(b"Optimizer.epoch") + base.mp_u32(o.epoch) + b"\xdf\x00\x00\x00\x00", to, False)  # map16 / map32
        crafted("opt", H(0x400) + b"\xdf\xff\xff\xff\xff" + base.mp_str(b"Optimizer.epoch") + base.mp_u32(1), to, True)
        crafted("opt", H(0x400) + base.mp_map_hdr(1) + base.mp_u32(1) + base.mp_u32(1) + fm(fe), to, True)   # key is not a str
        crafted("opt", H(0x400) + um(ue) + base.mp_map_hdr(1) + base.mp_str(b"SGD.eta") + b"\xcb" + b"\0" * 8, to, True)   # double instead of float
        for tag in (0x0, 0x200, 0x300, 0x401):
            crafted("opt", H(tag) + um(ue) + fm(fe), to, True)
        crafted("opt", H(0x400, 0, 0) + um(ue) + fm(fe), to, True)

    # ------------------------------------------------------------ failing saves
    sf_lines, must_fail = [], {}
    for idx in range(len(meta)):
        (kind, o, ws), mf = meta[idx], model_files[idx]
        if not mf:
            continue
        n = len(mf) // 2      # all of these files are smaller than the stream buffer: only the final flush can fail
        body = save_lines[idx][len("save "):]
        full = (idx % 3 == 0) or not quick
        sinks = ["full", "nodir", "isdir", "cap0", "cap1", "cap14", "cap%d" % (n - 1), "cap%d" % n, "cap%d" % (n + 10)] if full \
            else ["full", "cap%d" % (n - 1), "cap%d" % n]
        for sink in sinks:
            l = "savefail %s %s" % (sink, body)
            sf_lines.append(l)
            cap = None if not sink.startswith("cap") else int(sink[3:])
            if sink in ("nodir", "isdir"):
                must_fail[l] = "%s:unopenable" % kind
            elif cap is None or cap < n:
                must_fail[l] = "%s:%s" % (kind, "device-full" if cap is None else "size-limit")
    # a file larger than the stream buffer: the failure happens in the middle of writing
    bigp = P(True, "n", T([3000], 1, rand_words(rng, 3000)), [0] * 3000, {b"m": T([3000], 1, rand_words(rng, 3000))})
    nbig = len(hex_of_ok(vrun.run_model("files", ["save param 1 " + bigp.tok()])[0])) // 2
    for sink in ["full", "cap4096", "cap8192", "cap12000", "cap%d" % (nbig - 1), "cap%d" % nbig, "cap%d" % (nbig + 5000)]:
        l = "savefail %s param 1 %s" % (sink, bigp.tok())
        sf_lines.append(l)
        if sink == "full" or int(sink[3:]) < nbig:
            must_fail[l] = "param:%s" % ("device-full-after-first-flush" if sink == "full" else "size-limit-midstream")
    sf_lines.append("savefail full param 1 I")
    must_fail["savefail full param 1 I"] = "param:invalid"

    # ------------------------------------------------------------ run and judge
    def f_judge(line, impl, model):
        if impl == "bad-op" and os.environ.get("VERIF_PROF"):
            print("bad-op:", line[:300], flush=True)
        if impl.startswith("crash"):
            return "crashes instead of raising an exception (%s)" % impl
        if line in must_fail:
            if impl != "err":
                return "save to a sink that cannot take all bytes returns normally (`%s`)" % impl
            return None
        inf = info.get(line)
        if not inf:
            return None
        if "MIXED" in impl:
            return "after the call a Parameter's shape, value, gradient or statistics disagree (mix of old and new)"
        verdict, st = states_of(impl)
        if verdict not in ("ok", "err"):
            return None
        mverdict, mst = states_of(model)
        if verdict == "err":
            if inf["kind"] in ("param", "opt") and st != inf["init"]:
                return "a failing load changed the object: `%s` -> `%s`" % (inf["init"][0][:100], (st or ["?"])[0][:100])
            if inf["kind"] == "model":
                for k, (a, b0) in enumerate(zip(st, inf["init"])):
                    if a != b0 and (k >= len(mst) or a != mst[k]):
                        return "a failing Model::load left parameter #%d in a state that is neither the old one nor a completely read record: `%s`" % (k, a[:120])
        else:
            if inf["cls"] in ("truncation", "missing") or line in must_reject:
                return "a file that is not a complete, well-formed file of the expected kind (%s) is accepted" % inf["cls"]
            if mverdict == "err":
                return "the implementation accepts a damaged file (%s) that the independent decoder rejects" % inf["cls"]
        return None

    def nontrivial(line, out):
        return out.startswith("err ") or out.startswith("ok") or out == "err"

    all_lines = base.corpus("files_damaged.ops") + lines + sf_lines
    dis, judged, _ = chk.correspond("files", "h_files", [all_lines], stateful=False, judge=f_judge, nontrivial=nontrivial, timeout=900)
    lap("files")
    # distribution of what was tried
    cls_count = {}
    for l in lines:
        cls_count[info[l]["cls"]] = cls_count.get(info[l]["cls"], 0) + 1
    chk.extra_cov["files_cases_by_class"] = cls_count
    chk.extra_cov["valid_files"] = len([m for m in model_files if m])
    chk.extra_cov["failing_save_cases"] = len(sf_lines)

    jl = set()
    for j in judged:
        l = j["line"]
        if l in must_fail:
            key = "files:save-failure-unreported:%s" % must_fail[l]
        else:
            inf = info.get(l, {"cls": "?", "kind": "?"})
            cls = "crash" if j["impl"].startswith("crash") else ("accepted" if j["impl"].startswith("ok") else "state-changed")
            key = "files:load:%s:%s:%s:%s" % (inf["kind"], inf["cls"], cls, short(l, 100))
        jl.add(l)
        if len(chk.violations) < 10:
            chk.report(key, "%s: %s" % (short(l), j["what"]),
                       {"family": "files", "harness": "h_files", "lines": [l], "observed_impl": j["impl"][:2000], "model": j["model"][:2000]})
    n = 0
    for d in dis:
        if d["line"] in jl:
            continue
        n += 1
        if n > 20:
            break
        chk.report("correspondence:files:%s:%s" % (" ".join(d["line"].split(" ")[:2]), short(d["line"], 100)),
                   "model and implementation disagree on `%s` (impl `%s`, model `%s`); no violation of the property was observed on the implementation "
                   "for this line: the Lean model no longer describes the code" % (short(d["line"]), d["impl"][:200], d["model"][:200]),
                   {"family": "files", "harness": "h_files", "lines": [d["line"]], "observed_impl": d["impl"][:2000], "model": d["model"][:2000],
                    "broken": "correspondence files/h_files"}, found_input=False)

    broken = chk.broken_obligations()
    if broken and not chk.violations:
        for name, why in broken.items():
            chk.report("obligation:" + name, "theorem %s no longer checks: %s" % (name, why),
                       {"theorem": name, "reason": why, "log": (chk.oblig or {}).get("log_tail", "")[-1500:]}, found_input=False)
    chk.trusted += [
        "modelled, not verified: Model/Msgpack.lean and Model/Files.lean (tied to the code by this correspondence run); `load` is modelled with the commit at "
        "the end, so the atomicity theorems are as strong as the correspondence of the post-states printed by the harness",
        "the harness caps a single allocation at 256 MiB (operator new wrapper in front of the sanitizer's): a larger request throws std::bad_alloc, which the "
        "harness counts as a clean rejection; the uncapped code allocates up to 4 GiB (bin32) / 128 GiB (array32 of strings) before it notices EOF — a resource "
        "observation, not a violation",
        "write failure after open is produced with /dev/full and RLIMIT_FSIZE (SIGXFSZ ignored); other failure modes of the file system are not exercised",
        "the harness reads Parameter::stats_ and writes the private fields of Optimizer through `#define private public`",
    ]
    chk.notes.append("observed, not counted as damage: bytes after a complete record are ignored by all three loaders; an Optimizer file with missing keys "
                     "is accepted and sets only the keys present")
