"""C15 — checkpoint and resume is equivalent to uninterrupted training."""
import os
from translate import optimizers as tr
from vlib import build, check as vcheck
from props import optimlib as ol
from props.optimlib import f32, f2x, xs
from props.C12 import (Table, SHAPES, size, rand_hyper, exact_hyper, EPOCH_BOUNDS, cut_history, kind_of, classify,
                       report_violations, LR_LIKE)

MODS = ["PrimitivModel.Props.C15"]
CORPUS = os.path.join(build.VERIF, "corpus", "optim_resume.ops")
PATHS = ["w", "b", "enc.w", "enc.b", "enc.cell.u", "dec.w", "dec.att.q", "x"]


class Config:
    """One (algorithm, settings, model tree): an uninterrupted run of `total`
    steps; at every step in `cuts` a checkpoint is taken and restored into
    fresh objects, and every resumed copy is trained in lockstep with the
    original and compared with it after every step."""

    def __init__(self, rng, T, total, cuts, kind=None, cross=False, boundary=None, force_clip=None, zeros=False):
        self.rng, self.T = rng, T
        self.kind = kind or rng.choice(T.kinds)
        self.total, self.cuts = total, cuts
        self.cross = cross
        self.boundary = boundary
        self.zeros = zeros          # hyper-parameters / scalings that are exactly 0 at checkpoint time
        self.exact = (not cross) and self.kind in ("SGD", "MomentumSGD") and rng.random() < 0.4
        self.clip = (rng.random() < 0.3) if force_clip is None else force_clip
        if self.exact:
            self.clip = False

    def val(self):
        r = self.rng
        if self.exact:
            return float(r.choice([-3, -2, -1, 0, 1, 2, 3])) / r.choice([1, 2])
        return f32(r.uniform(-2, 2))

    def coef(self):
        r = self.rng
        if self.exact:
            return float(r.choice([-1, 0, 1, 1])) / r.choice([1, 2])
        return f32(r.uniform(-1, 1))

    def build(self):
        r, T, k = self.rng, self.T, self.kind
        L = ["mode exact" if self.exact else "mode float"]
        dev0 = r.choice(["naive", "eigen"]) if self.cross else "naive"
        L.append("device " + dev0)
        fields = T.fields(k)
        if self.exact:
            h = [exact_hyper(r, k, f) for f in fields]
        elif r.random() < 0.2:
            h = []
        else:
            h = [rand_hyper(r, k, f) for f in fields]
        if self.zeros:
            # a saved zero must come back as zero, not as the constructor default
            h = [(exact_hyper(r, k, f) if self.exact else rand_hyper(r, k, f)) for f in fields]
            cand = [i for i, f in enumerate(fields) if (k, f) not in LR_LIKE]
            for i in (r.sample(cand, r.randint(1, len(cand))) if cand else []):
                h[i] = 0.0
        if self.cross:
            # copies restored on the OTHER backend are only `near` the original (last-bit differences of the kernels): keep
            # the adaptive rules well conditioned there — no zero decay rate (beta2 = 0 / alpha = 0 / rho = 0 make the step
            # g / (|g| + eps), which amplifies a last-bit difference without bound) and no tiny eps
            h = [(0.9 if (v == 0.0 and (k, f) not in LR_LIKE) else (1e-3 if (f == "eps_" and v < 1e-3) else v)) for v, f in zip(h, fields)]
        L.append(("opt 0 %s %s" % (k, " ".join(f2x(v) for v in h))).strip())
        self.h = h
        # settings: scaling, decay, clipping, epoch
        if r.random() < 0.7:
            L.append("set 0 lr_scale %s" % f2x(r.choice([0.5, 2.0, 0.25]) if self.exact else f32(r.uniform(0.1, 2))))
        if r.random() < 0.6:
            L.append("set 0 l2_strength %s" % f2x(r.choice([0.5, 0.25, 0.125]) if self.exact else f32(r.choice([0.01, 0.1, 0.5]))))
        if self.clip:
            # thresholds well below and well above the joint norms of this loss (about 1..6)
            L.append("set 0 clip_threshold %s" % f2x(f32(r.choice([0.25, 0.5, 1.0, 3.0, 6.0, 12.0, 40.0]))))
        if self.boundary is not None:
            L.append("set 0 epoch u%d" % self.boundary)
        elif r.random() < 0.4:
            L.append("set 0 epoch u%d" % r.choice([1, 3, 10, 1000]))
        m = r.choice([1, 2, 2, 3])
        sizes = []
        for p in range(m):
            sh = r.choice(SHAPES)
            sizes.append(size(sh))
            L.append("param %d %s %s" % (p, ",".join(map(str, sh)) or "-", xs([self.val() for _ in range(sizes[-1])])))
        if r.random() < 0.5:
            L.append("addm 0 " + " ".join(map(str, range(m))))
        else:
            for p in range(m):
                L.append("add 0 %d" % p)
        paths = r.sample(PATHS, m)
        if m >= 2 and r.random() < 0.3:
            # names containing dots: two different name lists that print as the same dotted path
            paths[:2] = r.choice([["enc/l0.w", "enc.l0/w"], ["a.b/c", "a/b.c"]])
        names = " ".join(T.stat_names)
        how_same = "near" if (self.clip or self.cross) else "bits"
        copies = []          # (optimizer id, first parameter id)
        nparams, nopts = m, 1
        for step in range(self.total + 1):
            if step in self.cuts:
                tag = "T%d" % step
                # chained interruption (Resume.equiv_chain): half of the later checkpoints are taken from the
                # latest resumed copy — a run that was itself restored from a file — instead of the original
                src_o, src_base, src_how = 0, 0, how_same
                if copies and r.random() < 0.5:
                    src_o, src_base, src_how = copies[-1]
                    self.chained = getattr(self, "chained", 0) + 1
                L.append("checkpoint %d %s %s" % (src_o, tag, " ".join("%d:%s" % (src_base + p, paths[p]) for p in range(m))))
                # another device instance of the same backend half of the time (a gradient or statistic left
                # on the old device shows as "Device mismatched" in the first step after the restore)
                dev = r.choice(["naive", "naive2"]) if not self.cross else r.choice(["naive", "eigen", "naive2"])
                # half of the resumes register the fresh (valid, zero) model with the fresh optimizer
                # before loading it — loaded statistics must replace the ones `add` created
                devtok = dev + ("+addfirst" if r.random() < 0.5 else "")
                L.append("restore %s %d %s %s %s" % (tag, nopts, k, devtok, " ".join(str(nparams + p) for p in range(m))))
                same_backend = dev.rstrip("2") == dev0
                copies.append((nopts, nparams, src_how if same_backend else "near"))
                # immediately after the restore (n = 0)
                L.append("osame 0 %d" % nopts)
                for p in range(m):
                    L.append("same %d %d %s %s" % (p, nparams + p, copies[-1][2], names))
                nopts += 1
                nparams += m
            if step == self.total:
                break
            if self.zeros and step in self.cuts and r.random() < 0.6:
                # frozen phase: lr_scale was 0 at checkpoint time; unfreeze original and copies alike
                unfrozen = 1.0 if self.exact else f32(r.choice([1.0, 0.5]))
                for o in [0] + [c[0] for c in copies]:
                    L.append("set %d lr_scale %s" % (o, f2x(unfrozen)))
            if self.zeros and (step + 1) in self.cuts and r.random() < 0.6:
                for o in [0] + [c[0] for c in copies]:
                    L.append("set %d lr_scale %s" % (o, f2x(0.0)))
            # one training step of the original and of every resumed copy, on the same data
            ab = [([self.coef() for _ in range(sizes[p])], [self.coef() for _ in range(sizes[p])]) for p in range(m)]
            for p in range(m):
                L.append("lgrad %d %s %s" % (p, xs(ab[p][0]), xs(ab[p][1])))
            L.append("update 0")
            if self.clip:
                for p in range(m):
                    L.append("pstate %d" % p)         # the clipped / unclipped gradients (measured below)
            for (o, base, how) in copies:
                for p in range(m):
                    L.append("lgrad %d %s %s" % (base + p, xs(ab[p][0]), xs(ab[p][1])))
                L.append("update %d" % o)
                L.append("osame 0 %d" % o)
                for p in range(m):
                    L.append("same %d %d %s %s" % (p, base + p, how, names))
        for p in range(m):
            L.append("pstate %d %s" % (p, names))
        L.append("state 0")
        if copies:
            L.append("state %d" % copies[-1][0])
        # the statement of Resume.equiv as one experiment (initState / train / checkpoint / restore of the model)
        if not self.cross:
            kk = r.randint(0, self.total)
            nn = self.total - kk
            ep = self.boundary if self.boundary is not None else r.choice([0, 0, 1, 7])
            lr = r.choice([1.0, 0.5, 2.0]) if self.exact else f32(r.uniform(0.1, 2))
            l2 = r.choice([0.0, 0.5, 0.25]) if self.exact else f32(r.choice([0.0, 0.01, 0.1]))
            clip = f32(r.choice([0.5, 1.0, 3.0])) if self.clip else 0.0
            na = r.randint(1, 3)
            ps = []
            for p in range(m):
                sh = r.choice(SHAPES)
                ps += [",".join(map(str, sh)) or "-", xs([self.val() for _ in range(size(sh))])]
            L.append("resume %s %d %d %s %s %s %s u%d %s %s %s %s" % (
                k, kk, nn, xs(self.h), f2x(lr), f2x(l2), f2x(clip), ep, xs([self.coef() for _ in range(na)]),
                xs([self.coef() for _ in range(na)]), ",".join(T.stat_names), " ".join(ps)))
        return L


def count_clip_sides(streams_out):
    """post-resume training steps with clipping on: how many had a joint norm above the threshold
    (gradients rescaled to it) and how many below (no clipping)"""
    above = below = 0
    for lines, impl in streams_out:
        clip, resumed = 0.0, False
        for i, (l, o) in enumerate(zip(lines, impl)):
            w = l.split(" ")
            if w[0] == "mode":
                clip, resumed = 0.0, False
            elif w[0] == "set" and w[1] == "0" and w[2] == "clip_threshold" and o.startswith("ok"):
                clip = ol.x2f(w[3])
            elif w[0] == "restore" and o.startswith("ok"):
                resumed = True
            elif l == "update 0" and clip > 0 and resumed and o.startswith("ok"):
                sq, n = 0.0, 0
                for l2, o2 in zip(lines[i + 1:i + 6], impl[i + 1:i + 6]):
                    if not l2.startswith("pstate ") or not o2.startswith("ok"):
                        break
                    g = [t for t in o2.split(" ") if t.startswith("g=")][0][2:]
                    sq += sum(ol.x2f(t) ** 2 for t in g.split(",") if t.startswith("x"))
                    n += 1
                if n:
                    if abs(sq ** 0.5 - clip) <= 1e-3 * clip:
                        above += 1
                    elif sq ** 0.5 < clip:
                        below += 1
    return above, below


def judge_line(line, impl):
    """verdicts that do not need the model or the specification"""
    w = line.split(" ")[0]
    if w == "resume" and not impl.startswith("ok same"):
        return "train(k+n) differs from train n after restore(checkpoint(train k)), or the experiment fails (%s)" % impl[:120]
    if w in ("same", "osame") and impl.startswith("ok differ"):
        return "the resumed run differs from the uninterrupted run (%s)" % impl
    if w == "restore" and impl.startswith("err"):
        return "restoring the checkpoint into fresh objects fails (%s)" % impl
    if w == "checkpoint" and impl.startswith("err"):
        return "saving the checkpoint fails (%s)" % impl
    return None


def run(chk):
    quick = chk.tier == "quick"
    chk.rule = ("configurations (algorithm x hyper-parameters x lr-scaling / weight decay / clipping / epoch settings x model tree of 1-3 "
                "parameters with hierarchical names) generated from one PRNG; an uninterrupted run of N steps (gradients of a "
                "deterministic quadratic loss through a fresh Graph per step); at the cut points a real Optimizer::save + "
                "Model::save(with_stats) into a temporary directory and a load into freshly constructed objects (another device "
                "instance / backend in the cross-backend part); every resumed copy is then trained in lockstep with the original on "
                "the same data and compared with it after every step inside the harness: raw bits (same backend, clipping off) or "
                "within 2^-18 (clipping on, cross-backend). quick: 60 configurations, N <= 5, 2 cuts; thorough: 500 configurations, "
                "N = 12, a cut at every step (all k + n <= 12). The same lines run on the Lean model (checkpoint/restore of "
                "Model/Resume.lean). Non-trivial = the call succeeded; distinct = distinct lines.")
    ol.obligations_with_gen(chk, MODS, tr.generate, tr.OUT)
    T = Table()
    hists = []
    if os.path.exists(CORPUS):
        cur = []
        for l in open(CORPUS):
            l = l.rstrip("\n")
            if not l.strip() or l.startswith("#"):
                continue
            if l.startswith("mode ") and cur:
                hists.append(cur); cur = []
            cur.append(l)
        if cur:
            hists.append(cur)
    n_cfg = 60 if quick else 500
    r = chk.rng
    pairs = 0
    chained = 0      # checkpoints taken from a run that was itself restored from a checkpoint (Resume.equiv_chain)
    for i in range(n_cfg):
        kind = T.kinds[i % len(T.kinds)]
        if quick:
            total = r.randint(2, 5)
            cuts = set(r.sample(range(0, total + 1), 2))
            if min(cuts) == total:
                cuts = {total - 1, total}
            cross = (i % 10 == 7)
            boundary = r.choice(EPOCH_BOUNDS) if i % 12 == 5 else None
        else:
            total = 12
            cuts = set(range(0, 13))
            cross = (i % 5 == 4)
            boundary = EPOCH_BOUNDS[(i // 10) % len(EPOCH_BOUNDS)] if i % 10 == 3 else None
        force_clip = True if i % 6 == 2 else None
        c = Config(r, T, total, cuts, kind=kind if (boundary is None or i % 2) else "Adam", cross=cross, boundary=boundary,
                   force_clip=force_clip, zeros=(i % 5 == 1))
        hists.append(c.build())
        chained += getattr(c, "chained", 0)
        pairs += sum(total - k + 1 for k in cuts)
    per_stream = 6 if quick else 10
    streams, cur = [], []
    for j, h in enumerate(hists):
        cur += h
        if (j + 1) % per_stream == 0:
            streams.append(cur); cur = []
    if cur:
        streams.append(cur)
    # only C15's own verdicts are judged here (resumed != uninterrupted, restore fails, crash); whether the
    # update rules are the right ones is C12
    R = ol.Runner(chk, judge_line=judge_line, use_spec=False)
    dis, judged, crashes = R.correspond(streams, timeout=900)
    cmp_lines = [(l, o) for lines, impl in R.streams_out for l, o in zip(lines, impl) if l.startswith(("same ", "osame "))]
    chk.extra_cov["resume_experiments_train_restore_checkpoint"] = len(
        [1 for lines, impl in R.streams_out for l, o in zip(lines, impl) if l.startswith("resume ") and o.startswith("ok same")])
    chk.extra_cov["configurations"] = len(hists)
    ab, be = count_clip_sides(R.streams_out)
    chk.extra_cov["post_resume_steps_clipping_on_norm_above_threshold"] = ab
    chk.extra_cov["post_resume_steps_clipping_on_norm_below_threshold"] = be
    chk.extra_cov["restores_onto_another_device_instance_naive2"] = len(
        [1 for lines, impl in R.streams_out for l, o in zip(lines, impl) if l.startswith("restore ") and " naive2" in l and o == "ok"])
    chk.extra_cov["configurations_with_zero_hyperparameters_or_frozen_lr_scale"] = len(
        [1 for h in hists if any(l.startswith("opt 0") and " x00000000" in l for l in h) or any(l.endswith("lr_scale x00000000") for l in h)])
    chk.extra_cov["interruption_continuation_pairs"] = pairs
    chk.extra_cov["chained_checkpoints"] = chained
    chk.extra_cov["comparisons_resumed_vs_uninterrupted"] = len(cmp_lines)
    chk.extra_cov["of_those_bit_exact_mode"] = len([1 for l, o in cmp_lines if " bits " in l])
    chk.extra_cov["of_those_equal"] = len([1 for l, o in cmp_lines if o == "ok same"])
    chk.extra_cov["max_deviation_impl_vs_model_float32_relative_to_quantity_scale"] = R.model_cmp.max_dev
    report_violations(chk, judged, quick, use_spec=False, judge_line=judge_line, expected="verdict:",
                      protect=("mode", "device", "opt", "param", "add", "addm", "checkpoint", "restore"))
    if not chk.violations:
        for d in dis:
            hist = cut_history(d["lines"])
            kind = kind_of(hist)
            op = d["line"].split(" ")[0]
            chk.report("correspondence:optim-resume:%s:%s" % (kind, op),
                       "model and implementation disagree on `%s` of a %s checkpoint/resume history (impl `%s`, model `%s`) although "
                       "the resumed run equals the uninterrupted one there; the Lean model no longer describes the code" % (
                           d["line"][:120], kind, d["impl"][:200], d["model"][:200]),
                       {"family": "optim", "harness": "h_optim", "stateful": True, "lines": hist, "observed_impl": d["impl"],
                        "model": d["model"], "broken": "correspondence optim/h_optim"}, found_input=False)
    for c in crashes:
        if c.get("at_exit"):
            chk.report("optim-resume:crash-at-exit:" + c["kind"], "the harness process fails at exit (%s)" % c["kind"],
                       {"family": "optim", "stderr": c.get("stderr", "")[-1500:]}, found_input=True)
    ol.report_broken(chk)
    from props import C20 as _c20
    _c20.run_eq_leg(chk, lambda name: "Save" in name or "Load" in name or "Optimizer" in name)    # checkpoint and resume through the C API
    chk.trusted += [
        "depends on property C13: `checkpoint`/`restore` of Model/Resume.lean keep exactly the get_configs maps and value + all named statistics of every parameter; that Optimizer::save/load and Model::save/load(with_stats=true) carry these data bit for bit through the file is C13's statement (here it is only exercised: the harness saves to and loads from real temporary files)",
        "modelled, not verified: Optimizer::update/add and Parameter are hand-modelled (Model/Optimizer.lean); update_parameter, configure_parameter, get_configs/set_configs, constructor defaults and the base-class settings are translated from the sources on every run",
        "the gradient source of the theorem is an arbitrary function of the step number and the current values (a deterministic model on deterministic data); graph construction, forward and backward are properties C01-C06",
        "not shown: float32 rounding; that the same float32 operation sequence on identical words gives identical words (bit-identity with clipping off) is observed by the harness comparison, the theorem is over an ordered field",
    ]
    chk.notes += [
        "Model::load needs the same tree of names in the fresh Model; the trees here have depth 1-3 (names of property C16 are not varied beyond that)",
        "with clipping on, the squared norms are summed in unordered_set iteration order, which differs between the original and the restored optimizer: comparison within 2^-18 as the property says",
    ]
