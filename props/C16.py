"""C16 — model registry: unique names, acyclic hierarchy, exact enumeration.

Histories of Model::add over pools of real Model / Parameter / Optimizer
objects, interleaved with enumerations, lookups and optimizer registration,
are executed by the real library (harness h_registry), by the Lean model
(drv_registry) and by the specification below (`Spec`, written from the
property text alone: a dictionary name -> object per model).  A property
violation is a difference between the implementation and `Spec`; a difference
between the implementation and the Lean model where the implementation meets
`Spec` is a broken correspondence."""
import itertools, os
from vlib import run as vrun, build, check as vcheck

MODS = ["PrimitivModel.Props.C16"]
FAMILY, HARNESS = "registry", "h_registry"
NAME_POOL = [b"", b"a", b"b", b"a.b", b"\x00", b"\xff\xfe", b"a\x00b", b".", b" ", b"w1"]


def enc(name):
    return "x" + name.hex()


def dec(tok):
    if not tok.startswith("x") or len(tok) % 2 != 1:
        return None
    h = tok[1:]
    if any(c not in "0123456789abcdef" for c in h):
        return None
    return bytes.fromhex(h)


def num(tok):
    if not tok or any(c not in "0123456789" for c in tok):
        return None
    return int(tok)


class Spec:
    """The registry as the property describes it."""

    def __init__(self):
        self.reset(0, 0)

    def reset(self, nm, np):
        self.models = [dict() for _ in range(nm)]      # name -> ('p', id) | ('m', id)
        self.pvalid = [True] * np
        self.opts = []                                   # [kind, lo(set), hi(set)]

    def reaches(self, a, b):
        """b is a (transitive) submodel of a"""
        seen, todo = set(), [a]
        while todo:
            x = todo.pop()
            for (k, v) in self.models[x].values():
                if k == 'm':
                    if v == b:
                        return True
                    if v not in seen:
                        seen.add(v); todo.append(v)
        return False

    def enumerate(self, m, depth=0):
        """{path (tuple of bytes): pid}; None when the hierarchy is cyclic"""
        if depth > len(self.models):
            return None
        out = {}
        for n, (k, v) in self.models[m].items():
            if k == 'p':
                out[(n,)] = v
            else:
                sub = self.enumerate(v, depth + 1)
                if sub is None:
                    return None
                for path, p in sub.items():
                    out[(n,) + path] = p
        return out

    def show_all(self, m):
        ps = self.enumerate(m)
        if ps is None:
            return "crash"
        if not ps:
            return "ok -"
        return "ok " + ";".join(".".join(enc(n) for n in path) + "=" + str(ps[path]) for path in sorted(ps))

    def resolve(self, m, path, kind):
        if not path:
            return "err"
        cur = m
        for n in path[:-1]:
            e = self.models[cur].get(n)
            if e is None or e[0] != 'm':
                return "err"
            cur = e[1]
        e = self.models[cur].get(path[-1])
        if e is None or e[0] != kind:
            return "err"
        return "ok %d" % e[1]

    def expect(self, line, impl):
        """Expected result of `line` in the current state and, for the two
        operations whose result the property leaves open, a predicate on the
        observed one; updates the state.  Returns (expected, accepted?)."""
        w = line.split()
        op = w[0] if w else ""
        n = len(w)
        M, P, O = len(self.models), len(self.pvalid), len(self.opts)

        def idx(t, bound):
            v = num(t)
            return v if v is not None and v < bound else None
        bad = ("bad-op", None)
        if op == "reset" and n == 3:
            a, b = num(w[1]), num(w[2])
            if a is None or b is None or a > 64 or b > 64:
                return bad
            self.reset(a, b)
            return "ok", None
        if op == "model" and n == 2:
            if num(w[1]) != M:
                return bad
            self.models.append(dict())
            return "ok", None
        if op == "param" and n == 3:
            if num(w[1]) != P or w[2] not in ("v", "i"):
                return bad
            self.pvalid.append(w[2] == "v")
            return "ok", None
        if op in ("addp", "addm") and n == 4:
            m, name = idx(w[1], M), dec(w[2])
            o = idx(w[3], P if op == "addp" else M)
            if m is None or name is None or o is None:
                return bad
            ent = ('p' if op == "addp" else 'm', o)
            cur = self.models[m]
            if cur.get(name) == ent:
                return "ok", None                       # identical object under the identical name
            if name in cur or ent in cur.values():
                return "err", None
            if op == "addm" and (o == m or self.reaches(o, m)):
                return "err", None
            cur[name] = ent
            return "ok", None
        if op in ("all", "trainable") and n == 2:
            m = idx(w[1], M)
            if m is None:
                return bad
            return self.show_all(m), None
        if op in ("getp", "getm") and n >= 2:
            m = idx(w[1], M)
            path = [dec(t) for t in w[2:]]
            if m is None or any(p is None for p in path):
                return bad
            return self.resolve(m, path, 'p' if op == "getp" else 'm'), None
        if op == "opt" and n == 3:
            if num(w[1]) != O or w[2] not in ("sgd", "mom", "rsgd", "rmom"):
                return bad
            # [needs statistics, lo, hi, configure_parameter calls are counted]
            self.opts.append(["mom" if w[2] in ("mom", "rmom") else "sgd", set(), set(), w[2] in ("sgd", "mom")])
            return "ok", None
        if op == "optaddp" and n == 3:
            o, p = idx(w[1], O), idx(w[2], P)
            if o is None or p is None:
                return bad
            kind, lo, hi, _ = self.opts[o]
            if kind == "mom" and not self.pvalid[p]:
                return "err", None                      # never registered before, so this is a fresh add
            lo.add(p); hi.add(p)
            return "ok", None
        if op == "optaddm" and n == 3:
            o, m = idx(w[1], O), idx(w[2], M)
            if o is None or m is None:
                return bad
            kind, lo, hi, _ = self.opts[o]
            ps = self.enumerate(m)
            if ps is None:
                return "crash", None
            vals = set(ps.values())
            if kind == "mom" and any(not self.pvalid[p] for p in vals):
                # rejected; the property does not say which of the valid ones may already be registered
                hi |= {p for p in vals if self.pvalid[p]}
                return "err", None
            lo |= vals; hi |= vals
            return "ok", None
        if op == "optparams" and n == 2:
            o = idx(w[1], O)
            if o is None:
                return bad
            kind, lo, hi, counted = self.opts[o]

            def show(ids):
                if not ids:
                    return "ok -"
                # every registered parameter was configured exactly once
                return "ok " + ",".join(("%d:1" % i) if counted else str(i) for i in sorted(ids))
            if impl.startswith("ok"):
                body = impl[3:].strip()
                try:
                    ids = [] if body == "-" else [int(t.split(":")[0]) for t in body.split(",")]
                except ValueError:
                    return "ok <ids>", None
                s = set(ids)
                if len(s) == len(ids) and ids == sorted(ids) and lo <= s <= hi and impl == show(s):
                    self.opts[o][1] = set(s); self.opts[o][2] = set(s)
                    return impl, None
            if lo == hi:
                return show(lo), None
            return "ok <a set between %s and %s%s>" % (sorted(lo), sorted(hi), ", each configured once" if counted else ""), None
        return bad


def classify(line, impl, exp):
    w = line.split()
    op = w[0] if w else "?"
    if impl.startswith("crash"):
        cls = "crash"
    elif impl == "ok inconsistent":
        cls = "overloads-disagree"
    elif op in ("addp", "addm"):
        cls = "accepts-inadmissible" if impl == "ok" else "rejects-admissible"
    elif op in ("all", "trainable"):
        cls = "wrong-enumeration"
    elif op in ("getp", "getm"):
        cls = "resolves-unreachable-path" if impl.startswith("ok") and exp == "err" else (
            "rejects-reachable-path" if impl == "err" else "wrong-lookup")
    elif op.startswith("opt"):
        cls = "optimizer-registration"
    else:
        cls = "protocol"
    qual = ""
    if op in ("getp", "getm"):
        qual = ":empty-path" if len(w) == 2 else ":path-len-%d" % (len(w) - 2)
    return "registry:%s:%s%s" % (op, cls, qual)


def judge_history(lines, impl):
    """First line of the history on which the implementation departs from the
    specification: (index, expected, class) or None."""
    sp = Spec()
    for i, line in enumerate(lines):
        if i >= len(impl) or impl[i] == "skipped":
            return None
        exp, _ = sp.expect(line, impl[i])
        if impl[i] != exp:
            return i, exp, classify(line, impl[i], exp)
    return None


# ------------------------------------------------------------------ generators

def random_history(rng, maxops=40):
    nm, np_ = rng.randint(3, 5), rng.randint(3, 5)
    names = rng.sample(NAME_POOL, rng.randint(3, 4))
    lines = ["reset %d %d" % (nm, np_)]
    sp = Spec(); sp.reset(nm, np_)
    if rng.random() < 0.5:
        lines.append("param %d i" % np_); np_ += 1
    lines += ["opt 0 sgd", "opt 1 mom", "opt 2 " + rng.choice(["rsgd", "rmom"])]
    for l in lines[1:]:
        sp.expect(l, "")
    nops = rng.randint(5, maxops)
    out = list(lines)

    def some_path(m):
        ps = sp.enumerate(m) or {}
        r = rng.random()
        if ps and r < 0.55:
            path = list(rng.choice(sorted(ps)))
            r2 = rng.random()
            if r2 < 0.25:
                path = path[:-1]                        # partial: names a submodel (or nothing)
            elif r2 < 0.4:
                path = path + [rng.choice(names)]       # overlong
            elif r2 < 0.5 and path:
                path[rng.randrange(len(path))] = rng.choice(names)
            return path
        if r < 0.7:
            return []
        return [rng.choice(names) for _ in range(rng.randint(1, 4))]

    def depth2(root):
        """models at depth >= 2 below root"""
        lvl1 = {e[1] for e in sp.models[root].values() if e[0] == 'm'}
        deep, todo, seen = set(), list(lvl1), set()
        while todo:
            x = todo.pop()
            for e in sp.models[x].values():
                if e[0] == 'm' and e[1] not in seen:
                    seen.add(e[1]); deep.add(e[1]); todo.append(e[1])
        return sorted(deep)

    def emit(line):
        sp.expect(line, "")
        out.append(line)

    while len(out) - len(lines) < nops:
        r = rng.random()
        m = rng.randrange(nm)
        if r < 0.10:
            # late addition below an ancestor that was enumerated before: enumerate, add at depth >= 2, enumerate again
            cands = [(root, d) for root in range(nm) for d in depth2(root)]
            if not cands:
                # grow a chain so that later rounds find one
                emit("addm %d %s %d" % (m, enc(rng.choice(names)), rng.randrange(nm)))
                continue
            root, d = rng.choice(cands)
            emit("all %d" % root)
            free = [n for n in names if n not in sp.models[d]] or names
            if rng.random() < 0.6:
                emit("addp %d %s %d" % (d, enc(rng.choice(free)), rng.randrange(np_)))
            else:
                emit("addm %d %s %d" % (d, enc(rng.choice(free)), rng.randrange(nm)))
            emit("all %d" % root)
            k = rng.random()
            if k < 0.3:
                emit("trainable %d" % root)
            elif k < 0.7:
                o = rng.randrange(3)
                emit("optaddm %d %d" % (o, root)); emit("optparams %d" % o)
            continue
        if r < 0.18:
            # name and object both registered in m, but not with each other: must be rejected (both overloads)
            ents = list(sp.models[m].items())
            if len(ents) >= 2:
                (n1, e1), (n2, e2) = rng.sample(ents, 2)
                emit("%s %d %s %d" % ("addp" if e2[0] == 'p' else "addm", m, enc(n1), e2[1]))
                emit("all %d" % m)
                continue
        if r < 0.33:
            # submodel add: fresh, re-add, duplicate name/object, self, ancestor (cycle attempt)
            k = rng.random()
            ents = [(n, e) for n, e in sp.models[m].items() if e[0] == 'm']
            anc = [a for a in range(nm) if a != m and sp.reaches(a, m)]
            if k < 0.12 and ents:
                n, e = rng.choice(ents); c = e[1]
                if rng.random() < 0.4:
                    n = rng.choice(names)
            elif k < 0.32 and anc:
                n, c = rng.choice(names), rng.choice(anc)
            elif k < 0.38:
                n, c = rng.choice(names), m
            else:
                n, c = rng.choice(names), rng.randrange(nm)
            line = "addm %d %s %d" % (m, enc(n), c)
        elif r < 0.6:
            k = rng.random()
            ents = [(n, e) for n, e in sp.models[m].items() if e[0] == 'p']
            if k < 0.15 and ents:
                n, e = rng.choice(ents); p = e[1]
                if rng.random() < 0.4:
                    n = rng.choice(names)
            else:
                n, p = rng.choice(names), rng.randrange(np_)
            line = "addp %d %s %d" % (m, enc(n), p)
        elif r < 0.68:
            line = "all %d" % m
        elif r < 0.70:
            line = "trainable %d" % m
        elif r < 0.80:
            line = ("getp %d " % m + " ".join(enc(n) for n in some_path(m))).strip()
        elif r < 0.88:
            line = ("getm %d " % m + " ".join(enc(n) for n in some_path(m))).strip()
        elif r < 0.92:
            line = "optaddp %d %d" % (rng.randrange(3), rng.randrange(np_))
        elif r < 0.96:
            line = "optaddm %d %d" % (rng.randrange(3), m)
        else:
            line = "optparams %d" % rng.randrange(3)
        exp, _ = sp.expect(line, "")
        out.append(line)
        if line.startswith("add") and exp == "err" and rng.random() < 0.7:
            # the registry after a rejected add, seen from the model itself and from a root
            for mm in {m, rng.randrange(nm)}:
                out.append("all %d" % mm); sp.expect(out[-1], "")
        if line.startswith("optadd"):
            out.append("optparams " + line.split()[1])
    for mm in range(nm):
        out.append("all %d" % mm)
    out += ["optparams 0", "optparams 1", "optparams 2"]
    return out


def scenario_history(rng):
    """A diamond through a shared submodel plus one Parameter in two sibling
    models; overlapping optimizer registrations (every reachable parameter must
    end up registered and configured once); enumerations before and after late
    additions two and three levels below the root; re-adds whose name and object
    are both registered but not with each other, for both overloads."""
    a, b, s_, w = rng.sample(NAME_POOL, 4)
    out = ["reset 5 4", "param 4 i", "opt 0 sgd", "opt 1 mom", "opt 2 " + rng.choice(["rsgd", "rmom"])]
    build = ["addm 0 %s 1" % enc(a), "addm 0 %s 2" % enc(b), "addm 1 %s 3" % enc(s_), "addm 2 %s 3" % enc(s_),
             "addp 3 %s 0" % enc(w), "addp 1 %s 1" % enc(w), "addp 2 %s 1" % enc(w)]
    rng.shuffle(build)
    out += build + ["all 0"]
    for _ in range(rng.randint(3, 8)):
        o = rng.randrange(3)
        if rng.random() < 0.7:
            out.append("optaddm %d %d" % (o, rng.randrange(4)))
        else:
            out.append("optaddp %d %d" % (o, rng.randrange(2)))
        out.append("optparams %d" % o)
    # late additions at depth 2 and 3 below the root, each between two enumerations of the root
    out += ["all 0", "addm 3 %s 4" % enc(a), "all 0", "addp 4 %s 2" % enc(w), "all 0", "trainable 0",
            ("getp 0 %s %s %s %s" % (enc(a), enc(s_), enc(a), enc(w))), ("getm 0 %s %s %s" % (enc(b), enc(s_), enc(a)))]
    for o in rng.sample(range(3), 3):
        out += ["optaddm %d 0" % o, "optparams %d" % o, "optaddm %d %d" % (o, rng.randrange(5)), "optparams %d" % o]
    out += ["addp 3 %s 3" % enc(s_), "all 0", "optaddm 0 1", "optparams 0"]
    # name and object both registered, not paired
    unpaired = ["addm 0 %s 2" % enc(a), "addm 0 %s 1" % enc(b), "addp 3 %s 0" % enc(a), "addp 1 %s 1" % enc(s_),
                "addm 1 %s 3" % enc(w), "addp 3 %s 0" % enc(s_), "addp 3 %s 3" % enc(w), "addm 3 %s 4" % enc(w)]
    rng.shuffle(unpaired)
    for l in unpaired:
        out += [l, "all %s" % l.split()[1]]
    # an invalid parameter appears late, three levels down
    out += ["all 0", "addp 4 %s 4" % enc(b), "all 0", "optaddm 1 0", "optparams 1", "optaddm 0 0", "optparams 0",
            "optaddm 2 4", "optparams 2"]
    out += ["all %d" % m for m in range(5)]
    return out


def malformed_history(rng):
    toks = ["reset", "model", "param", "addp", "addm", "all", "getp", "getm", "opt", "optaddp", "optaddm", "optparams",
            "0", "1", "2", "7", "99999999999999999999999", "x", "x6", "x61", "xZZ", "61", "v", "i", "sgd", "mom", "-1", "x61x"]
    out = ["reset 2 2", "opt 0 sgd"]
    for _ in range(30):
        out.append(" ".join(rng.choice(toks) for _ in range(rng.randint(1, 5))))
    out += ["all 0", "all 1"]
    return out


def all_adds(nm, np_, names):
    ops = []
    for m in range(nm):
        for n in names:
            for p in range(np_):
                ops.append(("addp", m, n, p))
            for c in range(nm):
                ops.append(("addm", m, n, c))
    return ops


def opline(o):
    return "%s %d %s %d" % (o[0], o[1], enc(o[2]), o[3])


def canonical(hist, nm, np_, names):
    """Histories are enumerated up to renaming of models, parameters and
    names: each kind must be mentioned in first-occurrence order."""
    sm, sp_, sn = 0, 0, 0
    for (k, m, n, o) in hist:
        for kind, v in (("m", m), ("n", names.index(n)), ("m" if k == "addm" else "p", o)):
            if kind == "m":
                if v > sm: return False
                if v == sm: sm += 1
            elif kind == "p":
                if v > sp_: return False
                if v == sp_: sp_ += 1
            else:
                if v > sn: return False
                if v == sn: sn += 1
    return True


def literal_histories(depth, nm=3, np_=3, names=(b"a", b"")):
    """Every history of exactly `depth` adds over the pools (prefixes are
    histories of their own at smaller depth), up to renaming."""
    ops = all_adds(nm, np_, list(names))
    probes = ["all %d" % m for m in range(nm)]

    def rec(prefix):
        if len(prefix) == depth:
            yield ["reset %d %d" % (nm, np_)] + [opline(o) for o in prefix] + probes
            return
        for o in ops:
            h = prefix + [o]
            if canonical(h, nm, np_, list(names)):
                yield from rec(h)
    yield from rec([])


def state_graph_histories(max_adds, nm=3, np_=3, names=(b"a", b"")):
    """Every registry state reachable by at most `max_adds` accepted adds over
    the pools (each reached by the first history found breadth-first), and
    from it: every add that must be rejected or is a re-add (followed by the
    enumeration of every model), every lookup path of length 0..3 for both
    lookups and every model, and the registration of every model with an
    optimizer, twice.  The accepted adds are the edges to the next states."""
    names = list(names)
    ops = all_adds(nm, np_, names)
    paths = [()]
    for k in (1, 2, 3):
        paths += list(itertools.product(names, repeat=k))
    start = Spec(); start.reset(nm, np_)

    def key(sp):
        return tuple(tuple(sorted(d.items())) for d in sp.models)

    def replay(hist):
        sp = Spec(); sp.reset(nm, np_)
        for o in hist:
            sp.expect(opline(o), "")
        return sp
    seen = {key(start): []}
    frontier = [[]]
    probes = ["all %d" % m for m in range(nm)]
    for depth in range(max_adds + 1):
        nxt = []
        for hist in frontier:
            lines = ["reset %d %d" % (nm, np_)] + [opline(o) for o in hist] + probes
            sp = replay(hist)
            k0 = key(sp)
            for o in ops:
                # decide without disturbing sp: an accepted, state-changing add is an edge
                cur = sp.models[o[1]]
                ent = ('p' if o[0] == "addp" else 'm', o[3])
                changes = (cur.get(o[2]) != ent and o[2] not in cur and ent not in cur.values()
                           and not (o[0] == "addm" and (o[3] == o[1] or sp.reaches(o[3], o[1]))))
                if changes:
                    if depth < max_adds:
                        h2 = hist + [o]
                        cur[o[2]] = ent
                        k2 = key(sp)
                        del cur[o[2]]
                        if k2 not in seen:
                            seen[k2] = h2; nxt.append(h2)
                else:
                    lines.append(opline(o))
            lines += probes
            for m in range(nm):
                for p in paths:
                    lines.append(("getp %d " % m + " ".join(enc(n) for n in p)).strip())
                    lines.append(("getm %d " % m + " ".join(enc(n) for n in p)).strip())
            for m in range(nm):
                lines += ["opt %d mom" % m, "optaddm %d %d" % (m, m), "optparams %d" % m,
                          "optaddm %d %d" % (m, m), "optparams %d" % m, "optaddm %d %d" % (m, (m + 1) % nm), "optparams %d" % m]
            assert key(sp) == k0
            yield lines
        frontier = nxt


def leak_history(rng):
    """Rejected adds of every kind (name taken, object taken under another name, self,
    ancestor, both taken but not with each other), each followed by the enumeration of the
    model and then by adds that the property admits and that reuse the name or the object of
    the rejected call: a rejected add must leave nothing behind."""
    nm, np_ = 4, 4
    names = rng.sample(NAME_POOL, 4)
    sp = Spec(); sp.reset(nm, np_)
    out = ["reset %d %d" % (nm, np_)]

    def emit(line):
        exp, _ = sp.expect(line, "")
        out.append(line)
        return exp
    for _ in range(rng.randint(6, 14)):
        m = rng.randrange(nm)
        kind = rng.choice(["addp", "addm"])
        line = "%s %d %s %d" % (kind, m, enc(rng.choice(names)), rng.randrange(np_ if kind == "addp" else nm))
        exp = emit(line)
        if exp != "err":
            continue
        w = line.split()
        name, obj = w[2], int(w[3])
        emit("all %d" % m)
        # the name of the rejected call with some other object, the object of the rejected call under another name
        for _ in range(rng.randint(1, 3)):
            k2 = rng.choice(["addp", "addm"])
            if rng.random() < 0.5:
                emit("%s %d %s %d" % (k2, m, name, rng.randrange(np_ if k2 == "addp" else nm)))
            else:
                emit("%s %d %s %d" % (kind, rng.randrange(nm), enc(rng.choice(names)), obj))
            emit("all %d" % m)
    out += ["all %d" % mm for mm in range(nm)]
    return out


def run_rejected_adds(chk, n):
    """Implementation leg used by C10: random and `leak` histories on the real
    Model registry, judged against the dictionary specification (no Lean model
    involved); reports the first departure of each class, shrunk."""
    exe = build.build_harness(HARNESS)
    hs = [leak_history(chk.rng) for _ in range(n)] + [random_history(chk.rng, maxops=25) for _ in range(n // 2)]
    flat, starts = [], []
    for h in hs:
        starts.append(len(flat)); flat += h
    impl, _ = vrun.run_impl(exe, flat, stateful=True, timeout=600)
    chk.traces += len(hs)
    found = {}
    for h, a in zip(hs, starts):
        im = impl[a:a + len(h)]
        for l, o in zip(h, im):
            chk.count(l, o, o == "err" or l.startswith("all"))
        j = judge_history(h, im)
        if j and j[2] not in found:
            found[j[2]] = (h[: j[0] + 1], j[1], im[j[0]])

    def still_fails(cls):
        def f(lines):
            out, _ = vrun.run_impl(exe, lines, stateful=True, timeout=60)
            j = judge_history(lines, out)
            return bool(j and j[2] == cls)
        return f
    for cls, (lines, exp, im) in sorted(found.items()):
        small = vcheck.shrink(lines, still_fails(cls))
        out, _ = vrun.run_impl(exe, small, stateful=True, timeout=60)
        j = judge_history(small, out)
        exp2, im2 = (j[1], out[j[0]]) if j else (exp, im)
        chk.report("%s:%s" % (cls, ";".join(small)),
                   "after %d operation(s) on Model registries (some of them rejected), `%s`: the implementation answers `%s`, the registry "
                   "specification says `%s` — a rejected call left something behind or an inadmissible call was accepted" % (
                       len(small) - 1, small[-1], im2, exp2),
                   {"family": FAMILY, "harness": HARNESS, "stateful": True, "lines": small, "model_family": None,
                    "expected_spec": exp2, "observed_impl": im2, "class": cls})


# --------------------------------------------------------------------- running

class Runner:
    def __init__(self, chk):
        self.chk = chk
        self.found = {}          # class -> [(history lines, index, expected, impl)]
        self.dis = []
        self.histories = 0
        self.bad = 0             # histories with a violation; the run is cut short once there are plenty

    def run(self, histories, batch_lines=150000):
        """Executes the histories (each starts with `reset`) packed into long
        streams; after a crash the stream is resumed at the next history."""
        batch, size = [], 0
        for h in histories:
            if self.bad >= 30:
                return
            batch.append(h); size += len(h)
            if size >= batch_lines:
                self._run_batch(batch); batch, size = [], 0
        if batch:
            self._run_batch(batch)

    def _run_batch(self, hs):
        while hs and self.bad < 30:
            flat, starts = [], []
            for h in hs:
                starts.append(len(flat)); flat += h
            state = {}

            def post(lines, impl, model):
                state["impl"], state["model"] = impl, model
                return impl, model
            dis, _, _ = self.chk.correspond(FAMILY, HARNESS, [flat], stateful=True, post=post, timeout=900)
            impl, model = state["impl"], state["model"]
            resume = None
            for hi, h in enumerate(hs):
                a = starts[hi]
                im = impl[a:a + len(h)]
                if im and im[0] == "skipped":
                    resume = hi
                    break
                self.histories += 1
                j = judge_history(h, im)
                if j:
                    i, exp, cls = j
                    self.bad += 1
                    self.found.setdefault(cls, [])
                    if len(self.found[cls]) < 3:
                        self.found[cls].append((h[: i + 1], i, exp, im[i]))
                # correspondence inside this history (the runner stops at the first one of the stream)
                for k in range(len(h)):
                    if k < len(im) and im[k] != "skipped" and not vrun.same(im[k], model[a + k]):
                        if not (j and j[0] <= k) and len(self.dis) < 5:
                            self.dis.append((h[: k + 1], im[k], model[a + k]))
                        break
                if any(x.startswith("crash") for x in im):
                    resume = hi + 1
                    break
            hs = hs[resume:] if resume is not None else []


def run(chk):
    quick = chk.tier == "quick"
    chk.rule = ("histories over pools of 3-5 real Model objects, 3-5 Parameters (optionally one invalid) and 3-4 names drawn from a pool with the "
                "empty string, '.', NUL and non-ASCII bytes: Model::add of parameters and submodels (fresh, re-add of the identical pair, duplicate name, "
                "duplicate object, self, ancestor = cycle attempt of any length, shared submodels/diamonds), get_all/trainable_parameters, get_parameter/"
                "get_submodel with reachable, partial, overlong, wrong and empty paths, Optimizer::add of parameters and models on optimizers that configure like "
                "SGD / MomentumSGD (own subclasses that count configure_parameter calls per Parameter: exactly 1 for every registered one) and on the library's "
                "own classes, with the registered set read back; every rejected add is followed by enumerations; enumerate-root / add at depth >= 2 / "
                "enumerate-root again interleavings; adds whose name and object are both registered but not with each other (both overloads); scenario "
                "histories with a diamond and one Parameter in two sibling models registered through overlapping models. Each history runs on the real library "
                "(ASan/UBSan), on the Lean model and on a dictionary specification written from the property text. thorough adds every history of <= 4 adds "
                "over 3 models/3 params/2 names up to renaming, and every registry state reachable by <= 6 accepted adds over those pools with every rejected "
                "add, every lookup path of length <= 3 and optimizer registration tried from it. Non-trivial = a line the implementation answered with ok; "
                "distinct = distinct lines.")
    chk.obligations(MODS, drivers=[FAMILY])
    rng = chk.rng
    runner = Runner(chk)
    corpus_file = os.path.join(build.VERIF, "corpus", "registry.ops")
    hs = []
    if os.path.exists(corpus_file):
        cur = []
        for l in open(corpus_file):
            l = l.strip()
            if not l or l.startswith("#"):
                continue
            if l.startswith("reset") and cur:
                hs.append(cur); cur = []
            cur.append(l)
        if cur:
            hs.append(cur)
    n_random = 500 if quick else 20000
    hs += [random_history(rng) for _ in range(n_random)]
    hs += [scenario_history(rng) for _ in range(n_random // 4)]
    hs += [malformed_history(rng) for _ in range(5 if quick else 50)]
    runner.run(hs)
    if not quick:
        n0 = runner.histories
        for d in range(0, 5):
            runner.run(literal_histories(d))
        chk.extra_cov["exhaustive_literal_histories_le_4_adds"] = runner.histories - n0
        n0 = runner.histories
        runner.run(state_graph_histories(6))
        chk.extra_cov["exhaustive_states_le_6_adds"] = runner.histories - n0
    chk.extra_cov["histories"] = runner.histories

    exe = build.build_harness(HARNESS)

    def still_fails(cls):
        def f(lines):
            impl, _ = vrun.run_impl(exe, lines, stateful=True, timeout=60)
            j = judge_history(lines, impl)
            return bool(j and j[2] == cls)
        return f

    # 1. property violations on the implementation (independent of the Lean model)
    for cls, items in sorted(runner.found.items()):
        lines, i, exp, im = items[0]
        small = vcheck.shrink(lines, still_fails(cls))
        impl, _ = vrun.run_impl(exe, small, stateful=True, timeout=60)
        j = judge_history(small, impl)
        exp2, im2 = (j[1], impl[j[0]]) if j else (exp, im)
        key = "%s:%s" % (cls, ";".join(small))
        what = {"crash": "the call crashes (%s) where the property demands a result or a primitiv::Error" % im2}.get(
            cls.split(":")[2], "the implementation answers `%s`, the registry specification says `%s`" % (im2, exp2))
        chk.report(key, "after %d operation(s), `%s`: %s" % (len(small) - 1, small[-1], what),
                   {"family": FAMILY, "harness": HARNESS, "stateful": True, "lines": small,
                    "expected_spec": exp2, "observed_impl": im2, "class": cls})
    # 2. correspondence: model != implementation although the implementation meets the specification
    if not runner.found:
        for lines, im, mo in runner.dis[:3]:
            def f(ls):
                impl, _ = vrun.run_impl(exe, ls, stateful=True, timeout=60)
                model = vrun.run_model(FAMILY, ls)
                return any(x != "skipped" and not vrun.same(x, y) for x, y in zip(impl, model))
            small = vcheck.shrink(lines, f)
            chk.report("correspondence:registry:" + small[-1].split(" ")[0],
                       "model and implementation disagree after `%s` (impl `%s`, model `%s`) although the implementation meets the registry "
                       "specification; the Lean model no longer describes the code" % (small[-1], im, mo),
                       {"family": FAMILY, "harness": HARNESS, "stateful": True, "lines": small, "observed_impl": im, "model": mo,
                        "broken": "correspondence registry/h_registry"}, found_input=False)
    # 3. proof obligations that no longer check and no failing input found
    broken = chk.broken_obligations()
    if broken and not chk.violations:
        for name, why in broken.items():
            chk.report("obligation:" + name, "theorem %s no longer checks: %s" % (name, why),
                       {"theorem": name, "reason": why, "log": (chk.oblig or {}).get("log_tail", "")[-1500:]}, found_input=False)
    chk.trusted += ["modelled, not verified: the five containers of primitiv::Model, Model::add, has_submodel, get_all_parameters, get_semiterminal, "
                    "get_parameter/get_submodel and Optimizer::add_inner are hand-modelled in Lean (Model/Registry.lean; unordered containers as insertion-ordered "
                    "lists, std::map as a key-sorted list, recursion as fuel = number of models) and tied to the code by the correspondence run of this check",
                    "the registered set of an Optimizer is private; the harness observes it through update() on a subclass that overrides update_parameter",
                    "objects are never destroyed during a history (destruction of a registered Model/Parameter is outside the model)"]
    chk.assumptions += ["Model / Parameter / Optimizer objects outlive every registry that refers to them (the registries hold raw pointers)",
                        "single-threaded use"]


def replay(path):
    """Re-runs the history of a replay file on a fresh build of the working
    tree, on the Lean model and on the specification; exit status 1 when the
    implementation departs from the specification or from the model."""
    import json
    from vlib import lean
    obj = json.load(open(path))
    rp = obj.get("replay", {})
    print("replay of C16: %s" % obj.get("what", "")[:300])
    if "lines" not in rp:
        print(json.dumps(rp, indent=1)[:3000])
        return 0
    exe = build.build_harness(HARNESS)
    lean.lake(["build", "drv_" + FAMILY])
    lines = rp["lines"]
    impl, reports = vrun.run_impl(exe, lines, stateful=True, timeout=120)
    model = vrun.run_model(FAMILY, lines)
    sp = Spec()
    bad = 0
    for l, i, m in zip(lines, impl, model):
        e = "-" if i == "skipped" else sp.expect(l, i)[0]
        ok = i == "skipped" or (i == e and vrun.same(i, m))
        bad += 0 if ok else 1
        print("%s %s\n    impl : %s\n    model: %s\n    spec : %s" % (" " if ok else "!", l, i, m, e))
    for r in reports:
        print("crash report:", r["kind"], (r.get("stderr") or "")[-600:])
    return 1 if bad else 0
