"""C17 — random sources and initializers honour their contracts, reproducibly.

PARTIAL by design: that std::mt19937 and the libstdc++ distribution objects
produce the named distributions is trusted.  Decided here: parameter
validation, the (lower, upper] fix-up, the dropout algebra, the initializer
formulas, "device output = model(standard draws of a replicated mt19937)" bit
for bit on both CPU backends, and reproducibility.
"""
import math, os, struct, subprocess, json
from vlib import build, run as vrun, check as vcheck

MODS = ["PrimitivModel.Props.C17"]
FAMILY, HARNESS = "rng", "h_rng"
KINDS = ["bernoulli", "uniform", "normal", "log_normal"]

# ------------------------------------------------------------------ floats
def f32(x):
    """round a Python float to binary32 (as a Python float)"""
    try:
        return struct.unpack(">f", struct.pack(">f", x))[0]
    except OverflowError:
        return math.copysign(math.inf, x)


def bits(x):
    if x != x:
        return 0x7fc00000
    return struct.unpack(">I", struct.pack(">f", x))[0]


def h(x):
    return "%08x" % bits(f32(x))


def hb(b):
    return "%08x" % (b & 0xffffffff)


def unh(s):
    return struct.unpack(">f", struct.pack(">I", int(s, 16)))[0]


def finite(x):
    return x == x and abs(x) != math.inf


NAN, INF, NINF, NZERO = "7fc00000", "7f800000", "ff800000", "80000000"
DENORM, NDENORM, FLTMAX, BELOW1, ABOVE1 = "00000001", "80000001", "7f7fffff", "3f7fffff", "3f800001"


def tok(dims, b=1):
    return "S:%s/%d" % (",".join(map(str, dims)), b)


# --------------------------------------------------------------- generators
def rand_shape(rng, big=False):
    r = rng.random()
    if r < 0.04:
        return tok(rng.choice([[0], [2, 0], [1, 2, 3, 4, 5, 6, 7, 8, 9], [3]]), rng.choice([0, 1]))     # mostly invalid
    if big and r < 0.12:
        return tok([rng.choice([257, 1001, 640])], rng.choice([1, 2]))
    depth = rng.choice([0, 1, 1, 2, 2, 2, 3, 4])
    dims = [rng.choice([1, 2, 3, 3, 4, 5]) for _ in range(depth)]
    return tok(dims, rng.choice([1, 1, 1, 2, 3]))


def rand_f(rng, lo=-4.0, hi=4.0):
    return h(rng.uniform(lo, hi))


def gen_p(rng):
    r = rng.random()
    if r < 0.45:
        return h(rng.random())
    if r < 0.75:
        return rng.choice(["00000000", "3f800000", "3f000000", NZERO, DENORM, BELOW1, h(1e-30), h(0.999)])
    return rng.choice([ABOVE1, NDENORM, h(1.5), h(-0.5), NAN, INF, NINF, h(2.0), h(-1e-30), "ffc00000"])


def ulp_up(hexs, k):
    b = int(hexs, 16)
    if b & 0x80000000:           # negative: towards zero is bits - k
        mag = (b & 0x7fffffff) - k
        return hb(0x80000000 | mag) if mag >= 0 else hb(-mag)
    return hb(b + k)


def gen_uniform(rng):
    r = rng.random()
    if r < 0.30:
        a, b = sorted([rng.uniform(-5, 5), rng.uniform(-5, 5)])
        return h(a), h(b)
    if r < 0.50:                 # a range of k units in the last place: the raw draw hits `lower` often
        lo = rng.choice([h(1.0), h(-1.0), h(rng.uniform(-3, 3)), "00000000", NZERO, NDENORM, h(1e-38), h(3e38), "80000003",
                         h(2.0), h(-2.0), h(1024.0), h(-4096.0), h(1e6), h(-37.5), h(rng.uniform(2, 5000)), h(-rng.uniform(2, 5000))])
        return lo, ulp_up(lo, rng.choice([1, 1, 2, 3, 5, 16]))
    if r < 0.62:                 # lower == upper
        v = rng.choice([h(0.0), NZERO, h(1.0), h(-2.5), FLTMAX, DENORM, h(rng.uniform(-9, 9))])
        if v in (h(0.0), NZERO) and rng.random() < 0.5:
            return v, (NZERO if v == h(0.0) else h(0.0))
        return v, v
    if r < 0.72:
        return rng.choice([(h(-1e38), h(1e38)), (h(0.0), FLTMAX), (h(-3e38), h(3e38)), ("ff7fffff", FLTMAX),
                           (h(1e-40), h(1e-39)), (h(-1e30), h(1e-30))])
    if r < 0.86:                 # upper < lower
        a, b = sorted([rng.uniform(-5, 5), rng.uniform(-5, 5)])
        lo = h(b)
        return rng.choice([(lo, h(a)), (lo, ulp_up(lo, -1) if not int(lo, 16) & 0x80000000 and int(lo, 16) > 0 else h(a)), (h(1.0), h(-1.0)), (DENORM, NDENORM)])
    return rng.choice([(NAN, h(1.0)), (h(0.0), NAN), (NAN, NAN), (NINF, INF), (h(0.0), INF), (NINF, h(3.0)), (INF, INF), (INF, NINF),
                       (INF, h(0.0)), (NINF, NINF)])


def gen_normal(rng, lognormal=False):
    r = rng.random()
    mean = rng.choice([h(0.0), h(1.0), h(-2.0), rand_f(rng), rand_f(rng, -50, 50)])
    if r < 0.5:
        return mean, rng.choice([h(1.0), h(0.5), h(3.0), h(rng.uniform(0.01, 5))])
    if r < 0.68:                 # tiny / huge sd
        return mean, rng.choice([DENORM, h(1e-30), h(1e-10), h(1e-45), h(1e30), FLTMAX] if not lognormal else [DENORM, h(1e-30), h(1e-10), h(30.0), h(1e30)])
    if r < 0.84:                 # sd <= 0
        return mean, rng.choice([h(0.0), NZERO, h(-1.0), NDENORM, NINF, h(-rng.uniform(0.1, 3))])
    if r < 0.92:
        return mean, rng.choice([NAN, INF, "ffc00000"])
    return rng.choice([NAN, INF, NINF, h(1e38), h(-100.0), h(100.0), h(-200.0)]), rng.choice([h(1.0), h(2.0)])


def gen_rate(rng):
    r = rng.random()
    if r < 0.5:
        return rng.choice([h(0.0), h(0.1), h(0.25), h(0.5), h(0.9), h(rng.random())])
    if r < 0.7:
        return rng.choice([h(1.0), BELOW1, NZERO, DENORM, h(0.999999)])
    return rng.choice([h(-0.5), h(1.5), ABOVE1, NDENORM, NAN, INF, NINF, h(2.0)])


INITS = ["constant", "uniform", "normal", "identity", "xavier_uniform", "xavier_normal", "xavier_uniform_conv2d", "xavier_normal_conv2d"]


def gen_init(rng):
    name = rng.choice(INITS)
    op = rng.choice(["init", "init", "pinit"])
    scale = rng.choice([h(1.0), h(1.0), h(0.5), h(2.0), h(rng.uniform(0.1, 3)), h(0.0), h(-1.0), NAN, h(1e-30), INF])
    if name == "identity":
        n = rng.choice([1, 2, 3, 4, 7])
        sh = rng.choice([tok([n, n]), tok([n, n]), tok([n, n + 1]), tok([n]), tok([]), tok([n, n, 2]), tok([n, n], 2), tok([n, n, 1, 1])])
        return "%s identity %s" % (op, sh)
    if name == "constant":
        return "%s constant %s %s" % (op, rng.choice([h(0.0), h(3.0), rand_f(rng), NAN, NZERO, INF]), rand_shape(rng))
    if name == "uniform":
        return "%s uniform %s %s %s" % ((op,) + gen_uniform(rng) + (rand_shape(rng),))
    if name == "normal":
        return "%s normal %s %s %s" % ((op,) + gen_normal(rng) + (rand_shape(rng),))
    if name in ("xavier_uniform", "xavier_normal"):
        sh = rng.choice([tok([rng.choice([1, 2, 3, 5, 8]), rng.choice([1, 2, 4, 7])]), tok([rng.choice([2, 3, 9])]), tok([]),
                         tok([2, 3, 2]), tok([3, 2], 2), tok([64, 32])])
        return "%s %s %s %s" % (op, name, scale, sh)
    sh = rng.choice([tok([rng.choice([1, 2, 3]), rng.choice([1, 2, 3]), rng.choice([1, 2, 4]), rng.choice([1, 3, 5])]),
                     tok([3, 3, 2]), tok([3, 2]), tok([5]), tok([]), tok([2, 2, 2, 2, 2]), tok([2, 2, 3, 1], 2), tok([2, 2, 1, 3])])
    return "%s %s %s %s" % (op, name, scale, sh)


def gen_request(rng, big):
    r = rng.random()
    pre = "node_" if rng.random() < 0.3 else ""
    via = rng.choice(["", "", "", "@ref", "@ptr", "@def"])
    sh = rand_shape(rng, big)
    if r < 0.16:
        return "%sbernoulli%s %s %s" % (pre, via, sh, gen_p(rng))
    if r < 0.40:
        return "%suniform%s %s %s %s" % ((pre, via, sh) + gen_uniform(rng))
    if r < 0.52:
        return "%snormal%s %s %s %s" % ((pre, via, sh) + gen_normal(rng))
    if r < 0.64:
        return "%slog_normal%s %s %s %s" % ((pre, via, sh) + gen_normal(rng, True))
    if r < 0.68:
        return "%sgumbel %s %s %s" % (pre, sh, rand_f(rng), h(rng.uniform(0.1, 3)))
    if r < 0.82:
        return "%sdropout %s %s %d" % (pre, sh, gen_rate(rng), rng.choice([0, 1, 1, 1]))
    if r < 0.98:
        return gen_init(rng)
    return rng.choice(["bernoulli S:2/1", "uniform S:2/1 zz 3f800000", "frobnicate S:1/1 00000000", "dropout S:2/1 3f000000 2",
                       "init nosuch 3f800000 S:2/1", "bernoulli@x S:2/1 3f000000", "uniform 2 3f800000 40000000",
                       "node_init identity S:2,2/1", "normal S:2/x 00000000 3f800000", "dev naive"])


def gen_stream(rng, backend, seed, n, big):
    return ["dev %s %d" % (backend, seed)] + [gen_request(rng, big) for _ in range(n)]


ODD_SHAPES = ["S:1/1", "S:3/1", "S:5/1", "S:15/1", "S:3,5/1", "S:1/3", "S:7/1"]


def leak_streams(rng, backend):
    """State must not leak between calls or devices inside the fill_* helpers (e.g. a distribution object that outlives
    the call and keeps the spare sample of normal_distribution): one device draws an odd number of normal / log_normal
    samples, then a freshly seeded device of the same process is asked for normals; and odd request then another request
    on the same device."""
    out = []
    for _ in range(2):
        s = []
        for _ in range(3):
            s.append("dev %s %d" % (backend, rng.randrange(2 ** 32)))
            for _ in range(rng.choice([1, 2])):
                kind = rng.choice(["normal", "log_normal", "node_normal", "init xavier_normal", "pinit xavier_normal_conv2d"])
                sh = rng.choice(ODD_SHAPES)
                if kind.startswith("init") or kind.startswith("pinit"):
                    s.append("%s 3f800000 %s" % (kind, rng.choice(["S:3,5/1", "S:3/1", "S:5,3/1", "S:1/1"])))
                else:
                    s.append("%s %s %s %s" % (kind, sh, rand_f(rng), h(rng.uniform(0.5, 2))))
            s.append("normal %s 00000000 3f800000" % rng.choice(["S:4/1", "S:3/1", "S:2/1"]))
        out.append(s)
    return out


def dropout_grid(backend, seed):
    s = ["dev %s %d" % (backend, seed)]
    for pre in ("", "node_"):
        for rate in (h(0.0), h(0.5), h(1.0), NAN):
            for en in (0, 1):
                s.append("%sdropout S:3,5/2 %s %d" % (pre, rate, en))
    return s


def corpus_streams():
    p = os.path.join(build.VERIF, "corpus", "rng.ops")
    out = []
    if os.path.exists(p):
        for l in open(p):
            l = l.strip()
            if l and not l.startswith("#"):
                out.append([x.strip() for x in l.split(";;") if x.strip()])
    return out


# -------------------------------------------- the property, judged on the implementation alone
def parse_line(line):
    w = line.split(" | ")[0].split()
    op = w[0]
    node = op.startswith("node_")
    if node:
        op = op[5:]
    op = op.split("@")[0]
    return op, node, w


def shape_of(tokn):
    try:
        d, b = tokn[2:].split("/")
        dims = [int(x) for x in d.split(",")] if d else []
        return dims, int(b)
    except ValueError:
        return None


def shape_valid(tokn):
    s = shape_of(tokn)
    if s is None:
        return False
    dims, b = s
    if len(dims) > 8 or b == 0 or any(x == 0 for x in dims):
        return False
    v = 1
    for x in dims:
        v *= x
    return v * b < 2 ** 32


def canon_dims(dims):
    d = list(dims)
    while d and d[-1] == 1:
        d.pop()
    return d


def params_valid(kind, a, b):
    """the contract of the property text: p in [0,1]; lower <= upper; sd > 0 (an unordered parameter is not valid)"""
    if kind == "bernoulli":
        return 0.0 <= a <= 1.0
    if kind == "uniform":
        return a <= b
    return b > 0


def xavier(name, scale, dims):
    """(kind, a, b) of the device call a Xavier initializer must make, or None when the shape is not admitted"""
    d = canon_dims(dims)
    g = lambda i: d[i] if i < len(d) else 1
    if name in ("xavier_uniform", "xavier_normal"):
        if len(d) > 2:
            return None
        fan = g(0) + g(1)
    else:
        if len(d) > 4:
            return None
        fan = g(0) * g(1) * g(2) + g(0) * g(1) * g(3)
    if "uniform" in name:
        bound = f32(scale * math.sqrt(6.0 / fan)) if scale == scale else math.nan
        return ("uniform", -bound, bound)
    sd = f32(scale * math.sqrt(2.0 / fan)) if scale == scale else math.nan
    return ("normal", 0.0, sd)


def values(out):
    w = out.split()
    if len(w) < 3:
        return w[1] if len(w) > 1 else "", []
    return w[1], [unh(x) for x in w[2].split(",")]


def check_values(kind, a, b, vals):
    """range properties of accepted requests (judged only where the parameters are finite)"""
    if kind == "bernoulli":
        bad = [v for v in vals if v not in (0.0, 1.0)]
        return "bernoulli value %r outside {0,1}" % bad[0] if bad else None
    if kind == "uniform":
        if not (finite(a) and finite(b) and finite(f32(b - a))):
            return None
        for v in vals:
            if a == b:
                if v != b:
                    return "uniform(lower == upper) value %r is not upper %r" % (v, b)
            elif not (a < v <= b):
                return "uniform value %r outside (lower, upper] = (%r, %r]" % (v, a, b)
        return None
    if kind == "normal":
        if finite(a) and finite(b) and abs(a) < 1e30 and b < 1e30:
            bad = [v for v in vals if not finite(v)]
            return "normal value %r is not finite" % bad[0] if bad else None
        return None
    if kind == "log_normal":
        if not (finite(a) and finite(b)):
            return None
        for v in vals:
            if v != v or v < 0:
                return "log_normal value %r is negative or NaN" % v
            if v == 0 and a - 12 * b > -87 and 12 * b < 80:
                return "log_normal value 0 is not strictly positive"
        return None
    return None


def raws_of(line):
    """the standard draws written on the line (floats; 16 hex digits = double)"""
    if " | " not in line + " ":
        return None
    t = (line + " ").split(" | ", 1)[1].strip()
    if not t:
        return []
    out = []
    for x in t.split(","):
        out.append(struct.unpack(">d", struct.pack(">Q", int(x, 16)))[0] if len(x) == 16 else unh(x))
    return out


def same(v, e):
    return v == e or (v != v and e != e)


STATS = {"fixup_fired": 0, "fixup_fired_abs_lower_ge_2": 0}


def spec_values(kind, a, b, raws):
    """The values the contract prescribes for the standard draws `raws` of the device's stream (float arithmetic
    emulated through doubles: + - * of two floats rounded once more to float is exact). None = not determined here."""
    if kind == "bernoulli":
        return [1.0 if u < a else 0.0 for u in raws]
    if kind == "uniform":
        if not (finite(a) and finite(b) and finite(f32(b - a))):
            return None
        w = f32(b - a)
        out = []
        for u in raws:
            x = f32(f32(w * u) + a)
            if a < b and x <= a:
                STATS["fixup_fired"] += 1
                if abs(a) >= 2:
                    STATS["fixup_fired_abs_lower_ge_2"] += 1
            out.append(b if (a < b and x <= a) else x)          # (lower, upper]: a draw equal to lower becomes upper
        return out
    if kind == "normal":
        if not (finite(a) and finite(b)):
            return None
        return [f32(f32(z * b) + a) for z in raws]
    return None


def check_against_spec(kind, a, b, vals, raws, who):
    if raws is None or len(raws) != len(vals):
        return None
    want = spec_values(kind, a, b, raws)
    if want is not None:
        for i, (v, e) in enumerate(zip(vals, want)):
            if not same(v, e):
                return "%s: element %d is %r, but %s(%r, %r) of the stream's standard draw %r is %r" % (who, i, v, kind, a, b, raws[i], e)
    if kind == "log_normal" and finite(a) and finite(b):
        for i, (v, z) in enumerate(zip(vals, raws)):
            arg = f32(f32(b * z) + a)
            if abs(arg) < 80:
                e = math.exp(arg)
                if not (abs(v - e) <= 1e-5 * e):
                    return "%s: element %d is %r, but exp(mean + sd*z) for the stream's standard normal draw %r is %r" % (who, i, v, z, e)
    return None


def dropout_x(n):
    return [((i % 13) - 6) * 0.25 + 0.125 for i in range(n)]


def judge_line(line, impl):
    """Returns a description when the implementation violates the property on this line (None otherwise)."""
    if impl.startswith("crash"):
        return "crashes (%s)" % impl
    if impl.startswith("irreproducible"):
        return "two fresh devices with the same seed and the same request history return different values"
    if impl == "unstable":
        return "reading the same random node twice returns different values"
    if impl == "err-nocompile":
        return "random::log_normal<Var>(shape, mean, sd) / (…, Device *) cannot be called: the overload does not compile"
    if impl in ("bad-op", "err-nodev", "raw-mismatch") or impl.startswith("err-other"):
        return None
    op, node, w = parse_line(line)
    ok = impl.startswith("ok")
    rejected = impl in ("err", "err@eval", "err@create")
    if not (ok or rejected):
        return "unexpected outcome `%s`" % impl
    if op in KINDS:
        shtok = w[1]
        a = unh(w[2]); b = unh(w[3]) if op != "bernoulli" else a
        if not shape_valid(shtok):
            return None if rejected else "accepts an invalid shape"
        valid = params_valid(op, a, b)
        if valid and rejected:
            return "%s rejects valid parameters (%r, %r)" % (op, a, b)
        if not valid and ok:
            return "%s accepts invalid parameters (%r, %r)" % (op, a, b)
        if ok:
            shp, vals = values(impl)
            dims, bt = shape_of(shtok)
            n = bt
            for x in dims:
                n *= x
            if len(vals) != n:
                return "%d values for a shape of %d elements" % (len(vals), n)
            return check_values(op, a, b, vals) or check_against_spec(op, a, b, vals, raws_of(line), op)
        return None
    if op == "gumbel":
        if ok and impl.endswith(" far"):
            return "gumbel values are not mu - beta*log(-log(u)) for the uniform draws of the stream"
        if rejected and shape_valid(w[1]):
            return "gumbel rejects valid parameters"
        return None
    if op == "dropout":
        shtok, rate, en = w[1], unh(w[2]), w[3] == "1"
        if not shape_valid(shtok):
            return None if rejected else "accepts an invalid shape"
        dims, bt = shape_of(shtok)
        n = bt
        for x in dims:
            n *= x
        x = dropout_x(n)
        if not en:
            if not ok:
                return "disabled dropout fails"
            if values(impl)[1] != x:
                return "disabled dropout is not the identity"
            return None
        keep = f32(1.0 - rate)
        valid = (0.0 <= keep <= 1.0)
        if valid and rejected:
            return "dropout rejects the valid rate %r" % rate
        if not valid and ok:
            return "dropout accepts the invalid rate %r" % rate
        if ok:
            vals = values(impl)[1]
            if len(vals) != n:
                return "dropout changes the number of elements"
            for xi, v in zip(x, vals):
                if v == 0:
                    continue
                if keep == 0 or not (abs(v - xi / keep) <= 1e-6 * abs(xi / keep)):
                    return "dropout element %r is neither 0 nor x/(1-rate) = %r" % (v, xi / keep if keep else None)
            us = raws_of(line)
            if us is not None and len(us) == n and rate != 1.0:
                for i, (u, v) in enumerate(zip(us, vals)):
                    if (v != 0) != (u < keep):
                        return "dropout element %d is %s although the stream's uniform draw %r is %s 1-rate = %r" % (
                            i, "kept" if v != 0 else "dropped", u, "<" if u < keep else ">=", keep)
            if rate == 1.0 and any(v != 0 for v in vals):
                return "dropout with rate 1 keeps an element"
            if rate == 0.0 and vals != x:
                return "dropout with rate 0 is not the identity"
        return None
    if op in ("init", "pinit"):
        name = w[1]
        args = [unh(t) for t in w[2:-1]]
        shtok = w[-1]
        if not shape_valid(shtok):
            return None if rejected else "accepts an invalid shape"
        dims, bt = shape_of(shtok)
        d = canon_dims(dims)
        n = bt
        for x in dims:
            n *= x
        if op == "pinit" and bt > 1:
            return None if rejected else "a parameter with a batch is accepted"
        if name == "constant":
            if not ok:
                return "Constant fails"
            vals = values(impl)[1]
            k = args[0]
            if len(vals) != n or any(not (v == k or (v != v and k != k)) for v in vals):
                return "Constant(%r) does not fill the tensor with the constant" % k
            return None
        if name == "identity":
            square = len(d) <= 2 and (d[0] if d else 1) == (d[1] if len(d) > 1 else 1)
            if not square:
                return None if rejected else "Identity accepts a shape that is not a square matrix"
            if not ok:
                return "Identity rejects a square matrix"
            m = d[0] if d else 1
            want = [1.0 if i % (m + 1) == 0 else 0.0 for i in range(m * m)]
            if values(impl)[1] != want:
                return "Identity does not produce the identity matrix"
            return None
        if name in ("uniform", "normal"):
            kind, a, b = name, args[0], args[1]
        else:
            x = xavier(name, args[0], dims)
            if x is None:
                return None if rejected else "%s accepts a shape outside its domain" % name
            kind, a, b = x
        valid = params_valid(kind, a, b)
        if valid and rejected:
            return "%s rejects valid parameters %s(%r, %r)" % (name, kind, a, b)
        if not valid and ok:
            return "%s accepts invalid parameters %s(%r, %r)" % (name, kind, a, b)
        if ok:
            vals = values(impl)[1]
            if len(vals) != n:
                return "%d values for %d elements" % (len(vals), n)
            return check_values(kind, a, b, vals) or check_against_spec(kind, a, b, vals, raws_of(line), name)
        return None
    return None


def key_of(line, impl, what):
    op, node, w = parse_line(line)
    if impl == "err-nocompile":
        return "rng:log_normal-default-device:does-not-compile"
    cls = ("crash" if impl.startswith("crash") else "irreproducible" if impl.startswith("irreproducible") else
           "accepts-invalid" if "accepts" in what else "rejects-valid" if "rejects" in what else "wrong-values")
    if cls == "accepts-invalid" and "nan" in what.lower():
        cls = "accepts-nan"
    sub = w[1] if op in ("init", "pinit") else ""
    return "rng:%s%s%s:%s:%s" % ("node_" if node else "", op, ":" + sub if sub else "", cls, " ".join(w[1:]))


# ----------------------------------------------------------------- running
def strip_raws(l):
    return l.split(" | ")[0].strip()


def phase1(exe, stream):
    """Run a history on the harness to obtain the raw draws; returns the lines with the raws appended and the outputs."""
    outs, reports = vrun.run_impl(exe, stream, stateful=True, timeout=300)
    lines2, res = [], []
    for l, o in zip(stream, outs):
        if " | " in o + " ":
            r, _, raws = (o + " ").partition(" | ")
            lines2.append(l + " | " + raws.strip())
            res.append(r.strip())
        else:
            lines2.append(l); res.append(o)
    return lines2, res, reports


def run_backend_parity(chk, n_seeds, per):
    """Implementation leg used by C08: the same history of random requests with the same seed on a Naive and on an
    Eigen device (boundary probabilities p = 0 / 1 and dropout rates 0 / 1 in the middle of the history included); every
    answer must be identical — values and the position of the device's random stream (a request that draws on one backend
    and not on the other shows in every later request)."""
    exe = build.build_harness(HARNESS)
    rng = chk.rng
    for i in range(n_seeds):
        sd = rng.randrange(2 ** 32)
        base = gen_stream(rng, "naive", sd, per, big=False)
        # boundary requests followed by ordinary ones
        for _ in range(4):
            k = rng.randrange(1, len(base))
            base.insert(k, rng.choice(["bernoulli S:3/1 3f800000", "bernoulli S:2,2/1 00000000", "dropout S:3/2 00000000 1",
                                       "node_dropout S:2/1 00000000 1", "node_bernoulli S:4/1 3f800000", "dropout S:3/1 3f800000 1"]))
        base += ["bernoulli S:5/1 3f000000", "normal S:3/1 00000000 3f800000", "uniform S:4/1 bf800000 3f800000"]
        other = ["dev eigen %d" % sd] + base[1:]
        _, a, _ = phase1(exe, base)
        _, b, _ = phase1(exe, other)
        chk.traces += 2
        for j in range(1, len(base)):
            x, y = (a[j] if j < len(a) else "?"), (b[j] if j < len(b) else "?")
            chk.count("naive|eigen " + base[j], x, x.startswith("ok "))
            if x != y:
                kind = "crash" if (x.startswith("crash") or y.startswith("crash")) else "differ"
                chk.report("rng:backends-%s:%s" % (kind, base[j].split()[0]),
                           "seed %d, request %d `%s`: devices::Naive answers `%s`, devices::Eigen `%s` (same seed, same history)" % (
                               sd, j, base[j][:80], x[:120], y[:120]),
                           {"family": FAMILY, "harness": HARNESS, "stateful": True, "lines": other[: j + 1], "model_family": None,
                            "naive_history": base[: j + 1], "observed": y[:600], "observed_naive": x[:600]})
                break


def compile_test():
    """functions::random::log_normal must be usable through every documented overload."""
    cfg = build.config_dir("asan")
    src = os.path.join(build.VERIF, "harness", "t_rng_lognormal.cc")
    cmd = [build.cxx()] + build.COMMON + ["-fsyntax-only", "-I" + cfg, "-I" + build.REPO, "-I/usr/include/eigen3", src]
    r = subprocess.run(cmd, capture_output=True, text=True)
    return r.returncode == 0, " ".join(cmd), r.stderr


def moments(exe):
    """context only: sample moments of the real device (never a decision)"""
    lines = ["dev naive 20260930",
             "stats bernoulli 40000 %s 00000000" % h(0.3),
             "stats uniform 40000 %s %s" % (h(-1.0), h(3.0)),
             "stats normal 40000 %s %s" % (h(1.0), h(2.0)),
             "stats log_normal 40000 %s %s" % (h(0.0), h(0.5))]
    outs, _ = vrun.run_impl(exe, lines, stateful=True, timeout=120)
    exp = ["", "expected mean 0.3 var 0.21", "expected mean 1 var 1.3333 range (-1,3]", "expected mean 1 var 4",
           "expected mean %.4f var %.4f min > 0" % (math.exp(0.125), (math.exp(0.25) - 1) * math.exp(0.25))]
    return [{"request": l, "observed": o, "expected": e} for l, o, e in zip(lines, outs, exp)][1:]


def run(chk):
    from translate import rng as trans
    quick = chk.tier == "quick"
    st = trans.selftest()
    chk.rule = ("histories `dev <naive|eigen> <seed>` followed by requests of the rng family (random::bernoulli/uniform/normal/log_normal/gumbel "
                "as Tensor and as Node through the Device&/Device*/default-device overloads, dropout, the 8 initializers applied to a tensor and "
                "through Parameter), generated from one PRNG: shapes of depth 0..4 with batch, occasionally invalid or large; parameters inside the "
                "contract (incl. p in {0, -0, 1, denormal, 1-ulp}, lower == upper, ranges of 1..16 ulp so that the raw draw hits `lower`, tiny and huge sd), "
                "just outside it (upper < lower, sd in {0,-0,<0}, p in {1+ulp, -denormal}) and NaN/inf. Each history runs on two fresh devices "
                "with the same seed in the harness (reproducibility), which also draws the standard draws of a replicated std::mt19937(seed); the Lean model "
                "recomputes the device output from these draws (bit for bit). non-trivial = the request was accepted (ok); distinct = distinct lines incl. raws.")
    # Gen/Rng.lean is regenerated by every check process from *its* VERIF_REPO: keep other writers out from the
    # regeneration to the end of the Lean build (oleans, driver, axiom audit), so that what is built is this tree's text
    with trans.gen_lock():
        path, differs = trans.generate(lock=False)
        chk.obligations(MODS, drivers=[FAMILY])
    if st:
        chk.report("translator-selftest", "translate/rng.py self-test failed: %r" % (st[:3],), {"selftest": [list(map(str, x)) for x in st]}, found_input=False)
    if differs:
        chk.notes.append("Gen/Rng.lean differs from translate/golden/Rng.lean (the sources of the translated functions changed since the golden copy was made)")

    # 1. every overload of random::log_normal must compile
    ok_c, cmd, err = compile_test()
    if not ok_c:
        chk.report("rng:log_normal-default-device:does-not-compile",
                   "functions::random::log_normal<Tensor>(shape, mean, sd) and the Device* overload do not compile (primary template declared with Device &)",
                   {"compile": cmd, "source": "harness/t_rng_lognormal.cc", "compiler_error": err[-3000:]})
    chk.extra_cov["log_normal_overloads_compile"] = ok_c

    try:
        exe = build.build_harness(HARNESS)
    except build.BuildError as e:
        if "No such file" not in str(e):
            raise
        exe = build.build_harness(HARNESS)      # an object was evicted from the shared cache between compile and link
    # 2. histories
    rng = chk.rng
    n_seeds, per = (10, 30) if quick else (50, 100)
    seeds = [0, 1, 0x7fffffff, 0x80000000, 0xffffffff]        # boundary seeds first, on both backends
    while len(seeds) < n_seeds:
        x = rng.randrange(2 ** 32)
        if x not in seeds:
            seeds.append(x)
    streams = corpus_streams()
    for i, sd in enumerate(seeds):
        base = gen_stream(rng, "naive", sd, per, big=(i % 3 == 0))
        streams.append(base)
        # the same history on the other backend: both CPU backends must agree with the same model
        streams.append(["dev eigen %d" % sd] + base[1:])
    for be in ("naive", "eigen"):
        streams += leak_streams(rng, be)
        streams.append(dropout_grid(be, rng.randrange(2 ** 32)))
    streams.append(["bernoulli S:2/1 3f000000", "dev naive 7", "bernoulli S:2/1 3f000000", "dev eigen 7", "bernoulli S:2/1 3f000000"])
    with_raws, first_out = [], {}
    for s in streams:
        l2, o1, reps = phase1(exe, s)
        with_raws.append(l2); first_out[tuple(l2)] = o1

    # 3. second run (with the raws on the lines) on implementation and model; the values of the
    #    first run must come out again (reproducibility across processes)
    across = []

    def post(lines, impl, model):
        o1 = first_out.get(tuple(lines))
        if o1:
            for l, x, y in zip(lines, o1, impl):
                if x != y and not x.startswith("crash") and not y.startswith("crash") and y != "skipped":
                    across.append((lines, l, x, y)); break
        return impl, model

    dis, judged, crashes = chk.correspond(FAMILY, HARNESS, with_raws, stateful=True, judge=lambda line, impl, model: judge_line(line, impl),
                                          nontrivial=lambda line, out: out.startswith("ok "), post=post)
    for lines, l, x, y in across[:3]:
        what = ("the replicated std::mt19937 stream differs between two processes" if y == "raw-mismatch" else
                "the same history gives different values in two processes")
        chk.report("rng:irreproducible-across-processes:" + strip_raws(l), "%s: %s: `%s` vs `%s`" % (what, strip_raws(l)[:80], x[:80], y[:80]),
                   {"family": FAMILY, "harness": HARNESS, "stateful": True, "lines": lines[:lines.index(l) + 1]})

    def minimal(rec):
        """[dev line, the failing line] when that reproduces the judgement, else the whole prefix"""
        hist = [strip_raws(x) for x in rec["lines"]]
        devs = [x for x in hist[:-1] if x.startswith("dev ")]
        if devs:
            l2, o1, _ = phase1(exe, [devs[-1], hist[-1]])
            if judge_line(l2[-1], o1[-1]):
                return l2
        return rec["lines"]

    # decisions: violations of the property seen on the implementation (one input per request kind and failure class)
    for d in dis:
        w = judge_line(d["line"], d["impl"])
        if w and not any(j["line"] == d["line"] and j["lines"][:1] == d["lines"][:1] for j in judged):
            r2 = dict(d); r2["what"] = w
            judged.append(r2)
    groups = {}
    for j in judged:
        key = key_of(j["line"], j["impl"], j["what"])
        g = tuple(key.split(":")[:3]) if not key.endswith("does-not-compile") else (key,)
        groups.setdefault(g, [])
        if len(groups[g]) < 1:
            groups[g].append((key, j))
    for g in sorted(groups)[:10]:
        for key, j in groups[g]:
            chk.report(key, "%s: %s" % (strip_raws(j["line"]), j["what"]),
                       {"family": FAMILY, "harness": HARNESS, "stateful": True, "lines": minimal(j), "observed_impl": j["impl"][:400], "model": j["model"][:400]})
    # correspondence: the model no longer describes the code
    judged_lines = {j["line"] for j in judged}
    ndis = 0
    for d in dis:
        if d["line"] in judged_lines:
            continue
        ndis += 1
        if ndis > 6:
            break
        op = parse_line(d["line"])[0]
        chk.report("correspondence:rng:%s:%s" % (op, strip_raws(d["line"])),
                   "model and implementation disagree on `%s` (impl `%s`, model `%s`) although no property violation was observed there; "
                   "the Lean model of the rng family no longer describes the code" % (strip_raws(d["line"])[:120], d["impl"][:120], d["model"][:120]),
                   {"family": FAMILY, "harness": HARNESS, "stateful": True, "lines": d["lines"], "observed_impl": d["impl"][:400], "model": d["model"][:400],
                    "broken": "correspondence rng/h_rng"}, found_input=False)
    for c in crashes:
        if c.get("at_exit"):
            chk.report("rng:crash-at-exit:" + c["kind"], "the harness process fails at exit: %s" % c["kind"], {"stderr": c.get("stderr", "")[-1500:]})
    # broken proof obligations: named unless a failing input found in this run explains them
    broken = chk.broken_obligations()
    keys_found = [v["key"] for v in chk.violations if v["found_input"]] + [k["key"] for k in chk.known_hits]
    nan_found = any(":accepts-nan:" in k for k in keys_found)
    other_found = any(":accepts-nan:" not in k and "does-not-compile" not in k for k in keys_found)
    for name, why in broken.items():
        if name.endswith("guard_rejects_nan"):
            if nan_found:
                continue        # its failing input is the accepted NaN request reported above
        elif other_found:
            continue
        chk.report("obligation:" + name, "theorem %s no longer checks: %s" % (name, why),
                   {"theorem": name, "reason": why, "log": (chk.oblig or {}).get("log_tail", "")[-1500:]}, found_input=False)
    try:
        chk.extra_cov["moment_sanity_context_only"] = moments(exe)
    except Exception as e:
        chk.notes.append("moment run failed: %r" % (e,))
    chk.extra_cov["fixup_fired"] = dict(STATS)
    if STATS["fixup_fired_abs_lower_ge_2"] == 0:
        chk.notes.append("no raw draw hit `lower` on a range with |lower| >= 2 in this run")
    chk.extra_cov["histories"] = len(with_raws)
    chk.extra_cov["seeds"] = len(seeds)
    from props import C20 as _c20
    _c20.run_eq_leg(chk, lambda name: "Initializer" in name or "Random" in name or "DeviceWithSeed" in name or "InitializeParameter" in name)    # initializers, random functions and seeded devices through the C API
    chk.trusted += [
        "PARTIAL: that std::mt19937 and the libstdc++ objects uniform_real_distribution<double/float>(0,1) and normal_distribution<float>(0,1) "
        "produce U[0,1) and N(0,1) (and are deterministic functions of the seed) is trusted; only their use by primitiv is decided",
        "modelled, not verified: Model/Rng.lean `stdDraw` (bernoulli = u < p; uniform = (b-a)*u+a; normal = z*sd+mean; log_normal = expf(s*z+m) in float arithmetic) "
        "and the kernels of k*x, x*y used by dropout; validated bit for bit on the generated histories only",
        "expf/sqrt of the platform libm are used by both sides (the model driver calls the same libm)",
    ]
    chk.assumptions += [
        "range statements are judged for finite parameters with upper - lower <= FLT_MAX (the precondition of std::uniform_real_distribution); "
        "log_normal strict positivity where exp cannot underflow (mean - 12 sd > -87); float rounding is outside every theorem",
        "a NaN mean of normal/log_normal is not counted as an invalid parameter (the property lists sd <= 0 only)",
    ]
    chk.stated_not_proved += [
        "distributional statements (bernoulli with the requested probability, normal/log_normal/gumbel follow their distributions, dropout keeps with probability 1-rate): "
        "not stated in Lean; they reduce, by Rng.bernoulli_01 / Drop.scaling / stdDraw, to the trusted distribution of the standard draws",
    ]


def replay(path):
    """Re-run a replay file on a fresh build of the working tree: implementation, model and the judgement of the property."""
    from translate import rng as trans
    from vlib import lean
    obj = json.load(open(path))
    rp = obj.get("replay", {})
    print("replay of C17: %s" % obj.get("what", "")[:300])
    if "theorem" in rp:
        with trans.gen_lock():
            trans.generate(lock=False)
            res = lean.check_obligations(MODS, "quick", [FAMILY])
        bad = rp["theorem"] in res["failed"]
        print("theorem %s: %s" % (rp["theorem"], "does not check: " + res["failed"][rp["theorem"]] if bad else "checks"))
        return 1 if bad else 0
    if "compile" in rp:
        ok_c, cmd, err = compile_test()
        print(cmd)
        print("compiles" if ok_c else err[-3000:])
        return 0 if ok_c else 1
    if "lines" not in rp:
        print(json.dumps(rp, indent=1)[:3000])
        return 0
    exe = build.build_harness(HARNESS)
    with trans.gen_lock():
        trans.generate(lock=False)
        lean.lake(["build", "drv_" + FAMILY])
    lines = rp["lines"]
    impl, reports = vrun.run_impl(exe, lines, stateful=True)
    model = vrun.run_model(FAMILY, lines)
    bad = 0
    for l, i, m in zip(lines, impl, model):
        w = judge_line(l, i)
        differs = not vrun.same(i, m)
        if w or differs:
            bad += 1
        print("%s %s\n    impl : %s\n    model: %s%s" % ("!" if (w or differs) else " ", l[:300], i[:300], m[:300],
                                                         "\n    PROPERTY VIOLATED: " + w if w else ""))
    for r in reports:
        print("crash report:", r["kind"], (r.get("stderr") or "")[-600:])
    return 1 if bad or reports else 0
