"""C18 — MemoryPool never double-supplies, never leaks, tolerates outliving handles.

Obligations: the theorems of lean/PrimitivModel/Props/C18.lean (all histories, all
allocators that never return an outstanding pointer, failures at arbitrary calls).
Tie: correspondence of the model driver `drv_pool` with harness/h_pool.cc (the
real MemoryPool with logging allocator/deleter functors) on generated histories.
Property violations on the implementation are judged by `Monitor` below, an
abstract specification (sets / stacks / call-log bookkeeping) written against
the property text, independent of the Lean model.
"""
import itertools, os, re
from vlib import run as vrun, build, check as vcheck

MODS = ["PrimitivModel.Props.C18"]
TWO63 = 1 << 63
U64 = (1 << 64) - 1


# ------------------------------------------------------------------ monitor
def ceil_log2(x):
    return (x - 1).bit_length() if x >= 1 else 64


LOG_RE = re.compile(r"^(ok|err) \[([^\]]*)\](.*)$")


def parse_log(s):
    """'A 16 -> ptr#0; D ptr#1' -> [('A', 16, 'ptr#0'|None), ('D', 'ptr#1')]"""
    out = []
    if not s.strip():
        return out
    for part in s.split("; "):
        w = part.split()
        if w[0] == "A" and len(w) == 4 and w[2] == "->":
            out.append(("A", int(w[1]), None if w[3] == "fail" else w[3]))
        elif w[0] == "D" and len(w) == 2:
            out.append(("D", w[1]))
        else:
            out.append(("?", part))
    return out


class Monitor:
    """Reference bookkeeping for one process of the harness.  `feed(line, out)`
    returns a list of (class, message) property violations seen at that line."""

    def __init__(self):
        self.ids_seen = set()
        self.reset()

    def reset(self):
        self.pools = {}        # name -> {id, min, free: {class: [ptr]}, supplied: {ptr: class}}
        self.handles = {}      # name -> (ptr, pool name, pool id)
        self.outstanding = {}  # ptr -> (size, pool id)

    def live_pool_by_id(self, pid):
        for p in self.pools.values():
            if p["id"] == pid:
                return p
        return None

    def feed(self, line, out):
        w = line.split()
        v = []
        if out.startswith("crash"):
            return [("crash", "the call crashes: %s" % out)]
        if out == "bad-op" or out == "skipped" or not w:
            return v
        if out.startswith("err-"):
            return [("unexpected-exception", "an exception other than primitiv::Error escapes: %s" % out)]
        op = w[0]
        if op == "shifts":
            x = int(w[1])
            if out != "ok %d" % ceil_log2(x):
                v.append(("shifts", "calculate_shifts(%d) gives `%s`, ceil(log2 x) is %d" % (x, out, ceil_log2(x))))
            return v
        if op in ("fail_next", "reuse", "fail_kind"):
            return v
        if op == "pool":
            m = re.match(r"^ok id=(\d+)$", out)
            if not m:
                return [("format", "unexpected answer `%s`" % out)]
            pid = int(m.group(1))
            if pid in self.ids_seen:
                v.append(("id-reused", "pool id %d was handed out before" % pid))
            self.ids_seen.add(pid)
            self.pools[w[1]] = {"id": pid, "min": int(w[2]) if len(w) > 2 else 0, "free": {}, "supplied": {}}
            return v
        m = LOG_RE.match(out)
        if not m:
            return [("format", "unexpected answer `%s`" % out)]
        status, log, tail = m.group(1), parse_log(m.group(2)), m.group(3)
        for e in log:
            if e[0] == "?" or (e[0] == "D" and not e[1].startswith("ptr#")):
                v.append(("delete-unknown", "deleter called with a pointer the allocator never returned: %s" % (e[1],)))
        if op == "alloc":
            v += self.alloc(w, status, log, tail)
        elif op == "drop":
            if log:
                v.append(("drop-calls", "releasing a handle called a callback: %s" % (log,)))
                v += self.apply_log(log, None)
            h = self.handles.pop(w[1], None)
            if h:
                ptr, pname, pid = h
                p = self.live_pool_by_id(pid)
                if p is not None and ptr in p["supplied"]:
                    k = p["supplied"].pop(ptr)
                    p["free"].setdefault(k, []).append(ptr)
        elif op == "destroy":
            p = self.pools.pop(w[1], None)
            if p is not None:
                v += self.expect_deleted(log, self.owned(p), "destroying pool %s" % w[1])
        elif op == "reset":
            v += self.expect_deleted(log, set(self.outstanding), "destroying every pool")
            self.reset()
        return v

    def owned(self, p):
        s = set(p["supplied"])
        for l in p["free"].values():
            s |= set(l)
        return s

    def supplied_everywhere(self):
        s = set()
        for p in self.pools.values():
            s |= set(p["supplied"])
        return s

    def apply_log(self, log, pid):
        """Generic bookkeeping of a call log; returns violations."""
        v = []
        for e in log:
            if e[0] == "A" and e[2] is not None:
                if e[2] in self.outstanding:
                    v.append(("harness", "the test allocator returned an outstanding pointer %s" % e[2]))
                self.outstanding[e[2]] = (e[1], pid)
            elif e[0] == "D":
                if e[1] not in self.outstanding:
                    v.append(("double-delete", "%s passed to the deleter although it is not outstanding (deleted twice or never allocated)" % e[1]))
                else:
                    del self.outstanding[e[1]]
        return v

    def expect_deleted(self, log, expected, what):
        v = []
        if any(e[0] == "A" for e in log):
            v.append(("destructor-allocates", "%s called the allocator" % what))
        dels = [e[1] for e in log if e[0] == "D"]
        for d in set(dels):
            if dels.count(d) > 1:
                v.append(("double-delete", "%s: %s passed to the deleter %d times" % (what, d, dels.count(d))))
        missing = expected - set(dels)
        extra = set(dels) - expected
        if missing:
            v.append(("leak", "%s: never passed to the deleter: %s" % (what, ",".join(sorted(missing)))))
        if extra:
            still = extra & self.supplied_everywhere()
            cls = "delete-while-supplied" if still else "double-delete"
            v.append((cls, "%s: deleter called for blocks the pool does not own: %s" % (what, ",".join(sorted(extra)))))
        for d in set(dels):
            self.outstanding.pop(d, None)
        for p in self.pools.values():
            for d in set(dels):
                p["supplied"].pop(d, None)
                for l in p["free"].values():
                    while d in l:
                        l.remove(d)
        return v

    def alloc(self, w, status, log, tail):
        v = []
        pname, hname, size = w[1], w[2], int(w[3])
        p = self.pools.get(pname)
        if p is None:
            return [("format", "alloc on a pool the monitor does not know")]
        mt = re.match(r"^(?: h=(\S+))? as=(\d+) id=(\d+)$", tail)
        if not mt:
            return [("format", "unexpected answer tail `%s`" % tail)]
        h, as_, pid = mt.group(1), int(mt.group(2)), int(mt.group(3))
        if pid != p["id"]:
            v.append(("id-changed", "pool reports id %d, it was created with id %d" % (pid, p["id"])))
        eff = max(size, p["min"])
        if size == 0:
            if not (status == "ok" and h == "null" and as_ == 0 and not log):
                v.append(("size0", "allocate(0) must give a null handle, allocated_size 0 and call nothing; got `%s`" % tail))
            v += self.apply_log(log, pid)
            return v
        if eff > TWO63:
            if not (status == "err" and as_ == 0 and not log):
                v.append(("size-limit", "a size above 2^63 must raise an Error with allocated_size 0 and call nothing; got %s `%s`" % (status, tail)))
            v += self.apply_log(log, pid)
            if status == "ok" and h and h != "null":
                p["supplied"][h] = ceil_log2(eff)
                self.handles[hname] = (h, pname, pid)
            return v
        k = ceil_log2(eff)
        msize = 1 << k
        free = p["free"].get(k, [])
        # deleter calls are allowed only for blocks in this pool's free lists
        cached = set()
        for l in p["free"].values():
            cached |= set(l)
        dels = [e[1] for e in log if e[0] == "D"]
        allocs = [e for e in log if e[0] == "A"]
        supplied_now = self.supplied_everywhere()
        for d in dels:
            if d in supplied_now:
                v.append(("delete-while-supplied", "%s passed to the deleter while a live handle refers to it" % d))
        for a in allocs:
            if a[1] != msize:
                v.append(("wrong-size-class", "allocator asked for %d bytes; the class of max(%d, minimum %d) is %d" % (a[1], size, p["min"], msize)))
        if free:
            if log:
                v.append(("no-reuse", "a released block of class %d was available but callbacks were called: %s" % (k, log)))
            if status != "ok" or h not in free:
                v.append(("no-reuse", "a released block of class %d (%s) was available but the result is %s h=%s" % (k, ",".join(free), status, h)))
        else:
            if not allocs:
                v.append(("no-allocator-call", "no free block of class %d, yet the allocator was not called (result %s h=%s)" % (k, status, h)))
            elif allocs[0][2] is not None:
                if len(log) != 1:
                    v.append(("retry", "the allocator succeeded at once but more callbacks followed: %s" % (log,)))
                if status != "ok" or h != allocs[0][2]:
                    v.append(("wrong-block", "the handle is %s, the allocator returned %s" % (h, allocs[0][2])))
            else:
                # first call failed: release every cached block, retry exactly once
                if len(allocs) != 2 or log[0][0] != "A" or log[-1][0] != "A":
                    v.append(("retry", "after a failed allocator call the pool must free its cached blocks and retry exactly once; calls: %s" % (log,)))
                if set(dels) != cached or len(dels) != len(set(dels)):
                    v.append(("retry", "the retry must release exactly the cached blocks %s; deleted: %s" % (sorted(cached), dels)))
                if len(allocs) >= 2:
                    last = allocs[-1][2]
                    if last is None and status != "err":
                        v.append(("retry", "the allocator failed twice but the result is %s h=%s" % (status, h)))
                    if last is not None and (status != "ok" or h != last):
                        v.append(("wrong-block", "the handle is %s, the allocator returned %s" % (h, last)))
        if status == "ok":
            if as_ != msize:
                v.append(("wrong-size-class", "allocated_size is %d; smallest power of two >= max(%d, minimum %d) is %d" % (as_, size, p["min"], msize)))
            if h in (None, "null"):
                v.append(("null-handle", "a non-zero size gave a null handle"))
        elif as_ != 0:
            v.append(("allocated-size-on-error", "allocated_size is %d after an Error" % as_))
        # bookkeeping
        for d in dels:
            for l in p["free"].values():
                while d in l:
                    l.remove(d)
        v += self.apply_log(log, pid)
        if status == "ok" and h not in (None, "null"):
            if h in self.supplied_everywhere():
                v.append(("double-supply", "%s handed out while another live handle refers to it" % h))
            if h not in self.outstanding:
                v.append(("dangling-supply", "%s handed out although it was passed to the deleter (or never allocated)" % h))
            elif self.outstanding[h][0] != as_:
                v.append(("wrong-size-class", "%s was allocated with %d bytes but handed out as %d bytes" % (h, self.outstanding[h][0], as_)))
            for l in p["free"].values():
                while h in l:
                    l.remove(h)
            p["supplied"][h] = k
            self.handles[hname] = (h, pname, pid)
        return v


def monitor_stream(lines, impl):
    """[(index, class, message)] for one stream (one process)."""
    mon = Monitor()
    res = []
    for i, (l, o) in enumerate(zip(lines, impl)):
        try:
            for (cls, msg) in mon.feed(l, o):
                res.append((i, cls, msg))
        except Exception as e:  # a malformed answer must not kill the check
            res.append((i, "format", "monitor could not interpret `%s` -> `%s`: %r" % (l, o, e)))
    return res


# ---------------------------------------------------------------- generator
def boundary_sizes():
    s = {0, 1, 2, 3, U64, U64 - 1, TWO63 + 1, TWO63 + 2}
    for k in range(64):
        for d in (-1, 0, 1):
            x = (1 << k) + d
            if 0 <= x <= U64:
                s.add(x)
    return sorted(s)


BOUNDS = boundary_sizes()


def gen_history(rng, idx, maxlen=60):
    """One history: pools p0..p3, handles a<n>; sizes from a small palette so
    that classes repeat (reuse), the palette of history idx contains the
    boundary of class idx % 64."""
    k0 = idx % 64
    palette = [(1 << k0) - 1 if k0 else 1, 1 << k0, min((1 << k0) + 1, U64)]
    palette += [rng.choice(BOUNDS) for _ in range(2)] + [rng.choice([1, 2, 3, 5, 8, 9, 16, 17, 100, 1000, 4096])
                                                          for _ in range(3)]
    mins = [None, None, 0, 1, 8, 10, 4096, rng.choice(BOUNDS), (1 << k0), (1 << k0) + 1]
    n = rng.randrange(4, maxlen + 1)
    lines = []
    live_pools, dead_or_live_handles, nh = [], [], 0
    npools = rng.choice([1, 2, 2, 3, 4])
    if rng.random() < 0.15:
        lines.append("reuse 0")
    while len(lines) < n:
        r = rng.random()
        if not live_pools or (r < 0.06 and len(live_pools) < npools):
            name = "p%d" % rng.randrange(npools)
            if name in live_pools:
                continue
            m = rng.choice(mins)
            lines.append("pool %s" % name if m is None else "pool %s %d" % (name, m))
            live_pools.append(name)
        elif r < 0.50:
            p = rng.choice(live_pools)
            q = rng.random()
            size = 0 if q < 0.04 else rng.choice(BOUNDS) if q < 0.10 else rng.choice([TWO63 + 1, U64]) if q < 0.13 else rng.choice(palette)
            if rng.random() < 0.18:
                if rng.random() < 0.5:
                    lines.append("fail_kind %s" % rng.choice(["error", "bad_alloc", "runtime"]))    # the type the allocator throws
                lines.append("fail_next %d" % rng.choice([1, 1, 1, 2, 2, 3]))
            lines.append("alloc %s a%d %d" % (p, nh, size))
            dead_or_live_handles.append("a%d" % nh)
            nh += 1
        elif r < 0.86:
            if not dead_or_live_handles:
                continue
            # recent handles more often (reuse right after release), old ones too (outliving handles)
            i = len(dead_or_live_handles) - 1 - min(int(rng.expovariate(0.7)), len(dead_or_live_handles) - 1) if rng.random() < 0.6 \
                else rng.randrange(len(dead_or_live_handles))
            lines.append("drop %s" % dead_or_live_handles.pop(i))
        elif r < 0.93:
            p = rng.choice(live_pools)
            lines.append("destroy %s" % p)
            live_pools.remove(p)
        elif r < 0.95:
            lines.append("reuse %d" % rng.randrange(2))
        elif r < 0.98:
            lines.append("shifts %d" % rng.choice(BOUNDS + [rng.getrandbits(64), rng.getrandbits(rng.randrange(1, 65))]))
        else:
            lines.append(rng.choice(["alloc nopool x 1", "drop nohandle", "destroy nopool", "alloc %s a0 x" % (live_pools[0]),
                                     "pool", "frob 1", "shifts 18446744073709551616", "shifts -1", "alloc %s b 1_0" % live_pools[0],
                                     "pool %s" % live_pools[0], "fail_next", "reuse 2", "alloc %s b 99999999999999999999999" % live_pools[0]]))
    return lines[:maxlen]


ALPHABET = ["pool p", "pool q 10", "alloc p @ 1", "alloc p @ 3", "alloc q @ 12", "drop first", "drop last",
            "destroy p", "destroy q", "fail_next 1", "fail_next 2"]


def small_scope_histories(length=5):
    """All histories of `length` calls over two pools and the alphabet above whose first
    call creates a pool (a history that starts otherwise starts with rejected lines and
    is equivalent to a shorter one; shorter histories are the prefixes)."""
    for first in (0, 1):
        for rest in itertools.product(range(len(ALPHABET)), repeat=length - 1):
            lines, hs, nh = [], [], 0
            for a in (first,) + rest:
                t = ALPHABET[a]
                if t.startswith("alloc"):
                    lines.append(t.replace("@", "a%d" % nh))
                    hs.append("a%d" % nh)
                    nh += 1
                elif t == "drop first":
                    lines.append("drop %s" % (hs.pop(0) if hs else "none"))
                elif t == "drop last":
                    lines.append("drop %s" % (hs.pop() if hs else "none"))
                else:
                    lines.append(t)
            yield lines


def shifts_stream(rng, n):
    xs = list(BOUNDS) + [rng.getrandbits(64) for _ in range(n)] + [rng.getrandbits(rng.randrange(1, 65)) for _ in range(n)]
    return ["shifts %d" % x for x in xs]


def batches(histories, size):
    """Concatenate histories into streams (one process each), separated by `reset`."""
    cur = []
    for i, h in enumerate(histories):
        cur += h + ["reset"]
        if (i + 1) % size == 0:
            yield cur
            cur = []
    if cur:
        yield cur


def history_at(lines, i):
    """The history (since the previous `reset`) that contains line i of a batch."""
    s = i
    while s > 0 and lines[s - 1] != "reset":
        s -= 1
    return lines[s:i + 1]


def load_corpus():
    p = os.path.join(build.VERIF, "corpus", "pool.ops")
    if not os.path.exists(p):
        return []
    hs, cur = [], []
    for l in open(p):
        l = l.strip()
        if not l or l.startswith("#"):
            continue
        if l == "reset":
            if cur:
                hs.append(cur)
            cur = []
        else:
            cur.append(l)
    if cur:
        hs.append(cur)
    return hs


# -------------------------------------------------------------------- check
def run(chk):
    quick = chk.tier == "quick"
    chk.rule = ("histories of client calls on the real MemoryPool (pool creation with/without minimum size, allocate, handle release, "
                "pool destruction, injected allocator failures for the next 1..3 allocator calls, allocator with/without address reuse, "
                "calculate_shifts) generated from one PRNG: 1..4 pools, <=60 calls, sizes from a per-history palette (so classes repeat and "
                "released blocks are reused) that contains the boundary 2^k-1, 2^k, 2^k+1 of class k = history number mod 64, plus 0, sizes "
                "above 2^63, 2^64-1; handles are released in any order, also after their pool was destroyed; a few malformed lines. "
                "Thorough adds every history of 5 calls over two pools and an 11-call alphabet. Each history runs on the ASan/UBSan build of "
                "/repo with logging allocator/deleter functors and on the Lean model; the outputs (callback log, handle, allocated_size, "
                "pool id) are compared line by line, and an independent monitor checks the property on the implementation's output alone. "
                "Non-trivial = the call was accepted by the harness and answered ok/err (not bad-op); distinct = distinct call lines.")
    chk.obligations(MODS, drivers=["pool"])
    # pool ids stay unique when pools are created and destroyed from several threads: the free-running
    # ThreadSanitizer program of C19 creates/destroys Identifiable objects concurrently
    try:
        from props import C19 as _c19
        _c19.run_tsan(chk, 20000 if quick else 200000, 90 if quick else 400)
    except Exception as e:
        chk.notes.append("concurrent id run skipped: %r" % (e,))
    exe = build.build_harness("h_pool")

    nh = 500 if quick else 20000
    histories = load_corpus()
    ncorpus = len(histories)
    for i in range(nh):
        histories.append(gen_history(chk.rng, i))
    nsmall = 0
    if not quick:
        for h in small_scope_histories(5):
            histories.append(h)
            nsmall += 1
    streams = [shifts_stream(chk.rng, 300 if quick else 5000)] + list(batches(histories, 25 if quick else 200))

    found = []   # monitor violations: (stream lines, index, class, message)
    classes_seen = set()
    stats = {"alloc_ok": 0, "alloc_err": 0, "reused": 0, "retries": 0, "outliving_drops": 0, "boundary_sizes": set()}

    def post(lines, impl, model):
        for (i, cls, msg) in monitor_stream(lines, impl):
            found.append((lines, i, cls, msg))
        for l, o in zip(lines, impl):
            if l.startswith("alloc"):
                if o.startswith("ok [] h=ptr"):
                    stats["reused"] += 1
                if o.startswith("ok"):
                    stats["alloc_ok"] += 1
                    stats["boundary_sizes"].add(l.split()[-1])
                elif o.startswith("err"):
                    stats["alloc_err"] += 1
                if "fail; " in o or "fail]" in o:
                    stats["retries"] += 1
        return impl, model

    dis, _, crashes = chk.correspond("pool", "h_pool", streams, stateful=True, post=post,
                                     nontrivial=lambda line, out: out.startswith("ok") or out.startswith("err ["))

    def run_impl(lines):
        out, _ = vrun.run_impl(exe, lines, stateful=True)
        return out

    # 1. property violations observed on the implementation alone
    reported = 0
    for (lines, i, cls, msg) in found:
        if cls in classes_seen or reported >= 6:
            continue
        classes_seen.add(cls)
        hist = history_at(lines, i)

        def still(cand, cls=cls):
            cand = list(cand) + ["reset"]
            return any(c == cls for (_, c, _) in monitor_stream(cand, run_impl(cand)))

        if still(hist):
            hist = vcheck.shrink(hist, still, max_runs=80)
        final = hist + ["reset"]
        out = run_impl(final)
        msgs = [m for (_, c, m) in monitor_stream(final, out) if c == cls] or [msg]
        chk.report("pool:%s:%s" % (cls, " / ".join(hist)), "%s — history: %s" % (msgs[0], " / ".join(hist)),
                   {"family": "pool", "harness": "h_pool", "stateful": True, "lines": final, "class": cls,
                    "observed_impl": out, "violation": msgs[0]})
        reported += 1

    # 2. a process that failed at exit (leak report of the sanitizer, abort) without a crashing line
    for r in crashes:
        if r.get("at_exit") and "crash" not in classes_seen:
            chk.report("pool:exit:%s" % r["kind"], "the harness process failed at exit (%s): %s" % (r["kind"], (r.get("stderr") or "")[-300:]),
                       {"family": "pool", "harness": "h_pool", "stateful": True, "kind": r["kind"], "stderr": (r.get("stderr") or "")[-1500:]},
                       found_input=False)
            break

    # 3. correspondence: model != implementation, and the monitor saw nothing wrong there
    for d in dis[:3]:
        if found:
            break
        hist = history_at(d["lines"], d["index"])

        def differs(cand):
            o = run_impl(cand)
            m = vrun.run_model("pool", cand)
            return any(not vrun.same(a, b) for a, b in zip(o, m))

        if differs(hist):
            hist = vcheck.shrink(hist, differs, max_runs=60)
        chk.report("correspondence:pool:%s" % d["line"].split(" ")[0],
                   "model and implementation disagree on `%s` (impl `%s`, model `%s`) and the independent monitor sees no property violation; "
                   "the Lean model no longer describes memory_pool.cc" % (d["line"], d["impl"], d["model"]),
                   {"family": "pool", "harness": "h_pool", "stateful": True, "lines": hist, "observed_impl": d["impl"], "model": d["model"],
                    "broken": "correspondence pool/h_pool"}, found_input=False)

    # 4. broken proof obligations with no failing input found
    broken = chk.broken_obligations()
    if broken and not chk.violations:
        for name, why in broken.items():
            chk.report("obligation:" + name, "theorem %s no longer checks: %s" % (name, why),
                       {"theorem": name, "reason": why, "log": (chk.oblig or {}).get("log_tail", "")[-1500:]}, found_input=False)

    bs = set(str(x) for x in BOUNDS)
    chk.extra_cov.update({
        "histories": len(histories), "corpus_histories": ncorpus, "exhaustive_small_scope_histories": nsmall,
        "processes": len(streams), "allocations_served": stats["alloc_ok"], "allocations_failed": stats["alloc_err"],
        "allocations_served_from_free_list": stats["reused"], "allocations_with_failed_allocator_call": stats["retries"],
        "class_boundary_sizes_served": len(stats["boundary_sizes"] & bs), "class_boundary_sizes_total": len(bs),
        "monitor_violations": len(found), "correspondence_disagreements": len(dis),
    })
    chk.trusted += [
        "modelled, not verified: MemoryPool, the Identifiable registry and calculate_shifts are hand-modelled in Lean (Model/Pool.lean) and tied to the code by the correspondence run of this check",
        "the allocator/deleter functors are the environment: the theorems assume an allocator that never returns a pointer it handed out and has not seen deleted (Oracle.Fresh), and a deleter that returns normally; the harness uses fake addresses (the pool never dereferences a block)",
        "std::shared_ptr runs the Deleter exactly once when the last reference goes away; std::unordered_map / std::vector behave as specified",
    ]
    chk.assumptions += [
        "single-threaded use of one pool (the registry mutex and concurrent use are C19's subject)",
        "fewer than 2^64 pools are ever created (next_id_ does not wrap)",
        "an allocator failure is an exception thrown by the functor; an allocator that returns an outstanding or null pointer instead is outside the property",
        "no std::bad_alloc inside the pool's own containers",
        "the iteration order of supplied_ in the destructor is modelled as one fixed order; the deleter calls of one destructor are compared as a set",
    ]


def replay(path):
    """Re-run the lines of a replay file on a fresh build of the working tree:
    implementation, model and the independent monitor."""
    import json
    from vlib import lean
    obj = json.load(open(path))
    rp = obj.get("replay", {})
    print("replay of C18: %s" % obj.get("what", "")[:300])
    if "lines" not in rp:
        print(json.dumps(rp, indent=1)[:3000])
        return 0
    exe = build.build_harness("h_pool")
    lean.lake(["build", "drv_pool"])
    lines = rp["lines"]
    impl, reports = vrun.run_impl(exe, lines, stateful=True)
    model = vrun.run_model("pool", lines)
    mon = {}
    for (i, cls, msg) in monitor_stream(lines, impl):
        mon.setdefault(i, []).append("%s: %s" % (cls, msg))
    bad = 0
    for i, (l, a, b) in enumerate(zip(lines, impl, model)):
        same = vrun.same(a, b)
        bad += (not same) + len(mon.get(i, []))
        print("%s %s\n    impl : %s\n    model: %s" % (" " if same else "!", l, a, b))
        for m in mon.get(i, []):
            print("    PROPERTY VIOLATED — " + m)
    for r in reports:
        print("crash report:", r["kind"], (r.get("stderr") or "")[-600:])
    return 1 if bad or reports else 0
