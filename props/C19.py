"""C19 — spinlocks give mutual exclusion and re-entrancy under every interleaving;
no data race on the lock's own fields; Identifiable ids unique / resolvable;
DefaultSettable never dangles."""
import collections, hashlib, itertools, json, os, re, subprocess, time
from vlib import run as vrun, lean, build
from vlib import check as vcheck
from translate import spinlock_decls

MODS = ["PrimitivModel.Props.C19"]
FINDING_MOD = "PrimitivModel.Props.Findings.C19Drf"
FAMILY, HARNESS, TSAN, HARNESS_DEV = "spin", "h_spin", "h_spin_tsan", "h_spin_dev"
OPS = ["lock", "try_lock", "unlock"]
CORPUS = os.path.join(build.VERIF, "corpus", "spin.ops")

# pending access name → (field, writes?)
ACCESS = {"tas": ("ready", True), "clear": ("ready", True), "rd_owner": ("owner", False),
          "wr_owner": ("owner", True), "inc": ("count", True), "dec": ("count", True)}
CXX_FIELD = {"ready": "ready_", "owner": "locked_thread_id_", "count": "lock_count_"}


# ------------------------------------------------------------------ generators
def rand_prog(rng, kind, maxlen=4):
    n = rng.randint(1, maxlen)
    r = rng.random()
    if r < 0.45:
        # well nested: acquisitions followed by releases
        acq = [rng.choice(["lock", "lock", "try_lock"]) for _ in range(rng.randint(1, max(1, n // 2 + 1)))]
        if kind == "spin":
            acq = acq[:1]
        return (acq + ["unlock"] * rng.randint(len(acq) - (1 if rng.random() < 0.2 else 0), len(acq) + (1 if rng.random() < 0.3 else 0)))[:maxlen + 1]
    if r < 0.6:
        return ["try_lock", "unlock"] * rng.randint(1, 2)
    return [rng.choice(OPS) for _ in range(n)]


def rand_scenario(rng, maxsteps=40):
    kind = "rspin" if rng.random() < 0.7 else "spin"
    k = rng.choice([2, 2, 3])
    lines = ["threads %d %s" % (k, kind)]
    order = list(range(k))
    rng.shuffle(order)
    for t in order:
        if rng.random() < 0.04:
            continue  # a thread without a program
        lines.append(("prog %d " % t + " ".join(rand_prog(rng, kind))).strip())
    n = rng.randint(6, maxsteps)
    t = rng.randrange(k)
    for _ in range(n):
        if rng.random() < 0.45:
            t = rng.randrange(k)
        lines.append("step %d" % t)
    return lines


def mixin_stream(rng, n):
    lines = []
    ids_seen = 0
    for _ in range(n):
        r = rng.random()
        a = rng.randrange(6) if rng.random() < 0.9 else rng.choice([63, 64, 7, 1000])
        if r < 0.22:
            lines.append("ident new %d" % a); ids_seen += 1
        elif r < 0.40:
            lines.append("ident del %d" % a)
        elif r < 0.58:
            i = rng.randrange(ids_seen + 2) if rng.random() < 0.9 else rng.choice([2**32, 2**63, 10**19 - 1, 10**19, 2**64])
            lines.append("ident get %d" % i)
        elif r < 0.68:
            lines.append("default new %d" % a)
        elif r < 0.80:
            lines.append("default set %d" % a)
        elif r < 0.90:
            lines.append("default del %d" % a)
        else:
            lines.append("default get")
    return lines


def xd_stream(rng, n):
    """Default slot of Device / Graph used from several (sequenced) threads."""
    lines = []
    for kind in ("dev", "graph"):
        # the scenario itself: A sets the default, B destroys it, A asks for it
        lines += ["xd %s 0 new 1" % kind, "xd %s 0 set 1" % kind, "xd %s 1 get" % kind, "xd %s 1 del 1" % kind, "xd %s 0 get" % kind,
                  "xd %s 2 new 1" % kind, "xd %s 2 new 2" % kind, "xd %s 3 set 2" % kind, "xd %s 0 del 1" % kind, "xd %s 1 get" % kind,
                  "xd %s 2 del 2" % kind, "xd %s 3 get" % kind]
    while len(lines) < n:
        kind = rng.choice(["dev", "graph"])
        a = rng.randrange(4)
        if rng.random() < 0.25:
            t1, t2 = rng.sample(range(4), 2)
            lines += ["xd %s %d new %d" % (kind, t1, a), "xd %s %d set %d" % (kind, t1, a), "xd %s %d del %d" % (kind, t2, a), "xd %s %d get" % (kind, t1)]
            continue
        t = rng.randrange(4) if rng.random() < 0.95 else rng.choice([4, 7])
        r = rng.random()
        if r < 0.25:
            lines.append("xd %s %d new %d" % (kind, t, a))
        elif r < 0.5:
            lines.append("xd %s %d set %d" % (kind, t, a))
        elif r < 0.75:
            lines.append("xd %s %d del %d" % (kind, t, a))
        elif r < 0.97:
            lines.append("xd %s %d get" % (kind, t))
        else:
            lines.append(rng.choice(["xd", "xd dev", "xd foo 0 get", "xd dev 0 new 16", "xd graph 0 frob 1", "xd dev 0 get 1", "xd graph x get"]))
    return lines


def deep_stream(rng, quick):
    ns = [70000, 2, 3, 65535, 65536, 65537, 1, 0, 1000001] + [rng.randrange(2, 200000) for _ in range(3 if quick else 20)]
    if not quick:
        ns += [1000000, 131072, 131073]
    return ["deep %d" % n for n in ns]


MALFORMED = ["step 0", "prog 0 lock", "graphx", "threads 0 rspin", "threads 9 spin", "threads 2 mutex", "threads x spin",
             "threads 2 rspin", "prog 2 lock", "prog 0 lock foo", "prog 0 lock", "prog 0 unlock", "prog x", "prog", "step 2",
             "step", "step -1", "step 1", "step 0", "step 0 0", "ident", "ident new", "ident new x", "ident frob 1",
             "ident new 64", "ident del 3", "ident get 99999999999999999999", "default", "default get 1", "default set 70",
             "default frob 1", "default set 3", "default del 3", "threads 1 spin", "prog 0", "step 0", "step 0", "unlock"]


def all_programs(maxlen):
    res = []
    for n in range(1, maxlen + 1):
        res += [list(p) for p in itertools.product(OPS, repeat=n)]
    return res


def enum_scenarios(tier):
    """Heads (threads + prog lines) of the exhaustively explored scenarios."""
    res = []
    if tier == "quick":
        sets = [(2, 1)]
    else:
        sets = [(2, 3), (3, 2)]
    for kind in ("rspin", "spin"):
        for k, maxlen in sets:
            progs = all_programs(maxlen)
            # thread names are interchangeable: multisets of programs
            for combo in itertools.combinations_with_replacement(range(len(progs)), k):
                res.append(["threads %d %s" % (k, kind)] + ["prog %d %s" % (t, " ".join(progs[c])) for t, c in enumerate(combo)])
    return res


def cover_paths(edges):
    """edges: {(i, t): j} of a graph rooted at 0.  Returns schedules (lists of t)
    from the root that together traverse every edge."""
    out = collections.defaultdict(list)
    for (i, t), j in sorted(edges.items()):
        out[i].append((t, j))
    uncovered = set(edges.keys())
    paths = []

    def nearest(src):
        # BFS to the nearest state with an uncovered outgoing edge
        prev = {src: None}
        q = collections.deque([src])
        while q:
            x = q.popleft()
            if any((x, t) in uncovered for t, _ in out[x]):
                path = []
                while prev[x] is not None:
                    px, pt = prev[x]
                    path.append(pt)
                    x = px
                return list(reversed(path))
            for t, j in out[x]:
                if j not in prev:
                    prev[j] = (x, t)
                    q.append(j)
        return None

    while uncovered:
        cur, path = 0, []
        while True:
            nxt = [(t, j) for t, j in out[cur] if (cur, t) in uncovered]
            if nxt:
                t, j = nxt[len(path) % len(nxt)]
                uncovered.discard((cur, t))
                path.append(t); cur = j
                continue
            p = nearest(cur)
            if p is None:
                break
            for t in p:
                path.append(t)
                cur = edges[(cur, t)]
        if not path:
            break
        paths.append(path)
    return paths


# ---------------------------------------------------------------------- judge
class Monitor:
    """Judges the implementation's own output, independently of the model:
    occupancy (at most one holder), conflicting pending accesses to a field the
    source declares non-atomic, crashes, dangling / duplicate objects."""

    def __init__(self, decls):
        self.decls = decls
        self.reset()

    def reset(self):
        self.kind = None
        self.holding = []
        self.ids = set()

    def atomic(self, field):
        cls = "RecursiveSpinlock" if self.kind == "rspin" else "Spinlock"
        return self.decls[cls]["atomic"].get(CXX_FIELD[field], False)

    def __call__(self, line, impl, model=None):
        w = line.split()
        if impl.startswith("crash"):
            return "%s: the real code crashed / got stuck (%s)" % (line, impl)
        if w[:1] == ["threads"] and impl == "ok":
            self.kind = w[2]
            self.holding = []
            return None
        if w[:1] == ["step"] and impl.startswith("ok "):
            f = dict(x.split("=", 1) for x in impl.split()[2:] if "=" in x)
            holds = [] if f.get("holds", "-") == "-" else f["holds"].split(",")
            before, self.holding = self.holding, holds
            acc = impl.split()[1]
            if self.kind == "rspin" and w[1] in before and acc == "rd_owner" and (f.get("ret") == "false" or f.get("next") == "tas"):
                return ("re-entrancy violated: thread %s holds the RecursiveSpinlock and its %s did not succeed"
                        % (w[1], "try_lock()" if f.get("ret") == "false" else "lock()"))
            if len(holds) > 1:
                return "mutual exclusion violated: threads %s are all between a successful acquire and the matching release" % ",".join(holds)
            pend = f.get("pend", "").split(",")
            if f.get("flag") == "1" and not holds and not any(x in ("wr_owner", "inc") for x in pend):
                return ("lost release: the flag stays set although no thread holds the lock or is completing an acquisition "
                        "(the lock is not released when the unlock count matches)")
            if f.get("owner") == "?":
                return "locked_thread_id_ holds the id of no thread of the scenario"
            for a in range(len(pend)):
                for b in range(a + 1, len(pend)):
                    x, y = ACCESS.get(pend[a]), ACCESS.get(pend[b])
                    if x and y and x[0] == y[0] and (x[1] or y[1]) and not self.atomic(x[0]):
                        return ("data race: threads %d and %d are both about to access the non-atomic field %s (%s / %s)"
                                % (a, b, CXX_FIELD[x[0]], pend[a], pend[b]))
            return None
        if w[:1] == ["deep"] and impl.startswith("ok "):
            f = dict(x.split("=", 1) for x in impl.split()[1:] if "=" in x)
            if f.get("try1") == "true" or f.get("try2") == "true":
                return ("mutual exclusion violated: another thread's try_lock() succeeded while the owner still held the RecursiveSpinlock "
                        "(nested %s deep, %s)" % (w[1], "one unlock" if f.get("try1") == "true" else "all but one unlock"))
            if f.get("try3") != "true" or f.get("flag") != "0":
                return "lost release: after %s nested lock() and as many unlock() calls the RecursiveSpinlock is not free" % w[1]
            return None
        if w[:2] == ["ident", "new"] and impl.startswith("ok "):
            i = impl.split()[1]
            if i in self.ids:
                return "Identifiable handed out id %s twice" % i
            self.ids.add(i)
        if impl == "ok dangling":
            return "%s returned a reference to an object that does not exist any more" % " ".join(w[:2])
        return None


def violation_key(what):
    if what.startswith("mutual exclusion") and "nested" in what:
        return "spin:mutex:deep-nesting"
    if what.startswith("lost release") and "nested" in what:
        return "spin:lost-release:deep-nesting"
    if what.startswith("mutual exclusion"):
        return "spin:mutex"
    if what.startswith("re-entrancy"):
        return "spin:reentrancy"
    if what.startswith("lost release"):
        return "spin:lost-release"
    if what.startswith("data race"):
        m = re.search(r"field (\w+) \((\w+) / (\w+)\)", what)
        return "spin:data-race:%s:%s" % (m.group(1), "/".join(sorted([m.group(2), m.group(3)])))
    if "crashed" in what:
        return "spin:crash"
    if "dangling" in what or "does not exist" in what:
        return "spin:dangling"
    if "twice" in what:
        return "spin:id-reuse"
    return "spin:other"


def scenario_of(lines):
    """The last scenario of a stream prefix (from its `threads` line on); for
    mixin lines the whole prefix restricted to mixin lines."""
    last = lines[-1].split()[0]
    if last == "deep":
        return [lines[-1]]
    if last == "xd":
        k = lines[-1].split()[1:2]
        return [l for l in lines if l.split()[:1] == ["xd"] and l.split()[1:2] == k]
    if last in ("ident", "default"):
        return [l for l in lines if l.split()[0] == last]
    idx = max([i for i, l in enumerate(lines) if l.startswith("threads ")] or [0])
    return lines[idx:]


# ------------------------------------------------------------------------ run
def tsan_exe():
    """The free-running program; primitiv/core/memory_pool.cc (the real Identifiable user) is compiled into it."""
    mp = os.path.join(spinlock_decls.repo(), "primitiv", "core", "memory_pool.cc")
    return build.build_harness(TSAN, "tsan", link_lib=False, extra_flags=["-DVERIF_SRC=" + build.sha(build.read(mp)), mp])


def run_tsan(chk, iters, tmo=240):
    exe = tsan_exe()
    env = dict(os.environ)
    env.update({"TSAN_OPTIONS": "exitcode=96:halt_on_error=1:report_signal_unsafe=0"})
    t0 = time.time()
    try:
        p = subprocess.run([exe, str(iters), "4"], capture_output=True, text=True, timeout=tmo, env=env)
        rc, out, err = p.returncode, p.stdout.strip(), p.stderr
    except subprocess.TimeoutExpired as e:
        rc, out, err = "timeout", (e.stdout or b"").decode(errors="replace") if isinstance(e.stdout, bytes) else (e.stdout or ""), "timeout"
    chk.evaluations += 1
    chk.dist["tsan:" + ("clean" if rc == 0 else "report")] += 1
    chk.extra_cov["tsan_run"] = {"iterations": iters, "threads": 4, "exit": rc, "stdout": out[:200], "wall_s": round(time.time() - t0, 1)}
    if rc == 0 and out.startswith("ok"):
        chk.nontrivial.add("tsan %d" % iters)
        return
    race = "data race" in err
    locs = re.findall(r"(spinlock\.h|identifiable\.h|default_settable\.h|h_spin_tsan\.cc):(\d+)", err)
    where = ",".join(sorted({"%s:%s" % l for l in locs[:4]})) or "unknown"
    if race:
        what = "ThreadSanitizer reports a data race in the free-running program (4 threads x %d iterations) at %s" % (iters, where)
        key = "spin:tsan-race:" + where
    elif rc == "timeout":
        what, key = "the free-running program (4 threads x %d iterations) did not finish within %d s (normally %s)" % (iters, tmo, "1-3 s" if iters <= 50000 else "10-30 s"), "spin:tsan-timeout"
    else:
        what = "the free-running program failed: exit %s, `%s`" % (rc, out[:200])
        key = "spin:tsan-fail:" + (out.split(" ")[0] if out else str(rc))
    chk.report(key, what, {"cmd": "TSAN_OPTIONS=halt_on_error=1 <h_spin_tsan built with -fsanitize=thread from the working tree> %d 4" % iters,
                           "harness": TSAN, "variant": "tsan", "args": [str(iters), "4"], "exit": rc, "stdout": out[:400], "stderr": err[-3000:]})


def run(chk):
    quick = chk.tier == "quick"
    rng = chk.rng
    chk.rule = ("(a) scenarios of the `spin` family: a fresh Spinlock or RecursiveSpinlock, 2-3 threads with programs of 1-4 calls "
                "(lock / try_lock / unlock; nested, unmatched and non-owner calls included) and a schedule of <= 40 scheduling decisions "
                "drawn from one PRNG; each `step t` is executed by the real header under a cooperative scheduler (one step = one "
                "shared-memory access, through PRIMITIV_VERIF_YIELD) and by the Lean model, and compared per step (access, returned value, "
                "flag/owner/count, holders, pending access of every thread). thorough: for every multiset of programs (2 threads x <= 3 calls, "
                "3 threads x <= 2 calls, both classes) the reachable state graph is enumerated from the model and schedules that traverse "
                "every transition of it are executed on the real code. (b) sequential histories of Identifiable / DefaultSettable commands; the default slot of the "
                "real Device (Naive) and Graph set, read and destroyed from four persistent threads joined in sequence (`xd` lines); a free-running "
                "deep-nesting run of the real RecursiveSpinlock (`deep n`: 70000, values around 2^16 and 2^17, random n; one unlock / all but one / all, "
                "another thread's try_lock() after each phase). "
                "(c) a free-running ThreadSanitizer program (4 threads: lock() and try_lock() paths of both classes around plain counters; "
                "Identifiable objects incl. the real MemoryPool created, looked up and destroyed concurrently). Non-trivial = a step that performed a shared-memory access; "
                "distinct = distinct (scenario, schedule prefix) for random schedules, distinct transitions for the enumerated graphs.")
    # 1. translator: declarations of the working tree → Gen/SpinlockDecls.lean; 2. theorems.
    # Gen/SpinlockDecls.lean is one file shared by all runs: C19 runs against different trees (VERIF_REPO) are
    # serialised from the regeneration to the end of the build + audit, so that the theorems are checked against
    # the table of THIS tree.
    for attempt in range(4):
        with build.Lock("gen-spinlock-decls"):
            try:
                decls = spinlock_decls.regenerate()
            except (spinlock_decls.TranslateError, OSError) as e:
                chk.report("spin:translator", "primitiv/core/spinlock.h / mixins no longer have the shape the model of C19 describes: %s" % e,
                           {"translator": "translate/spinlock_decls.py", "error": str(e)}, found_input=False)
                return
            chk.oblig = None
            chk.obligations(MODS, drivers=[FAMILY])
            gen_now = open(spinlock_decls.OUT).read()
        if gen_now == spinlock_decls.lean_text(decls):
            break
        # rewritten meanwhile by a process that does not take the lock (e.g. ./setup): check again
    else:
        chk.report("spin:gen-clobbered", "Gen/SpinlockDecls.lean kept being rewritten by another process while the theorems were being checked",
                   {"file": spinlock_decls.OUT}, found_input=False)
        return
    chk.extra_cov["translated_decls"] = {c: {"members": {n: " ".join(st + [ty]) for n, (ty, st) in d["table"].items()}, "try_lock": d.get("try_lock"), "unlock": d.get("unlock"),
                                                "guarded": d.get("guarded")}
                                            for c, d in list(decls.items())[:2] + list(decls["mixins"].items())}
    chk.extra_cov["decls_differ_from_golden"] = spinlock_decls.differs_from_golden(decls)
    broken = chk.broken_obligations()
    if not os.path.exists(vrun.drv_exe(FAMILY)) or broken:
        lean.lake(["build", "drv_" + FAMILY])
    mon = Monitor(decls)

    # 3. streams
    streams = []
    corpus = []
    if os.path.exists(CORPUS):
        cur = []
        for l in open(CORPUS):
            l = l.strip()
            if not l or l.startswith("#"):
                continue
            if l.startswith("threads ") and cur:
                corpus.append(cur); cur = []
            cur.append(l)
        if cur:
            corpus.append(cur)
    if corpus:
        streams.append([l for s in corpus for l in s])
    nscen = 2000 if quick else 12000
    per_stream = 100
    scen = [rand_scenario(rng) for _ in range(nscen)]
    for i in range(0, len(scen), per_stream):
        streams.append([l for s in scen[i:i + per_stream] for l in s])
    streams.append(list(MALFORMED))
    streams.append(deep_stream(rng, quick))
    for _ in range(4 if quick else 20):
        streams.append(mixin_stream(rng, 400))
    # exhaustive part: state graphs from the model
    heads = enum_scenarios(chk.tier)
    q = []
    for h in heads:
        q += h + ["graph"]
    answers = vrun.run_model(FAMILY, q, timeout=1200)
    pos, n_states, n_edges, n_paths = 0, 0, 0, 0
    enum_scen = []
    for h in heads:
        pos += len(h)
        g = answers[pos]; pos += 1
        m = re.match(r"ok n=(\d+) \| ?(.*)$", g)
        if not m:
            raise RuntimeError("model could not enumerate the state graph of %r: %s" % (h, g[:100]))
        edges = {}
        for e in filter(None, m.group(2).split(";")):
            i, t, j = map(int, e.split())
            edges[(i, t)] = j
        n_states += int(m.group(1)); n_edges += len(edges)
        for p in cover_paths(edges):
            n_paths += 1
            enum_scen.append(h + ["step %d" % t for t in p])
    for i in range(0, len(enum_scen), 200):
        streams.append([l for s in enum_scen[i:i + 200] for l in s])
    chk.extra_cov["enumerated"] = {"program_multisets": len(heads), "model_states": n_states, "model_transitions": n_edges,
                                   "schedules_covering_every_transition": n_paths}

    def nontrivial(line, out):
        if line.startswith("step"):
            return out.startswith("ok ") and not out.startswith("ok none")
        return out.startswith("ok") or out == "err"

    def post(lines, impl, model):
        # a new process: the monitor starts afresh; count distinct (scenario, schedule prefix) pairs
        mon.reset()
        h = hashlib.sha256()
        for l, o in zip(lines, impl):
            if l.startswith("threads "):
                h = hashlib.sha256()
            h.update(l.encode() + b"\n")
            if l.startswith("step") and nontrivial(l, o):
                chk.nontrivial.add(h.hexdigest()[:16])
        return impl, model

    hook = "PRIMITIV_VERIF_YIELD" in open(os.path.join(spinlock_decls.repo(), "primitiv", "core", "spinlock.h")).read()
    if hook:
        dis, judged, crashes = chk.correspond(FAMILY, HARNESS, streams, stateful=True, judge=mon, nontrivial=nontrivial,
                                              link_lib=False, timeout=600, post=post)
        exe = build.build_harness(HARNESS, link_lib=False)
    else:
        dis, judged, crashes, exe = [], [], [], None
        chk.report("spin:hook-missing", "primitiv/core/spinlock.h has no PRIMITIV_VERIF_YIELD scheduling points "
                   "(/verif/patches/hook-spinlock-yield.diff is not applied): the model cannot be tied to the code, nothing is shown",
                   {"broken": "correspondence spin/h_spin", "patch": "patches/hook-spinlock-yield.diff"}, found_input=False)

    # cross-thread lifetime of the default slot of the real Device / Graph (harness linked against the library)
    xstreams = [xd_stream(rng, 300) for _ in range(2 if quick else 10)]
    mon.reset()
    dis_x, judged_x, crashes_x = chk.correspond(FAMILY, HARNESS_DEV, xstreams, stateful=True, judge=mon, nontrivial=nontrivial,
                                                 timeout=600, post=lambda l, i, m: (mon.reset(), (i, m))[1])
    exe_dev = build.build_harness(HARNESS_DEV)
    if dis_x:
        # the comparison of a stream stops at the first disagreement: search the rest on the implementation alone
        for lines in xstreams:
            mon.reset()
            outs, _ = vrun.run_impl(exe_dev, lines, stateful=True, timeout=600)
            for i, (l, o) in enumerate(zip(lines, outs)):
                if o == "skipped":
                    break
                w = mon(l, o)
                if w:
                    judged_x.append({"lines": lines[:i + 1], "line": l, "impl": o, "what": w})
                    break
    seen_x = set()
    for j in judged_x:
        if violation_key(j["what"]) + ":" + j["line"].split()[1] in seen_x:
            continue
        seen_x.add(violation_key(j["what"]) + ":" + j["line"].split()[1])
        key = violation_key(j["what"]) + ":" + j["line"].split()[1]
        lines = scenario_of(j["lines"])

        def fails_x(ls):
            m2 = Monitor(decls)
            outs, _ = vrun.run_impl(exe_dev, ls, stateful=True, timeout=60)
            return any(o != "skipped" and m2(l, o) for l, o in zip(ls, outs))

        small = vcheck.shrink(lines, fails_x) if fails_x(lines) else lines
        outs, _ = vrun.run_impl(exe_dev, small, stateful=True, timeout=60)
        chk.report(key, j["what"] + " (default slot used from several threads, joined in sequence)",
                   {"family": FAMILY, "harness": HARNESS_DEV, "variant": "asan", "stateful": True, "lines": small, "observed_impl": outs})
    if dis_x and not judged_x:
        d = dis_x[0]
        chk.report("correspondence:spin:xd:" + ":".join(d["line"].split()[1:4:2]),
                   "model and implementation disagree at `%s` (impl `%s`, model `%s`): the sequential one-slot model of DefaultSettable no longer "
                   "describes Device/Graph" % (d["line"], d["impl"], d["model"]),
                   {"family": FAMILY, "harness": HARNESS_DEV, "variant": "asan", "stateful": True, "lines": scenario_of(d["lines"]),
                    "observed_impl": d["impl"], "model": d["model"], "broken": "correspondence spin/h_spin_dev"}, found_input=False)
    crashes = list(crashes) + list(crashes_x)
    # 4. decisions
    if dis:
        # model != implementation somewhere (the comparison of a stream stops there): search the generated
        # schedules for a violation of the property on the implementation alone
        for lines in streams:
            mon.reset()
            outs, _ = vrun.run_impl(exe, lines, stateful=True, timeout=600)
            for i, (l, o) in enumerate(zip(lines, outs)):
                if o == "skipped":
                    break
                w = mon(l, o)
                if w:
                    judged.append({"lines": lines[:i + 1], "line": l, "impl": o, "what": w})
    # 4a. property violations seen on the implementation alone
    seen_keys = set()
    for j in judged:
        key = violation_key(j["what"])
        if key in seen_keys:
            continue
        seen_keys.add(key)
        lines = scenario_of(j["lines"])

        def fails(ls, key=key):
            m2 = Monitor(decls)
            outs, _ = vrun.run_impl(exe, ls, stateful=True, timeout=60)
            for l, o in zip(ls, outs):
                if o == "skipped":
                    continue
                w = m2(l, o)
                if w and violation_key(w) == key:
                    return True
            return False

        small = vcheck.shrink(lines, fails) if fails(lines) else lines
        outs, _ = vrun.run_impl(exe, small, stateful=True, timeout=60)
        m3 = Monitor(decls)
        ws = [w for w in (m3(l, o) for l, o in zip(small, outs) if o != "skipped") if w and violation_key(w) == key]
        chk.report(key, ws[0] if ws else j["what"], {"family": FAMILY, "harness": HARNESS, "variant": "asan", "stateful": True, "lines": small,
                                    "observed_impl": outs, "link_lib": False})
    for r in crashes:
        if r.get("at_exit"):
            chk.report("spin:crash-at-exit:" + r["kind"], "the harness process failed at exit (%s) after executing the real code" % r["kind"],
                       {"family": FAMILY, "harness": HARNESS, "kind": r["kind"], "stderr": (r.get("stderr") or "")[-2000:]})
    # 4b. model != implementation, no property violation there
    if dis and not judged:
        d = dis[0]
        lines = scenario_of(d["lines"])
        chk.report("correspondence:spin:" + d["line"].split(" ")[0] + ":" + d["impl"].split(" ")[1 if d["impl"].startswith("ok ") and len(d["impl"].split()) > 1 else 0],
                   "model and implementation disagree at `%s` (impl `%s`, model `%s`) and no violation of the property was observed on the "
                   "implementation in that run: the Lean model no longer describes primitiv/core/spinlock.h (or the mixins)" % (d["line"], d["impl"], d["model"]),
                   {"family": FAMILY, "harness": HARNESS, "variant": "asan", "stateful": True, "lines": lines, "observed_impl": d["impl"],
                    "model": d["model"], "broken": "correspondence spin/h_spin", "link_lib": False}, found_input=False)
    # 4c. free-running TSan program
    run_tsan(chk, 30000 if quick else 300000, 60 if quick else 400)
    # 4d. theorems that no longer check
    if broken:
        drf_names = [n for n in broken if n.endswith("RSpin.drf")]
        owner_plain = not decls["RecursiveSpinlock"]["atomic"].get("locked_thread_id_", False)
        if drf_names and owner_plain and exe:
            # the negation has a proved witness (Props/Findings/C19Drf.lean): replay it on the real code
            rc, log = lean.lake(["build", FINDING_MOD])
            wl = ["threads 2 rspin", "prog 0 lock", "prog 1 lock", "step 0", "step 1"]
            outs, _ = vrun.run_impl(exe, wl, stateful=True, timeout=60)
            m2 = Monitor(decls)
            whats = [m2(l, o) for l, o in zip(wl, outs)]
            w = [x for x in whats if x]
            if w:
                chk.report(violation_key(w[0]), "theorem RSpin.drf no longer checks because the source declares locked_thread_id_ non-atomic; "
                           "witness of its negation (RSpin.drf_violated_of_plain_owner, %s) replayed on the real code: %s"
                           % ("builds" if rc == 0 else "did not build", w[0]),
                           {"family": FAMILY, "harness": HARNESS, "variant": "asan", "stateful": True, "lines": wl, "observed_impl": outs,
                            "theorem": drf_names[0], "negation": "Primitiv.C19.RSpin.drf_violated_of_plain_owner", "link_lib": False})
                chk.notes.append("RSpin.drf does not check on this tree (locked_thread_id_ is declared non-atomic); its negation "
                                 "RSpin.drf_violated_of_plain_owner (Props/Findings/C19Drf.lean) %s and its witness schedule was replayed on the real code"
                                 % ("builds" if rc == 0 else "did not build"))
                for n in drf_names:
                    broken.pop(n)
        if broken and not chk.violations:
            for name, why in broken.items():
                chk.report("obligation:" + name, "theorem %s no longer checks: %s" % (name, why),
                           {"theorem": name, "reason": why, "log": (chk.oblig or {}).get("log_tail", "")[-1500:]}, found_input=False)
        elif broken:
            chk.notes.append("theorems that no longer check (a failing input was reported above): " + ", ".join(sorted(broken)))
    chk.trusted += [
        "modelled, not verified: Spinlock / RecursiveSpinlock / Identifiable / DefaultSettable are hand-modelled in Lean (Model/Spinlock.lean, "
        "Model/SpinMixins.lean) and tied to the code by the per-step correspondence of this check and by the translated declaration table "
        "(Gen/SpinlockDecls.lean: atomicity of every member, access order and memory orders of try_lock()/unlock(), lock() = while(!try_lock()))",
        "NOT SHOWN: executions that are not sequentially consistent. The theorems are over interleavings of atomic steps (SC). That SC reasoning "
        "is adequate for this code is the C++11 DRF-SC guarantee applied to the premises proved here: RSpin.drf / Spin.drf (no conflicting plain "
        "accesses), Spin.sync_orders (test_and_set is acquire, clear is release) and the fact that the only relaxed atomic (locked_thread_id_, after "
        "the repair) is compared against the reader's own id, which only the reader itself ever stores; that metatheorem is trusted, not proved",
        "the cooperative scheduler of harness/h_spin.cc (threads parked on condition variables at the PRIMITIV_VERIF_YIELD points; the hook "
        "changes timing only), `#define class struct` used by the harness to read the private members, libstdc++'s atomic_flag::_M_i",
        "ThreadSanitizer (g++ 12 -fsanitize=thread) for the free-running run: absence of a report is evidence, not proof",
        "Identifiable: that every method body runs under mutex_ is read off the source, so concurrent histories are sequential ones; "
        "DefaultSettable is not synchronised at all by design and is only modelled sequentially",
    ]
    chk.assumptions += [
        "RecursiveSpinlock: theorems are about executions in which lock_count_ (32 bits) does not wrap; RSpin.nowrap_of_short_programs shows "
        "this is every execution of threads that make fewer than 2^32 calls",
        "Spinlock: the client never calls unlock() on a Spinlock it does not hold (the model's and the harness's client skips such calls)",
        "Identifiable: fewer than 2^64 objects are ever created (next_id_ does not wrap)",
        "liveness (`a waiting thread acquires the lock once it is free`) is proved as `the acquiring step is never disabled` "
        "(Spin.enabled_when_free, RSpin.enabled_when_free); that the OS scheduler eventually runs the thread is assumed",
    ]


def replay(path):
    obj = json.load(open(path))
    rp = obj.get("replay", {})
    print("replay of C19: %s" % obj.get("what", "")[:400])
    if rp.get("harness") == TSAN:
        exe = tsan_exe()
        env = dict(os.environ); env["TSAN_OPTIONS"] = "exitcode=96:halt_on_error=1"
        p = subprocess.run([exe] + rp.get("args", []), capture_output=True, text=True, timeout=600, env=env)
        print(p.stdout.strip()); print(p.stderr[-2500:])
        return 1 if p.returncode != 0 else 0
    if "lines" not in rp:
        print(json.dumps(rp, indent=1)[:3000])
        return 0
    decls = spinlock_decls.regenerate()
    exe = build.build_harness(HARNESS_DEV) if rp.get("harness") == HARNESS_DEV else build.build_harness(HARNESS, link_lib=False)
    lean.lake(["build", "drv_" + FAMILY])
    impl, reports = vrun.run_impl(exe, rp["lines"], stateful=True)
    model = vrun.run_model(FAMILY, rp["lines"])
    mon = Monitor(decls)
    bad = 0
    for l, i, m in zip(rp["lines"], impl, model):
        w = mon(l, i) if i != "skipped" else None
        mark = "V" if w else (" " if vrun.same(i, m) else "!")
        bad += mark != " "
        print("%s %s\n    impl : %s\n    model: %s%s" % (mark, l, i, m, ("\n    VIOLATION: " + w) if w else ""))
    for r in reports:
        print("crash report:", r["kind"], (r.get("stderr") or "")[-600:])
    return 1 if bad or reports else 0
